(* Mux.v — model of mux.go (registration methods, serve) and route.go (match
   predicates).   MODEL ONLY. *)
From Coq Require Import String.
From G Require Import Base Ber Helpers Ldap Response.
Open Scope N_scope.

Definition hid := nat.   (* identity of a registered handler *)

Inductive route :=
| RtBind
| RtSearch (basedn filter : bytes) (scope : Z)
| RtExt (name : bytes)
| RtModify | RtAdd | RtDelete.

Record mux := { routes : list (route * hid); dflt : option hid; unbind : option hid }.
Definition mux_empty : mux := {| routes := []; dflt := None; unbind := None |}.

(* one call of a Mux registration method; [None] = nil HandlerFunc *)
Inductive reg :=
| RegRoute (r : route) (h : option hid)
| RegDefault (h : option hid)
| RegUnbind (h : option hid).

(* (mux', error?) — a nil handler is rejected and the mux is unchanged *)
Definition register (m : mux) (g : reg) : mux * bool :=
  match g with
  | RegRoute r (Some h) => ({| routes := routes m ++ [(r, h)]; dflt := dflt m; unbind := unbind m |}, true)
  | RegDefault (Some h) => ({| routes := routes m; dflt := Some h; unbind := unbind m |}, true)
  | RegUnbind (Some h) => ({| routes := routes m; dflt := dflt m; unbind := Some h |}, true)
  | _ => (m, false)
  end.

Definition build (gs : list reg) : mux := fold_left (fun m g => fst (register m g)) gs mux_empty.

(* strings.EqualFold restricted to ASCII letters (the generators stay ASCII;
   the theorems hold for any comparison function) *)
Definition lower (c : N) : N := if (65 <=? c) && (c <=? 90) then c + 32 else c.
Fixpoint ascii_eqfold (a b : bytes) : bool :=
  match a, b with
  | [], [] => true
  | x :: a', y :: b' => (lower x =? lower y) && ascii_eqfold a' b'
  | _, _ => false
  end.

Definition is_nil (b : bytes) : bool := match b with [] => true | _ => false end.

Section Serve.
  Variable eqfold : bytes -> bytes -> bool.

  (* route.go match methods *)
  Definition matches (r : route) (m : message) : bool :=
    match r, m with
    | RtBind, MBind _ _ _ _ => true
    | RtSearch b f s, MSearch _ base scope _ _ _ _ filter _ _ =>
      (is_nil b || eqfold base b) && (is_nil f || eqfold filter f) && ((s =? 0)%Z || (scope =? s)%Z)
    | RtExt n, MExt _ name => beq_bytes n name
    | RtModify, MModify _ _ _ _ => true
    | RtAdd, MAdd _ _ _ _ => true
    | RtDelete, MDel _ _ _ => true
    | _, _ => false
    end.

  Fixpoint first_match (rs : list (route * hid)) (m : message) : option hid :=
    match rs with
    | [] => None
    | (r, h) :: rest => if matches r m then Some h else first_match rest m
    end.

  Definition no_handler_msg : bytes := Eval vm_compute in s2b "No matching handler found"%string.

  (* the response type that answers a request of the given operation *)
  Definition response_tag (o : routeop) : Z :=
    match o with
    | OpBind => 1 | OpSearch => 5 | OpModify => 7 | OpAdd => 9 | OpDel => 11
    | OpExt | OpUnbind => 24
    end%Z.

  Inductive action := Run (h : hid) | Refuse (r : response).

  (* Mux.serve.  [tagfix] = true: the built-in refusal carries the response
     type of the request's operation (current tree); false: always an
     ExtendedResponse (pinned). *)
  Definition serve (tagfix : bool) (mx : mux) (m : message) : action :=
    match first_match (routes mx) m with
    | Some h => Run h
    | None =>
      match dflt mx with
      | Some h => Run h
      | None =>
        let opts := (if tagfix then [WApp (response_tag (msg_op m))] else []) ++
                    [WCode ResultUnwillingToPerform; WDiag no_handler_msg] in
        match new_response true KGeneral (msg_id m) [] opts with
        | Ok r => Refuse r
        | _ => Refuse (mk_resp KGeneral (msg_id m) 53 [] [] 24)   (* unreachable: NewResponse is total *)
        end
      end
    end.

  (* handlers invoked for one request: the list of handler ids that ran *)
  Definition serve_trace (tagfix : bool) (mx : mux) (m : message) : list hid :=
    match serve tagfix mx m with Run h => [h] | Refuse _ => [] end.

  (* a Mux over time: registration calls and served requests in any order
     (Mux methods may be called while the server runs).  Serving does not
     change the mux; a registration changes it for every later request. *)
  Inductive mux_event := EvReg (g : reg) | EvServe (m : message).

  Fixpoint run_events (tagfix : bool) (mx : mux) (evs : list mux_event) : list action :=
    match evs with
    | [] => []
    | EvReg g :: r => run_events tagfix (fst (register mx g)) r
    | EvServe m :: r => serve tagfix mx m :: run_events tagfix mx r
    end.

  Definition regs_of (evs : list mux_event) : list reg :=
    flat_map (fun e => match e with EvReg g => [g] | EvServe _ => [] end) evs.
End Serve.
