(* CfgGen.v - REGENERATED from /repo's server.go and conn.go on every run by `vh cfgflags` (harness/cfgflags.go). Do not edit. *)
Definition gen_handler_rec : bool := true.
Definition gen_wg_last : bool := true.
Definition gen_add_before_accept : bool := true.
Definition gen_stop_interrupts : bool := true.
Definition gen_ready_on_error : bool := false.
Definition gen_close_on_cancel : bool := true.
Definition gen_accept_retry : bool := true.
Definition gen_untrack_late : bool := true.
Require Import Coq.Strings.String Coq.Lists.List.
Import ListNotations.
Open Scope string_scope.
Definition gen_skeleton : list (string * nat) := [
  ("Stop.returns_before_wait", 2);
  ("Stop.returns", 3);
  ("Run.returns", 6);
  ("Run.conn_goroutine.returns", 2);
  ("Run.conn_goroutine.teardown.returns", 0);
  ("serveRequests.returns", 7);
  ("serveRequests.dispatch_cases", 3);
  ("Run.go_statements", 1);
  ("serveRequests.go_statements", 1);
  ("Stop.go_statements", 0);
  ("deadline:Run.SetReadDeadline", 1);
  ("deadline:Run.SetWriteDeadline", 1);
  ("deadline:interrupt.SetDeadline", 1);
  ("deadline:serveRequests.SetReadDeadline", 1);
  ("package_level_sync_state", 0)
].
