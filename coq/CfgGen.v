(* CfgGen.v - REGENERATED from /repo's server.go and conn.go on every run by `vh cfgflags` (harness/cfgflags.go). Do not edit. *)
Definition gen_handler_rec : bool := true.
Definition gen_wg_last : bool := true.
Definition gen_add_before_accept : bool := true.
Definition gen_stop_interrupts : bool := true.
Definition gen_ready_on_error : bool := false.
Definition gen_close_on_cancel : bool := true.
Definition gen_accept_retry : bool := true.
Definition gen_untrack_late : bool := true.
