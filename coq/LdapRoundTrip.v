(* LdapRoundTrip.v — C01: for every well-formed request of the seven supported
   operations, what the server decodes from the client's encoding is the
   message the client meant; unsupported operations and non-v3 binds are never
   delivered. *)
From G Require Import Base Ber BerProofs Ldap LdapProofs.
Ltac Zify.zify_post_hook ::= Z.div_mod_to_equations.
Open Scope N_scope.

(* ---------------------------------------------------------------- *)
(* filters                                                            *)

Section FilterInd.
  Variable P : filter -> Prop.
  Hypothesis Hand : forall fs, Forall P fs -> P (FAnd fs).
  Hypothesis Hor : forall fs, Forall P fs -> P (FOr fs).
  Hypothesis Hnot : forall f, P f -> P (FNot f).
  Hypothesis Heq : forall a v, P (FEq a v).
  Hypothesis Hsub : forall a i anys fin, P (FSub a i anys fin).
  Hypothesis Hge : forall a v, P (FGe a v).
  Hypothesis Hle : forall a v, P (FLe a v).
  Hypothesis Hpres : forall a, P (FPresent a).
  Hypothesis Happrox : forall a v, P (FApprox a v).
  Hypothesis Hext : forall r t v d, P (FExt r t v d).
  Fixpoint filter_ind' (f : filter) : P f :=
    let go := fix go (l : list filter) : Forall P l :=
                match l with [] => Forall_nil _ | x :: r => Forall_cons _ (filter_ind' x) (go r) end in
    match f with
    | FAnd fs => Hand fs (go fs)
    | FOr fs => Hor fs (go fs)
    | FNot g => Hnot g (filter_ind' g)
    | FEq a v => Heq a v
    | FSub a i anys fin => Hsub a i anys fin
    | FGe a v => Hge a v
    | FLe a v => Hle a v
    | FPresent a => Hpres a
    | FApprox a v => Happrox a v
    | FExt r t v d => Hext r t v d
    end.
End FilterInd.

(* filters in the quantifier: a substring filter has at least one part
   (RFC 4511: SIZE (1..MAX)); an extensible match does not set dnAttributes
   (known finding K2: those are rejected) *)
Fixpoint wf_filter (f : filter) : bool :=
  match f with
  | FAnd fs | FOr fs => forallb wf_filter fs
  | FNot g => wf_filter g
  | FSub _ i anys fin => match i, anys, fin with None, [], None => false | _, _, _ => true end
  | FExt _ _ _ dn => negb dn
  | _ => true
  end.

Lemma pdepth_cons c t ks : pdepth (mk_cons c t ks) = S (fold_right (fun k a => Nat.max (pdepth k) a) 0%nat ks).
Proof. reflexivity. Qed.

Lemma p_tag_cons c t ks : p_tag (mk_cons c t ks) = t.
Proof. reflexivity. Qed.
Lemma p_kids_cons c t ks : p_kids (mk_cons c t ks) = ks.
Proof. reflexivity. Qed.

Lemma pdepth_kid_le ks k : In k ks -> (pdepth k <= fold_right (fun k a => Nat.max (pdepth k) a) 0 ks)%nat.
Proof. induction ks as [|x r IH]; simpl; [tauto|]. intros [->|H]; [lia|]. specialize (IH H). lia. Qed.

Lemma sub_parts_tail i anys (fin : option bytes) :
  sub_parts (S i) (map (ctx_prim 1) anys ++ match fin with Some s => [ctx_prim 2 s] | None => [] end) =
  concat (map (fun s => escape_filter s ++ [42]) anys) ++ match fin with Some s => escape_filter s | None => [] end.
Proof.
  revert i; induction anys as [|a r IH]; intros i.
  - destruct fin; cbn; rewrite ?app_nil_r; reflexivity.
  - cbn [map app sub_parts concat]. rewrite IH. cbn. rewrite <- !app_assoc. reflexivity.
Qed.


Lemma sub_parts_enc (i : option bytes) anys (fin : option bytes) :
  match i, anys, fin with None, [], None => false | _, _, _ => true end = true ->
  sub_parts 0 (match i with Some s => [ctx_prim 0 s] | None => [] end ++ map (ctx_prim 1) anys ++
               match fin with Some s => [ctx_prim 2 s] | None => [] end) =
  match i with Some s => escape_filter s ++ [42] | None => [42] end ++
  concat (map (fun s => escape_filter s ++ [42]) anys) ++
  match fin with Some s => escape_filter s | None => [] end.
Proof.
  intros Hnd. destruct i as [s|].
  - cbn [app sub_parts]. change (p_tag (ctx_prim 0 s)) with 0. change (p_data (ctx_prim 0 s)) with s.
    cbn [N.eqb Nat.eqb andb negb app]. rewrite sub_parts_tail. rewrite <- !app_assoc. reflexivity.
  - cbn [app]. destruct anys as [|a0 r].
    + destruct fin as [s|]; [|discriminate]. cbn [map app sub_parts].
      change (p_tag (ctx_prim 2 s)) with 2. change (p_data (ctx_prim 2 s)) with s.
      cbn [N.eqb Nat.eqb andb negb app Pos.eqb concat]. rewrite app_nil_r. reflexivity.
    + cbn [map app sub_parts]. change (p_tag (ctx_prim 1 a0)) with 1. change (p_data (ctx_prim 1 a0)) with a0.
      cbn [N.eqb Nat.eqb andb negb app Pos.eqb]. rewrite sub_parts_tail. cbn [map concat app].
      rewrite <- !app_assoc. reflexivity.
Qed.

Lemma mapM_map_ok {A B C} (g : A -> B) (f : B -> outcome C) (h : A -> C) l :
  Forall (fun x => f (g x) = Ok (h x)) l -> mapM f (map g l) = Ok (map h l).
Proof.
  induction 1 as [|x r Hx Hr IH]; [reflexivity|].
  cbn [map mapM]. rewrite Hx. cbn [bind]. rewrite IH. reflexivity.
Qed.

Theorem decompile_enc_filter : forall f, wf_filter f = true ->
  forall fuel, (pdepth (enc_filter f) <= fuel)%nat -> decompile fuel (enc_filter f) = Ok (print_filter f).
Proof.
  induction f as [fs IH|fs IH|g IH|a v|a i anys fin|a v|a v|a|a v|r t v d] using filter_ind';
    intros Hwf fuel Hfuel; (destruct fuel as [|fu]; [cbn in Hfuel; lia|]); cbn [wf_filter] in Hwf.
  - (* and *)
    cbn [enc_filter] in *. unfold ctx_cons in *. rewrite pdepth_cons in Hfuel.
    cbn [decompile]. unfold mk_cons at 1 2 3. cbn [p_tag p_id tag p_kids N.eqb orb].
    rewrite (mapM_map_ok enc_filter (decompile fu) print_filter).
    + cbn [bind print_filter]. f_equal.
    + rewrite Forall_forall in *. rewrite forallb_forall in Hwf. intros x Hin. apply IH; auto.
      pose proof (pdepth_kid_le (map enc_filter fs) (enc_filter x) (in_map _ _ _ Hin)). lia.
  - (* or *)
    cbn [enc_filter] in *. unfold ctx_cons in *. rewrite pdepth_cons in Hfuel.
    cbn [decompile]. unfold mk_cons at 1 2 3. cbn [p_tag p_id tag p_kids N.eqb orb Pos.eqb].
    rewrite (mapM_map_ok enc_filter (decompile fu) print_filter).
    + cbn [bind print_filter]. f_equal.
    + rewrite Forall_forall in *. rewrite forallb_forall in Hwf. intros x Hin. apply IH; auto.
      pose proof (pdepth_kid_le (map enc_filter fs) (enc_filter x) (in_map _ _ _ Hin)). lia.
  - (* not *)
    cbn [enc_filter] in *. unfold ctx_cons in *. rewrite pdepth_cons in Hfuel. cbn [fold_right] in Hfuel.
    cbn [decompile]. rewrite !p_tag_cons, !p_kids_cons. cbn [N.eqb orb Pos.eqb].
    rewrite IH by (auto; lia). reflexivity.
  - reflexivity.
  - (* substrings *)
    cbn [enc_filter]. unfold ctx_cons. cbn [decompile]. rewrite !p_tag_cons, !p_kids_cons.
    cbn [N.eqb orb Pos.eqb]. unfold kid_data_err, seq. rewrite ?p_kids_cons. cbn [nth_error].
    rewrite ?p_kids_cons. change (p_data (octet a)) with a. cbn [bind].
    rewrite sub_parts_enc by (destruct i; [reflexivity|]; destruct anys; [|reflexivity]; destruct fin; [reflexivity|discriminate Hwf]).
    cbn [print_filter]. rewrite <- !app_assoc. reflexivity.
  - reflexivity.
  - reflexivity.
  - reflexivity.
  - reflexivity.
  - (* extensible, dnAttributes = false *)
    apply negb_true_iff in Hwf. subst d.
    destruct r as [[|r0 r]|]; destruct t as [t|]; reflexivity.
Qed.

Corollary decompile_filter_enc f : wf_filter f = true ->
  decompile_filter (enc_filter f) = Ok (print_filter f).
Proof. intros H. unfold decompile_filter. apply decompile_enc_filter; auto. Qed.

(* dnAttributes: the go-ldap decompiler rejects it on wire-decoded packets *)
Lemma decompile_dn_refuted :
  decompile_filter (enc_filter (FExt (Some [50]) (Some [99; 110]) [97] true)) = Err.
Proof. reflexivity. Qed.

(* ---------------------------------------------------------------- *)
(* structural well-formedness of every client encoding                *)

Section Requests.
  Variable prim_ok : N -> bytes -> bool.

  Lemma swf_filter f : swf prim_ok (enc_filter f) = true.
  Proof.
    induction f as [fs IH|fs IH|g IH|a v|a i anys fin|a v|a v|a|a v|r t v d] using filter_ind'; cbn [enc_filter].
    - apply swf_cons; [reflexivity|lia|]. rewrite forallb_forall. intros x Hx.
      apply in_map_iff in Hx. destruct Hx as (y & <- & Hy). rewrite Forall_forall in IH. auto.
    - apply swf_cons; [reflexivity|lia|]. rewrite forallb_forall. intros x Hx.
      apply in_map_iff in Hx. destruct Hx as (y & <- & Hy). rewrite Forall_forall in IH. auto.
    - apply swf_cons; [reflexivity|lia|]. cbn [forallb]. rewrite IH. reflexivity.
    - apply swf_cons; [reflexivity|lia|]. cbn [forallb]. rewrite !swf_octet. reflexivity.
    - apply swf_cons; [reflexivity|lia|]. cbn [forallb]. rewrite swf_octet. cbn [andb]. rewrite andb_true_r.
      apply swf_cons; [reflexivity|lia|]. rewrite !forallb_app.
      rewrite (forallb_map_true prim_ok (ctx_prim 1)) by (intros; apply swf_ctx_prim; lia).
      destruct i; destruct fin; cbn [forallb]; rewrite ?swf_ctx_prim by lia; reflexivity.
    - apply swf_cons; [reflexivity|lia|]. cbn [forallb]. rewrite !swf_octet. reflexivity.
    - apply swf_cons; [reflexivity|lia|]. cbn [forallb]. rewrite !swf_octet. reflexivity.
    - apply swf_ctx_prim. lia.
    - apply swf_cons; [reflexivity|lia|]. cbn [forallb]. rewrite !swf_octet. reflexivity.
    - apply swf_cons; [reflexivity|lia|]. rewrite !forallb_app.
      destruct r; destruct t; destruct d; cbn [forallb]; rewrite ?swf_ctx_prim by lia; reflexivity.
  Qed.

  Lemma swf_controls cs : swf prim_ok (encode_controls cs) = true.
  Proof.
    apply swf_cons; [reflexivity|lia|]. apply forallb_map_true. intros. apply swf_control.
  Qed.

  Lemma swf_envelope id op cs : swf prim_ok op = true -> swf prim_ok (envelope id op cs) = true.
  Proof.
    intros Hop. apply swf_cons; [reflexivity|lia|]. rewrite forallb_app. cbn [forallb].
    rewrite swf_integer, Hop. destruct cs; cbn [forallb]; rewrite ?swf_controls; reflexivity.
  Qed.

  Lemma swf_set_octets vs : swf prim_ok (set_of (map octet vs)) = true.
  Proof. apply swf_cons; [reflexivity|lia|]. apply forallb_map_true. apply swf_octet. Qed.

  Lemma swf_enc_request r : swf prim_ok (enc_request r) = true.
  Proof.
    destruct r; cbn [enc_request]; apply swf_envelope.
    - apply swf_cons; [reflexivity|lia|]. cbn [forallb]. rewrite swf_integer, swf_octet, swf_ctx_prim by lia. reflexivity.
    - apply swf_cons; [reflexivity|lia|]. cbn [forallb].
      rewrite swf_octet, !swf_enumerated, !swf_integer, swf_boolean, swf_filter. cbn [andb]. rewrite andb_true_r.
      apply swf_cons; [reflexivity|lia|]. apply forallb_map_true. apply swf_octet.
    - apply swf_cons; [reflexivity|lia|]. cbn [forallb]. rewrite swf_octet. cbn [andb]. rewrite andb_true_r.
      apply swf_cons; [reflexivity|lia|]. apply forallb_map_true. intros [[op t] vs]. cbn [enc_change].
      apply swf_cons; [reflexivity|lia|]. cbn [forallb]. rewrite swf_enumerated. cbn [andb]. rewrite andb_true_r.
      apply swf_cons; [reflexivity|lia|]. cbn [forallb]. rewrite swf_octet, swf_set_octets. reflexivity.
    - apply swf_cons; [reflexivity|lia|]. cbn [forallb]. rewrite swf_octet. cbn [andb]. rewrite andb_true_r.
      apply swf_cons; [reflexivity|lia|]. apply forallb_map_true. intros [t vs]. cbn [enc_attribute fst snd].
      apply swf_cons; [reflexivity|lia|]. cbn [forallb]. rewrite swf_octet, swf_set_octets. reflexivity.
    - apply swf_app_prim. lia.
    - apply swf_cons; [reflexivity|lia|]. rewrite forallb_app. cbn [forallb].
      rewrite swf_ctx_prim by lia. destruct value; cbn [forallb]; rewrite ?swf_ctx_prim by lia; reflexivity.
    - apply swf_app_prim. lia.
  Qed.

  (* ---------------------------------------------------------------- *)
  (* decoding the envelope                                              *)

  Definition int64_ok (z : Z) : bool := (- 2 ^ 63 <=? z)%Z && (z <? 2 ^ 63)%Z.

  Lemma int64_ok_range z : int64_ok z = true -> (- 2 ^ 63 <= z < 2 ^ 63)%Z.
  Proof. unfold int64_ok. lia. Qed.

  Variable strict : bool.

  Lemma env_kids id op cs : p_kids (envelope id op cs) =
    [integer id; op] ++ match cs with [] => [] | _ => [encode_controls cs] end.
  Proof. reflexivity. Qed.

  Lemma env_basic id op cs : basic_validation (envelope id op cs) = true.
  Proof. unfold basic_validation. rewrite env_kids. destruct cs; reflexivity. Qed.

  Lemma env_msgid id op cs : int64_ok id = true -> request_message_id strict (envelope id op cs) = Ok id.
  Proof.
    intros H. unfold request_message_id. rewrite env_basic. cbn [negb]. rewrite env_kids. cbn [app].
    change (assert_node (integer id) 0 false (Some 2)) with true. cbv iota.
    unfold as_int. rewrite value_of_integer by (apply int64_ok_range; exact H). reflexivity.
  Qed.

  Lemma env_controls id op cs : forallb wf_ctrl cs = true ->
    decode_controls prim_ok strict (envelope id op cs) = Ok (map norm_control cs).
  Proof.
    intros H. unfold decode_controls. rewrite env_kids. destruct cs as [|c r]; [reflexivity|].
    cbn [app nth_error]. unfold encode_controls at 1 2, ctx_cons, mk_cons at 1 2.
    cbn [p_cls p_cons p_id cls cons N.eqb Pos.eqb andb negb p_kids].
    apply decode_encode_controls. exact H.
  Qed.

  Lemma env_app id op cs : p_cls op = 64 -> (p_cons op = true \/ p_tag op = 10 \/ p_tag op = 2) ->
    assert_application_request (envelope id op cs) = true.
  Proof.
    intros Hc Hk. unfold assert_application_request. rewrite env_kids. cbn [app nth_error].
    rewrite Hc. cbn [N.eqb Pos.eqb andb]. destruct Hk as [->|[->| ->]]; [reflexivity| |];
    destruct (p_cons op); reflexivity.
  Qed.

  Lemma env_request_packet id op cs : p_cls op = 64 -> (p_cons op = true \/ p_tag op = 10 \/ p_tag op = 2) ->
    p_tag op <> 0 -> request_packet strict (envelope id op cs) = Ok op.
  Proof.
    intros Hc Hk Ht. unfold request_packet. rewrite env_basic, env_app by assumption. cbn [negb].
    rewrite env_kids. cbn [app nth_error].
    replace (p_tag op =? 0) with false by (symmetry; apply N.eqb_neq; exact Ht). reflexivity.
  Qed.

  Definition wf_controls (cs : list control) := forallb wf_ctrl cs.

  Lemma forallb_forall_octet l : forallb (fun a => assert_node a 0 false (Some 4)) (map octet l) = true.
  Proof. induction l; simpl; auto. Qed.

  (* the seven operations *)

  Theorem receive_bind id dn pw cs : int64_ok id = true -> wf_controls cs = true ->
    new_message prim_ok strict true (enc_request (RBind id dn pw cs)) = Ok (MBind id dn pw (map norm_control cs)).
  Proof.
    intros Hid Hcs. cbn [enc_request]. unfold new_message.
    set (op := app_cons 0 [integer 3; octet dn; ctx_prim 0 pw]).
    assert (request_packet strict (envelope id op cs) = Ok op) as ->.
    { unfold request_packet. rewrite env_basic, env_app by (try reflexivity; left; reflexivity). cbn [negb].
      rewrite env_kids. cbn [app nth_error]. reflexivity. }
    cbn [bind]. change (p_tag op) with 0. cbn [N.eqb orb negb Pos.eqb].
    rewrite env_msgid by exact Hid. cbn [bind].
    change (assert_child op 1 0 false (Some 4)) with true.
    change (assert_child op 2 128 false (Some 0)) with true. cbn [negb].
    change (3 <? length (p_kids op))%nat with false. cbv iota.
    rewrite env_controls by exact Hcs. reflexivity.
  Qed.

  Theorem receive_search id base scope deref size time ty f attrs cs :
    int64_ok id = true -> int64_ok scope = true -> int64_ok deref = true -> int64_ok size = true ->
    int64_ok time = true -> wf_filter f = true -> wf_controls cs = true ->
    new_message prim_ok strict true (enc_request (RSearch id base scope deref size time ty f attrs cs)) =
    Ok (MSearch id base scope deref size time ty (print_filter f) attrs (map norm_control cs)).
  Proof.
    intros Hid Hsc Hde Hsz Htm Hf Hcs. cbn [enc_request]. unfold new_message.
    set (op := app_cons 3 [octet base; enumerated scope; enumerated deref; integer size; integer time;
                           boolean ty; enc_filter f; seq (map octet attrs)]).
    rewrite env_request_packet by (try reflexivity; try (left; reflexivity); discriminate).
    cbn [bind]. change (p_tag op) with 3. cbn [N.eqb orb negb Pos.eqb].
    rewrite env_msgid by exact Hid. cbn [bind].
    change (assert_child op 0 0 false (Some 4)) with true.
    change (assert_child op 1 0 false (Some 10)) with true.
    change (assert_child op 2 0 false (Some 10)) with true.
    change (assert_child op 3 0 false (Some 2)) with true.
    change (assert_child op 4 0 false (Some 2)) with true.
    assert (assert_child op 5 0 false (Some 1) = true) as -> by (destruct ty; reflexivity).
    cbn [negb]. unfold child. unfold op at 1 2 3 4 5 6 7, app_cons, mk_cons. cbn [p_kids nth_error bind].
    unfold as_int, as_bool.
    rewrite !value_of_enumerated, !value_of_integer, value_of_boolean by (apply int64_ok_range; assumption).
    cbn [bind]. rewrite decompile_filter_enc by exact Hf. cbn [bind].
    change (assert_node (seq (map octet attrs)) 0 true (Some 16)) with true. cbn [negb].
    unfold seq at 1 2, mk_cons at 1 2. cbn [p_kids].
    rewrite forallb_forall_octet, env_controls by exact Hcs. cbn [negb bind].
    rewrite map_map. cbn [octet new_string p_data]. rewrite map_id. reflexivity.
  Qed.

  Lemma decode_change_enc op t vs : int64_ok op = true ->
    decode_change strict true (enc_change (op, t, vs)) = Ok (op, t, map wrap_value vs).
  Proof.
    intros Hop. cbn [enc_change]. unfold decode_change.
    set (m := seq [octet t; set_of (map octet vs)]).
    set (c := seq [enumerated op; m]).
    change (assert_node c 0 true (Some 16)) with true.
    change (assert_child c 0 0 false (Some 10)) with true.
    change (assert_child c 1 0 true (Some 16)) with true.
    change (assert_child m 0 0 false (Some 4)) with true. cbn [negb].
    unfold child. unfold c at 1 2, seq at 1 2, mk_cons at 1 2. cbn [p_kids nth_error bind].
    unfold as_int. rewrite value_of_enumerated by (apply int64_ok_range; exact Hop). cbn [bind].
    unfold m, seq, set_of, mk_cons. cbn [p_kids child_data nth_error octet new_string p_data].
    rewrite map_map. reflexivity.
  Qed.

  Lemma decode_attribute_enc a : decode_attribute (enc_attribute a) = Ok a.
  Proof.
    destruct a as [t vs]. unfold enc_attribute. cbn [fst snd]. unfold decode_attribute.
    set (p := seq [octet t; set_of (map octet vs)]).
    change (assert_node p 0 true (Some 16)) with true.
    change (assert_child p 0 0 false (Some 4)) with true.
    change (assert_child p 1 0 true (Some 17)) with true. cbn [negb].
    unfold p, seq, set_of, child_data. rewrite ?p_kids_cons. cbn [nth_error]. rewrite ?p_kids_cons.
    rewrite forallb_forall_octet. rewrite map_map. cbn [octet new_string p_data]. rewrite map_id. reflexivity.
  Qed.

  Theorem receive_modify id dn chs cs : int64_ok id = true ->
    forallb (fun c : change => int64_ok (fst (fst c))) chs = true -> wf_controls cs = true ->
    new_message prim_ok strict true (enc_request (RModify id dn chs cs)) =
    Ok (MModify id dn (map (fun '(op, t, vs) => (op, t, map wrap_value vs)) chs) (map norm_control cs)).
  Proof.
    intros Hid Hch Hcs. cbn [enc_request]. unfold new_message.
    set (op := app_cons 6 [octet dn; seq (map enc_change chs)]).
    rewrite env_request_packet by (try reflexivity; try (left; reflexivity); discriminate).
    cbn [bind]. change (p_tag op) with 6. cbn [N.eqb orb negb Pos.eqb].
    rewrite env_msgid by exact Hid. cbn [bind].
    change (assert_child op 0 0 false (Some 4)) with true.
    change (assert_child op 1 0 true (Some 16)) with true. cbn [negb].
    unfold child. unfold op at 1, app_cons, mk_cons at 1. cbn [p_kids nth_error bind].
    unfold seq at 1, mk_cons at 1. cbn [p_kids].
    rewrite (mapM_map_ok enc_change (decode_change strict true) (fun '(o, t, vs) => (o, t, map wrap_value vs))).
    - cbn [bind]. rewrite env_controls by exact Hcs. reflexivity.
    - rewrite Forall_forall. rewrite forallb_forall in Hch. intros [[o t] vs] Hin.
      apply decode_change_enc. exact (Hch _ Hin).
  Qed.

  Theorem receive_add id dn attrs cs : int64_ok id = true -> wf_controls cs = true ->
    new_message prim_ok strict true (enc_request (RAdd id dn attrs cs)) =
    Ok (MAdd id dn attrs (map norm_control cs)).
  Proof.
    intros Hid Hcs. cbn [enc_request]. unfold new_message.
    set (op := app_cons 8 [octet dn; seq (map enc_attribute attrs)]).
    rewrite env_request_packet by (try reflexivity; try (left; reflexivity); discriminate).
    cbn [bind]. change (p_tag op) with 8. cbn [N.eqb orb negb Pos.eqb].
    rewrite env_msgid by exact Hid. cbn [bind].
    change (assert_child op 0 0 false (Some 4)) with true.
    change (assert_child op 1 0 true (Some 16)) with true. cbn [negb].
    unfold child. unfold op at 1, app_cons, mk_cons at 1. cbn [p_kids nth_error bind].
    unfold seq at 1, mk_cons at 1. cbn [p_kids].
    rewrite (mapM_map_ok enc_attribute decode_attribute (fun a => a)).
    - cbn [bind]. rewrite env_controls by exact Hcs. rewrite map_id. reflexivity.
    - rewrite Forall_forall. intros a _. apply decode_attribute_enc.
  Qed.

  Theorem receive_del id dn cs : int64_ok id = true -> wf_controls cs = true ->
    new_message prim_ok strict true (enc_request (RDel id dn cs)) = Ok (MDel id dn (map norm_control cs)).
  Proof.
    intros Hid Hcs. cbn [enc_request]. unfold new_message.
    rewrite env_request_packet by (try reflexivity; try (right; left; reflexivity); discriminate).
    cbn [bind]. change (p_tag (app_prim 10 dn)) with 10. cbn [N.eqb orb negb Pos.eqb].
    rewrite env_msgid by exact Hid. cbn [bind].
    rewrite env_controls by exact Hcs. reflexivity.
  Qed.

  Theorem receive_ext id name v : int64_ok id = true ->
    new_message prim_ok strict true (enc_request (RExt id name v)) = Ok (MExt id name).
  Proof.
    intros Hid. cbn [enc_request]. unfold new_message.
    set (op := app_cons 23 ([ctx_prim 0 name] ++ match v with Some x => [ctx_prim 1 x] | None => [] end)).
    rewrite env_request_packet by (try reflexivity; try (left; reflexivity); discriminate).
    cbn [bind]. change (p_tag op) with 23. cbn [N.eqb orb negb Pos.eqb].
    rewrite env_msgid by exact Hid. cbn [bind]. reflexivity.
  Qed.

  Theorem receive_unbind id : int64_ok id = true ->
    new_message prim_ok strict true (enc_request (RUnbind id)) = Ok (MUnbind id).
  Proof.
    intros Hid. cbn [enc_request]. unfold new_message.
    rewrite env_request_packet by (try reflexivity; try (right; right; reflexivity); discriminate).
    cbn [bind]. change (p_tag (app_prim 2 [])) with 2. cbn [N.eqb orb negb Pos.eqb].
    rewrite env_msgid by exact Hid. reflexivity.
  Qed.

  (* the whole quantifier of C01's first sentence *)
  Definition wf_request (r : request) : bool :=
    (N.of_nat (length (wire r)) <=? 2147483647) &&
    match r with
    | RBind id _ _ cs => int64_ok id && wf_controls cs
    | RSearch id _ sc de sz tm _ f _ cs =>
      int64_ok id && int64_ok sc && int64_ok de && int64_ok sz && int64_ok tm && wf_filter f && wf_controls cs
    | RModify id _ chs cs => int64_ok id && forallb (fun c : change => int64_ok (fst (fst c))) chs && wf_controls cs
    | RAdd id _ _ cs => int64_ok id && wf_controls cs
    | RDel id _ cs => int64_ok id && wf_controls cs
    | RExt id _ _ => int64_ok id
    | RUnbind id => int64_ok id
    end.

  Theorem new_message_enc_request r : wf_request r = true ->
    new_message prim_ok strict true (enc_request r) = Ok (msg_of_request r).
  Proof.
    Local Opaque int64_ok wf_controls wf_filter forallb.
    unfold wf_request. intros H. apply andb_true_iff in H. destruct H as [_ H].
    destruct r; cbn [msg_of_request];
      repeat (apply andb_true_iff in H; destruct H as [H ?]).
    - apply receive_bind; assumption.
    - apply receive_search; assumption.
    - apply receive_modify; assumption.
    - apply receive_add; assumption.
    - apply receive_del; assumption.
    - apply receive_ext; assumption.
    - apply receive_unbind; assumption.
    Local Transparent int64_ok wf_controls wf_filter forallb.
  Qed.

  Theorem server_receive_wire r : wf_request r = true ->
    server_receive prim_ok strict true (wire r) = Ok (msg_of_request r).
  Proof.
    intros H. unfold server_receive, server_receive_rest, wire.
    rewrite <- (app_nil_r (bytes_of (enc_request r))).
    rewrite read_packet_bytes_of.
    - cbn [bind]. assert (basic_validation (enc_request r) = true) as ->.
      { destruct r; cbn [enc_request]; apply env_basic. }
      cbn [negb]. rewrite new_message_enc_request by exact H. reflexivity.
    - apply wire_wf_small; [apply swf_enc_request|].
      unfold wf_request in H. apply andb_true_iff in H. destruct H as [H _]. apply N.leb_le in H. exact H.
  Qed.

  (* the same with more bytes behind the frame: exactly the frame is consumed *)
  Theorem server_receive_rest_wire r rest : wf_request r = true ->
    server_receive_rest prim_ok strict true (wire r ++ rest) = Ok (msg_of_request r, rest).
  Proof.
    intros H. unfold server_receive_rest, wire.
    rewrite read_packet_bytes_of.
    - cbn [bind]. assert (basic_validation (enc_request r) = true) as ->.
      { destruct r; cbn [enc_request]; apply env_basic. }
      cbn [negb]. rewrite new_message_enc_request by exact H. reflexivity.
    - apply wire_wf_small; [apply swf_enc_request|].
      unfold wf_request in H. apply andb_true_iff in H. destruct H as [H _]. apply N.leb_le in H. exact H.
  Qed.

  (* requests pipelined on one connection: the read loop delivers each request of the
     concatenated stream as if it had come alone, in order, up to and including the first
     Unbind - whatever stands before or behind it *)
  Fixpoint upto_unbind (rs : list request) : list request :=
    match rs with
    | [] => []
    | RUnbind id :: _ => [RUnbind id]
    | r :: rest => r :: upto_unbind rest
    end.

  Lemma wire_nonempty r : wire r <> [].
  Proof.
    unfold wire, bytes_of. intros E. apply app_eq_nil in E. destruct E as [E _].
    unfold enc_ident in E. destruct (tag (p_id (enc_request r)) <? 31); discriminate.
  Qed.

  Theorem serve_stream_pipeline rs : Forall (fun r => wf_request r = true) rs ->
    forall fuel, (length rs < fuel)%nat ->
    serve_stream prim_ok strict true fuel (concat (map wire rs)) =
    map (fun r => Ok (msg_of_request r)) (upto_unbind rs).
  Proof.
    induction 1 as [|r rs Hr Hrs IH]; intros fuel Hf.
    - destruct fuel; reflexivity.
    - destruct fuel as [|f]; [cbn in Hf; lia|].
      cbn [map concat serve_stream].
      destruct (wire r ++ concat (map wire rs)) as [|b bs] eqn:E.
      { apply app_eq_nil in E. destruct E as [E _]. exfalso. exact (wire_nonempty r E). }
      rewrite <- E. rewrite (server_receive_rest_wire r _ Hr).
      assert (Hf' : (length rs < f)%nat) by (cbn in Hf; lia).
      destruct r; cbn [upto_unbind map msg_of_request]; try (rewrite (IH f Hf'); reflexivity).
      reflexivity.
  Qed.
End Requests.

(* ---------------------------------------------------------------- *)
(* what is never delivered                                            *)

Definition op_of_tag (t : N) : option routeop :=
  if t =? 0 then Some OpBind else if t =? 2 then Some OpUnbind else if t =? 3 then Some OpSearch
  else if t =? 6 then Some OpModify else if t =? 8 then Some OpAdd else if t =? 10 then Some OpDel
  else if t =? 23 then Some OpExt else None.

Lemma bind_ok_inv {A B} (x : outcome A) (f : A -> outcome B) b :
  bind x f = Ok b -> exists a, x = Ok a /\ f a = Ok b.
Proof. destruct x; simpl; intros H; try discriminate. eauto. Qed.

Ltac inv_ok H :=
  repeat match type of H with
         | bind ?x ?f = Ok _ =>
           let a := fresh "a" in let Ha := fresh "Ha" in
           apply bind_ok_inv in H; destruct H as (a & Ha & H)
         | (if ?c then _ else _) = Ok _ => destruct c eqn:?; try discriminate H
         | (match ?x with _ => _ end) = Ok _ => destruct x eqn:?; try discriminate H
         | (let (_, _) := ?x in _) = Ok _ => destruct x eqn:?
         end.

Section Negative.
  Variable prim_ok : N -> bytes -> bool.
  Variable strict modfix : bool.

  Lemma request_packet_inv p rp : request_packet strict p = Ok rp ->
    nth_error (p_kids p) 1 = Some rp /\ p_cls rp = 64 /\
    (p_tag rp = 0 -> exists vp, nth_error (p_kids rp) 0 = Some vp /\ value_of vp = VInt 3).
  Proof.
    unfold request_packet. intros H.
    destruct (negb (basic_validation p)); [discriminate|].
    destruct (negb (assert_application_request p)) eqn:Ea; [discriminate|].
    destruct (nth_error (p_kids p) 1) as [q|] eqn:Eq; [|discriminate].
    assert (p_cls q = 64) as Hcls.
    { apply negb_false_iff in Ea. unfold assert_application_request in Ea. rewrite Eq in Ea.
      apply andb_true_iff in Ea. destruct Ea as [Ea _]. apply N.eqb_eq in Ea. exact Ea. }
    destruct (p_tag q =? 0) eqn:Et.
    - destruct (negb (assert_child q 0 0 false (Some 2))); [discriminate|].
      apply bind_ok_inv in H. destruct H as (vp & Hvp & H).
      apply bind_ok_inv in H. destruct H as (v & Hv & H).
      destruct (v =? 3)%Z eqn:E3; [|unfold fail_assert in H; destruct strict; discriminate].
      inversion H; subst rp. split; [reflexivity|]. split; [exact Hcls|]. intros _.
      unfold child in Hvp. destruct (nth_error (p_kids q) 0) as [vp'|] eqn:Ev;
        [|unfold fail_assert in Hvp; destruct strict; discriminate].
      inversion Hvp; subst vp'. exists vp. split; [reflexivity|].
      unfold as_int in Hv. destruct (value_of vp); try (unfold fail_assert in Hv; destruct strict; discriminate).
      inversion Hv; subst. apply Z.eqb_eq in E3. subst. reflexivity.
    - inversion H; subst rp. split; [reflexivity|]. split; [exact Hcls|]. intros Ht.
      apply N.eqb_neq in Et. contradiction.
  Qed.

  (* Whatever packet arrives: if a message is delivered, the protocolOp was an
     application-class packet with one of the seven supported tags, the
     message has the kind belonging to that tag, and a Bind carried version 3. *)
  Theorem delivered_kind p m : new_message prim_ok strict modfix p = Ok m ->
    exists rp, nth_error (p_kids p) 1 = Some rp /\ p_cls rp = 64 /\
               op_of_tag (p_tag rp) = Some (msg_op m) /\
               (msg_op m = OpBind -> exists vp, nth_error (p_kids rp) 0 = Some vp /\ value_of vp = VInt 3).
  Proof.
    unfold new_message. intros H.
    apply bind_ok_inv in H. destruct H as (rp & Hrp & H).
    destruct (request_packet_inv p rp Hrp) as (Hk & Hc & Hv).
    exists rp. split; [exact Hk|]. split; [exact Hc|].
    destruct (negb _) eqn:Esup; [discriminate|].
    apply bind_ok_inv in H. destruct H as (id & _ & H).
    unfold op_of_tag.
    destruct (p_tag rp =? 2) eqn:E2.
    { inversion H; subst m. apply N.eqb_eq in E2. rewrite E2. cbn. split; [reflexivity|discriminate]. }
    destruct (p_tag rp =? 0) eqn:E0.
    { assert (msg_op m = OpBind) as Hm by (inv_ok H; inversion H; subst; reflexivity).
      rewrite Hm. split; [reflexivity|]. intros _. apply Hv. apply N.eqb_eq. exact E0. }
    destruct (p_tag rp =? 3) eqn:E3.
    { assert (msg_op m = OpSearch) as Hm by (inv_ok H; inversion H; subst; reflexivity).
      rewrite Hm. split; [reflexivity|discriminate]. }
    destruct (p_tag rp =? 23) eqn:E23.
    { assert (msg_op m = OpExt) as Hm by (inv_ok H; inversion H; subst; reflexivity).
      rewrite Hm. apply N.eqb_eq in E23. rewrite E23. cbn. split; [reflexivity|discriminate]. }
    destruct (p_tag rp =? 6) eqn:E6.
    { assert (msg_op m = OpModify) as Hm by (inv_ok H; inversion H; subst; reflexivity).
      rewrite Hm. split; [reflexivity|discriminate]. }
    destruct (p_tag rp =? 8) eqn:E8.
    { assert (msg_op m = OpAdd) as Hm by (inv_ok H; inversion H; subst; reflexivity).
      rewrite Hm. split; [reflexivity|discriminate]. }
    assert (msg_op m = OpDel) as Hm by (inv_ok H; inversion H; subst; reflexivity).
    rewrite Hm.
    assert (p_tag rp =? 10 = true) as E10.
    { apply negb_false_iff in Esup.
      repeat (apply orb_true_iff in Esup; destruct Esup as [Esup|Esup]); congruence. }
    rewrite E10. split; [reflexivity|discriminate].
  Qed.

  Corollary unsupported_never_delivered p rp : nth_error (p_kids p) 1 = Some rp ->
    op_of_tag (p_tag rp) = None -> forall m, new_message prim_ok strict modfix p <> Ok m.
  Proof.
    intros Hk Hn m Hm. destruct (delivered_kind p m Hm) as (rp' & Hk' & _ & Hop & _).
    rewrite Hk in Hk'. inversion Hk'; subst. rewrite Hn in Hop. discriminate.
  Qed.

  Corollary bind_other_version_never_delivered p rp vp v : nth_error (p_kids p) 1 = Some rp ->
    p_tag rp = 0 -> nth_error (p_kids rp) 0 = Some vp -> value_of vp = VInt v -> v <> 3%Z ->
    forall m, new_message prim_ok strict modfix p <> Ok m.
  Proof.
    intros Hk Ht Hvp Hv Hne m Hm. destruct (delivered_kind p m Hm) as (rp' & Hk' & _ & Hop & Hb).
    rewrite Hk in Hk'. inversion Hk'; subst rp'. unfold op_of_tag in Hop. rewrite Ht in Hop. cbn in Hop.
    inversion Hop as [Hop']. symmetry in Hop'. destruct (Hb Hop') as (vp' & Hvp' & Hv').
    rewrite Hvp in Hvp'. inversion Hvp'; subst. rewrite Hv in Hv'. inversion Hv'. contradiction.
  Qed.
End Negative.

(* non-vacuity: a three-control, two-attribute, nested-filter search satisfies wf_request *)
Example wf_request_example :
  wf_request (RSearch 7 [100; 99] 2 0 10 20 true
                (FAnd [FEq [99; 110] [97; 42; 98]; FNot (FPresent [111]); FSub [115; 110] (Some [97]) [[98]] None;
                       FExt (Some [50; 46; 52]) (Some [99; 110]) [120] false])
                [[99; 110]; [115; 110]]
                [CPaging 5 [1; 2]; CBehera (-1) 3 (-1); CString [49; 46; 50] true [120]]) = true.
Proof. vm_compute. reflexivity. Qed.
