(* Writer.v — C05: any number of handlers writing responses on one connection.
   Model of response.go (ResponseWriter).Write = lock; bufio.Write(frame);
   bufio.Flush; unlock, over one shared mutex, one shared buffered writer with a
   sticky error (bufio.Writer) and a socket whose writes may be short or fail.

   One label = one atomic step of one writer thread or one socket event:
     LAcquire t   thread t takes the mutex for its next frame (blocked while held)
     LSock t k    k more bytes of t's current frame reach the socket (whatever the
                  chunking of bufio: direct write of a large frame, flush of the
                  buffer, short writes)
     LFail t      a socket write made on behalf of t fails: bufio's error sticks
     LRelease t   Write returns: success if the whole frame is out, error otherwise
   Model and proofs in one file (small). *)
From G Require Import Base.
Open Scope nat_scope.

Record wthread := {
  todo : list bytes;                 (* frames still to write, in order *)
  cur : option (bytes * bytes)       (* holding the mutex: (already on the wire, still to go) *)
}.

Record wstate := {
  threads : list wthread;
  holder : option nat;
  werr : bool;                       (* bufio.Writer.err, sticky *)
  wire : bytes;                      (* everything that reached the socket *)
  log : list (nat * bytes * bool)    (* ghost: returned Writes in completion order: writer, frame, success *)
}.

Definition oklog (s : wstate) : list (nat * bytes) :=
  map fst (List.filter (fun x => snd x) (log s)).

Definition winit (frames : list (list bytes)) : wstate :=
  {| threads := map (fun fs => {| todo := fs; cur := None |}) frames; holder := None; werr := false; wire := [];
     log := [] |}.

Inductive wlabel := LAcquire (t : nat) | LSock (t k : nat) | LFail (t : nat) | LRelease (t : nat).

Fixpoint upd {A} (n : nat) (x : A) (l : list A) : list A :=
  match n, l with
  | _, [] => []
  | O, _ :: r => x :: r
  | S n', y :: r => y :: upd n' x r
  end.

Definition wstep (s : wstate) (l : wlabel) : option wstate :=
  match l with
  | LAcquire t =>
    match holder s, nth_error (threads s) t with
    | None, Some th =>
      match cur th, todo th with
      | None, f :: rest =>
        Some {| threads := upd t {| todo := rest; cur := Some ([], f) |} (threads s); holder := Some t; werr := werr s;
                wire := wire s; log := log s |}
      | _, _ => None
      end
    | _, _ => None
    end
  | LSock t k =>
    match holder s, nth_error (threads s) t with
    | Some h, Some th =>
      if negb (h =? t) || werr s then None else
      match cur th with
      | Some (sent, rest) =>
        if (k =? 0) || (length rest <? k) then None else
        Some {| threads := upd t {| todo := todo th; cur := Some (sent ++ firstn k rest, skipn k rest) |} (threads s);
                holder := holder s; werr := false; wire := wire s ++ firstn k rest; log := log s |}
      | None => None
      end
    | _, _ => None
    end
  | LFail t =>
    match holder s with
    | Some h => if h =? t then Some {| threads := threads s; holder := holder s; werr := true; wire := wire s;
                                       log := log s |} else None
    | None => None
    end
  | LRelease t =>
    match holder s, nth_error (threads s) t with
    | Some h, Some th =>
      if negb (h =? t) then None else
      match cur th with
      | Some (sent, []) =>
        if werr s then
          Some {| threads := upd t {| todo := todo th; cur := None |} (threads s); holder := None; werr := true;
                  wire := wire s; log := log s ++ [(t, sent, false)] |}
        else
          Some {| threads := upd t {| todo := todo th; cur := None |} (threads s); holder := None; werr := false;
                  wire := wire s; log := log s ++ [(t, sent, true)] |}
      | Some (sent, rest) =>
        (* Write returns early only with an error *)
        if werr s then
          Some {| threads := upd t {| todo := todo th; cur := None |} (threads s); holder := None; werr := true;
                  wire := wire s; log := log s ++ [(t, sent ++ rest, false)] |}
        else None
      | None => None
      end
    | _, _ => None
    end
  end.

Fixpoint wrun (s : wstate) (ls : list wlabel) : option wstate :=
  match ls with
  | [] => Some s
  | l :: r => match wstep s l with Some s' => wrun s' r | None => None end
  end.

(* ---------------------------------------------------------------- *)
(* the invariant                                                      *)

(* bytes of the frame being written that are already on the wire *)
Definition partial (s : wstate) : bytes :=
  match holder s with
  | Some t => match nth_error (threads s) t with
              | Some th => match cur th with Some (sent, _) => sent | None => [] end
              | None => []
              end
  | None => []
  end.

(* after a failure: the bytes of the failed frame that did reach the wire stay
   at the end of the stream; kept as a ghost in the invariant through [tail] *)
Definition frames_of (t : nat) (l : list (nat * bytes)) : list bytes :=
  map snd (List.filter (fun x => fst x =? t) l).

Record winv (s : wstate) (tail : bytes) : Prop := {
  (* the wire is whole frames, in completion order, plus the partial frame *)
  wi_wire : wire s = concat (map snd (oklog s)) ++ tail;
  (* no error yet: the tail is exactly what the current holder has emitted *)
  wi_tail : werr s = false -> tail = partial s;
  (* only the holder has a current frame *)
  wi_cur : forall t th, nth_error (threads s) t = Some th -> cur th <> None -> holder s = Some t;
  wi_hold : forall t, holder s = Some t -> exists th sent rest, nth_error (threads s) t = Some th /\ cur th = Some (sent, rest)
}.

Lemma nth_upd_eq {A} (x : A) l : forall n y, nth_error l n = Some y -> nth_error (upd n x l) n = Some x.
Proof. induction l as [|a r IH]; intros [|n] y H; cbn in *; try discriminate; auto. eapply IH; eauto. Qed.
Lemma nth_upd_neq {A} (x : A) l : forall n m, n <> m -> nth_error (upd n x l) m = nth_error l m.
Proof. induction l as [|a r IH]; intros [|n] [|m] H; cbn; try reflexivity; try congruence. apply IH. congruence. Qed.

Theorem winv_init frames : winv (winit frames) [].
Proof.
  constructor; cbn; auto.
  - intros t th H Hc. unfold winit in H. cbn in H. rewrite nth_error_map in H.
    destruct (nth_error frames t); [|discriminate]. inversion H; subst. cbn in Hc. congruence.
  - intros t H. discriminate.
Qed.

Theorem winv_step s tail l s' : winv s tail -> wstep s l = Some s' -> exists tail', winv s' tail'.
Proof.
  intros [Hw Ht Hc Hh] Hs. destruct l as [t|t k|t|t]; cbn [wstep] in Hs.
  - (* acquire *)
    destruct (holder s) eqn:Eh; [discriminate|].
    destruct (nth_error (threads s) t) as [th|] eqn:En; [|discriminate].
    destruct (cur th) eqn:Ec; [discriminate|]. destruct (todo th) as [|f rest] eqn:Et; [discriminate|].
    inversion Hs; subst. exists tail. constructor; cbn.
    + exact Hw.
    + intros He. rewrite (Ht He). unfold partial. rewrite Eh. cbn. rewrite (nth_upd_eq _ _ _ _ En). reflexivity.
    + intros t' th' Hn Hcur. destruct (Nat.eq_dec t t') as [->|Hne]; [reflexivity|].
      rewrite nth_upd_neq in Hn by exact Hne. specialize (Hc t' th' Hn Hcur). congruence.
    + intros t' Heq. inversion Heq; subst. eexists _, _, _. split; [apply (nth_upd_eq _ _ _ _ En)|reflexivity].
  - (* socket write *)
    destruct (holder s) as [h|] eqn:Eh; [|discriminate].
    destruct (nth_error (threads s) t) as [th|] eqn:En; [|discriminate].
    destruct (negb (h =? t) || werr s) eqn:Eg; [discriminate|].
    apply orb_false_iff in Eg. destruct Eg as [Eht Ee]. apply negb_false_iff, Nat.eqb_eq in Eht. subst h.
    destruct (cur th) as [[sent rest]|] eqn:Ec; [|discriminate].
    destruct ((k =? 0) || (length rest <? k)); [discriminate|].
    inversion Hs; subst. exists (tail ++ firstn k rest). constructor; cbn.
    + rewrite Hw, app_assoc. reflexivity.
    + intros _. rewrite (Ht Ee). unfold partial. rewrite Eh. cbn. rewrite En, Ec, (nth_upd_eq _ _ _ _ En). reflexivity.
    + intros t' th' Hn Hcur. destruct (Nat.eq_dec t t') as [->|Hne]; [reflexivity|].
      rewrite nth_upd_neq in Hn by exact Hne. exact (Hc t' th' Hn Hcur).
    + intros t' Heq. inversion Heq; subst. eexists _, _, _. split; [apply (nth_upd_eq _ _ _ _ En)|reflexivity].
  - (* failure *)
    destruct (holder s) as [h|] eqn:Eh; [|discriminate]. destruct (h =? t); [|discriminate].
    inversion Hs; subst. exists tail. constructor; cbn; auto. discriminate.
  - (* release *)
    destruct (holder s) as [h|] eqn:Eh; [|discriminate].
    destruct (nth_error (threads s) t) as [th|] eqn:En; [|discriminate].
    destruct (negb (h =? t)) eqn:Eht; [discriminate|]. apply negb_false_iff, Nat.eqb_eq in Eht. subst h.
    assert (Hothers : forall x t' th', nth_error (upd t {| todo := todo th; cur := None |} (threads s)) t' = Some th' ->
                                  cur th' <> None -> x = Some t').
    { intros x t' th' Hn Hcur. destruct (Nat.eq_dec t t') as [->|Hne].
      - rewrite (nth_upd_eq _ _ _ _ En) in Hn. inversion Hn; subst. cbn in Hcur. congruence.
      - rewrite nth_upd_neq in Hn by exact Hne. specialize (Hc t' th' Hn Hcur). congruence. }
    destruct (cur th) as [[sent rest]|] eqn:Ec; [|discriminate].
    destruct rest as [|b rest].
    + destruct (werr s) eqn:Ee; inversion Hs; subst.
      * exists tail. constructor; cbn; auto; try discriminate; [|intros; eapply Hothers; eauto].
        unfold oklog. cbn [log]. rewrite filter_app, map_app. cbn. rewrite app_nil_r. exact Hw.
      * exists []. constructor; cbn.
        -- unfold oklog. cbn [log]. rewrite filter_app, !map_app, concat_app. cbn. fold (oklog s).
           rewrite Hw, (Ht eq_refl). unfold partial. rewrite Eh, En, Ec. rewrite !app_nil_r. reflexivity.
        -- intros _. reflexivity.
        -- intros; eapply Hothers; eauto.
        -- discriminate.
    + destruct (werr s) eqn:Ee; [|discriminate]. inversion Hs; subst.
      exists tail. constructor; cbn; auto; try discriminate; [|intros; eapply Hothers; eauto].
      unfold oklog. cbn [log]. rewrite filter_app, map_app. cbn. rewrite app_nil_r. exact Hw.
Qed.

Theorem winv_run ls : forall s tail s', winv s tail -> wrun s ls = Some s' -> exists tail', winv s' tail'.
Proof.
  induction ls as [|l r IH]; intros s tail s' Hi Hr; cbn in Hr.
  - inversion Hr; subst. eauto.
  - destruct (wstep s l) as [s1|] eqn:E; [|discriminate].
    destruct (winv_step _ _ _ _ Hi E) as [t1 H1]. eapply IH; eauto.
Qed.

(* ---------------------------------------------------------------- *)
(* C05                                                                *)

(* at any moment of any schedule: the byte stream is a concatenation of whole
   frames - one per successful Write, in completion order - followed by a
   prefix of the one frame that is being written (or failed) *)
Theorem c05_stream frames ls s : wrun (winit frames) ls = Some s ->
  exists tail, wire s = concat (map snd (oklog s)) ++ tail /\ (werr s = false -> tail = partial s).
Proof.
  intros H. destruct (winv_run ls _ _ _ (winv_init frames) H) as [tail [Hw Ht _ _]]. eauto.
Qed.

(* when nobody holds the mutex and nothing failed: whole frames only *)
Theorem c05_whole_frames frames ls s : wrun (winit frames) ls = Some s -> holder s = None -> werr s = false ->
  wire s = concat (map snd (oklog s)).
Proof.
  intros H Hh He. destruct (c05_stream frames ls s H) as (tail & Hw & Ht).
  rewrite Hw, (Ht He). unfold partial. rewrite Hh. apply app_nil_r.
Qed.

(* exactly once, per-writer order: the Writes of thread t that have returned
   (successful or failed, in order), the frame it is writing and the frames it
   has still to write are exactly its frames, in order *)
Definition cur_frame (th : wthread) : list bytes :=
  match cur th with Some (sent, rest) => [sent ++ rest] | None => [] end.

Definition returned (t : nat) (s : wstate) : list bytes :=
  map (fun x => snd (fst x)) (List.filter (fun x => fst (fst x) =? t) (log s)).

Definition conserve (frames : list (list bytes)) (s : wstate) : Prop :=
  forall t th, nth_error (threads s) t = Some th ->
    nth_error frames t = Some (returned t s ++ cur_frame th ++ todo th).

Lemma returned_app t s x l : log s = l ++ [x] ->
  returned t s = map (fun x => snd (fst x)) (List.filter (fun x => fst (fst x) =? t) l) ++
                 (if fst (fst x) =? t then [snd (fst x)] else []).
Proof. intros E. unfold returned. rewrite E, filter_app, map_app. cbn. destruct (fst (fst x) =? t); reflexivity. Qed.

Theorem conserve_init frames : conserve frames (winit frames).
Proof.
  intros t th H. cbn in H. rewrite nth_error_map in H. destruct (nth_error frames t) as [fs|]; [|discriminate].
  inversion H; subst. reflexivity.
Qed.

Theorem conserve_step frames s l s' : conserve frames s -> wstep s l = Some s' -> conserve frames s'.
Proof.
  intros Hc Hs. destruct l as [t|t k|t|t]; cbn [wstep] in Hs.
  - destruct (holder s); [discriminate|]. destruct (nth_error (threads s) t) as [th|] eqn:En; [|discriminate].
    destruct (cur th) eqn:Ec; [discriminate|]. destruct (todo th) as [|f rest] eqn:Et; [discriminate|].
    inversion Hs; subst. intros t' th' Hn. cbn in Hn. unfold returned. cbn [log].
    destruct (Nat.eq_dec t t') as [->|Hne].
    + rewrite (nth_upd_eq _ _ _ _ En) in Hn. inversion Hn; subst. specialize (Hc t' th En).
      unfold cur_frame in *. rewrite Ec, Et in Hc. cbn in *. exact Hc.
    + rewrite nth_upd_neq in Hn by exact Hne. exact (Hc t' th' Hn).
  - destruct (holder s) as [h|]; [|discriminate]. destruct (nth_error (threads s) t) as [th|] eqn:En; [|discriminate].
    destruct (negb (h =? t) || werr s); [discriminate|]. destruct (cur th) as [[sent rest]|] eqn:Ec; [|discriminate].
    destruct ((k =? 0) || (length rest <? k)); [discriminate|]. inversion Hs; subst.
    intros t' th' Hn. cbn in Hn. unfold returned. cbn [log]. destruct (Nat.eq_dec t t') as [->|Hne].
    + rewrite (nth_upd_eq _ _ _ _ En) in Hn. inversion Hn; subst. specialize (Hc t' th En).
      unfold cur_frame in *. rewrite Ec in Hc. cbn in *. rewrite <- app_assoc, firstn_skipn. exact Hc.
    + rewrite nth_upd_neq in Hn by exact Hne. exact (Hc t' th' Hn).
  - destruct (holder s) as [h|]; [|discriminate]. destruct (h =? t); [|discriminate]. inversion Hs; subst. exact Hc.
  - destruct (holder s) as [h|]; [|discriminate]. destruct (nth_error (threads s) t) as [th|] eqn:En; [|discriminate].
    destruct (negb (h =? t)); [discriminate|]. destruct (cur th) as [[sent rest]|] eqn:Ec; [|discriminate].
    assert (Hgen : forall s2 ok, threads s2 = upd t {| todo := todo th; cur := None |} (threads s) ->
                     log s2 = log s ++ [(t, sent ++ rest, ok)] -> conserve frames s2).
    { intros s2 ok Et El t' th' Hn. rewrite Et in Hn. rewrite (returned_app t' s2 _ _ El). cbn [fst snd].
      destruct (Nat.eq_dec t t') as [->|Hne].
      - rewrite (nth_upd_eq _ _ _ _ En) in Hn. inversion Hn; subst. rewrite Nat.eqb_refl. specialize (Hc t' th En).
        unfold cur_frame in *. rewrite Ec in Hc. cbn in *. rewrite <- app_assoc. exact Hc.
      - rewrite nth_upd_neq in Hn by exact Hne. replace (t =? t') with false by (symmetry; apply Nat.eqb_neq; exact Hne).
        rewrite app_nil_r. exact (Hc t' th' Hn). }
    destruct rest as [|b rest]; [destruct (werr s)|destruct (werr s); [|discriminate]]; inversion Hs; subst;
      eapply Hgen; cbn; try reflexivity; rewrite ?app_nil_r; reflexivity.
Qed.

Theorem c05_exactly_once frames ls s : wrun (winit frames) ls = Some s -> conserve frames s.
Proof.
  revert s. induction ls as [|l r IH] using rev_ind; intros s H.
  - cbn in H. inversion H; subst. apply conserve_init.
  - assert (exists s0, wrun (winit frames) r = Some s0 /\ wstep s0 l = Some s) as (s0 & Hr & Hs).
    { clear -H. revert H. generalize (winit frames). induction r as [|a r IHr]; intros s1 H; cbn in *.
      - destruct (wstep s1 l) eqn:E; [|discriminate]. inversion H; subst. eauto.
      - destruct (wstep s1 a); [|discriminate]. apply IHr. exact H. }
    eapply conserve_step; eauto.
Qed.

(* mutual exclusion: two threads never both hold a frame *)
Theorem c05_mutex frames ls s t1 t2 th1 th2 : wrun (winit frames) ls = Some s ->
  nth_error (threads s) t1 = Some th1 -> nth_error (threads s) t2 = Some th2 ->
  cur th1 <> None -> cur th2 <> None -> t1 = t2.
Proof.
  intros H H1 H2 C1 C2. destruct (winv_run ls _ _ _ (winv_init frames) H) as [tail [_ _ Hc _]].
  pose proof (Hc t1 th1 H1 C1). pose proof (Hc t2 th2 H2 C2). congruence.
Qed.

(* after the first failure nothing more reaches the wire *)
Theorem c05_failure_sticky s l s' : werr s = true -> wstep s l = Some s' -> werr s' = true /\ wire s' = wire s.
Proof.
  intros He H. destruct l as [t|t k|t|t]; cbn [wstep] in H.
  - destruct (holder s); [discriminate|]. destruct (nth_error (threads s) t) as [th|]; [|discriminate].
    destruct (cur th); [discriminate|]. destruct (todo th); [discriminate|]. inversion H; subst; cbn. auto.
  - destruct (holder s) as [h|]; [|discriminate]. destruct (nth_error (threads s) t) as [th|]; [|discriminate].
    rewrite He, orb_true_r in H. discriminate.
  - destruct (holder s) as [h|]; [|discriminate]. destruct (h =? t); [|discriminate]. inversion H; subst; cbn. auto.
  - destruct (holder s) as [h|]; [|discriminate]. destruct (nth_error (threads s) t) as [th|]; [|discriminate].
    destruct (negb (h =? t)); [discriminate|]. destruct (cur th) as [[sent rest]|]; [|discriminate]. rewrite He in H.
    destruct rest; inversion H; subst; cbn; auto.
Qed.

(* non-vacuity: two writers, frames of different sizes, short socket writes *)
Example c05_example :
  exists s, wrun (winit [[[1; 2; 3]; [4]]; [[9; 9]]]%N)
                 [LAcquire 0; LSock 0 2; LSock 0 1; LRelease 0; LAcquire 1; LSock 1 2; LRelease 1;
                  LAcquire 0; LSock 0 1; LRelease 0] = Some s /\
            wire s = [1; 2; 3; 9; 9; 4]%N /\ oklog s = [(0, [1; 2; 3]%N); (1, [9; 9]%N); (0, [4]%N)].
Proof. eexists. split; [vm_compute; reflexivity|]. split; reflexivity. Qed.
