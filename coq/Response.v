(* Response.v — model of the response side of gldap: response_options.go,
   request.go New*Response, response.go setters and packet() encoders,
   entry.go EntryAttribute.encode; plus a strict, specification-style
   parser of an LDAPMessage response (RFC 4511 4.1.1, 4.1.9, 4.1.11, 4.5.2)
   used only in statements.   MODEL ONLY. *)
From Coq Require Import String.
From G Require Import Base Ber Helpers Ldap.
Open Scope N_scope.

Definition ResultUnwillingToPerform : Z := 53.

(* options a handler can pass to the New*Response constructors; options of
   another family and nil options are ignored by applyOpts (OIgnored) *)
Inductive ropt :=
| WDiag (s : bytes) | WMatched (s : bytes) | WCode (z : Z) | WApp (z : Z)
| WAttrs (m : gomap) | OIgnored.

Record ropts := { o_diag : bytes; o_matched : bytes; o_code : option Z; o_app : option Z; o_attrs : gomap }.

Definition unused : bytes := Eval vm_compute in s2b "Unused"%string.

(* responseDefaults + applyOpts: later options win *)
Definition ropts_default : ropts :=
  {| o_diag := unused; o_matched := unused; o_code := None; o_app := None; o_attrs := [] |}.
Definition apply_ropt (o : ropts) (x : ropt) : ropts :=
  match x with
  | WDiag s => {| o_diag := s; o_matched := o_matched o; o_code := o_code o; o_app := o_app o; o_attrs := o_attrs o |}
  | WMatched s => {| o_diag := o_diag o; o_matched := s; o_code := o_code o; o_app := o_app o; o_attrs := o_attrs o |}
  | WCode z => {| o_diag := o_diag o; o_matched := o_matched o; o_code := Some z; o_app := o_app o; o_attrs := o_attrs o |}
  | WApp z => {| o_diag := o_diag o; o_matched := o_matched o; o_code := o_code o; o_app := Some z; o_attrs := o_attrs o |}
  | WAttrs m => {| o_diag := o_diag o; o_matched := o_matched o; o_code := o_code o; o_app := o_app o; o_attrs := m |}
  | OIgnored => o
  end.
Definition get_ropts (xs : list ropt) : ropts := fold_left apply_ropt xs ropts_default.

(* Go int -> int16 (SetResultCode, constructors) and int -> uint64 (ber.Tag) *)
Definition int16_of (z : Z) : Z :=
  let m := (z mod 65536)%Z in if (32768 <=? m)%Z then (m - 65536)%Z else m.
Definition tag_of_int (z : Z) : N := Z.to_N (z mod 2 ^ 64).

Inductive rkind := KGeneral | KBind | KExtended | KSearchDone | KEntry | KModify.

Record response := {
  r_kind : rkind;
  r_id : Z;                    (* messageID: copied from the request's message *)
  r_code : Z;                  (* int16 *)
  r_diag : bytes;
  r_matched : bytes;
  r_app : Z;                   (* GeneralResponse.applicationCode *)
  r_ctrls : list control;      (* Bind / SearchDone *)
  r_dn : bytes;                (* entry *)
  r_attrs : list (bytes * list bytes)   (* entry attributes in order *)
}.

Definition mk_resp k id code diag matched app : response :=
  {| r_kind := k; r_id := id; r_code := code; r_diag := diag; r_matched := matched; r_app := app;
     r_ctrls := []; r_dn := []; r_attrs := [] |}.

(* [modfix] = true: NewModifyResponse defaults the result code like NewResponse
   does (current tree); false: the pinned *opts.withResponseCode nil dereference *)
Definition new_response (modfix : bool) (k : rkind) (id : Z) (dn : bytes) (xs : list ropt) : outcome response :=
  let o := get_ropts xs in
  let code_or d := match o_code o with Some c => c | None => d end in
  match k with
  | KGeneral =>
    Ok (mk_resp KGeneral id (int16_of (code_or ResultUnwillingToPerform)) (o_diag o) (o_matched o)
                (match o_app o with Some a => a | None => 24%Z end))
  | KExtended => Ok (mk_resp KExtended id (int16_of (code_or 0%Z)) [] [] 24)
  | KBind => Ok (mk_resp KBind id (int16_of (code_or 0%Z)) [] [] 1)
  | KSearchDone => Ok (mk_resp KSearchDone id (int16_of (code_or 0%Z)) [] [] 5)
  | KEntry =>
    Ok {| r_kind := KEntry; r_id := id; r_code := 0; r_diag := []; r_matched := []; r_app := 4;
          r_ctrls := []; r_dn := dn; r_attrs := o_attrs o |}
  | KModify =>
    match o_code o with
    | None => if modfix
              then Ok (mk_resp KModify id (int16_of ResultUnwillingToPerform) (o_diag o) (o_matched o) 7)
              else Panic
    | Some c => Ok (mk_resp KModify id (int16_of c) (o_diag o) (o_matched o) 7)
    end
  end.

Inductive setter :=
| SCode (z : Z) | SDiag (s : bytes) | SMatched (s : bytes)
| SControls (cs : list control) | SAddAttr (name : bytes) (vals : list bytes) | SName (s : bytes).

Definition upd r code diag matched ctrls attrs : response :=
  {| r_kind := r_kind r; r_id := r_id r; r_code := code; r_diag := diag; r_matched := matched; r_app := r_app r;
     r_ctrls := ctrls; r_dn := r_dn r; r_attrs := attrs |}.

Definition apply_setter (r : response) (s : setter) : response :=
  match s with
  | SCode z => upd r (int16_of z) (r_diag r) (r_matched r) (r_ctrls r) (r_attrs r)
  | SDiag d => upd r (r_code r) d (r_matched r) (r_ctrls r) (r_attrs r)
  | SMatched d => upd r (r_code r) (r_diag r) d (r_ctrls r) (r_attrs r)
  | SControls cs => upd r (r_code r) (r_diag r) (r_matched r) cs (r_attrs r)
  | SAddAttr n vs => upd r (r_code r) (r_diag r) (r_matched r) (r_ctrls r) (r_attrs r ++ [(n, vs)])
  | SName _ => r      (* SetResponseName: not encoded by packet() *)
  end.

Definition run_setters (r : response) (ss : list setter) : response := fold_left apply_setter ss r.

(* packet(): beginResponse + the protocolOp + optional controls *)
Definition enc_entry_attr (a : bytes * list bytes) : pkt :=
  seq [octet (fst a); set_of (map octet (snd a))].

Definition app_tagged (t : N) (ks : list pkt) : pkt := mk_cons 64 t ks.

Definition packet_of (r : response) : pkt :=
  let result t := app_tagged t [enumerated (r_code r); octet (r_matched r); octet (r_diag r)] in
  let with_ctrls op := seq ([integer (r_id r); op] ++ match r_ctrls r with [] => [] | cs => [encode_controls cs] end) in
  match r_kind r with
  | KExtended => seq [integer (r_id r); result 24]
  | KBind => with_ctrls (result 1)
  | KSearchDone => with_ctrls (result 5)
  | KGeneral | KModify => seq [integer (r_id r); result (tag_of_int (r_app r))]
  | KEntry => seq [integer (r_id r); app_tagged 4 [octet (r_dn r); seq (map enc_entry_attr (r_attrs r))]]
  end.

Definition response_bytes (r : response) : bytes := bytes_of (packet_of r).

(* ---------------------------------------------------------------- *)
(* strict specification-level parser of a response                    *)

Record raw_control := { rc_oid : bytes; rc_crit : bool; rc_value : option bytes }.

Inductive parsed :=
| PResult (msgid : Z) (optag : N) (code : Z) (matched diag : bytes) (ctrls : list raw_control)
| PEntry (msgid : Z) (dn : bytes) (attrs : list (bytes * list bytes)).

Definition is_univ_prim (p : pkt) (t : N) : bool := (p_cls p =? 0) && negb (p_cons p) && (p_tag p =? t).
Definition is_univ_cons (p : pkt) (t : N) : bool := (p_cls p =? 0) && p_cons p && (p_tag p =? t).

(* RFC 4511 4.1.11: Control ::= SEQUENCE { controlType LDAPOID, criticality BOOLEAN DEFAULT FALSE, controlValue OCTET STRING OPTIONAL } *)
Definition parse_control_rfc (p : pkt) : option raw_control :=
  if negb (is_univ_cons p 16) then None else
  match p_kids p with
  | [t] => if is_univ_prim t 4 then Some {| rc_oid := p_data t; rc_crit := false; rc_value := None |} else None
  | [t; x] =>
    if negb (is_univ_prim t 4) then None
    else if is_univ_prim x 1 then
      match p_data x with [b] => Some {| rc_oid := p_data t; rc_crit := negb (b =? 0); rc_value := None |} | _ => None end
    else if is_univ_prim x 4 then Some {| rc_oid := p_data t; rc_crit := false; rc_value := Some (p_data x) |}
    else None
  | [t; c; v] =>
    if is_univ_prim t 4 && is_univ_prim c 1 && is_univ_prim v 4 then
      match p_data c with [b] => Some {| rc_oid := p_data t; rc_crit := negb (b =? 0); rc_value := Some (p_data v) |} | _ => None end
    else None
  | _ => None
  end.

Fixpoint all_some {A} (l : list (option A)) : option (list A) :=
  match l with
  | [] => Some []
  | Some x :: r => match all_some r with Some xs => Some (x :: xs) | None => None end
  | None :: _ => None
  end.

Definition parse_attr (p : pkt) : option (bytes * list bytes) :=
  if negb (is_univ_cons p 16) then None else
  match p_kids p with
  | [t; vs] => if is_univ_prim t 4 && is_univ_cons vs 17 && forallb (fun v => is_univ_prim v 4) (p_kids vs)
               then Some (p_data t, map p_data (p_kids vs)) else None
  | _ => None
  end.

Definition parse_response_tree (p : pkt) : option parsed :=
  if negb (is_univ_cons p 16) then None else
  match p_kids p with
  | idp :: op :: rest =>
    if negb (is_univ_prim idp 2) then None else
    if (8 <? length (p_data idp))%nat || (length (p_data idp) =? 0)%nat then None else
    let id := parse_int64 (p_data idp) in
    if negb ((p_cls op =? 64) && p_cons op) then None else
    let ctrls := match rest with
                 | [] => Some []
                 | [cp] => if (p_cls cp =? 128) && p_cons cp && (p_tag cp =? 0)
                           then all_some (map parse_control_rfc (p_kids cp)) else None
                 | _ => None
                 end in
    match ctrls with
    | None => None
    | Some cs =>
      (* a SearchResultEntry body is { objectName, attributes }; every other
         body (also under tag 4, if a handler chose that application code for
         an LDAPResult) is { resultCode, matchedDN, diagnosticMessage } *)
      if (p_tag op =? 4) && (length (p_kids op) =? 2)%nat then
        match p_kids op, cs with
        | [dn; attrs], [] =>
          if is_univ_prim dn 4 && is_univ_cons attrs 16 then
            match all_some (map parse_attr (p_kids attrs)) with
            | Some l => Some (PEntry id (p_data dn) l)
            | None => None
            end
          else None
        | _, _ => None
        end
      else
        match p_kids op with
        | [c; m; d] =>
          if is_univ_prim c 10 && is_univ_prim m 4 && is_univ_prim d 4 &&
             negb ((8 <? length (p_data c))%nat || (length (p_data c) =? 0)%nat)
          then Some (PResult id (p_tag op) (parse_int64 (p_data c)) (p_data m) (p_data d) cs)
          else None
        | _ => None
        end
    end
  | _ => None
  end.

Section Parse.
  Variable prim_ok : N -> bytes -> bool.
  (* the whole byte string must be exactly one LDAPMessage *)
  Definition parse_response (bs : bytes) : option parsed :=
    match read_packet prim_ok bs with
    | Ok (p, []) => parse_response_tree p
    | _ => None
    end.

  (* a stream of responses: whole frames, in order *)
  Fixpoint parse_frames (fuel : nat) (bs : bytes) : option (list parsed) :=
    match fuel with
    | O => None
    | S f =>
      match bs with
      | [] => Some []
      | _ =>
        match read_packet prim_ok bs with
        | Ok (p, rest) =>
          match parse_response_tree p, parse_frames f rest with
          | Some x, Some xs => Some (x :: xs)
          | _, _ => None
          end
        | _ => None
        end
      end
    end.
End Parse.

(* the raw (RFC-level) fields of a control as its Encode method lays them out *)
Definition raw_of_control (c : control) : raw_control :=
  let inner_bytes p := bytes_of p in
  match c with
  | CString oid crit v => {| rc_oid := oid; rc_crit := crit; rc_value := match v with [] => None | _ => Some v end |}
  | CManageDsaIT crit => {| rc_oid := oid_managedsait; rc_crit := crit; rc_value := None |}
  | CMsNotif => {| rc_oid := oid_ms_notif; rc_crit := false; rc_value := None |}
  | CMsLinkTTL => {| rc_oid := oid_ms_linkttl; rc_crit := false; rc_value := None |}
  | CMsShowDel => {| rc_oid := oid_ms_showdel; rc_crit := false; rc_value := None |}
  | CVChuChange => {| rc_oid := oid_vchu_change; rc_crit := false; rc_value := None |}
  | CVChuWarn e => {| rc_oid := oid_vchu_warn; rc_crit := false; rc_value := Some (format_int e) |}
  | CPaging size cookie =>
    {| rc_oid := oid_paging; rc_crit := false;
       rc_value := Some (inner_bytes (seq [integer (Z.of_N size); octet cookie])) |}
  | CBehera e g err =>
    {| rc_oid := oid_behera; rc_crit := false;
       rc_value :=
         if (0 <=? g)%Z then Some (inner_bytes (seq [ctx_cons 0 [new_integer 128 false 1 g]]))
         else if (0 <=? e)%Z then Some (inner_bytes (seq [ctx_cons 0 [new_integer 128 false 0 e]]))
         else if (0 <=? err)%Z then Some (inner_bytes (seq [new_integer 128 false 1 err]))
         else None |}
  end.
