(* Access.v - C15: the lock / happens-before discipline of gldap's shared state,
   checked over the access table that `vh accesses` regenerates from the Go
   source on every run (AccessGen.v).

   The table lists every read and write of a field of Server, conn, Mux,
   ResponseWriter, Request, Directory (and, inside testdirectory, Entry and
   EntryAttribute), the function it occurs in, the mutexes held there and its
   line.  This file classifies the functions into goroutine classes, and
   decides for every pair of conflicting accesses (same field, one a write)
   whether one of five justifications applies:

     J1 common mutex         both hold the same mutex, one of them exclusively
     J2 same goroutine       both run on the one Run goroutine / the one
                             configuration phase / the one read loop of the
                             connection that owns the field
     J3 configuration        one belongs to the configuration phase (constructors,
                             route registration, Router, testdirectory.Start), which
                             the documented contract orders before Run
     J4 spawn                a write on the Run goroutine to a field of a connection,
                             placed before the `go` statement that starts the
                             connection's goroutines
     J5 publication          conn.rawConn is written before trackConn publishes the
                             connection under connsMu, and read only under connsMu
                             by functions that found the connection in that map

   [check_all gen_sites gen_calls = true] is proved by computation in
   AccessProofs.v: the domain is finite, so that is a proof, not a sample.
   What it is a proof OF is the discipline; that the discipline excludes data
   races in every trace is LockHB.v's theorem. *)

From Coq Require Import Ascii String List Bool Arith.
From G Require Import AccessGen.
Import ListNotations.
Open Scope string_scope.

Inductive thread := TInit | TRun | TLoop | THandler | TStop | TUser.

Definition thread_eqb (a b : thread) : bool :=
  match a, b with
  | TInit, TInit | TRun, TRun | TLoop, TLoop | THandler, THandler | TStop, TStop | TUser, TUser => true
  | _, _ => false
  end.

Fixpoint starts_with (p s : string) : bool :=
  match p, s with
  | EmptyString, _ => true
  | String a p', String b s' => if Ascii.eqb a b then starts_with p' s' else false
  | _, _ => false
  end.

Definition mem (x : string) (l : list string) : bool := existsb (String.eqb x) l.

(* ---- goroutine classes of the functions --------------------------------- *)

Definition fn_table : list (string * list thread) := [
  (* configuration phase: before Run, by the documented contract *)
  ("NewServer", [TInit]); ("NewMux", [TInit]); ("Server.Router", [TInit]);
  ("Mux.Add", [TInit]); ("Mux.Bind", [TInit]); ("Mux.Delete", [TInit]); ("Mux.ExtendedOperation", [TInit]);
  ("Mux.Modify", [TInit]); ("Mux.Search", [TInit]); ("Mux.Unbind", [TInit]); ("Mux.DefaultRoute", [TInit]);
  ("Start", [TInit]);
  (* the goroutine that called Run *)
  ("Server.Run", [TRun]); ("Server.trackConn", [TRun]); ("newConn", [TRun]);
  (* initConn: from newConn on the Run goroutine, and from Request.StartTLS on the read loop *)
  ("conn.initConn", [TRun; TLoop]);
  (* the connection's goroutine: read loop and teardown *)
  ("Server.Run$1", [TLoop]); ("Server.Run$1$1", [TLoop]); ("Server.Run$1$1$1", [TLoop]); ("Server.Run$1$2", [TLoop]);
  ("Server.untrackConn", [TLoop]); ("conn.close", [TLoop]); ("conn.serveRequests", [TLoop]);
  ("conn.readRequest", [TLoop]); ("conn.readPacket", [TLoop]); ("conn.readPacket$1", [TLoop]);
  ("newRequest", [TLoop]); ("newResponseWriter", [TLoop]);
  (* documented: only from the StartTLS handler, which runs inline on the read loop *)
  ("Request.StartTLS", [TLoop]);
  (* per-request goroutines (and the inline handlers on the read loop) *)
  ("conn.serveRequests$1", [THandler]); ("conn.serveRequests$1$1", [THandler]); ("conn.serveRequests$1$2", [THandler]);
  ("Mux.serve", [THandler; TLoop]); ("Mux.serve$1", [THandler; TLoop]);
  ("ResponseWriter.Write", [THandler; TLoop]);
  ("addRoute.match", [THandler; TLoop]); ("deleteRoute.match", [THandler; TLoop]); ("extendedRoute.match", [THandler; TLoop]);
  ("modifyRoute.match", [THandler; TLoop]); ("searchRoute.match", [THandler; TLoop]); ("simpleBindRoute.match", [THandler; TLoop]);
  ("find", [THandler]); ("Directory.findMembers", [THandler]); ("Directory.logSearchRequest", [THandler]);
  (* Stop and what it calls; interrupt is also called by trackConn *)
  ("Server.Stop", [TStop]); ("Server.interruptConns", [TStop]); ("conn.interrupt", [TStop; TRun]);
  (* any goroutine of the user at any time *)
  ("Server.Ready", [TUser]); ("Start$1", [TUser]); ("Start$2", [TUser])
].

Fixpoint lookup (k : string) (t : list (string * list thread)) : option (list thread) :=
  match t with
  | [] => None
  | (k', v) :: r => if String.eqb k k' then Some v else lookup k r
  end.

(* handler closures of the directory are named Directory.handleX$1 (and $1$1 for
   their deferred writers); every other Directory method is a user-side accessor *)
Definition fn_threads (f : string) : list thread :=
  match lookup f fn_table with
  | Some v => v
  | None =>
      if starts_with "Directory.handle" f then
        (if mem f ["Directory.handleAdd"; "Directory.handleBind"; "Directory.handleDelete"; "Directory.handleModify";
                   "Directory.handleNotFound"; "Directory.handleSearchGeneric"; "Directory.handleSearchGroups";
                   "Directory.handleSearchUsers"; "Directory.handleStartTLS"] then [TInit] else [THandler; TLoop])
      else if starts_with "Directory." f then [TUser]
      else if starts_with "Request." f then [THandler; TLoop]
      else []
  end.

(* ---- locks --------------------------------------------------------------- *)

(* ResponseWriter.writerMu is a pointer to the connection's writerMu *)
Definition canon_lock (l : string) : string :=
  if String.eqb l "ResponseWriter.writerMu:W" then "conn.writerMu:W" else l.

Fixpoint drop_mode (l : string) : string :=
  match l with
  | EmptyString => EmptyString
  | String ":"%char _ => EmptyString
  | String c r => String c (drop_mode r)
  end.
Definition is_excl (l : string) : bool :=
  negb (String.eqb l (drop_mode l ++ ":R")).

(* unexported helpers only reached through call sites of the same package: the
   mutexes held at EVERY call site are held inside *)
Definition internal_fns : list string :=
  ["find"; "Directory.findMembers"; "Directory.logSearchRequest"; "conn.interrupt"].

Definition inter (a b : list string) : list string := filter (fun x => mem x b) a.

Definition caller_locks (calls : list gcall) (f : string) : list string :=
  if mem f internal_fns then
    match filter (fun c => String.eqb (c_callee c) f) calls with
    | [] => []
    | c :: cs => fold_left (fun acc c' => inter acc (c_locks c')) cs (c_locks c)
    end
  else [].

Definition eff_locks (calls : list gcall) (a : gsite) : list string :=
  map canon_lock (g_locks a ++ caller_locks calls (g_fn a)).

Definition common_lock (la lb : list string) : bool :=
  existsb (fun x => existsb (fun y => String.eqb (drop_mode x) (drop_mode y) && (is_excl x || is_excl y)) lb) la.

(* ---- the justifications -------------------------------------------------- *)

Definition conn_scoped (field : string) : bool := starts_with "conn." field.

(* the ResponseWriter's writer is the connection's (newResponseWriter(c.writer, &c.writerMu, ...)):
   the objects behind the two fields are one *)
Definition canon_field (f : string) : string :=
  if String.eqb f "ResponseWriter.writer*" then "conn.writer*" else f.

Definition conflict (a b : gsite) : bool :=
  String.eqb (canon_field (g_field a)) (canon_field (g_field b)) && (g_write a || g_write b).

Definition first_line (calls : list gcall) (fn callee : string) : option nat :=
  match filter (fun c => String.eqb (c_fn c) fn && String.eqb (c_callee c) callee) calls with
  | [] => None
  | c :: cs => Some (fold_left (fun m c' => Nat.min m (c_line c')) cs (c_line c))
  end.

(* a is executed on the Run goroutine before the `go` statement of Server.Run *)
Definition lt_opt (o : option nat) (n : nat) : bool :=
  match o with Some l => Nat.ltb l n | None => false end.
Definition is_some {A} (o : option A) : bool := match o with Some _ => true | None => false end.

Definition pre_spawn (calls : list gcall) (a : gsite) : bool :=
  match first_line calls "Server.Run" "go Server.Run$1" with
  | None => false
  | Some sp =>
      if String.eqb (g_fn a) "Server.Run" then Nat.ltb (g_line a) sp
      else if String.eqb (g_fn a) "newConn" then lt_opt (first_line calls "Server.Run" "newConn") sp
      else if String.eqb (g_fn a) "conn.initConn" then
        lt_opt (first_line calls "Server.Run" "newConn") sp && is_some (first_line calls "newConn" "conn.initConn")
      else false
  end.

(* J5: written in Server.Run before the call of trackConn; the reader holds connsMu *)
Definition published (calls : list gcall) (w r : gsite) : bool :=
  String.eqb (g_field w) "conn.rawConn" && g_write w && negb (g_write r) &&
  String.eqb (g_fn w) "Server.Run" &&
  match first_line calls "Server.Run" "Server.trackConn" with
  | Some l => Nat.ltb (g_line w) l
  | None => false
  end &&
  mem "Server.connsMu:W" (eff_locks calls r).

Definition single_thread (t : thread) (field : string) : bool :=
  match t with
  | TInit | TRun => true
  | TLoop => conn_scoped field
  | _ => false
  end.

Definition justified (calls : list gcall) (a b : gsite) (ta tb : thread) : bool :=
  (* J1 *) common_lock (eff_locks calls a) (eff_locks calls b)
  (* J2 *) || (thread_eqb ta tb && single_thread ta (g_field a))
  (* J3 *) || (thread_eqb ta TInit && negb (thread_eqb tb TInit))
           || (thread_eqb tb TInit && negb (thread_eqb ta TInit))
  (* J4 *) || (thread_eqb ta TRun && (thread_eqb tb TLoop || thread_eqb tb THandler) && conn_scoped (g_field a) && pre_spawn calls a)
           || (thread_eqb tb TRun && (thread_eqb ta TLoop || thread_eqb ta THandler) && conn_scoped (g_field b) && pre_spawn calls b)
  (* J5 *) || published calls a b || published calls b a.

Definition pair_safe (calls : list gcall) (a b : gsite) : bool :=
  if conflict a b then
    forallb (fun ta => forallb (fun tb => justified calls a b ta tb) (fn_threads (g_fn b))) (fn_threads (g_fn a))
  else true.

Definition known (a : gsite) : bool :=
  match fn_threads (g_fn a) with [] => false | _ => true end.

Definition check_all (sites : list gsite) (calls : list gcall) : bool :=
  forallb known sites &&
  forallb (fun a => forallb (fun b => pair_safe calls a b) sites) sites.

(* for the replay file: the offending sites and pairs *)
Definition unknown_sites (sites : list gsite) : list gsite := filter (fun a => negb (known a)) sites.
Definition failing_pairs (sites : list gsite) (calls : list gcall) : list (gsite * gsite) :=
  flat_map (fun a => map (fun b => (a, b)) (filter (fun b => negb (pair_safe calls a b)) sites)) sites.

(* the pinned testdirectory: its handlers read the directory's fields with no
   lock held (F10); the same table with Directory.mu removed from the handlers *)
Definition strip_handler_lock (a : gsite) : gsite :=
  if starts_with "Directory.handle" (g_fn a)
  then mkSite (g_fn a) (g_field a) (g_write a) (filter (fun l => negb (String.eqb l "Directory.mu:W")) (g_locks a)) (g_line a)
  else a.
Definition strip_call_lock (c : gcall) : gcall :=
  if starts_with "Directory.handle" (c_fn c)
  then mkCall (c_fn c) (c_callee c) (filter (fun l => negb (String.eqb l "Directory.mu:W")) (c_locks c)) (c_line c)
  else c.
