(* Ldap.v — model of gldap's request path: packet.go (assert, basicValidation,
   requestMessageID, requestPacket, requestType, *Parameters, controlPacket),
   message.go newMessage, add.go decodeAttribute, control.go (decodeControl and
   the Encode methods), go-ldap's DecompileFilter/EscapeFilter, plus the typed
   requests a client can mean and their RFC 4511 encoding.   MODEL ONLY. *)
From Coq Require Import String Ascii.
From G Require Import Base Ber.
Open Scope N_scope.

Definition s2b (s : string) : bytes := map N_of_ascii (list_ascii_of_string s).

(* ---------------------------------------------------------------- *)
(* constants (checked against the source on every run: ConstsCheck.v) *)

Definition ApplicationBindRequest := 0.
Definition ApplicationBindResponse := 1.
Definition ApplicationUnbindRequest := 2.
Definition ApplicationSearchRequest := 3.
Definition ApplicationSearchResultEntry := 4.
Definition ApplicationSearchResultDone := 5.
Definition ApplicationModifyRequest := 6.
Definition ApplicationModifyResponse := 7.
Definition ApplicationAddRequest := 8.
Definition ApplicationAddResponse := 9.
Definition ApplicationDelRequest := 10.
Definition ApplicationDelResponse := 11.
Definition ApplicationExtendedRequest := 23.
Definition ApplicationExtendedResponse := 24.

Definition colon_dn : bytes := Eval vm_compute in s2b ":dn".
Definition oid_paging := Eval vm_compute in s2b "1.2.840.113556.1.4.319".
Definition oid_behera := Eval vm_compute in s2b "1.3.6.1.4.1.42.2.27.8.5.1".
Definition oid_vchu_change := Eval vm_compute in s2b "2.16.840.1.113730.3.4.4".
Definition oid_vchu_warn := Eval vm_compute in s2b "2.16.840.1.113730.3.4.5".
Definition oid_managedsait := Eval vm_compute in s2b "2.16.840.1.113730.3.4.2".
Definition oid_ms_notif := Eval vm_compute in s2b "1.2.840.113556.1.4.528".
Definition oid_ms_showdel := Eval vm_compute in s2b "1.2.840.113556.1.4.417".
Definition oid_ms_linkttl := Eval vm_compute in s2b "1.2.840.113556.1.4.2309".
Definition oid_starttls := Eval vm_compute in s2b "1.3.6.1.4.1.1466.20037".

(* ---------------------------------------------------------------- *)
(* typed values                                                       *)

Inductive control :=
| CPaging (size : N) (cookie : bytes)
| CBehera (expire grace err : Z)          (* -1 = not set *)
| CVChuChange
| CVChuWarn (expire : Z)
| CManageDsaIT (crit : bool)
| CMsNotif | CMsShowDel | CMsLinkTTL
| CString (oid : bytes) (crit : bool) (value : bytes).

Inductive filter :=
| FAnd (fs : list filter)
| FOr (fs : list filter)
| FNot (f : filter)
| FEq (a v : bytes)
| FSub (a : bytes) (init : option bytes) (anys : list bytes) (fin : option bytes)
| FGe (a v : bytes)
| FLe (a v : bytes)
| FPresent (a : bytes)
| FApprox (a v : bytes)
| FExt (rule : option bytes) (type : option bytes) (v : bytes) (dnattrs : bool).

Definition change := (Z * bytes * list bytes)%type.          (* operation, type, values *)
Definition attribute := (bytes * list bytes)%type.

Inductive request :=
| RBind (id : Z) (dn pw : bytes) (cs : list control)
| RSearch (id : Z) (base : bytes) (scope deref size time : Z) (typesonly : bool)
          (f : filter) (attrs : list bytes) (cs : list control)
| RModify (id : Z) (dn : bytes) (chs : list change) (cs : list control)
| RAdd (id : Z) (dn : bytes) (attrs : list attribute) (cs : list control)
| RDel (id : Z) (dn : bytes) (cs : list control)
| RExt (id : Z) (name : bytes) (value : option bytes)
| RUnbind (id : Z).

(* what a handler sees (message.go *Message structs) *)
Inductive message :=
| MBind (id : Z) (dn pw : bytes) (cs : list control)
| MSearch (id : Z) (base : bytes) (scope deref size time : Z) (typesonly : bool)
          (filter : bytes) (attrs : list bytes) (cs : list control)
| MModify (id : Z) (dn : bytes) (chs : list change) (cs : list control)
| MAdd (id : Z) (dn : bytes) (attrs : list attribute) (cs : list control)
| MDel (id : Z) (dn : bytes) (cs : list control)
| MExt (id : Z) (name : bytes)
| MUnbind (id : Z).

Definition msg_id (m : message) : Z :=
  match m with
  | MBind i _ _ _ | MSearch i _ _ _ _ _ _ _ _ _ | MModify i _ _ _ | MAdd i _ _ _
  | MDel i _ _ | MExt i _ | MUnbind i => i
  end.

(* route operation of a request (request.go newRequest) *)
Inductive routeop := OpBind | OpSearch | OpExt | OpModify | OpAdd | OpDel | OpUnbind.
Definition msg_op (m : message) : routeop :=
  match m with
  | MBind _ _ _ _ => OpBind | MSearch _ _ _ _ _ _ _ _ _ _ => OpSearch | MModify _ _ _ _ => OpModify
  | MAdd _ _ _ _ => OpAdd | MDel _ _ _ => OpDel | MExt _ _ => OpExt | MUnbind _ => OpUnbind
  end.

(* ---------------------------------------------------------------- *)
(* small packet constructors                                          *)

Definition octet (s : bytes) : pkt := new_string 0 false 4 s.
Definition ctx_prim (t : N) (s : bytes) : pkt := new_string 128 false t s.
Definition seq (ks : list pkt) : pkt := mk_cons 0 16 ks.
Definition set_of (ks : list pkt) : pkt := mk_cons 0 17 ks.
Definition ctx_cons (t : N) (ks : list pkt) : pkt := mk_cons 128 t ks.
Definition app_cons (t : N) (ks : list pkt) : pkt := mk_cons 64 t ks.
Definition app_prim (t : N) (s : bytes) : pkt := new_string 64 false t s.
Definition integer (z : Z) : pkt := new_integer 0 false 2 z.
Definition enumerated (z : Z) : pkt := new_integer 0 false 10 z.
Definition boolean (b : bool) : pkt := new_boolean 0 false 1 b.

(* strconv.FormatInt(z, 10) *)
Fixpoint dec_digits (fuel : nat) (n : N) (acc : bytes) : bytes :=
  match fuel with
  | O => acc
  | S f => let acc' := (48 + n mod 10) :: acc in
           if n <? 10 then acc' else dec_digits f (n / 10) acc'
  end.
Definition format_int (z : Z) : bytes :=
  match z with
  | Z0 => [48]
  | Zpos p => dec_digits 20 (Npos p) []
  | Zneg p => 45 :: dec_digits 20 (Npos p) []
  end.

(* strconv.ParseInt(s, 10, 64): optional sign, decimal digits, int64 range *)
Fixpoint parse_digits (bs : bytes) (acc : N) : option N :=
  match bs with
  | [] => Some acc
  | b :: r => if (48 <=? b) && (b <=? 57) then
                let acc' := acc * 10 + (b - 48) in
                (* cut off far above the int64 range so [acc] stays small *)
                if 2 ^ 70 <? acc' then None else parse_digits r acc'
              else None
  end.
Definition parse_int_dec (bs : bytes) : outcome Z :=
  match bs with
  | [] => Err
  | b :: r =>
    let '(neg, ds) := if b =? 45 then (true, r) else if b =? 43 then (false, r) else (false, bs) in
    match ds with
    | [] => Err
    | _ =>
      match parse_digits ds 0 with
      | None => Err
      | Some n =>
        if neg then (if 2 ^ 63 <? n then Err else Ok (- Z.of_N n)%Z)
        else (if 2 ^ 63 <=? n then Err else Ok (Z.of_N n))
      end
    end
  end.

(* ---------------------------------------------------------------- *)
(* control.go — Encode methods                                        *)

Definition control_head (oid : bytes) : pkt := octet oid.

Definition encode_control (c : control) : pkt :=
  match c with
  | CString oid crit v =>
    seq ([octet oid] ++ (if crit then [boolean true] else [])
                     ++ (match v with [] => [] | _ => [octet v] end))
  | CManageDsaIT crit => seq ([octet oid_managedsait] ++ (if crit then [boolean true] else []))
  | CMsNotif => seq [octet oid_ms_notif]
  | CMsLinkTTL => seq [octet oid_ms_linkttl]
  | CMsShowDel => seq [octet oid_ms_showdel]
  | CVChuChange => seq [octet oid_vchu_change]
  | CVChuWarn e => seq [octet oid_vchu_warn; octet (format_int e)]
  | CPaging size cookie =>
    (* the value packet is an OCTET STRING whose Data is the inner SEQUENCE's
       bytes (AppendChild on a primitive packet).  The in-memory packet also
       keeps the inner packet as a child; Bytes() ignores children of a
       primitive and a reader never produces them, so the model keeps the
       wire view (no children). *)
    let inner := seq [integer (Z.of_N size); octet cookie] in
    seq [octet oid_paging; octet (bytes_of inner)]
  | CBehera expire grace err =>
    let wrap inner := octet (bytes_of inner) in
    if (0 <=? grace)%Z then
      seq [octet oid_behera; wrap (seq [ctx_cons 0 [new_integer 128 false 1 grace]])]
    else if (0 <=? expire)%Z then
      seq [octet oid_behera; wrap (seq [ctx_cons 0 [new_integer 128 false 0 expire]])]
    else if (0 <=? err)%Z then
      seq [octet oid_behera; wrap (seq [new_integer 128 false 1 err])]
    else seq [octet oid_behera]
  end.

(* encodeControls *)
Definition encode_controls (cs : list control) : pkt := ctx_cons 0 (map encode_control cs).

(* NewControlBeheraPasswordPolicy(opts...): the three options are Go uints
   converted with int(...) (wraps above 2^63-1); -1 = option not given *)
Definition wrap_uint_to_int (u : N) : Z :=
  if 2 ^ 63 <=? u mod 2 ^ 64 then (Z.of_N (u mod 2 ^ 64) - 2 ^ 64)%Z else Z.of_N (u mod 2 ^ 64).
Definition int8_of (z : Z) : Z :=
  let m := (z mod 256)%Z in if (128 <=? m)%Z then (m - 256)%Z else m.

Definition new_behera (grace expire err : option N) : outcome control :=
  let g := match grace with None => (-1)%Z | Some u => wrap_uint_to_int u end in
  let e := match expire with None => (-1)%Z | Some u => wrap_uint_to_int u end in
  (* WithErrorCode saturates at math.MaxInt before converting (current tree);
     the pinned code wrapped like the other two options *)
  let c := match err with None => (-1)%Z | Some u => if 2 ^ 63 <=? u then (2 ^ 63 - 1)%Z else Z.of_N u end in
  if negb (g =? -1)%Z && negb (e =? -1)%Z then Err
  else if negb (g =? -1)%Z && negb (c =? -1)%Z then Err
  else if negb (e =? -1)%Z && negb (c =? -1)%Z then Err
  else if (8 <? c)%Z then Err
  else Ok (CBehera e g (int8_of c)).

(* ---------------------------------------------------------------- *)
(* control.go — decodeControl                                         *)

Section Decode.
  Variable prim_ok : N -> bytes -> bool.
  (* [strict] = true: comma-ok assertions and child-count checks (current
     tree); false: the pinned code, where they are unchecked (Go panics). *)
  Variable strict : bool.

  Definition fail_assert {A} : outcome A := if strict then Err else Panic.

  Definition as_string (p : pkt) : outcome bytes :=
    match value_of p with VStr s => Ok s | _ => fail_assert end.
  Definition as_bool (p : pkt) : outcome bool :=
    match value_of p with VBool b => Ok b | _ => fail_assert end.
  Definition as_int (p : pkt) : outcome Z :=
    match value_of p with VInt z => Ok z | _ => fail_assert end.
  Definition child (p : pkt) (i : nat) : outcome pkt :=
    match nth_error (p_kids p) i with Some c => Ok c | None => fail_assert end.

  (* value.Value != nil => re-parse value.Data as one packet and hang it under
     the value packet (Data.Truncate(0); Value = nil; AppendChild) *)
  Definition unwrap_value (v : pkt) : outcome pkt :=
    match value_of v with
    | VNil => Ok v
    | _ => do inner <- decode_packet prim_ok (p_data v);
           Ok (Pkt (p_id v) (bytes_of inner) (p_kids v ++ [inner]))
    end.

  Fixpoint behera_children (kids : list pkt) (c : Z * Z * Z) : outcome (Z * Z * Z) :=
    match kids with
    | [] => Ok c
    | ch :: r =>
      let '(expire, grace, err) := c in
      if p_tag ch =? 0 then
        do w <- child ch 0;
        do val <- parse_int64_err (p_data w);
        if p_tag w =? 0 then behera_children r (val, grace, err)
        else if p_tag w =? 1 then behera_children r (expire, val, err)
        else behera_children r c
      else if p_tag ch =? 1 then
        match p_data ch with
        | [b] => if 8 <? b then Err else behera_children r (expire, grace, int8_of (Z.of_N b))
        | _ => Err
        end
      else behera_children r c
    end.

  Definition decode_control (p : pkt) : outcome control :=
    let kids := p_kids p in
    do (ctype, crit, value) <-
      match kids with
      | [] => Err
      | [t] => do s <- as_string t; Ok (s, false, None)
      | [t; x] => do s <- as_string t;
                  match value_of x with
                  | VBool b => Ok (s, b, None)
                  | _ => Ok (s, false, Some x)
                  end
      | [t; c; v] => do s <- as_string t; do b <- as_bool c; Ok (s, b, Some v)
      | _ => Err
      end;
    if beq_bytes ctype oid_managedsait then Ok (CManageDsaIT crit)
    else if beq_bytes ctype oid_paging then
      match value with
      | None => Ok (CPaging 0 [])
      | Some v =>
        do v' <- unwrap_value v;
        match p_kids v' with
        | [] => Err
        | s :: _ =>
          do szp <- child s 0;
          do ckp <- child s 1;
          do sz <- as_int szp;
          Ok (CPaging (Z.to_N (sz mod 2 ^ 32)) (p_data ckp))
        end
      end
    else if beq_bytes ctype oid_behera then
      match value with
      | None => Ok (CBehera (-1) (-1) (-1))
      | Some v =>
        do v' <- unwrap_value v;
        match p_kids v' with
        | [] => Err
        | s :: _ =>
          do (e, g, c) <- behera_children (p_kids s) ((-1)%Z, (-1)%Z, (-1)%Z);
          Ok (CBehera e g c)
        end
      end
    else if beq_bytes ctype oid_vchu_change then Ok CVChuChange
    else if beq_bytes ctype oid_vchu_warn then
      match value with
      | None => Ok (CVChuWarn (-1))
      | Some v => do e <- parse_int_dec (p_data v); Ok (CVChuWarn e)
      end
    else if beq_bytes ctype oid_ms_notif then Ok CMsNotif
    else if beq_bytes ctype oid_ms_showdel then Ok CMsShowDel
    else if beq_bytes ctype oid_ms_linkttl then Ok CMsLinkTTL
    else
      match value with
      | None => Ok (CString ctype crit [])
      | Some v => do s <- as_string v; Ok (CString ctype crit s)
      end.

  (* ---------------------------------------------------------------- *)
  (* packet.go                                                          *)

  Definition assert_node (p : pkt) (cl : N) (k : bool) (t : option N) : bool :=
    (p_cls p =? cl) && Bool.eqb (p_cons p) k &&
    match t with None => true | Some t' => p_tag p =? t' end.

  Definition assert_child (p : pkt) (i : nat) (cl : N) (k : bool) (t : option N) : bool :=
    match nth_error (p_kids p) i with
    | None => false
    | Some c => assert_node c cl k t
    end.

  (* basicValidation *)
  Definition basic_validation (p : pkt) : bool :=
    (2 <=? length (p_kids p))%nat && assert_node p 0 true (Some 16).

  (* requestMessageID *)
  Definition request_message_id (p : pkt) : outcome Z :=
    if negb (basic_validation p) then Err else
    match p_kids p with
    | idp :: _ => if assert_node idp 0 false (Some 2) then as_int idp else Err
    | [] => Err
    end.

  (* assertApplicationRequest *)
  Definition assert_application_request (p : pkt) : bool :=
    match nth_error (p_kids p) 1 with
    | None => false
    | Some c =>
      (p_cls c =? 64) &&
      (if p_cons c then true else (p_tag c =? 10) || (p_tag c =? 2))
    end.

  (* requestPacket, including the LDAPv3 gate on Bind.  In the pinned code the
     error message of a wrong version evaluates requestPacket.Value.(int64) on
     the application packet, whose Value is nil: a panic. *)
  Definition request_packet (p : pkt) : outcome pkt :=
    if negb (basic_validation p) then Err else
    if negb (assert_application_request p) then Err else
    match nth_error (p_kids p) 1 with
    | None => Err
    | Some rp =>
      if p_tag rp =? 0 then
        if negb (assert_child rp 0 0 false (Some 2)) then Err else
        do vp <- child rp 0;
        do v <- as_int vp;
        if (v =? 3)%Z then Ok rp else fail_assert
      else Ok rp
    end.

  (* controlPacket + the decode loop shared by all *Parameters methods *)
  Definition decode_controls (p : pkt) : outcome (list control) :=
    match nth_error (p_kids p) 2 with
    | None => Ok []
    | Some cp =>
      if negb ((p_cls cp =? 128) && p_cons cp) then Err
      else mapM decode_control (p_kids cp)
    end.

  Definition child_data (p : pkt) (i : nat) : bytes :=
    match nth_error (p_kids p) i with Some c => p_data c | None => [] end.

  (* go-ldap EscapeFilter *)
  Definition hex_digit (n : N) : N := if n <? 10 then 48 + n else 87 + n.
  Definition must_escape (c : N) : bool :=
    (127 <? c) || (c =? 40) || (c =? 41) || (c =? 92) || (c =? 42) || (c =? 0).
  Fixpoint escape_filter (s : bytes) : bytes :=
    match s with
    | [] => []
    | c :: r => if must_escape c then 92 :: hex_digit (c / 16) :: hex_digit (c mod 16) :: escape_filter r
                else c :: escape_filter r
    end.

  (* go-ldap DecompileFilter; its internal recover() turns index and type
     assertion panics into an error *)
  Definition kid_data_err (p : pkt) (i : nat) : outcome bytes :=
    match nth_error (p_kids p) i with Some c => Ok (p_data c) | None => Err end.

  Fixpoint sub_parts (i : nat) (kids : list pkt) : bytes :=
    match kids with
    | [] => []
    | ch :: r =>
      (if (i =? 0)%nat && negb (p_tag ch =? 0) then [42] else []) ++
      escape_filter (p_data ch) ++
      (if negb (p_tag ch =? 2) then [42] else []) ++
      sub_parts (S i) r
    end.

  Fixpoint ext_parts (kids : list pkt) (acc : bytes * bool * bytes * bytes) : outcome (bytes * bool * bytes * bytes) :=
    match kids with
    | [] => Ok acc
    | ch :: r =>
      let '(attr, dn, rule, v) := acc in
      if p_tag ch =? 1 then ext_parts r (attr, dn, p_data ch, v)
      else if p_tag ch =? 2 then ext_parts r (p_data ch, dn, rule, v)
      else if p_tag ch =? 3 then ext_parts r (attr, dn, rule, p_data ch)
      else if p_tag ch =? 4 then
        match value_of ch with VBool b => ext_parts r (attr, b, rule, v) | _ => Err end
      else ext_parts r acc
    end.

  Fixpoint decompile (fuel : nat) (p : pkt) {struct fuel} : outcome bytes :=
    match fuel with
    | O => Err
    | S f =>
      let t := p_tag p in
      let wrap body := Ok ([40] ++ body ++ [41]) in
      if (t =? 0) || (t =? 1) then
        do parts <- mapM (decompile f) (p_kids p);
        wrap ((if t =? 0 then [38] else [124]) ++ concat parts)
      else if t =? 2 then
        match p_kids p with
        | c :: _ => do s <- decompile f c; wrap (33 :: s)
        | [] => Err
        end
      else if t =? 4 then
        do a <- kid_data_err p 0;
        match nth_error (p_kids p) 1 with
        | Some s => wrap (a ++ [61] ++ sub_parts 0 (p_kids s))
        | None => Err
        end
      else if (t =? 3) || (t =? 5) || (t =? 6) || (t =? 8) then
        do a <- kid_data_err p 0;
        do v <- kid_data_err p 1;
        let opstr := if t =? 3 then [61] else if t =? 5 then [62; 61] else if t =? 6 then [60; 61] else [126; 61] in
        wrap (a ++ opstr ++ escape_filter v)
      else if t =? 7 then wrap (p_data p ++ [61; 42])
      else if t =? 9 then
        do (attr, dn, rule, v) <- ext_parts (p_kids p) ([], false, [], []);
        wrap (attr ++ (if dn then colon_dn else []) ++
              (match rule with [] => [] | _ => 58 :: rule end) ++ [58; 61] ++ escape_filter v)
      else wrap []
    end.

  (* depth of a packet: enough fuel for decompile *)
  Fixpoint pdepth (p : pkt) : nat :=
    match p with Pkt _ _ ks => S (fold_right (fun k a => Nat.max (pdepth k) a) 0%nat ks) end.

  Definition decompile_filter (p : pkt) : outcome bytes := decompile (pdepth p) p.

  (* add.go decodeAttribute *)
  Definition decode_attribute (p : pkt) : outcome attribute :=
    if negb (assert_node p 0 true (Some 16)) then Err else
    if negb (assert_child p 0 0 false (Some 4)) then Err else
    if negb (assert_child p 1 0 true (Some 17)) then Err else
    match nth_error (p_kids p) 1 with
    | None => Err
    | Some vs =>
      if forallb (fun v => assert_node v 0 false (Some 4)) (p_kids vs)
      then Ok (child_data p 0, map p_data (p_kids vs))
      else Err
    end.

  (* modifyParameters: one change.  Values: one element per child of the SET,
     each in its BER-wrapped form (value.Bytes()) — current tree; [modfix]
     false is the pinned loop over modification.Children[1:] taking Data. *)
  Variable modfix : bool.

  Definition decode_change (c : pkt) : outcome change :=
    if negb (assert_node c 0 true (Some 16)) then Err else
    if negb (assert_child c 0 0 false (Some 10)) then Err else
    do opp <- child c 0;
    do op <- as_int opp;
    if negb (assert_child c 1 0 true (Some 16)) then Err else
    do m <- child c 1;
    if negb (assert_child m 0 0 false (Some 4)) then Err else
    match p_kids m with
    | _ :: vs :: rest =>
      if modfix then Ok (op, child_data m 0, map bytes_of (p_kids vs))
      else Ok (op, child_data m 0, map p_data (vs :: rest))
    | _ => Err
    end.

  (* message.go newMessage (with requestType inlined) *)
  Definition new_message (p : pkt) : outcome message :=
    do rp <- request_packet p;
    let t := p_tag rp in
    if negb ((t =? 0) || (t =? 3) || (t =? 23) || (t =? 6) || (t =? 8) || (t =? 10) || (t =? 2)) then Err else
    do id <- request_message_id p;
    if t =? 2 then Ok (MUnbind id)
    else if t =? 0 then
      if negb (assert_child rp 1 0 false (Some 4)) then Err else
      let user := child_data rp 1 in
      if (3 <? length (p_kids rp))%nat then Ok (MBind id user [] []) else
      if negb (assert_child rp 2 128 false (Some 0)) then Err else
      do cs <- decode_controls p;
      Ok (MBind id user (child_data rp 2) cs)
    else if t =? 3 then
      if negb (assert_child rp 0 0 false (Some 4)) then Err else
      if negb (assert_child rp 1 0 false (Some 10)) then Err else
      do scp <- child rp 1; do scope <- as_int scp;
      if negb (assert_child rp 2 0 false (Some 10)) then Err else
      do drp <- child rp 2; do deref <- as_int drp;
      if negb (assert_child rp 3 0 false (Some 2)) then Err else
      do szp <- child rp 3; do size <- as_int szp;
      if negb (assert_child rp 4 0 false (Some 2)) then Err else
      do tmp <- child rp 4; do time <- as_int tmp;
      if negb (assert_child rp 5 0 false (Some 1)) then Err else
      do typ <- child rp 5; do typesonly <- as_bool typ;
      match nth_error (p_kids rp) 6 with
      | None => Err
      | Some fp =>
        do fs <- decompile_filter fp;
        match nth_error (p_kids rp) 7 with
        | None => Ok (MSearch id (child_data rp 0) scope deref size time typesonly fs [] [])
        | Some ap =>
          if negb (assert_node ap 0 true (Some 16)) then Err else
          if negb (forallb (fun a => assert_node a 0 false (Some 4)) (p_kids ap)) then Err else
          do cs <- decode_controls p;
          Ok (MSearch id (child_data rp 0) scope deref size time typesonly fs (map p_data (p_kids ap)) cs)
        end
      end
    else if t =? 23 then
      if negb (assert_child rp 0 128 false (Some 0)) then Err else
      Ok (MExt id (child_data rp 0))
    else if t =? 6 then
      if negb (assert_child rp 0 0 false (Some 4)) then Err else
      if negb (assert_child rp 1 0 true (Some 16)) then Err else
      do chp <- child rp 1;
      do chs <- mapM decode_change (p_kids chp);
      do cs <- decode_controls p;
      Ok (MModify id (child_data rp 0) chs cs)
    else if t =? 8 then
      if negb (assert_child rp 0 0 false (Some 4)) then Err else
      if negb (assert_child rp 1 0 true (Some 16)) then Err else
      do ap <- child rp 1;
      do attrs <- mapM decode_attribute (p_kids ap);
      do cs <- decode_controls p;
      Ok (MAdd id (child_data rp 0) attrs cs)
    else (* t = 10 *)
      do cs <- decode_controls p;
      Ok (MDel id (p_data rp) cs).

  (* conn.readPacket + conn.readRequest: one frame from the stream *)
  Definition server_receive_rest (bs : bytes) : outcome (message * bytes) :=
    do (p, rest) <- read_packet prim_ok bs;
    if negb (basic_validation p) then Err else
    do m <- new_message p;
    Ok (m, rest).

  Definition server_receive (bs : bytes) : outcome message := omap fst (server_receive_rest bs).

  (* frame after frame until the first failure or the end of the stream *)
  Fixpoint serve_stream (fuel : nat) (bs : bytes) : list (outcome message) :=
    match fuel with
    | O => []
    | S f =>
      match bs with
      | [] => []
      | _ =>
        match server_receive_rest bs with
        | Ok (m, rest) => Ok m :: (match m with MUnbind _ => [] | _ => serve_stream f rest end)
        | Err => [Err]
        | Panic => [Panic]
        end
      end
    end.
End Decode.

(* ---------------------------------------------------------------- *)
(* client side: RFC 4511 encoding of typed requests (go-ldap appendTo) *)

Fixpoint enc_filter (f : filter) : pkt :=
  match f with
  | FAnd fs => ctx_cons 0 (map enc_filter fs)
  | FOr fs => ctx_cons 1 (map enc_filter fs)
  | FNot g => ctx_cons 2 [enc_filter g]
  | FEq a v => ctx_cons 3 [octet a; octet v]
  | FSub a i anys fin =>
    ctx_cons 4 [octet a;
                seq ((match i with Some s => [ctx_prim 0 s] | None => [] end) ++
                     map (ctx_prim 1) anys ++
                     (match fin with Some s => [ctx_prim 2 s] | None => [] end))]
  | FGe a v => ctx_cons 5 [octet a; octet v]
  | FLe a v => ctx_cons 6 [octet a; octet v]
  | FPresent a => ctx_prim 7 a
  | FApprox a v => ctx_cons 8 [octet a; octet v]
  | FExt rule type v dn =>
    ctx_cons 9 ((match rule with Some r => [ctx_prim 1 r] | None => [] end) ++
                (match type with Some t => [ctx_prim 2 t] | None => [] end) ++
                [ctx_prim 3 v] ++
                (if dn then [new_string 128 false 4 [255]] else []))
  end.

Definition enc_attribute (a : attribute) : pkt :=
  seq [octet (fst a); set_of (map octet (snd a))].
Definition enc_change (c : change) : pkt :=
  let '(op, t, vs) := c in seq [enumerated op; seq [octet t; set_of (map octet vs)]].

Definition envelope (id : Z) (op : pkt) (cs : list control) : pkt :=
  seq ([integer id; op] ++ match cs with [] => [] | _ => [encode_controls cs] end).

Definition enc_request (r : request) : pkt :=
  match r with
  | RBind id dn pw cs => envelope id (app_cons 0 [integer 3; octet dn; ctx_prim 0 pw]) cs
  | RSearch id base scope deref size time ty f attrs cs =>
    envelope id (app_cons 3 [octet base; enumerated scope; enumerated deref; integer size; integer time;
                             boolean ty; enc_filter f; seq (map octet attrs)]) cs
  | RModify id dn chs cs => envelope id (app_cons 6 [octet dn; seq (map enc_change chs)]) cs
  | RAdd id dn attrs cs => envelope id (app_cons 8 [octet dn; seq (map enc_attribute attrs)]) cs
  | RDel id dn cs => envelope id (app_prim 10 dn) cs
  | RExt id name v =>
    envelope id (app_cons 23 ([ctx_prim 0 name] ++ match v with Some x => [ctx_prim 1 x] | None => [] end)) []
  | RUnbind id => envelope id (app_prim 2 []) []
  end.

Definition wire (r : request) : bytes := bytes_of (enc_request r).

(* ---------------------------------------------------------------- *)
(* the specification side of C01: what the handler must see            *)

(* RFC 4515 string form of a filter *)
Fixpoint print_filter (f : filter) : bytes :=
  let esc := escape_filter in
  [40] ++
  match f with
  | FAnd fs => 38 :: concat (map print_filter fs)
  | FOr fs => 124 :: concat (map print_filter fs)
  | FNot g => 33 :: print_filter g
  | FEq a v => a ++ [61] ++ esc v
  | FGe a v => a ++ [62; 61] ++ esc v
  | FLe a v => a ++ [60; 61] ++ esc v
  | FApprox a v => a ++ [126; 61] ++ esc v
  | FPresent a => a ++ [61; 42]
  | FSub a i anys fin =>
    a ++ [61] ++
    (match i with Some s => esc s ++ [42] | None => [42] end) ++
    concat (map (fun s => esc s ++ [42]) anys) ++
    (match fin with Some s => esc s | None => [] end)
  | FExt rule type v dn =>
    (match type with Some t => t | None => [] end) ++
    (if dn then colon_dn else []) ++
    (match rule with Some (r0 :: r) => 58 :: r0 :: r | _ => [] end) ++ [58; 61] ++ esc v
  end ++ [41].

(* the fields of a control that the property names; identity except where the
   encoding cannot carry the value (documented in C14) *)
Definition norm_control (c : control) : control :=
  match c with
  | CBehera e g err =>
    if (0 <=? g)%Z then CBehera (-1) g (-1)
    else if (0 <=? e)%Z then CBehera e (-1) (-1)
    else if (0 <=? err)%Z then CBehera (-1) (-1) err
    else CBehera (-1) (-1) (-1)
  | c => c
  end.

Definition wrap_value (s : bytes) : bytes := bytes_of (octet s).

Definition msg_of_request (r : request) : message :=
  match r with
  | RBind id dn pw cs => MBind id dn pw (map norm_control cs)
  | RSearch id base scope deref size time ty f attrs cs =>
    MSearch id base scope deref size time ty (print_filter f) attrs (map norm_control cs)
  | RModify id dn chs cs =>
    MModify id dn (map (fun '(op, t, vs) => (op, t, map wrap_value vs)) chs) (map norm_control cs)
  | RAdd id dn attrs cs => MAdd id dn attrs (map norm_control cs)
  | RDel id dn cs => MDel id dn (map norm_control cs)
  | RExt id name _ => MExt id name
  | RUnbind id => MUnbind id
  end.
