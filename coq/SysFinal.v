(* SysFinal.v - Stop's interrupt is final: once a connection has been interrupted
   (interrupt() expired its deadlines) no step of the system - the connection's own loop, a
   handler, the environment, another Stop, Run - makes it uninterrupted again.  This is the
   model-side statement of "nothing but interrupt() and the accept-time timeouts sets a
   deadline" (the deadline sites are counted in the source by `vh cfgflags`, CfgTie.v). *)
From G Require Import Base Sys SysProofs SysProps.
From Coq Require Import List Arith Lia Bool.
Import ListNotations.

Lemma conn_step_interrupted cfg s c c' e : conn_step cfg s c = Some (c', e) -> interrupted c' = interrupted c.
Proof.
  unfold conn_step. intros H.
  destruct (pc c) as [| | |k sc|todo|].
  - inversion H; reflexivity.
  - destruct (cancelled s); [destruct (can_write c); [|discriminate]|]; inversion H; reflexivity.
  - destruct (input c) as [|it rest]; [destruct (eof c || interrupted c); [|discriminate]; inversion H; reflexivity|].
    destruct it as [k sc| |]; [destruct k; [| |destruct (has_unbind_route cfg)]|..]; inversion H; reflexivity.
  - destruct sc as [|h rest]; [destruct k; inversion H; reflexivity|].
    destruct (negb (hstep_enabled s c h)); [discriminate|].
    destruct h; [|destruct (recovery cfg)|..]; inversion H; reflexivity.
  - destruct todo as [|t rest]; [inversion H; reflexivity|].
    destruct t; [|destruct (inflight c =? 0); [|discriminate]| |destruct (negb (has_onclose cfg)); [|destruct (onclose_held s); [discriminate|]]|];
      inversion H; reflexivity.
  - discriminate.
Qed.

Lemma handler_step_interrupted cfg s c r c' e : handler_step cfg s c r = Some (c', e) -> interrupted c' = interrupted c.
Proof.
  unfold handler_step. intros H. destruct (take_handler r (hs c)) as [[sc others]|]; [|discriminate].
  destruct sc as [|h rest]; [inversion H; reflexivity|].
  destruct (negb (hstep_enabled s c h)); [discriminate|].
  destruct h; [|destruct (recovery cfg && handler_rec cfg)|..]; inversion H; reflexivity.
Qed.

Lemma interrupt_tracked_mono c : interrupted c = true -> interrupted (interrupt_tracked c) = true.
Proof. unfold interrupt_tracked. destruct (tracked c); [reflexivity|auto]. Qed.

Lemma nth_update_nth_same {A} (f : A -> A) l i x : nth_error l i = Some x -> nth_error (update_nth i f l) i = Some (f x).
Proof.
  revert i. induction l as [|y r IH]; intros [|i] H; cbn in *; try discriminate.
  - inversion H; reflexivity.
  - apply IH; exact H.
Qed.

Lemma nth_update_nth_other {A} (f : A -> A) l i j : i <> j -> nth_error (update_nth i f l) j = nth_error l j.
Proof.
  revert i j. induction l as [|y r IH]; intros [|i] [|j] H; cbn; try reflexivity; try congruence.
  apply IH. congruence.
Qed.

Theorem interrupt_is_final cfg s l s' i c :
  step cfg s l = Some s' -> conn_of s i c -> interrupted c = true ->
  exists c', conn_of s' i c' /\ interrupted c' = true.
Proof.
  unfold conn_of. intros Hs Hc Hi. unfold step in Hs. destruct (negb (alive s)); [discriminate|].
  assert (Hupd : forall j (f : conn -> conn) cs, cs = update_nth j f (conns s) ->
                 (forall x, nth_error (conns s) j = Some x -> interrupted x = true -> interrupted (f x) = true) ->
                 exists c', nth_error cs i = Some c' /\ interrupted c' = true).
  { intros j f cs -> Hf. destruct (Nat.eq_dec j i) as [->|Hne].
    - exists (f c). split; [apply nth_update_nth_same; exact Hc|apply Hf; assumption].
    - exists c. split; [rewrite nth_update_nth_other by exact Hne; exact Hc|exact Hi]. }
  destruct l as [|si|ci|ci ri|v o| | |ci it|ci|ci b|b|b|].
  - destruct (run_step_conns cfg s s' Hs) as [E|[b E]]; rewrite E.
    + exists c; split; assumption.
    + exists c; split; [rewrite nth_error_app1; [exact Hc|apply nth_error_Some; congruence]|exact Hi].
  - destruct (stop_step_conns cfg s si s' Hs) as [E|E]; rewrite E.
    + exists c; split; assumption.
    + exists (interrupt_tracked c). split; [unfold interrupt_all; rewrite nth_error_map, Hc; reflexivity|apply interrupt_tracked_mono; exact Hi].
  - destruct (with_conn_frame _ _ _ _ Hs) as [_ (c0 & c1 & e & Hn & Hf & E & _)].
    apply (Hupd ci (fun _ => c1) _ E). intros x Hx Hxi. rewrite Hx in Hn. inversion Hn; subst.
    rewrite (conn_step_interrupted _ _ _ _ _ Hf). exact Hxi.
  - destruct (with_conn_frame _ _ _ _ Hs) as [_ (c0 & c1 & e & Hn & Hf & E & _)].
    apply (Hupd ci (fun _ => c1) _ E). intros x Hx Hxi. rewrite Hx in Hn. inversion Hn; subst.
    rewrite (handler_step_interrupted _ _ _ _ _ _ Hf). exact Hxi.
  - destruct (run s); try discriminate. inversion Hs; subst; cbn. exists c; split; assumption.
  - inversion Hs; subst; cbn. exists c; split; assumption.
  - destruct (lst s); try discriminate. inversion Hs; subst; cbn. exists c; split; assumption.
  - destruct (upd_conn_env_frame _ _ _ _ Hs) as (_ & _ & _ & E). apply (Hupd ci _ _ E). intros x _ Hx. exact Hx.
  - destruct (upd_conn_env_frame _ _ _ _ Hs) as (_ & _ & _ & E). apply (Hupd ci _ _ E). intros x _ Hx. exact Hx.
  - destruct (upd_conn_env_frame _ _ _ _ Hs) as (_ & _ & _ & E). apply (Hupd ci _ _ E). intros x _ Hx. exact Hx.
  - inversion Hs; subst; cbn. exists c; split; assumption.
  - inversion Hs; subst; cbn. exists c; split; assumption.
  - inversion Hs; subst; cbn. exists c; split; assumption.
Qed.

(* over any continuation of the run *)
Theorem interrupt_is_final_run cfg ls : forall s s' i c,
  run_labels cfg s ls = Some s' -> conn_of s i c -> interrupted c = true ->
  exists c', conn_of s' i c' /\ interrupted c' = true.
Proof.
  induction ls as [|l r IH]; intros s s' i c Hr Hc Hi; cbn in Hr.
  - inversion Hr; subst. exists c; split; assumption.
  - destruct (step cfg s l) as [s1|] eqn:E; [|discriminate].
    destruct (interrupt_is_final cfg s l s1 i c E Hc Hi) as (c1 & Hc1 & Hi1).
    exact (IH s1 s' i c1 Hr Hc1 Hi1).
Qed.
