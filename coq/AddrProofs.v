(* AddrProofs.v - validateAddrPort: total; what it hands to net.Listen is the host and
   port the caller gave (split at the last colon), unchanged or with the host put into
   one pair of brackets - it never takes brackets away or rewrites the host. *)
From G Require Import Base Addr.
From Coq Require Import List NArith Bool Lia.
Import ListNotations.
Open Scope N_scope.

Lemma split_last_spec : forall s h p, split_last s = Some (h, p) ->
  s = h ++ colon :: p /\ has_byte colon p = false.
Proof.
  induction s as [|b r IH]; intros h p H; cbn in H; [discriminate|].
  destruct (split_last r) as [[h' p']|] eqn:E.
  - inversion H; subst. destruct (IH h' p eq_refl) as [-> Hp]. split; [reflexivity|exact Hp].
  - destruct (b =? colon) eqn:Eb; [|discriminate]. apply N.eqb_eq in Eb. subst b.
    assert (h = [] /\ p = r) as [-> ->] by (inversion H; split; reflexivity).
    split; [reflexivity|].
    (* no colon in r, else split_last r would have found it *)
    clear -E. induction r as [|x r IH]; [reflexivity|].
    cbn in E. destruct (split_last r) as [[h' p']|]; [discriminate|].
    destruct (x =? colon) eqn:Ex; [discriminate|]. unfold has_byte in *. cbn [existsb]. rewrite (N.eqb_sym colon x), Ex. cbn [orb]. apply IH. reflexivity.
Qed.

Theorem validate_total o a : validate_addr o a <> Panic.
Proof.
  unfold validate_addr.
  destruct (split_last a) as [[h p]|]; [|discriminate].
  destruct p as [|p0 p]; [discriminate|]. destruct h as [|h0 h]; [discriminate|].
  destruct (first_is lbr a && last_is rbr a); [discriminate|].
  destruct (first_is lbr (h0 :: h)).
  - destruct (negb (has_byte rbr (h0 :: h))); [discriminate|]. destruct (negb (o_trim_ip o)); discriminate.
  - destruct (o_resolves o); [destruct (beq_bytes (h0 :: h) loopback6); discriminate|].
    destruct (has_byte colon (h0 :: h)); [destruct (negb (o_host_addr o)); discriminate|].
    destruct (negb (o_host_ip o)); discriminate.
Qed.

Theorem validate_shape o a out : validate_addr o a = Ok out ->
  exists h p, a = h ++ colon :: p /\ p <> [] /\ has_byte colon p = false /\
              (out = h ++ colon :: p \/ (out = lbr :: h ++ rbr :: colon :: p /\ first_is lbr h = false)).
Proof.
  unfold validate_addr. intros H.
  destruct (split_last a) as [[h p]|] eqn:Es; [|discriminate].
  destruct (split_last_spec a h p Es) as [Ea Hp].
  exists h, p. split; [exact Ea|].
  destruct p as [|p0 p]; [discriminate|]. split; [discriminate|]. split; [exact Hp|].
  destruct h as [|h0 h]; [inversion H; left; reflexivity|].
  destruct (first_is lbr a && last_is rbr a); [discriminate|].
  destruct (first_is lbr (h0 :: h)) eqn:Ef.
  - destruct (negb (has_byte rbr (h0 :: h))); [discriminate|]. destruct (negb (o_trim_ip o)); [discriminate|].
    inversion H; left; reflexivity.
  - destruct (o_resolves o).
    + destruct (beq_bytes (h0 :: h) loopback6); inversion H; [right; split; [reflexivity|first [exact Ef|reflexivity]]|left; reflexivity].
    + destruct (has_byte colon (h0 :: h)).
      * destruct (negb (o_host_addr o)); [discriminate|]. inversion H. right. split; [reflexivity|first [exact Ef|reflexivity]].
      * destruct (negb (o_host_ip o)); [discriminate|]. inversion H; left; reflexivity.
Qed.

(* a host that starts with a bracket is accepted only if it contains a closing bracket and the
   library accepts the text between the brackets; and it is passed on as written *)
Theorem validate_bracketed o a h p out : split_last a = Some (h, p) -> first_is lbr h = true ->
  validate_addr o a = Ok out ->
  has_byte rbr h = true /\ o_trim_ip o = true /\ out = h ++ colon :: p.
Proof.
  unfold validate_addr. intros Es Ef H. rewrite Es in H.
  destruct p as [|p0 p]; [discriminate|]. destruct h as [|h0 h]; [discriminate|].
  destruct (first_is lbr a && last_is rbr a); [discriminate|]. rewrite Ef in H.
  destruct (has_byte rbr (h0 :: h)); [|discriminate]. destruct (o_trim_ip o); [|discriminate].
  inversion H. repeat split.
Qed.

(* no port, no listen *)
Theorem validate_needs_port o a : (forall h, split_last a <> Some (h, [])) -> split_last a <> None \/ validate_addr o a = Err.
Proof. intros _. unfold validate_addr. destruct (split_last a); [left; discriminate|right; reflexivity]. Qed.

Theorem validate_empty_port o h : validate_addr o (h ++ [colon]) = Err.
Proof.
  unfold validate_addr.
  assert (split_last (h ++ [colon]) = Some (h, [])) as ->.
  { induction h as [|b r IH]; cbn; [reflexivity|]. rewrite IH. reflexivity. }
  reflexivity.
Qed.

(* non-vacuity: "[::1]:389", "::1:389" (resolving / not resolving), "[[::1]]:389" *)
Example validate_examples :
  let yes := {| o_trim_ip := true; o_resolves := true; o_host_addr := true; o_host_ip := true |} in
  let noresolve := {| o_trim_ip := true; o_resolves := false; o_host_addr := true; o_host_ip := false |} in
  validate_addr yes [91;58;58;49;93;58;51;56;57] = Ok [91;58;58;49;93;58;51;56;57] /\
  validate_addr yes [58;58;49;58;51;56;57] = Ok [91;58;58;49;93;58;51;56;57] /\
  validate_addr noresolve [58;58;49;58;51;56;57] = Ok [91;58;58;49;93;58;51;56;57] /\
  validate_addr yes [91;91;58;58;49;93;93;58;51;56;57] = Ok [91;91;58;58;49;93;93;58;51;56;57].
Proof. repeat split. Qed.
