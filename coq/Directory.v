(* Directory.v — model of testdirectory/directory.go: match (the fixed regular
   expression \((.*?)\) + ReplaceAll/Trim/TrimSpace/Contains), find,
   findMembers, and the bind / add / modify / delete / search handlers behind
   the directory's route table; plus the abstract store the property speaks
   about (DirSpec).   MODEL ONLY. *)
From G Require Import Base Ber Helpers Ldap.
Open Scope N_scope.

(* ---------------------------------------------------------------- *)
(* strings                                                            *)

Fixpoint prefixb (p s : bytes) : bool :=
  match p, s with
  | [], _ => true
  | x :: p', y :: s' => (x =? y) && prefixb p' s'
  | _ :: _, [] => false
  end.

(* strings.Contains(s, sub) *)
Fixpoint contains (s sub : bytes) : bool :=
  prefixb sub s || match s with [] => false | _ :: r => contains r sub end.

Fixpoint dropwhile (p : N -> bool) (s : bytes) : bytes :=
  match s with [] => [] | c :: r => if p c then dropwhile p r else s end.
(* strings.Trim(s, cutset) for a cutset given as a predicate *)
Definition trim (p : N -> bool) (s : bytes) : bytes := rev (dropwhile p (rev (dropwhile p s))).

Definition is_space (c : N) : bool := (c =? 32) || ((9 <=? c) && (c <=? 13)).

(* regexp \((.*?)\) FindAllString: leftmost, non-greedy, non-overlapping;
   '.' does not match a newline *)
Fixpoint take_until_close (s : bytes) : option (bytes * bytes) :=
  match s with
  | [] => None
  | c :: r => if c =? 41 then Some ([], r)
              else if c =? 10 then None
              else match take_until_close r with Some (b, rest) => Some (c :: b, rest) | None => None end
  end.

Fixpoint find_all (fuel : nat) (s : bytes) : list bytes :=
  match fuel with
  | O => []
  | S f =>
    match s with
    | [] => []
    | c :: r =>
      if c =? 40 then
        match take_until_close r with
        | Some (body, rest) => (40 :: body ++ [41]) :: find_all f rest
        | None => find_all f r
        end
      else find_all f r
    end
  end.

(* one element of match's loop *)
Definition clean_element (e : bytes) : bytes :=
  let e1 := List.filter (fun c => negb (c =? 42)) e in          (* ReplaceAll "*" "" *)
  let e2 := trim (fun c => (c =? 124) || (c =? 40)) e1 in  (* Trim "|(" *)
  let e3 := trim (fun c => c =? 40) e2 in                  (* Trim "(" *)
  let e4 := trim (fun c => c =? 41) e3 in                  (* Trim ")" *)
  trim is_space e4.                                         (* TrimSpace *)

(* match(filter, attr) *)
Definition match_filter (flt attr : bytes) : bool :=
  existsb (fun e => contains attr (clean_element e)) (find_all (S (length flt)) flt).

(* ---------------------------------------------------------------- *)
(* directory state                                                    *)

Definition dattr := (bytes * list bytes)%type.
Record dentry := { d_dn : bytes; d_attrs : list dattr }.

Record dir := {
  users : list dentry;
  groups : list dentry;
  anon : bool;
  user_dn : bytes;             (* base DN of the users search route *)
  group_dn : bytes
}.

Definition set_users (d : dir) (us : list dentry) : dir :=
  {| users := us; groups := groups d; anon := anon d; user_dn := user_dn d; group_dn := group_dn d |}.
Definition set_groups (d : dir) (gs : list dentry) : dir :=
  {| users := users d; groups := gs; anon := anon d; user_dn := user_dn d; group_dn := group_dn d |}.
Definition set_anon (d : dir) (b : bool) : dir :=
  {| users := users d; groups := groups d; anon := b; user_dn := user_dn d; group_dn := group_dn d |}.

(* Entry.GetAttributeValues: first attribute with exactly that name *)
Fixpoint attr_values (attrs : list dattr) (name : bytes) : list bytes :=
  match attrs with
  | [] => []
  | (n, vs) :: r => if beq_bytes n name then vs else attr_values r name
  end.

Definition password_name : bytes := [112; 97; 115; 115; 119; 111; 114; 100].
Definition member_name : bytes := [109; 101; 109; 98; 101; 114].
Definition member_eq : bytes := [109; 101; 109; 98; 101; 114; 61].

Definition ResultSuccess : Z := 0.
Definition ResultProtocolError : Z := 2.
Definition ResultInappropriateMatching : Z := 18.
Definition ResultNoSuchObject : Z := 32.
Definition ResultInvalidCredentials : Z := 49.
Definition ResultEntryAlreadyExists : Z := 68.
Definition ResultOperationsError : Z := 1.

Definition is_nil_b (b : bytes) : bool := match b with [] => true | _ => false end.

(* handleBind *)
Definition user_accepts (dn pw : bytes) (u : dentry) : bool :=
  beq_bytes (d_dn u) dn &&
  match attr_values (d_attrs u) password_name with
  | v :: _ => beq_bytes pw v
  | [] => false
  end.

Definition handle_bind (d : dir) (dn pw : bytes) : Z :=
  if is_nil_b pw && anon d then ResultSuccess
  else if existsb (user_accepts dn pw) (users d) then ResultSuccess
  else ResultInvalidCredentials.

(* find(filter, entries): matching entries with their indexes *)
Definition find (flt : bytes) (es : list dentry) : list dentry :=
  List.filter (fun e => match_filter flt (d_dn e)) es.

Definition paren (dn : bytes) : bytes := 40 :: dn ++ [41].

Fixpoint remove_nth {A} (n : nat) (l : list A) : list A :=
  match n, l with
  | _, [] => []
  | O, _ :: r => r
  | S n', x :: r => x :: remove_nth n' r
  end.

Fixpoint update_nth {A} (n : nat) (f : A -> A) (l : list A) : list A :=
  match n, l with
  | _, [] => []
  | O, x :: r => f x :: r
  | S n', x :: r => x :: update_nth n' f r
  end.

(* handleAdd: attributes go through a Go map (a later duplicate type wins)
   and NewEntry (sorted by name) *)
Fixpoint attrs_to_map (attrs : list dattr) (m : gomap) : gomap :=
  match attrs with
  | [] => m
  | (t, vs) :: r =>
    attrs_to_map r (if existsb (fun kv => beq_bytes (fst kv) t) m
                    then map (fun kv => if beq_bytes (fst kv) t then (t, vs) else kv) m
                    else m ++ [(t, vs)])
  end.

Definition new_dentry (dn : bytes) (attrs : list dattr) : dentry :=
  let e := new_entry dn (attrs_to_map attrs []) in
  {| d_dn := dn; d_attrs := map (fun a => (ea_name a, ea_values a)) (e_attrs e) |}.

(* handleModify: one change applied to an entry's attribute list.  The loop
   that looks the attribute up does not break, so the LAST attribute with
   that name is the one found. *)
Fixpoint last_index (attrs : list dattr) (name : bytes) (i : nat) (acc : option nat) : option nat :=
  match attrs with
  | [] => acc
  | (n, _) :: r => last_index r name (S i) (if beq_bytes n name then Some i else acc)
  end.

(* [replfix] = true: a replace stores the (unwrapped) replacement values
   (current tree); false: the pinned code, where the new attribute is assigned
   to a local variable and nothing changes *)
Definition apply_change (replfix : bool) (attrs : list dattr) (c : change) : outcome (list dattr) :=
  let '(op, t, vals) := c in
  let found := last_index attrs t 0 None in
  if (op =? 0)%Z then
    match found with
    | Some i => Ok (update_nth i (fun a => (fst a, snd a ++ vals)) attrs)
    | None => Ok (attrs ++ [(t, vals)])
    end
  else if (op =? 1)%Z then
    match found with Some i => Ok (remove_nth i attrs) | None => Ok attrs end
  else if (op =? 2)%Z then
    match found with
    | Some i =>
      if replfix then
        match convert_string vals with
        | Ok plain => Ok (update_nth i (fun _ => (t, plain)) attrs)
        | _ => Err
        end
      else Ok attrs
    | None => Ok attrs
    end
  else Ok attrs.

Fixpoint apply_changes (replfix : bool) (attrs : list dattr) (cs : list change) : outcome (list dattr) :=
  match cs with
  | [] => Ok attrs
  | c :: r => do a <- apply_change replfix attrs c; apply_changes replfix a r
  end.

Definition set_entry_attrs (es : list dentry) (i : nat) (attrs : list dattr) : list dentry :=
  update_nth i (fun e => {| d_dn := d_dn e; d_attrs := attrs |}) es.

(* The handlers that look an entry up by DN, parametrised by the lookup:
   [lk dn e]  — does entry e answer to the DN (filter "(dn)")?
   [lk2 dn e] — the second lookup of handleModify (filter "dn", no parentheses).
   The directory instantiates them with match (dir_lk / dir_lk2); the abstract
   store of the property with DN equality (spec_lk / spec_lk2). *)
Section ByDN.
  Variable lk lk2 : bytes -> dentry -> bool.

  Fixpoint index_of (p : dentry -> bool) (es : list dentry) (i : nat) : list nat :=
    match es with
    | [] => []
    | e :: r => (if p e then [i] else []) ++ index_of p r (S i)
    end.

  Definition handle_add (d : dir) (dn : bytes) (attrs : list dattr) : dir * Z :=
    match List.filter (lk dn) (users d) with
    | _ :: _ => (d, ResultEntryAlreadyExists)
    | [] => (set_users d (users d ++ [new_dentry dn attrs]), ResultSuccess)
    end.

  Definition handle_delete (d : dir) (dn : bytes) : dir * Z :=
    match index_of (lk dn) (users d) 0 with
    | [i] => (set_users d (remove_nth i (users d)), ResultSuccess)
    | _ :: _ :: _ => (d, ResultInappropriateMatching)
    | [] =>
      match index_of (lk dn) (groups d) 0 with
      | [i] => (set_groups d (remove_nth i (groups d)), ResultSuccess)
      | _ :: _ :: _ => (d, ResultInappropriateMatching)
      | [] => (d, ResultNoSuchObject)
      end
    end.

  (* the changes carry the values as gldap delivers them (BER-wrapped) *)
  Definition handle_modify (replfix : bool) (d : dir) (dn : bytes) (cs : list change) : dir * Z :=
    match index_of (lk dn) (users d) 0 with
    | [i] =>
      match nth_error (users d) i with
      | Some e =>
        match apply_changes replfix (d_attrs e) cs with
        | Ok attrs => (set_users d (set_entry_attrs (users d) i attrs), ResultSuccess)
        | _ => (d, ResultProtocolError)
        end
      | None => (d, ResultNoSuchObject)
      end
    | _ :: _ :: _ => (d, ResultInappropriateMatching)
    | [] =>
      match index_of (lk2 dn) (groups d) 0 with
      | [i] =>
        match nth_error (groups d) i with
        | Some e =>
          match apply_changes replfix (d_attrs e) cs with
          | Ok attrs => (set_groups d (set_entry_attrs (groups d) i attrs), ResultSuccess)
          | _ => (d, ResultProtocolError)
          end
        | None => (d, ResultNoSuchObject)
        end
      | _ :: _ :: _ => (d, ResultInappropriateMatching)
      | [] => (d, ResultNoSuchObject)
      end
    end.

  (* searches: route choice by base DN (users route, groups route, generic) *)
  Variable eqfold : bytes -> bytes -> bool.

  Definition search_users (d : dir) (flt : bytes) : list dentry * Z :=
    match find flt (users d) with
    | [] => ([], ResultNoSuchObject)
    | es => (es, ResultSuccess)
    end.

  (* findMembers: a group once per matching member value *)
  Definition find_members (flt : bytes) (gs : list dentry) : list dentry :=
    flat_map (fun g => flat_map (fun m => if match_filter flt (member_eq ++ m) then [g] else [])
                                (attr_values (d_attrs g) member_name)) gs.

  Definition dentry_eqb (a b : dentry) : bool := beq_bytes (d_dn a) (d_dn b).

  Definition search_groups (d : dir) (flt : bytes) : list dentry * Z :=
    let ms := find_members flt (groups d) in
    let extra := List.filter (fun g => match_filter flt (d_dn g) && negb (existsb (dentry_eqb g) ms)) (groups d) in
    match ms ++ extra with
    | [] => ([], ResultNoSuchObject)
    | es => (es, ResultSuccess)
    end.

  (* a base DN under the users base is looked up by DN; anything else by the
     client's filter *)
  Definition search_generic (d : dir) (base flt : bytes) : list dentry * Z :=
    let es := if contains base (user_dn d)
              then List.filter (lk base) (users d) ++ List.filter (lk base) (groups d)
              else find flt (users d) ++ find flt (groups d) in
    match es with
    | [] => ([], ResultNoSuchObject)
    | _ => (es, ResultSuccess)
    end.

  Definition handle_search (d : dir) (base flt : bytes) : list dentry * Z :=
    if eqfold base (user_dn d) then search_users d flt
    else if eqfold base (group_dn d) then search_groups d flt
    else search_generic d base flt.
End ByDN.

Definition dir_lk (dn : bytes) (e : dentry) : bool := match_filter (paren dn) (d_dn e).
Definition dir_lk2 (dn : bytes) (e : dentry) : bool := match_filter dn (d_dn e).
Definition spec_lk (dn : bytes) (e : dentry) : bool := beq_bytes (d_dn e) dn.
Definition spec_lk2 (dn : bytes) (e : dentry) : bool := false.

(* ---------------------------------------------------------------- *)
(* operations and one step of a history                               *)

Inductive dop :=
| DBind (dn pw : bytes)
| DAdd (dn : bytes) (attrs : list dattr)
| DModify (dn : bytes) (cs : list change)       (* plain client values *)
| DDelete (dn : bytes)
| DSearch (base flt : bytes)
| DSetUsers (us : list dentry)
| DSetGroups (gs : list dentry)
| DSetAnon (b : bool)
| DUsers.                                       (* the Users() getter: a probe, no request *)

Record dresult := { res_code : Z; res_entries : list dentry }.

Definition wrap_changes (cs : list change) : list change :=
  map (fun '(op, t, vs) => (op, t, map wrap_value vs)) cs.

Definition dstep_with (lk lk2 : bytes -> dentry -> bool) (eqfold : bytes -> bytes -> bool) (replfix : bool)
           (d : dir) (o : dop) : dir * dresult :=
  match o with
  | DBind dn pw => (d, {| res_code := handle_bind d dn pw; res_entries := [] |})
  | DAdd dn attrs => let (d', c) := handle_add lk d dn attrs in (d', {| res_code := c; res_entries := [] |})
  | DModify dn cs => let (d', c) := handle_modify lk lk2 replfix d dn (wrap_changes cs) in (d', {| res_code := c; res_entries := [] |})
  | DDelete dn => let (d', c) := handle_delete lk d dn in (d', {| res_code := c; res_entries := [] |})
  | DSearch base flt => let (es, c) := handle_search lk eqfold d base flt in (d, {| res_code := c; res_entries := es |})
  | DSetUsers us => (set_users d us, {| res_code := 0; res_entries := [] |})
  | DSetGroups gs => (set_groups d gs, {| res_code := 0; res_entries := [] |})
  | DSetAnon b => (set_anon d b, {| res_code := 0; res_entries := [] |})
  | DUsers => (d, {| res_code := 0; res_entries := users d |})
  end.

(* the directory *)
Definition dstep := dstep_with dir_lk dir_lk2.
(* the abstract store of the property: entries are found by DN equality *)
Definition spec_step := dstep_with spec_lk spec_lk2.

Fixpoint drun_with (step : dir -> dop -> dir * dresult) (d : dir) (ops : list dop) : dir * list dresult :=
  match ops with
  | [] => (d, [])
  | o :: r => let (d1, x) := step d o in
              let (d2, xs) := drun_with step d1 r in (d2, x :: xs)
  end.

Definition drun (eqfold : bytes -> bytes -> bool) (replfix : bool) := drun_with (dstep eqfold replfix).
Definition spec_run (eqfold : bytes -> bytes -> bool) (replfix : bool) := drun_with (spec_step eqfold replfix).
