(* DirProofs.v — C19 (bind iff) and C20 (the directory refines an abstract
   store in which entries are found by DN equality). *)
From G Require Import Base Ber BerProofs Helpers HelpersProofs Ldap Directory.
Ltac Zify.zify_post_hook ::= Z.div_mod_to_equations.
Open Scope N_scope.

(* ---------------------------------------------------------------- *)
(* C19                                                                *)

Definition first_password (u : dentry) : option bytes :=
  match attr_values (d_attrs u) password_name with v :: _ => Some v | [] => None end.

Theorem bind_iff d dn pw : handle_bind d dn pw = ResultSuccess <->
  (pw = [] /\ anon d = true) \/
  (exists u, In u (users d) /\ d_dn u = dn /\ first_password u = Some pw).
Proof.
  unfold handle_bind. split.
  - destruct (is_nil_b pw && anon d) eqn:E.
    + intros _. left. apply andb_true_iff in E. destruct E as [E1 E2]. destruct pw; [auto|discriminate].
    + destruct (existsb (user_accepts dn pw) (users d)) eqn:Ex; [|discriminate].
      intros _. right. apply existsb_exists in Ex. destruct Ex as (u & Hin & Hu).
      unfold user_accepts in Hu. apply andb_true_iff in Hu. destruct Hu as [Hd Hp].
      exists u. split; [exact Hin|]. split; [apply beq_bytes_eq; exact Hd|].
      unfold first_password. destruct (attr_values (d_attrs u) password_name) as [|v r]; [discriminate|].
      apply beq_bytes_eq in Hp. subst. reflexivity.
  - intros [[-> Ha]|(u & Hin & Hd & Hp)].
    + rewrite Ha. reflexivity.
    + destruct (is_nil_b pw && anon d); [reflexivity|].
      assert (existsb (user_accepts dn pw) (users d) = true) as ->; [|reflexivity].
      apply existsb_exists. exists u. split; [exact Hin|]. unfold user_accepts.
      subst dn. rewrite beq_bytes_refl. cbn [andb]. unfold first_password in Hp.
      destruct (attr_values (d_attrs u) password_name); [discriminate|]. inversion Hp; subst. apply beq_bytes_refl.
Qed.

Theorem bind_otherwise d dn pw : handle_bind d dn pw <> ResultSuccess -> handle_bind d dn pw = ResultInvalidCredentials.
Proof.
  unfold handle_bind. destruct (is_nil_b pw && anon d); [congruence|].
  destruct (existsb _ _); congruence.
Qed.

(* the decision does not look at groups, the base DNs or anything but users,
   the flag, the DN and the password: in particular not at the transport *)
Theorem bind_depends_only d d' dn pw : users d = users d' -> anon d = anon d' ->
  handle_bind d dn pw = handle_bind d' dn pw.
Proof. intros Hu Ha. unfold handle_bind. rewrite Hu, Ha. reflexivity. Qed.

Example bind_example :
  let u := {| d_dn := [99; 110; 61; 97]; d_attrs := [([110], [[120]]); (password_name, [[112]; [113]])] |} in
  let d := {| users := [u]; groups := []; anon := false; user_dn := []; group_dn := [] |} in
  handle_bind d [99; 110; 61; 97] [112] = ResultSuccess /\
  handle_bind d [99; 110; 61; 97] [113] = ResultInvalidCredentials /\
  handle_bind d [99; 110; 61] [112] = ResultInvalidCredentials /\
  handle_bind d [99; 110; 61; 97] [] = ResultInvalidCredentials.
Proof. repeat split; reflexivity. Qed.

(* ---------------------------------------------------------------- *)
(* strings: contains, trim, the regular expression                     *)

Lemma prefixb_refl s : prefixb s s = true.
Proof. induction s; simpl; auto. rewrite N.eqb_refl. exact IHs. Qed.

Lemma contains_refl s : contains s s = true.
Proof. destruct s; simpl; [reflexivity|]. rewrite N.eqb_refl, prefixb_refl. reflexivity. Qed.

Lemma dropwhile_head p c s : p c = false -> dropwhile p (c :: s) = c :: s.
Proof. intros H. simpl. rewrite H. reflexivity. Qed.

Lemma dropwhile_skip p c s : p c = true -> dropwhile p (c :: s) = dropwhile p s.
Proof. intros H. simpl. rewrite H. reflexivity. Qed.

(* a DN the directory can handle: not empty, none of the characters match()
   removes or the expression cannot cross, no blank at either end *)
Definition plain_char (c : N) : bool :=
  negb ((c =? 40) || (c =? 41) || (c =? 42) || (c =? 124) || (c =? 10)).
Definition plain (dn : bytes) : bool :=
  forallb plain_char dn &&
  match dn with [] => false | c :: _ => negb (is_space c) end &&
  match rev dn with [] => false | c :: _ => negb (is_space c) end.

Lemma take_until_close_plain dn rest : forallb plain_char dn = true ->
  take_until_close (dn ++ 41 :: rest) = Some (dn, rest).
Proof.
  induction dn as [|c r IH]; intros H; cbn [app take_until_close].
  - reflexivity.
  - cbn [forallb] in H. apply andb_true_iff in H. destruct H as [Hc Hr].
    unfold plain_char in Hc. apply negb_true_iff in Hc.
    repeat (apply orb_false_iff in Hc; destruct Hc as [Hc ?]).
    match goal with H : (c =? 41) = false |- _ => rewrite H end.
    match goal with H : (c =? 10) = false |- _ => rewrite H end.
    rewrite IH by exact Hr. reflexivity.
Qed.

Lemma find_all_paren dn : forallb plain_char dn = true ->
  find_all (S (length (paren dn))) (paren dn) = [paren dn].
Proof.
  intros H. unfold paren. cbn [find_all length]. cbn [N.eqb Pos.eqb].
  rewrite take_until_close_plain by exact H. destruct (length (dn ++ [41])); reflexivity.
Qed.

Lemma filter_plain dn : forallb plain_char dn = true ->
  List.filter (fun c => negb (c =? 42)) dn = dn.
Proof.
  induction dn as [|c r IH]; intros H; [reflexivity|].
  cbn [forallb] in H. apply andb_true_iff in H. destruct H as [Hc Hr].
  cbn [List.filter]. unfold plain_char in Hc. apply negb_true_iff in Hc.
  repeat (apply orb_false_iff in Hc; destruct Hc as [Hc ?]).
  match goal with H : (c =? 42) = false |- _ => rewrite H end. cbn [negb]. rewrite IH by exact Hr. reflexivity.
Qed.

Lemma filter_app_single {A} (p : A -> bool) l x : List.filter p (l ++ [x]) = List.filter p l ++ (if p x then [x] else []).
Proof. induction l; simpl; [reflexivity|]. destruct (p a); simpl; rewrite IHl; reflexivity. Qed.

Lemma plain_first dn : plain dn = true -> exists c r, dn = c :: r /\ plain_char c = true /\ is_space c = false.
Proof.
  unfold plain. intros H. repeat (apply andb_true_iff in H; destruct H as [H ?]).
  destruct dn as [|c r]; [discriminate|]. exists c, r. split; [reflexivity|].
  cbn [forallb] in H. apply andb_true_iff in H. destruct H as [Hc _]. split; [exact Hc|].
  apply negb_true_iff. assumption.
Qed.

Lemma plain_last dn : plain dn = true -> exists c r, rev dn = c :: r /\ plain_char c = true /\ is_space c = false.
Proof.
  unfold plain. intros H. repeat (apply andb_true_iff in H; destruct H as [H ?]).
  destruct (rev dn) as [|c r] eqn:E; [discriminate|]. exists c, r. split; [reflexivity|].
  split; [|apply negb_true_iff; assumption].
  rewrite forallb_forall in H. apply H. apply in_rev. rewrite E. left. reflexivity.
Qed.

Lemma plain_char_not c : plain_char c = true ->
  (c =? 40) = false /\ (c =? 41) = false /\ (c =? 42) = false /\ (c =? 124) = false /\ (c =? 10) = false.
Proof.
  unfold plain_char. intros H. apply negb_true_iff in H.
  repeat (apply orb_false_iff in H; destruct H as [H ?]). auto.
Qed.

(* the pipeline of match() on the filter "(dn)" yields dn *)
Lemma clean_paren dn : plain dn = true -> clean_element (paren dn) = dn.
Proof.
  intros Hp.
  assert (forallb plain_char dn = true) as Hall.
  { unfold plain in Hp. repeat (apply andb_true_iff in Hp; destruct Hp as [Hp ?]). exact Hp. }
  destruct (plain_first dn Hp) as (c0 & r0 & Hd & Hc0 & Hs0).
  destruct (plain_last dn Hp) as (c1 & r1 & Hr & Hc1 & Hs1).
  destruct (plain_char_not c0 Hc0) as (A0 & B0 & C0 & D0 & E0).
  destruct (plain_char_not c1 Hc1) as (A1 & B1 & C1 & D1 & E1).
  unfold clean_element, paren.
  (* ReplaceAll "*" *)
  cbn [List.filter N.eqb Pos.eqb negb]. rewrite filter_app_single. cbn [N.eqb Pos.eqb negb].
  rewrite filter_plain by exact Hall.
  (* Trim "|(" : the leading '(' goes, the trailing ')' stays *)
  unfold trim at 4. rewrite dropwhile_skip by reflexivity.
  rewrite Hd at 1. rewrite <- app_comm_cons. rewrite dropwhile_head by (rewrite D0, A0; reflexivity).
  rewrite app_comm_cons, <- Hd. rewrite rev_app_distr. cbn [rev app].
  rewrite dropwhile_head by reflexivity. cbn [rev]. rewrite rev_involutive.
  (* Trim "(" *)
  unfold trim at 3. rewrite Hd at 1. rewrite <- app_comm_cons. rewrite dropwhile_head by exact A0.
  rewrite app_comm_cons, <- Hd. rewrite rev_app_distr. cbn [rev app].
  rewrite dropwhile_head by reflexivity. cbn [rev]. rewrite rev_involutive.
  (* Trim ")" : the trailing ')' goes *)
  unfold trim at 2. rewrite Hd at 1. rewrite <- app_comm_cons. rewrite dropwhile_head by exact B0.
  rewrite app_comm_cons, <- Hd. rewrite rev_app_distr. cbn [rev app].
  rewrite dropwhile_skip by reflexivity. rewrite Hr. rewrite dropwhile_head by exact B1.
  rewrite <- Hr, rev_involutive.
  (* TrimSpace *)
  unfold trim. rewrite Hd at 1. rewrite dropwhile_head by exact Hs0. rewrite <- Hd.
  rewrite Hr. rewrite dropwhile_head by exact Hs1. rewrite <- Hr. apply rev_involutive.
Qed.

Theorem match_paren_plain dn attr : plain dn = true -> match_filter (paren dn) attr = contains attr dn.
Proof.
  intros Hp. unfold match_filter.
  assert (forallb plain_char dn = true) as Hall.
  { unfold plain in Hp. repeat (apply andb_true_iff in Hp; destruct Hp as [Hp ?]). exact Hp. }
  rewrite find_all_paren by exact Hall. cbn [existsb]. rewrite clean_paren by exact Hp.
  rewrite orb_false_r. reflexivity.
Qed.

(* a plain DN used as a filter without parentheses matches nothing *)
Lemma find_all_no_paren fuel s : forallb plain_char s = true -> find_all fuel s = [].
Proof.
  revert s; induction fuel as [|f IH]; intros s H; [reflexivity|].
  destruct s as [|c r]; [reflexivity|]. cbn [find_all].
  cbn [forallb] in H. apply andb_true_iff in H. destruct H as [Hc Hr].
  destruct (plain_char_not c Hc) as (A & _). rewrite A. apply IH. exact Hr.
Qed.

Theorem match_no_paren dn attr : plain dn = true -> match_filter dn attr = false.
Proof.
  intros Hp. unfold match_filter.
  assert (forallb plain_char dn = true) as Hall.
  { unfold plain in Hp. repeat (apply andb_true_iff in Hp; destruct Hp as [Hp ?]). exact Hp. }
  rewrite find_all_no_paren by exact Hall. reflexivity.
Qed.

(* K3: with a '*' in the DN the entry does not even answer to its own DN *)
Lemma match_star_refuted :
  match_filter (paren [99; 110; 61; 97; 42; 98]) [99; 110; 61; 97; 42; 98] = false.
Proof. reflexivity. Qed.

(* ---------------------------------------------------------------- *)
(* refinement: the directory's lookups agree with DN equality         *)

(* the DN is usable against this directory: plain, and an entry's DN contains
   it only if it IS it ("entry DNs are not substrings of one another", and the
   target of an operation is an entry's DN or unrelated to all of them) *)
Definition unambiguous (d : dir) (dn : bytes) : Prop :=
  plain dn = true /\
  forall e, In e (users d ++ groups d) -> contains (d_dn e) dn = true -> d_dn e = dn.

Lemma lk_agree d dn : unambiguous d dn ->
  forall e, In e (users d ++ groups d) -> dir_lk dn e = spec_lk dn e /\ dir_lk2 dn e = spec_lk2 dn e.
Proof.
  intros [Hp Hu] e Hin. unfold dir_lk, dir_lk2, spec_lk, spec_lk2.
  rewrite match_paren_plain by exact Hp. rewrite match_no_paren by exact Hp. split; [|reflexivity].
  destruct (contains (d_dn e) dn) eqn:Ec.
  - rewrite (Hu e Hin Ec). symmetry. apply beq_bytes_refl.
  - destruct (beq_bytes (d_dn e) dn) eqn:Eb; [|reflexivity].
    apply beq_bytes_eq in Eb. rewrite Eb, contains_refl in Ec. discriminate.
Qed.

Lemma filter_ext_in' {A} (p q : A -> bool) l : (forall x, In x l -> p x = q x) -> List.filter p l = List.filter q l.
Proof.
  induction l as [|x r IH]; intros H; [reflexivity|]. cbn [List.filter].
  rewrite (H x (or_introl eq_refl)), IH; [reflexivity|]. intros y Hy. apply H. right. exact Hy.
Qed.

Lemma index_of_ext p q es i : (forall x, In x es -> p x = q x) -> index_of p es i = index_of q es i.
Proof.
  revert i; induction es as [|x r IH]; intros i H; [reflexivity|]. cbn [index_of].
  rewrite (H x (or_introl eq_refl)), IH; [reflexivity|]. intros y Hy. apply H. right. exact Hy.
Qed.

Section Refine.
  Variable eqfold : bytes -> bytes -> bool.
  Variable replfix : bool.

  Definition op_target (o : dop) : option bytes :=
    match o with
    | DAdd dn _ | DModify dn _ | DDelete dn => Some dn
    | DSearch base _ => Some base
    | _ => None
    end.

  Definition op_ok (d : dir) (o : dop) : Prop :=
    match op_target o with Some dn => unambiguous d dn | None => True end.

  Theorem step_refines d o : op_ok d o -> dstep eqfold replfix d o = spec_step eqfold replfix d o.
  Proof.
    unfold op_ok, dstep, spec_step. destruct o as [dn pw|dn attrs|dn cs|dn|base flt|us|gs|b|]; cbn [op_target dstep_with]; intros Hok; try reflexivity.
    - (* add *)
      unfold handle_add. rewrite (filter_ext_in' (dir_lk dn) (spec_lk dn)); [reflexivity|].
      intros e Hin. apply (lk_agree d dn Hok). apply in_or_app. left. exact Hin.
    - (* modify *)
      unfold handle_modify.
      rewrite (index_of_ext (dir_lk dn) (spec_lk dn) (users d)) by
          (intros e Hin; apply (lk_agree d dn Hok); apply in_or_app; left; exact Hin).
      rewrite (index_of_ext (dir_lk2 dn) (spec_lk2 dn) (groups d)) by
          (intros e Hin; apply (lk_agree d dn Hok); apply in_or_app; right; exact Hin).
      reflexivity.
    - (* delete *)
      unfold handle_delete.
      rewrite (index_of_ext (dir_lk dn) (spec_lk dn) (users d)) by
          (intros e Hin; apply (lk_agree d dn Hok); apply in_or_app; left; exact Hin).
      rewrite (index_of_ext (dir_lk dn) (spec_lk dn) (groups d)) by
          (intros e Hin; apply (lk_agree d dn Hok); apply in_or_app; right; exact Hin).
      reflexivity.
    - (* search *)
      unfold handle_search, search_generic.
      rewrite (filter_ext_in' (dir_lk base) (spec_lk base) (users d)) by
          (intros e Hin; apply (lk_agree d base Hok); apply in_or_app; left; exact Hin).
      rewrite (filter_ext_in' (dir_lk base) (spec_lk base) (groups d)) by
          (intros e Hin; apply (lk_agree d base Hok); apply in_or_app; right; exact Hin).
      reflexivity.
  Qed.

  (* binds inside a history: whatever came before (adds, deletes by any DN,
     modifies, Set* calls, searches, other binds), a bind is answered from the
     user entries and the anonymous flag of the state reached, and the Users()
     probe shows exactly those entries *)
  Lemma drun_app d pre post :
    drun eqfold replfix d (pre ++ post) =
    let (d1, xs) := drun eqfold replfix d pre in
    let (d2, ys) := drun eqfold replfix d1 post in (d2, xs ++ ys).
  Proof.
    unfold drun. revert d. induction pre as [|o r IH]; intros d; cbn [app drun_with].
    - destruct (drun_with _ d post); reflexivity.
    - destruct (dstep eqfold replfix d o) as [d1 x]. rewrite IH.
      destruct (drun_with _ d1 r) as [d2 xs]. destruct (drun_with _ d2 post) as [d3 ys]. reflexivity.
  Qed.

  Theorem bind_in_history d0 pre dn pw post :
    let d := fst (drun eqfold replfix d0 pre) in
    nth_error (snd (drun eqfold replfix d0 (pre ++ DBind dn pw :: post))) (length pre) =
      Some {| res_code := handle_bind d dn pw; res_entries := [] |} /\
    nth_error (snd (drun eqfold replfix d0 (pre ++ DUsers :: post))) (length pre) =
      Some {| res_code := 0; res_entries := users d |}.
  Proof.
    cbn zeta. assert (Hlen : forall ops d, length (snd (drun eqfold replfix d ops)) = length ops).
    { unfold drun. induction ops as [|o r IH]; intros d; [reflexivity|]. cbn [drun_with].
      destruct (dstep eqfold replfix d o) as [d1 x]. specialize (IH d1).
      destruct (drun_with _ d1 r) as [d2 xs]. cbn [snd length] in *. rewrite IH. reflexivity. }
    split; rewrite drun_app; specialize (Hlen pre d0);
      destruct (drun eqfold replfix d0 pre) as [d1 xs]; cbn [fst snd] in *;
      unfold drun; cbn [drun_with dstep dstep_with];
      match goal with |- context [drun_with ?st ?dd post] => destruct (drun_with st dd post) as [d2 ys] end;
      cbn [snd]; rewrite nth_error_app2 by lia; rewrite Hlen, Nat.sub_diag; reflexivity.
  Qed.

  (* binds, searches and the Users() probe read and never write: any number of
     them - failed guesses included - leaves the directory as it was, so no run
     of bind attempts changes what a later bind is answered *)
  Definition read_only (o : dop) : bool :=
    match o with DBind _ _ | DSearch _ _ | DUsers => true | _ => false end.

  Lemma read_only_step d o : read_only o = true -> fst (dstep eqfold replfix d o) = d.
  Proof.
    destruct o; cbn [read_only]; try discriminate; intros _; unfold dstep; cbn [dstep_with fst]; try reflexivity.
    destruct (handle_search _ _ _ _ _); reflexivity.
  Qed.

  Theorem read_only_run ops : forall d, forallb read_only ops = true -> fst (drun eqfold replfix d ops) = d.
  Proof.
    unfold drun. induction ops as [|o r IH]; intros d H; [reflexivity|].
    cbn [forallb] in H. apply andb_true_iff in H. destruct H as [Ho Hr].
    cbn [drun_with]. pose proof (read_only_step d o Ho) as Hs.
    destruct (dstep eqfold replfix d o) as [d1 x]. cbn [fst] in Hs. subst d1.
    specialize (IH d Hr). destruct (drun_with _ d r) as [d2 xs]. exact IH.
  Qed.

  Theorem bind_after_reads d0 pre reads dn pw post :
    forallb read_only reads = true ->
    nth_error (snd (drun eqfold replfix d0 (pre ++ reads ++ DBind dn pw :: post))) (length pre + length reads) =
    Some {| res_code := handle_bind (fst (drun eqfold replfix d0 pre)) dn pw; res_entries := [] |}.
  Proof.
    intros Hr. pose proof (bind_in_history d0 (pre ++ reads) dn pw post) as [Hb _].
    cbn zeta in Hb. rewrite <- app_assoc, app_length in Hb. rewrite Hb. clear Hb.
    rewrite drun_app. pose proof (read_only_run reads (fst (drun eqfold replfix d0 pre)) Hr) as H.
    destruct (drun eqfold replfix d0 pre) as [d1 xs]. cbn [fst] in *.
    destruct (drun eqfold replfix d1 reads) as [d2 ys]. cbn [fst] in *. subst d2. reflexivity.
  Qed.

  (* a search repeated after any binds, searches and probes returns what it
     returned the first time: reading has no memory *)
  Theorem search_repeatable d reads base flt :
    forallb read_only reads = true ->
    snd (dstep eqfold replfix (fst (drun eqfold replfix d (DSearch base flt :: reads))) (DSearch base flt)) =
    snd (dstep eqfold replfix d (DSearch base flt)).
  Proof.
    intros Hr. rewrite (read_only_run (DSearch base flt :: reads) d); [reflexivity|].
    cbn [forallb read_only]. exact Hr.
  Qed.

  (* a history whose every operation is usable in the state it meets *)
  Fixpoint hist_ok (d : dir) (ops : list dop) : Prop :=
    match ops with
    | [] => True
    | o :: r => op_ok d o /\ hist_ok (fst (spec_step eqfold replfix d o)) r
    end.

  Theorem run_refines ops : forall d, hist_ok d ops -> drun eqfold replfix d ops = spec_run eqfold replfix d ops.
  Proof.
    unfold drun, spec_run. induction ops as [|o r IH]; intros d H; [reflexivity|].
    destruct H as [Ho Hr]. cbn [drun_with]. rewrite (step_refines d o Ho).
    destruct (spec_step eqfold replfix d o) as [d1 x] eqn:E. cbn [fst] in Hr.
    rewrite (IH d1 Hr). reflexivity.
  Qed.

  (* ---------------------------------------------------------------- *)
  (* the abstract store behaves like a store                            *)

  Definition has_user (d : dir) (dn : bytes) : bool := existsb (spec_lk dn) (users d).
  Definition lookup_users (d : dir) (dn : bytes) : list dentry := List.filter (spec_lk dn) (users d).

  Lemma filter_nil_iff {A} (p : A -> bool) l : List.filter p l = [] <-> existsb p l = false.
  Proof.
    induction l as [|x r IH]; cbn; [tauto|]. destruct (p x); cbn; [split; discriminate|exact IH].
  Qed.

  (* an added entry is found afterwards, with the attributes it was added with *)
  Theorem spec_add_new d dn attrs : has_user d dn = false ->
    spec_step eqfold replfix d (DAdd dn attrs) =
    (set_users d (users d ++ [new_dentry dn attrs]), {| res_code := ResultSuccess; res_entries := [] |}) /\
    lookup_users (set_users d (users d ++ [new_dentry dn attrs])) dn = [new_dentry dn attrs].
  Proof.
    intros H. unfold spec_step, dstep_with, handle_add.
    assert (List.filter (spec_lk dn) (users d) = []) as E by (apply filter_nil_iff; exact H).
    rewrite E. split; [reflexivity|].
    unfold lookup_users, set_users. cbn [users]. rewrite filter_app_single, E.
    unfold spec_lk at 1. cbn [new_dentry d_dn]. rewrite beq_bytes_refl. reflexivity.
  Qed.

  (* adding an existing user DN fails and changes nothing *)
  Theorem spec_add_existing d dn attrs : has_user d dn = true ->
    spec_step eqfold replfix d (DAdd dn attrs) = (d, {| res_code := ResultEntryAlreadyExists; res_entries := [] |}).
  Proof.
    intros H. unfold spec_step, dstep_with, handle_add.
    destruct (List.filter (spec_lk dn) (users d)) eqn:E; [|reflexivity].
    apply filter_nil_iff in E. unfold has_user in H. congruence.
  Qed.

  Lemma index_of_nil p es i : index_of p es i = [] <-> existsb p es = false.
  Proof.
    revert i; induction es as [|x r IH]; intros i; cbn; [tauto|].
    destruct (p x); cbn; [split; discriminate|apply IH].
  Qed.

  (* deleting or modifying a missing entry is noSuchObject and changes nothing *)
  Theorem spec_missing d dn cs : has_user d dn = false -> existsb (spec_lk dn) (groups d) = false ->
    spec_step eqfold replfix d (DDelete dn) = (d, {| res_code := ResultNoSuchObject; res_entries := [] |}) /\
    spec_step eqfold replfix d (DModify dn cs) = (d, {| res_code := ResultNoSuchObject; res_entries := [] |}).
  Proof.
    intros Hu Hg. unfold spec_step, dstep_with, handle_delete, handle_modify.
    rewrite (proj2 (index_of_nil (spec_lk dn) (users d) 0) Hu).
    rewrite (proj2 (index_of_nil (spec_lk dn) (groups d) 0) Hg).
    assert (index_of (spec_lk2 dn) (groups d) 0 = []) as ->.
    { apply index_of_nil. generalize (groups d). intros l. induction l; simpl; auto. }
    split; reflexivity.
  Qed.

  (* users with pairwise different DNs: exactly one index answers to a present DN *)
  Lemma index_of_unique es dn i0 : NoDup (map d_dn es) -> forall i e, nth_error es i = Some e -> d_dn e = dn ->
    index_of (spec_lk dn) es i0 = [(i0 + i)%nat].
  Proof.
    revert i0; induction es as [|x r IH]; intros i0 Hnd i e Hn Hd; [destruct i; discriminate|].
    inversion Hnd as [|? ? Hnotin Hnd']; subst. cbn [index_of].
    destruct i as [|i].
    - cbn in Hn. inversion Hn; subst x. unfold spec_lk at 1. rewrite beq_bytes_refl.
      assert (index_of (spec_lk (d_dn e)) r (S i0) = []) as ->.
      { apply index_of_nil. apply not_true_is_false. intros Hex. apply existsb_exists in Hex.
        destruct Hex as (y & Hy & Hl). unfold spec_lk in Hl. apply beq_bytes_eq in Hl.
        apply Hnotin. rewrite <- Hl. apply in_map. exact Hy. }
      cbn. f_equal. lia.
    - cbn in Hn. unfold spec_lk at 1.
      destruct (beq_bytes (d_dn x) (d_dn e)) eqn:E.
      + exfalso. apply beq_bytes_eq in E. apply Hnotin. rewrite E.
        apply in_map. eapply nth_error_In. exact Hn.
      + cbn [app]. rewrite (IH (S i0) Hnd' i e Hn eq_refl). f_equal. lia.
  Qed.

  Lemma filter_remove_nth es dn i e : NoDup (map d_dn es) -> nth_error es i = Some e -> d_dn e = dn ->
    List.filter (spec_lk dn) (remove_nth i es) = [].
  Proof.
    revert i; induction es as [|x r IH]; intros i Hnd Hn Hd; [destruct i; discriminate|].
    inversion Hnd as [|? ? Hnotin Hnd']; subst. destruct i as [|i].
    - cbn in Hn. inversion Hn; subst x. cbn [remove_nth]. apply filter_nil_iff.
      apply not_true_is_false. intros Hex. apply existsb_exists in Hex.
      destruct Hex as (y & Hy & Hl). unfold spec_lk in Hl. apply beq_bytes_eq in Hl.
      apply Hnotin. rewrite <- Hl. apply in_map. exact Hy.
    - cbn in Hn. cbn [remove_nth List.filter]. unfold spec_lk at 1.
      destruct (beq_bytes (d_dn x) (d_dn e)) eqn:E.
      + exfalso. apply beq_bytes_eq in E. apply Hnotin. rewrite E. apply in_map. eapply nth_error_In. exact Hn.
      + apply IH; auto.
  Qed.

  (* a deleted user entry is no longer found *)
  Theorem spec_delete_user d dn i e : NoDup (map d_dn (users d)) -> nth_error (users d) i = Some e -> d_dn e = dn ->
    spec_step eqfold replfix d (DDelete dn) =
    (set_users d (remove_nth i (users d)), {| res_code := ResultSuccess; res_entries := [] |}) /\
    lookup_users (set_users d (remove_nth i (users d))) dn = [].
  Proof.
    intros Hnd Hn Hd. unfold spec_step, dstep_with, handle_delete.
    rewrite (index_of_unique (users d) dn 0 Hnd i e Hn Hd). cbn [Nat.add]. split; [reflexivity|].
    unfold lookup_users, set_users. cbn [users]. eapply filter_remove_nth; eauto.
  Qed.

  (* a modification of a present user entry applies the changes to exactly
     that entry's attributes (values as delivered: BER-wrapped) *)
  Theorem spec_modify_user d dn i e cs attrs' : NoDup (map d_dn (users d)) ->
    nth_error (users d) i = Some e -> d_dn e = dn ->
    apply_changes replfix (d_attrs e) (wrap_changes cs) = Ok attrs' ->
    spec_step eqfold replfix d (DModify dn cs) =
    (set_users d (set_entry_attrs (users d) i attrs'), {| res_code := ResultSuccess; res_entries := [] |}).
  Proof.
    intros Hnd Hn Hd Ha. unfold spec_step, dstep_with, handle_modify.
    rewrite (index_of_unique (users d) dn 0 Hnd i e Hn Hd). cbn [Nat.add]. rewrite Hn, Ha. reflexivity.
  Qed.

  (* searching an entry's DN under the users base returns the stored entries with that DN *)
  Theorem spec_search_dn d base flt : eqfold base (user_dn d) = false -> eqfold base (group_dn d) = false ->
    contains base (user_dn d) = true ->
    spec_step eqfold replfix d (DSearch base flt) =
    (d, match lookup_users d base ++ List.filter (spec_lk base) (groups d) with
        | [] => {| res_code := ResultNoSuchObject; res_entries := [] |}
        | es => {| res_code := ResultSuccess; res_entries := es |}
        end).
  Proof.
    intros H1 H2 H3. unfold spec_step, dstep_with, handle_search, search_generic. rewrite H1, H2, H3.
    unfold lookup_users. destruct (List.filter (spec_lk base) (users d) ++ List.filter (spec_lk base) (groups d)); reflexivity.
  Qed.
End Refine.

(* what the three modification kinds do to an attribute list (values arrive
   BER-wrapped; a replace stores them unwrapped) *)
Lemma last_index_none attrs t i acc : existsb (fun a => beq_bytes (fst a) t) attrs = false ->
  last_index attrs t i acc = acc.
Proof.
  revert i acc; induction attrs as [|[n vs] r IH]; intros i acc H; [reflexivity|].
  cbn [existsb fst] in H. apply orb_false_iff in H. destruct H as [H1 H2].
  cbn [last_index]. rewrite H1. apply IH. exact H2.
Qed.

Theorem modify_add_new attrs t vals : existsb (fun a => beq_bytes (fst a) t) attrs = false ->
  apply_change true attrs (0%Z, t, map wrap_value vals) = Ok (attrs ++ [(t, map wrap_value vals)]).
Proof. intros H. unfold apply_change. cbn [Z.eqb]. rewrite last_index_none by exact H. reflexivity. Qed.

Lemma last_index_single pre t vs post : existsb (fun a => beq_bytes (fst a) t) post = false ->
  forall i acc, last_index (pre ++ (t, vs) :: post) t i acc = Some (i + length pre)%nat.
Proof.
  intros Hpost. induction pre as [|[n v] r IH]; intros i acc.
  - cbn [app last_index]. rewrite beq_bytes_refl. rewrite last_index_none by exact Hpost. f_equal. cbn. lia.
  - cbn [app last_index]. rewrite IH. f_equal. cbn [length]. lia.
Qed.

Lemma update_nth_app {A} (f : A -> A) pre x post : update_nth (length pre) f (pre ++ x :: post) = pre ++ f x :: post.
Proof. induction pre; cbn; [reflexivity|]. rewrite IHpre. reflexivity. Qed.
Lemma remove_nth_app {A} (pre : list A) x post : remove_nth (length pre) (pre ++ x :: post) = pre ++ post.
Proof. induction pre; cbn; [reflexivity|]. rewrite IHpre. reflexivity. Qed.

Theorem modify_on_present pre t vs post vals : existsb (fun a => beq_bytes (fst a) t) post = false ->
  Forall (fun s => N.of_nat (length s) < 2 ^ 63) vals ->
  apply_change true (pre ++ (t, vs) :: post) (0%Z, t, map wrap_value vals) = Ok (pre ++ (t, vs ++ map wrap_value vals) :: post) /\
  apply_change true (pre ++ (t, vs) :: post) (1%Z, t, map wrap_value vals) = Ok (pre ++ post) /\
  apply_change true (pre ++ (t, vs) :: post) (2%Z, t, map wrap_value vals) = Ok (pre ++ (t, vals) :: post) /\
  apply_change false (pre ++ (t, vs) :: post) (2%Z, t, map wrap_value vals) = Ok (pre ++ (t, vs) :: post).
Proof.
  intros Hpost Hvals. unfold apply_change. cbn [Z.eqb Pos.eqb].
  rewrite !last_index_single by exact Hpost. cbn [Nat.add].
  change wrap_value with wrap_octet.
  rewrite convert_string_many by exact Hvals.
  rewrite !update_nth_app, remove_nth_app. cbn [fst snd]. repeat split; reflexivity.
Qed.
