(* SysProofs.v — invariants of the LTS of Sys.v, by induction over arbitrary
   label sequences (every interleaving of every number of connections,
   requests, handlers, Stop calls and environment actions). *)
From G Require Import Base Sys.
Open Scope nat_scope.

(* ---------------------------------------------------------------- *)
(* reachability                                                       *)

Lemma run_labels_app cfg ls1 : forall s ls2,
  run_labels cfg s (ls1 ++ ls2) =
  match run_labels cfg s ls1 with Some s' => run_labels cfg s' ls2 | None => None end.
Proof.
  induction ls1 as [|l r IH]; intros s ls2; cbn [app run_labels]; [reflexivity|].
  destruct (step cfg s l); [apply IH|reflexivity].
Qed.

Theorem invariant_reachable cfg (P : state -> Prop) :
  P init -> (forall s l s', reachable cfg s -> P s -> step cfg s l = Some s' -> P s') ->
  forall s, reachable cfg s -> P s.
Proof.
  intros Hinit Hstep s [ls Hls].
  revert s Hls. induction ls as [|l r IH] using rev_ind; intros s Hls.
  - cbn in Hls. inversion Hls; subst. exact Hinit.
  - rewrite run_labels_app in Hls. destruct (run_labels cfg init r) as [s0|] eqn:E; [|discriminate].
    cbn [run_labels] in Hls. destruct (step cfg s0 l) as [s1|] eqn:El; [|discriminate].
    inversion Hls; subst. apply (Hstep s0 l s); [exists r; exact E|apply IH; reflexivity|exact El].
Qed.

Lemma reachable_step cfg s l s' : reachable cfg s -> step cfg s l = Some s' -> reachable cfg s'.
Proof.
  intros [ls H] Hs. exists (ls ++ [l]). rewrite run_labels_app, H. cbn [run_labels]. rewrite Hs. reflexivity.
Qed.

(* ---------------------------------------------------------------- *)
(* lists                                                              *)

Lemma nth_update_nth_eq {A} (f : A -> A) l : forall i x, nth_error l i = Some x ->
  nth_error (update_nth i f l) i = Some (f x).
Proof.
  induction l as [|y r IH]; intros [|i] x H; cbn in *; try discriminate.
  - inversion H; reflexivity.
  - apply IH. exact H.
Qed.

Lemma nth_update_nth_neq {A} (f : A -> A) l : forall i j, i <> j ->
  nth_error (update_nth i f l) j = nth_error l j.
Proof.
  induction l as [|y r IH]; intros [|i] [|j] H; cbn; try reflexivity; try congruence.
  apply IH. congruence.
Qed.

Lemma length_update_nth {A} (f : A -> A) l : forall i, length (update_nth i f l) = length l.
Proof. induction l as [|y r IH]; intros [|i]; cbn; auto. Qed.

Lemma Forall_update_nth {A} (P : A -> Prop) (f : A -> A) l i :
  Forall P l -> (forall x, nth_error l i = Some x -> P x -> P (f x)) -> Forall P (update_nth i f l).
Proof.
  revert i; induction l as [|y r IH]; intros [|i] HF Hf; cbn; auto.
  - inversion HF; subst. constructor; [apply Hf; [reflexivity|assumption]|assumption].
  - inversion HF; subst. constructor; [assumption|]. apply IH; [assumption|]. intros x Hx. apply Hf. exact Hx.
Qed.

(* ---------------------------------------------------------------- *)
(* lifting a per-connection invariant to every reachable state         *)

Section Lift.
  Variable cfg : config.
  Variable CI : conn -> Prop.
  Hypothesis CI_new : forall id b, CI (new_conn id b).
  Hypothesis CI_conn : forall s c c' e, CI c -> conn_step cfg s c = Some (c', e) -> CI c'.
  Hypothesis CI_handler : forall s c r c' e, CI c -> handler_step cfg s c r = Some (c', e) -> CI c'.
  Hypothesis CI_send : forall it c, CI c -> CI (env_send it c).
  Hypothesis CI_close : forall c, CI c -> CI (env_close c).
  Hypothesis CI_stall : forall b c, CI c -> CI (env_stall b c).
  Hypothesis CI_intr : forall c, CI c -> CI (interrupt c).

  Lemma conns_apply_effect s e : conns (apply_effect s e) = conns s.
  Proof. destruct e; reflexivity. Qed.

  Lemma with_conn_forall s i f s' :
    Forall CI (conns s) -> (forall c c' e, CI c -> f c = Some (c', e) -> CI c') ->
    with_conn s i f = Some s' -> Forall CI (conns s').
  Proof.
    unfold with_conn. intros HF Hf H.
    destruct (nth_error (conns s) i) as [c|] eqn:En; [|discriminate].
    destruct (f c) as [[c' e]|] eqn:Ef; [|discriminate].
    inversion H; subst. rewrite conns_apply_effect. cbn [conns set_conns].
    apply Forall_update_nth; [exact HF|]. intros x Hx Px. rewrite En in Hx. inversion Hx; subst. eapply Hf; eauto.
  Qed.

  Lemma upd_conn_env_forall s i f s' :
    Forall CI (conns s) -> (forall c, CI c -> CI (f c)) -> upd_conn_env s i f = Some s' -> Forall CI (conns s').
  Proof.
    unfold upd_conn_env. intros HF Hf H. destruct (nth_error (conns s) i); [|discriminate].
    inversion H; subst. cbn [conns set_conns]. apply Forall_update_nth; [exact HF|]. intros x _ Px. apply Hf. exact Px.
  Qed.

  Lemma run_step_conns s s' : run_step cfg s = Some s' ->
    conns s' = conns s \/ exists b, conns s' = conns s ++ [new_conn (nextid s) b].
  Proof.
    unfold run_step. intros H.
    destruct (run s) as [|valid ok| | | |e]; try discriminate.
    - destruct (negb valid); [inversion H; subst; left; reflexivity|]. destruct (stop_in_progress s); [discriminate|].
      destruct ok; inversion H; subst; left; reflexivity.
    - destruct (cancelled s); [destruct (close_on_cancel cfg)|]; inversion H; subst; left; reflexivity.
    - destruct (lst s); try (inversion H; subst; left; reflexivity).
      destruct (accept_err s); [destruct (accept_retry cfg); inversion H; subst; left; reflexivity|].
      destruct (backlog s); [discriminate|inversion H; subst; left; reflexivity].
    - inversion H; subst. right. eexists. reflexivity.
  Qed.

  Lemma stop_step_conns s i s' : stop_step cfg s i = Some s' ->
    conns s' = conns s \/ conns s' = interrupt_all (conns s).
  Proof.
    unfold stop_step. intros H. destruct (nth_error (stops s) i) as [p|]; [|discriminate].
    destruct p; try discriminate.
    - destruct (lst s); inversion H; subst; left; reflexivity.
    - inversion H; subst; left; reflexivity.
    - inversion H; subst; right; reflexivity.
    - destruct (connwg s =? 0); [inversion H; subst; left; reflexivity|discriminate].
  Qed.

  Theorem lift_step s l s' : Forall CI (conns s) -> step cfg s l = Some s' -> Forall CI (conns s').
  Proof.
    intros HF H. unfold step in H. destruct (negb (alive s)); [discriminate|].
    destruct l.
    - destruct (run_step_conns s s' H) as [->|[b ->]]; [exact HF|].
      apply Forall_app. split; [exact HF|]. constructor; [apply CI_new|constructor].
    - destruct (stop_step_conns s i s' H) as [->| ->]; [exact HF|].
      unfold interrupt_all. rewrite Forall_forall in *. intros x Hx. apply in_map_iff in Hx.
      destruct Hx as (y & <- & Hy). unfold interrupt_tracked. destruct (tracked y); [apply CI_intr|]; apply HF; exact Hy.
    - eapply with_conn_forall; [exact HF| |exact H]. intros; eapply CI_conn; eauto.
    - eapply with_conn_forall; [exact HF| |exact H]. intros c0 c1 e0 Hc Hh. cbv beta in Hh. eapply CI_handler; eauto.
    - destruct (run s); try discriminate. inversion H; exact HF.
    - inversion H; exact HF.
    - destruct (lst s); try discriminate. inversion H; exact HF.
    - eapply upd_conn_env_forall; [exact HF| |exact H]. intros; apply CI_send; assumption.
    - eapply upd_conn_env_forall; [exact HF| |exact H]. intros; apply CI_close; assumption.
    - eapply upd_conn_env_forall; [exact HF| |exact H]. intros; apply CI_stall; assumption.
    - inversion H; exact HF.
    - inversion H; exact HF.
    - inversion H; exact HF.
  Qed.

  Theorem lift_reachable s : reachable cfg s -> Forall CI (conns s).
  Proof.
    apply (invariant_reachable cfg (fun s => Forall CI (conns s))).
    - constructor.
    - intros s0 l s1 _ HF Hs. eapply lift_step; eauto.
  Qed.
End Lift.

(* ---------------------------------------------------------------- *)
(* L0: bookkeeping every step keeps                                   *)

Lemma take_handler_length r : forall l sc rest, take_handler r l = Some (sc, rest) -> length l = S (length rest).
Proof.
  induction l as [|[r' sc'] l IH]; intros sc rest H; cbn in H; [discriminate|].
  destruct (r' =? r).
  - inversion H; subst. reflexivity.
  - destruct (take_handler r l) as [[sc2 rest2]|]; [|discriminate].
    inversion H; subst. cbn. f_equal. eapply IH. reflexivity.
Qed.

(* the teardown that is still to do is a suffix of the configured list, and
   the effects of the executed prefix are exactly the recorded ones *)
Definition mem_t (t : tstep) (l : list tstep) : bool :=
  existsb (fun x => match t, x with
                    | TWgDone, TWgDone | TWaitHandlers, TWaitHandlers | TSockClose, TSockClose | TOnClose, TOnClose | TUntrack, TUntrack => true
                    | _, _ => false end) l.

Definition done_of (cfg : config) (c : conn) : list tstep :=
  match pc c with
  | CTeardown todo => firstn (5 - length todo) (teardown_of cfg)
  | CDone => teardown_of cfg
  | _ => []
  end.

Definition td_inv (cfg : config) (c : conn) : Prop :=
  (match pc c with
   | CTeardown todo => todo = skipn (5 - length todo) (teardown_of cfg) /\ length todo <= 5
   | _ => True
   end) /\
  onclose c = (if has_onclose cfg && mem_t TOnClose (done_of cfg c) then 1 else 0) /\
  sock_closed c = mem_t TSockClose (done_of cfg c) /\
  wgdone c = mem_t TWgDone (done_of cfg c) /\
  (mem_t TWaitHandlers (done_of cfg c) = true -> inflight c = 0) /\
  inflight c = length (hs c) /\
  (* once the loop has returned nothing is dispatched any more *)
  True.

Lemma teardown_of_cases cfg :
  teardown_of cfg = [TWaitHandlers; TSockClose; TUntrack; TOnClose; TWgDone] \/
  teardown_of cfg = [TUntrack; TWaitHandlers; TSockClose; TOnClose; TWgDone] \/
  teardown_of cfg = [TWgDone; TWaitHandlers; TSockClose; TUntrack; TOnClose] \/
  teardown_of cfg = [TWgDone; TUntrack; TWaitHandlers; TSockClose; TOnClose].
Proof. unfold teardown_of, teardown_core. destruct (wg_last cfg); destruct (untrack_late cfg); cbn; auto. Qed.

Ltac td_start cfg c H :=
  destruct H as (Hsuf & Hoc & Hsc & Hwg & Hwait & Hinf & _);
  unfold done_of in *.

Lemma td_inv_new cfg id b : td_inv cfg (new_conn id b).
Proof. unfold td_inv, done_of; cbn. rewrite andb_false_r. repeat split; auto; discriminate. Qed.

Lemma td_inv_enter cfg c c' :
  td_inv cfg c -> (match pc c with CTeardown _ | CDone => False | _ => True end) ->
  pc c' = CTeardown (teardown_of cfg) -> onclose c' = onclose c -> sock_closed c' = sock_closed c ->
  wgdone c' = wgdone c -> inflight c' = inflight c -> hs c' = hs c -> td_inv cfg c'.
Proof.
  intros H Hpc Hpc' Ho Hs Hw Hi Hh. td_start cfg c H.
  assert (length (teardown_of cfg) = 5) as Hl by (destruct (teardown_of_cases cfg) as [-> |[-> |[-> | ->]]]; reflexivity).
  unfold td_inv, done_of. rewrite Hpc', Hl. cbn [Nat.sub firstn skipn].
  destruct (pc c); try contradiction; cbn in *;
    rewrite Ho, Hs, Hw, Hi, Hh; rewrite andb_false_r in Hoc; cbn [mem_t existsb]; rewrite andb_false_r;
    repeat split; auto; try discriminate; try lia.
Qed.

(* executing the head of the remaining teardown *)
Lemma td_split cfg t rest : t :: rest = skipn (5 - length (t :: rest)) (teardown_of cfg) -> length (t :: rest) <= 5 ->
  firstn (5 - length rest) (teardown_of cfg) = firstn (5 - length (t :: rest)) (teardown_of cfg) ++ [t] /\
  rest = skipn (5 - length rest) (teardown_of cfg).
Proof.
  intros H Hl. destruct (teardown_of_cases cfg) as [E|[E|[E|E]]]; rewrite E in *; cbn [length] in *;
  destruct rest as [|a [|b [|c0 [|d [|e0 r]]]]]; cbn in *; try lia;
    inversion H; subst; split; reflexivity.
Qed.

Lemma mem_t_app t l x : mem_t t (l ++ [x]) = mem_t t l || mem_t t [x].
Proof. unfold mem_t. rewrite existsb_app. reflexivity. Qed.

Lemma stale_hs_length l : length (stale_hs l) = length l.
Proof. unfold stale_hs. apply map_length. Qed.

Lemma td_inv_conn cfg s c c' e : td_inv cfg c -> conn_step cfg s c = Some (c', e) -> td_inv cfg c'.
Proof.
  intros H Hs. unfold conn_step in Hs.
  destruct (pc c) as [| | |k sc|todo|] eqn:Epc.
  - (* CInit *)
    inversion Hs; subst. td_start cfg c H. unfold td_inv, done_of. rewrite Epc in *. cbn in *. repeat split; auto.
  - (* CLoopTop *)
    destruct (cancelled s).
    + destruct (can_write c); [|discriminate]. inversion Hs; subst.
      eapply td_inv_enter; [exact H|rewrite Epc; exact I|reflexivity..].
    + inversion Hs; subst. td_start cfg c H. unfold td_inv, done_of. rewrite Epc in *. cbn in *. repeat split; auto.
  - (* CRead *)
    destruct (input c) as [|it rest].
    + destruct (eof c || interrupted c); [|discriminate]. inversion Hs; subst.
      eapply td_inv_enter; [exact H|rewrite Epc; exact I|reflexivity..].
    + destruct it as [k sc| |].
      * destruct k.
        -- inversion Hs; subst. td_start cfg c H. unfold td_inv, done_of. rewrite Epc in *. cbn in *.
           rewrite app_length. cbn. repeat split; auto; try discriminate. lia.
        -- inversion Hs; subst. td_start cfg c H. unfold td_inv, done_of. rewrite Epc in *. cbn in *. repeat split; auto.
        -- destruct (has_unbind_route cfg).
           ++ inversion Hs; subst. td_start cfg c H. unfold td_inv, done_of. rewrite Epc in *. cbn in *. repeat split; auto.
           ++ inversion Hs; subst. eapply td_inv_enter; [exact H|rewrite Epc; exact I|reflexivity..].
      * inversion Hs; subst. eapply td_inv_enter; [exact H|rewrite Epc; exact I|reflexivity..].
      * inversion Hs; subst. eapply td_inv_enter; [exact H|rewrite Epc; exact I|reflexivity..].
  - (* CInline *)
    destruct sc as [|h rest].
    + destruct k; inversion Hs; subst;
        try (eapply td_inv_enter; [exact H|rewrite Epc; exact I|reflexivity..]);
        (td_start cfg c H; unfold td_inv, done_of; rewrite Epc in *; cbn in *; repeat split; auto).
    + destruct (negb (hstep_enabled s c h)); [discriminate|].
      destruct h.
      * inversion Hs; subst. td_start cfg c H. unfold td_inv, done_of. rewrite Epc in *. cbn in *. repeat split; auto.
      * destruct (recovery cfg).
        -- inversion Hs; subst. eapply td_inv_enter; [exact H|rewrite Epc; exact I|reflexivity..].
        -- inversion Hs; subst. exact H.
      * inversion Hs; subst. td_start cfg c H. unfold td_inv, done_of. rewrite Epc in *. cbn in *. repeat split; auto.
      * inversion Hs; subst. td_start cfg c H. unfold td_inv, done_of. rewrite Epc in *. cbn in *.
        repeat split; auto; destruct (after_plain (input c)) as [|[]]; cbn; rewrite ?stale_hs_length; auto.
      * inversion Hs; subst. td_start cfg c H. unfold td_inv, done_of. rewrite Epc in *. cbn in *. repeat split; auto.
  - (* CTeardown *)
    td_start cfg c H. rewrite Epc in *. destruct Hsuf as [Hsuf Hlen].
    destruct todo as [|t rest].
    + inversion Hs; subst. unfold td_inv, done_of. cbn [pc set_pc].
      cbn [length Nat.sub] in *.
      assert (firstn 5 (teardown_of cfg) = teardown_of cfg) as Hf
          by (destruct (teardown_of_cases cfg) as [-> |[-> |[-> | ->]]]; reflexivity).
      rewrite Hf in *. cbn. repeat split; auto.
    + destruct (td_split cfg t rest Hsuf Hlen) as [Hfirst Hrest].
      assert (length rest <= 5) as Hlr by (cbn in Hlen; lia).
      destruct t.
      * inversion Hs; subst. unfold td_inv, done_of. cbn [pc onclose sock_closed wgdone inflight hs].
        rewrite Hfirst, !mem_t_app. cbn [mem_t existsb orb]. rewrite !orb_false_r, orb_true_r.
        repeat split; auto.
      * destruct (inflight c =? 0) eqn:E0; [|discriminate]. apply Nat.eqb_eq in E0.
        inversion Hs; subst. unfold td_inv, done_of. cbn [pc set_pc onclose sock_closed wgdone inflight hs].
        rewrite Hfirst, !mem_t_app. cbn [mem_t existsb orb]. rewrite !orb_false_r.
        repeat split; auto.
      * inversion Hs; subst. unfold td_inv, done_of. cbn [pc onclose sock_closed wgdone inflight hs].
        rewrite Hfirst, !mem_t_app. cbn [mem_t existsb orb]. rewrite !orb_false_r, orb_true_r.
        repeat split; auto.
      * destruct (negb (has_onclose cfg)) eqn:Eh.
        -- inversion Hs; subst. apply negb_true_iff in Eh.
           unfold td_inv, done_of. cbn [pc set_pc onclose sock_closed wgdone inflight hs].
           rewrite Hfirst, !mem_t_app. cbn [mem_t existsb orb]. rewrite !orb_false_r.
           rewrite Eh in *. cbn [andb] in *. repeat split; auto.
        -- destruct (onclose_held s); [discriminate|]. inversion Hs; subst. apply negb_false_iff in Eh.
           unfold td_inv, done_of. cbn [pc onclose sock_closed wgdone inflight hs].
           rewrite Hfirst, !mem_t_app. cbn [mem_t existsb orb]. rewrite !orb_false_r, orb_true_r.
           rewrite Eh in *. cbn [andb] in *.
           (* OnClose had not been executed before: TOnClose occurs once in the list *)
           assert (mem_t TOnClose (firstn (5 - length (TOnClose :: rest)) (teardown_of cfg)) = false) as Hnot.
           { destruct (teardown_of_cases cfg) as [E|[E|[E|E]]]; rewrite E in *; cbn [length] in *;
             destruct rest as [|a [|b [|c0 [|d [|e0 r]]]]]; cbn in *; try lia; inversion Hsuf; reflexivity. }
           rewrite Hnot in Hoc. rewrite Hoc. repeat split; auto.
      * inversion Hs; subst. unfold td_inv, done_of. cbn [pc set_pc onclose sock_closed wgdone inflight hs].
        rewrite Hfirst, !mem_t_app. cbn [mem_t existsb orb]. rewrite !orb_false_r.
        repeat split; auto.
  - discriminate.
Qed.

Lemma td_inv_handler cfg s c r c' e : td_inv cfg c -> handler_step cfg s c r = Some (c', e) -> td_inv cfg c'.
Proof.
  intros H Hs. unfold handler_step in Hs.
  destruct (take_handler r (hs c)) as [[sc others]|] eqn:Et; [|discriminate].
  pose proof (take_handler_length r (hs c) sc others Et) as Hlen.
  td_start cfg c H.
  assert (Hfin : forall c1, pc c1 = pc c -> onclose c1 = onclose c -> sock_closed c1 = sock_closed c ->
                            wgdone c1 = wgdone c -> inflight c1 = pred (inflight c) -> hs c1 = others -> td_inv cfg c1).
  { intros c1 Hp Ho Hs1 Hw Hi Hh. unfold td_inv, done_of. rewrite Hp, Ho, Hs1, Hw, Hi, Hh.
    repeat split; auto; try lia; try (intros Hm; specialize (Hwait Hm); lia). }
  destruct sc as [|h rest].
  - inversion Hs; subst. apply Hfin; reflexivity.
  - destruct (negb (hstep_enabled s c h)); [discriminate|].
    destruct h;
      try (inversion Hs; subst; unfold td_inv, done_of; cbn [pc onclose sock_closed wgdone inflight hs];
           rewrite app_length; cbn [length]; repeat split; auto; lia).
    destruct (recovery cfg && handler_rec cfg).
    + inversion Hs; subst. apply Hfin; reflexivity.
    + inversion Hs; subst. unfold td_inv, done_of. repeat split; auto.
Qed.

Lemma td_inv_env cfg c :
  td_inv cfg c -> (forall it, td_inv cfg (env_send it c)) /\ td_inv cfg (env_close c) /\
                  (forall b, td_inv cfg (env_stall b c)) /\ td_inv cfg (interrupt c).
Proof. intros H. split; [intros it; exact H|split; [exact H|split; [intros b; exact H|exact H]]]. Qed.

Theorem td_inv_reachable cfg s : reachable cfg s -> Forall (td_inv cfg) (conns s).
Proof.
  apply lift_reachable.
  - apply td_inv_new.
  - intros; eapply td_inv_conn; eauto.
  - intros; eapply td_inv_handler; eauto.
  - intros it c H; apply (td_inv_env cfg c H).
  - intros c H; apply (td_inv_env cfg c H).
  - intros b c H; apply (td_inv_env cfg c H).
  - intros c H; apply (td_inv_env cfg c H).
Qed.

(* ---------------------------------------------------------------- *)
(* L2/L3: numbering of requests; nothing is read after an Unbind      *)

Fixpoint increasing (l : list nat) : Prop :=
  match l with
  | [] => True
  | x :: r => (forall y, In y r -> x < y) /\ increasing r
  end.

Lemma increasing_app l x : increasing l -> (forall y, In y l -> y < x) -> increasing (l ++ [x]).
Proof.
  induction l as [|a r IH]; intros Hi Hlt; cbn; [split; [intros y []|exact I]|].
  destruct Hi as [Ha Hr]. split.
  - intros y Hy. apply in_app_or in Hy. destruct Hy as [Hy|[<-|[]]]; [apply Ha; exact Hy|apply Hlt; left; reflexivity].
  - apply IH; [exact Hr|]. intros y Hy. apply Hlt. right. exact Hy.
Qed.

Definition count_unbind (l : list (nat * rkind)) : nat :=
  length (List.filter (fun x => match snd x with KUnbind => true | _ => false end) l).

Definition num_inv (cfg : config) (c : conn) : Prop :=
  (* Request.ID of the current iteration vs. items read *)
  (match pc c with
   | CInit => nreq c = 0 /\ nread c = 0
   | CRead => nreq c = S (nread c)
   | CLoopTop | CInline _ _ => nreq c = nread c
   | _ => True
   end) /\
  (* every handler that ran was given the number of its request in arrival order *)
  (forall r k, In (r, k) (started c) -> 1 <= r <= nread c) /\
  increasing (map fst (started c)) /\
  (* Unbind *)
  read_after_unbind c = 0 /\
  (unbind_seen c = true -> match pc c with CInline KUnbind _ | CTeardown _ | CDone => True | _ => False end) /\
  (unbind_seen c = false -> count_unbind (started c) = 0) /\
  count_unbind (started c) <= 1.

Lemma num_inv_new cfg id b : num_inv cfg (new_conn id b).
Proof. unfold num_inv; cbn. repeat split; auto; try discriminate; intros; contradiction. Qed.

Lemma count_unbind_app l x : count_unbind (l ++ [x]) =
  count_unbind l + match snd x with KUnbind => 1 | _ => 0 end.
Proof.
  unfold count_unbind. rewrite filter_app, app_length. cbn. destruct (snd x); reflexivity.
Qed.

Ltac num_start H :=
  destruct H as (Hn & Hst & Hinc & Hrau & Hub & Hcu0 & Hcu1).

(* the step that reads a request: it is dispatched with Request.ID = its
   position in the arrival order *)
Lemma dispatch_numbering cfg s c c' e k sc rest : num_inv cfg c -> pc c = CRead -> input c = IReq k sc :: rest ->
  conn_step cfg s c = Some (c', e) ->
  nread c' = S (nread c) /\
  (started c' = started c ++ [(S (nread c), k)] \/ (k = KUnbind /\ has_unbind_route cfg = false /\ started c' = started c)).
Proof.
  intros H Hpc Hin Hs. num_start H. unfold conn_step in Hs. rewrite Hpc, Hin in *.
  destruct k; [| |destruct (has_unbind_route cfg) eqn:Eu]; inversion Hs; subst; cbn; rewrite ?Hn; auto.
Qed.

Ltac fields := cbn [cid pc nreq nread input eof stalled interrupted inflight hs started ended unbind_seen
                        read_after_unbind sock_closed onclose wgdone set_pc].

Ltac num_fin Hub Hst :=
  repeat split; auto; try lia; try discriminate;
  try (let Hu := fresh in intros Hu; apply Hub in Hu; contradiction);
  try (let r0 := fresh in let k0 := fresh in let Hin0 := fresh in
       intros r0 k0 Hin0; specialize (Hst r0 k0 Hin0); lia);
  try (match goal with Hin : In (?r, ?k) (started _) |- _ => specialize (Hst r k Hin); lia end).

Ltac num_disp Hst :=
  repeat split; auto; try lia; try discriminate;
  try (let r0 := fresh in let k0 := fresh in let Hin0 := fresh in let Heq0 := fresh in
       intros r0 k0 Hin0; apply in_app_or in Hin0; destruct Hin0 as [Hin0|[Heq0|[]]];
       [specialize (Hst r0 k0 Hin0); lia|inversion Heq0; subst; lia]);
  try (match goal with Hin : In (?r, ?k) (_ ++ _) |- _ =>
         apply in_app_or in Hin; destruct Hin as [Hin|[Hin|[]]];
         [specialize (Hst r k Hin); lia|inversion Hin; subst; lia] end);
  try (apply increasing_app; assumption).

Lemma num_inv_conn cfg s c c' e : num_inv cfg c -> conn_step cfg s c = Some (c', e) -> num_inv cfg c'.
Proof.
  intros H Hs. num_start H. unfold conn_step in Hs.
  destruct (pc c) as [| | |k sc|todo|] eqn:Epc.
  - inversion Hs; subst. unfold num_inv. fields. destruct Hn as [Hn1 Hn2]. rewrite Hn1, Hn2 in *. num_fin Hub Hst.
  - destruct (cancelled s).
    + destruct (can_write c); [|discriminate]. inversion Hs; subst. unfold num_inv. fields. num_fin Hub Hst.
    + inversion Hs; subst. unfold num_inv. fields. num_fin Hub Hst.
  - assert (unbind_seen c = false) as Hus.
    { destruct (unbind_seen c) eqn:E; [|reflexivity]. specialize (Hub eq_refl). contradiction. }
    destruct (input c) as [|it rest].
    + destruct (eof c || interrupted c); [|discriminate]. inversion Hs; subst. unfold num_inv. fields. num_fin Hub Hst.
    + rewrite Hus in *. specialize (Hcu0 eq_refl).
      assert (Hfresh : forall y, In y (map fst (started c)) -> y < S (nread c)).
      { intros y Hy. apply in_map_iff in Hy. destruct Hy as ([r k0] & <- & Hin). cbn. specialize (Hst r k0 Hin). lia. }
      destruct it as [k sc| |].
      * destruct k.
        -- inversion Hs; subst. unfold num_inv. fields. rewrite Hn in *.
           rewrite map_app, count_unbind_app. cbn [map fst snd]. num_disp Hst.
        -- inversion Hs; subst. unfold num_inv. fields. rewrite Hn in *.
           rewrite map_app, count_unbind_app. cbn [map fst snd]. num_disp Hst.
        -- destruct (has_unbind_route cfg).
           ++ inversion Hs; subst. unfold num_inv. fields. rewrite Hn in *.
              rewrite map_app, count_unbind_app. cbn [map fst snd]. num_disp Hst.
           ++ inversion Hs; subst. unfold num_inv. fields. num_fin Hub Hst.
      * inversion Hs; subst. unfold num_inv. fields. num_fin Hub Hst.
      * inversion Hs; subst. unfold num_inv. fields. num_fin Hub Hst.
  - destruct sc as [|h rest].
    + destruct k; inversion Hs; subst; unfold num_inv; fields; num_fin Hub Hst.
    + destruct (negb (hstep_enabled s c h)); [discriminate|].
      destruct h.
      * inversion Hs; subst. unfold num_inv. fields. num_fin Hub Hst.
      * destruct (recovery cfg); inversion Hs; subst; unfold num_inv; fields; try rewrite Epc; num_fin Hub Hst.
      * inversion Hs; subst. unfold num_inv. fields. num_fin Hub Hst.
      * inversion Hs; subst. unfold num_inv. fields. num_fin Hub Hst.
      * inversion Hs; subst. unfold num_inv. fields. num_fin Hub Hst.
  - destruct todo as [|t rest].
    + inversion Hs; subst. unfold num_inv. fields. num_fin Hub Hst.
    + destruct t.
      * inversion Hs; subst. unfold num_inv. fields. num_fin Hub Hst.
      * destruct (inflight c =? 0); [|discriminate]. inversion Hs; subst. unfold num_inv. fields. num_fin Hub Hst.
      * inversion Hs; subst. unfold num_inv. fields. num_fin Hub Hst.
      * destruct (negb (has_onclose cfg)); [inversion Hs; subst; unfold num_inv; fields; num_fin Hub Hst|].
        destruct (onclose_held s); [discriminate|]. inversion Hs; subst. unfold num_inv. fields. num_fin Hub Hst.
      * inversion Hs; subst. unfold num_inv. fields. num_fin Hub Hst.
  - discriminate.
Qed.

Lemma num_inv_handler cfg s c r c' e : num_inv cfg c -> handler_step cfg s c r = Some (c', e) -> num_inv cfg c'.
Proof.
  intros H Hs. unfold handler_step in Hs.
  destruct (take_handler r (hs c)) as [[sc others]|]; [|discriminate].
  destruct sc as [|h rest].
  - inversion Hs; subst. exact H.
  - destruct (negb (hstep_enabled s c h)); [discriminate|].
    destruct h; try (inversion Hs; subst; exact H).
    destruct (recovery cfg && handler_rec cfg); inversion Hs; subst; exact H.
Qed.

Theorem num_inv_reachable cfg s : reachable cfg s -> Forall (num_inv cfg) (conns s).
Proof.
  apply lift_reachable.
  - apply num_inv_new.
  - intros; eapply num_inv_conn; eauto.
  - intros; eapply num_inv_handler; eauto.
  - intros it c H; exact H.
  - intros c H; exact H.
  - intros b c H; exact H.
  - intros c H; exact H.
Qed.

(* ---------------------------------------------------------------- *)
(* frame lemmas: what a step of each kind can change                  *)

Definition same_server (s s' : state) : Prop :=
  lst s' = lst s /\ port_bound s' = port_bound s /\ ready s' = ready s /\ cancelled s' = cancelled s /\
  run s' = run s /\ stops s' = stops s /\ nextid s' = nextid s /\ backlog s' = backlog s /\
  accept_err s' = accept_err s /\ accept_failed s' = accept_failed s /\ released s' = released s /\
  onclose_held s' = onclose_held s.

Lemma with_conn_frame s i f s' : with_conn s i f = Some s' ->
  same_server s s' /\
  exists c c' e, nth_error (conns s) i = Some c /\ f c = Some (c', e) /\
                 conns s' = update_nth i (fun _ => c') (conns s) /\
                 connwg s' = (match e with EWgDone => pred (connwg s) | _ => connwg s end) /\
                 alive s' = (match e with EDie => false | _ => alive s end).
Proof.
  unfold with_conn. intros H. destruct (nth_error (conns s) i) as [c|] eqn:En; [|discriminate].
  destruct (f c) as [[c' e]|] eqn:Ef; [|discriminate]. inversion H; subst.
  split; [destruct e; repeat split; reflexivity|].
  exists c, c', e. repeat split; auto; destruct e; reflexivity.
Qed.

Lemma upd_conn_env_frame s i f s' : upd_conn_env s i f = Some s' ->
  same_server s s' /\ connwg s' = connwg s /\ alive s' = alive s /\ conns s' = update_nth i f (conns s).
Proof.
  unfold upd_conn_env. intros H. destruct (nth_error (conns s) i); [|discriminate]. inversion H; subst.
  repeat split; reflexivity.
Qed.

(* connection ids never change *)
Lemma conn_step_cid cfg s c c' e : conn_step cfg s c = Some (c', e) -> cid c' = cid c.
Proof.
  unfold conn_step. intros H.
  destruct (pc c) as [| | |k sc|todo|].
  - inversion H; reflexivity.
  - destruct (cancelled s); [destruct (can_write c); [|discriminate]|]; inversion H; reflexivity.
  - destruct (input c) as [|it rest]; [destruct (eof c || interrupted c); [|discriminate]; inversion H; reflexivity|].
    destruct it as [k sc| |]; [destruct k; [| |destruct (has_unbind_route cfg)]|..]; inversion H; reflexivity.
  - destruct sc as [|h rest]; [destruct k; inversion H; reflexivity|].
    destruct (negb (hstep_enabled s c h)); [discriminate|].
    destruct h; [|destruct (recovery cfg)|..]; inversion H; reflexivity.
  - destruct todo as [|t rest]; [inversion H; reflexivity|].
    destruct t; [|destruct (inflight c =? 0); [|discriminate]| |destruct (negb (has_onclose cfg)); [|destruct (onclose_held s); [discriminate|]]|];
      inversion H; reflexivity.
  - discriminate.
Qed.

Lemma handler_step_cid cfg s c r c' e : handler_step cfg s c r = Some (c', e) -> cid c' = cid c.
Proof.
  unfold handler_step. intros H. destruct (take_handler r (hs c)) as [[sc others]|]; [|discriminate].
  destruct sc as [|h rest]; [inversion H; reflexivity|].
  destruct (negb (hstep_enabled s c h)); [discriminate|].
  destruct h; [|destruct (recovery cfg && handler_rec cfg)|..]; inversion H; reflexivity.
Qed.

(* ---------------------------------------------------------------- *)
(* G1 (C09): connection ids are the accept order 1, 2, 3, ...          *)

Definition ids_inv (s : state) : Prop :=
  (forall i c, nth_error (conns s) i = Some c -> cid c = S i) /\
  match run s with
  | RNot | RListen _ _ => nextid s = 0 /\ conns s = []
  | RTop => nextid s = length (conns s)
  | RAcceptWait | RAccepted => nextid s = S (length (conns s))
  | RRet _ => True
  end.

Lemma ids_update (cs : list conn) i (c' : conn) c :
  (forall j x, nth_error cs j = Some x -> cid x = S j) -> nth_error cs i = Some c -> cid c' = cid c ->
  forall j x, nth_error (update_nth i (fun _ => c') cs) j = Some x -> cid x = S j.
Proof.
  intros H Hn Hc j x Hx. destruct (Nat.eq_dec i j) as [->|Hne].
  - rewrite (nth_update_nth_eq _ _ _ _ Hn) in Hx. inversion Hx; subst. rewrite Hc. apply H. exact Hn.
  - rewrite nth_update_nth_neq in Hx by exact Hne. apply H. exact Hx.
Qed.

Lemma ids_update_f (cs : list conn) i (f : conn -> conn) :
  (forall x, cid (f x) = cid x) ->
  (forall j x, nth_error cs j = Some x -> cid x = S j) ->
  forall j x, nth_error (update_nth i f cs) j = Some x -> cid x = S j.
Proof.
  intros Hf H j x Hx. destruct (nth_error cs i) as [c|] eqn:En.
  - destruct (Nat.eq_dec i j) as [->|Hne].
    + rewrite (nth_update_nth_eq _ _ _ _ En) in Hx. inversion Hx; subst. rewrite Hf. apply H. exact En.
    + rewrite nth_update_nth_neq in Hx by exact Hne. apply H. exact Hx.
  - assert (update_nth i f cs = cs) as E.
    { clear -En. revert i En. induction cs as [|y r IH]; intros [|i] En; cbn in *; try discriminate; auto.
      f_equal. apply IH. exact En. }
    rewrite E in Hx. apply H. exact Hx.
Qed.

Lemma interrupt_tracked_cases c : interrupt_tracked c = interrupt c \/ interrupt_tracked c = c.
Proof. unfold interrupt_tracked. destruct (tracked c); auto. Qed.
Lemma cid_interrupt_tracked c : cid (interrupt_tracked c) = cid c.
Proof. destruct (interrupt_tracked_cases c) as [-> | ->]; reflexivity. Qed.

Theorem ids_inv_reachable cfg s : reachable cfg s -> ids_inv s.
Proof.
  apply invariant_reachable.
  - split; [intros [|i] c H; discriminate|cbn; auto].
  - intros s0 l s1 _ [Hids Hnext] Hs. unfold step in Hs. destruct (negb (alive s0)); [discriminate|].
    destruct l as [|si|ci|ci ri|v o| | |ci it|ci|ci b|b|b|].
    + (* LRun *)
      unfold run_step in Hs. destruct (run s0) as [|valid ok| | | |e] eqn:Er; try discriminate.
      * destruct (negb valid); [inversion Hs; subst; split; [exact Hids|exact I]|].
        destruct (stop_in_progress s0); [discriminate|]. destruct Hnext as [Hn Hc].
        destruct ok; inversion Hs; subst; (split; [exact Hids|cbn; rewrite ?Hc; cbn; auto]).
      * destruct (cancelled s0); [destruct (close_on_cancel cfg)|]; inversion Hs; subst;
          (split; [exact Hids|cbn; auto]).
      * destruct (lst s0); try (inversion Hs; subst; split; [exact Hids|exact I]).
        destruct (accept_err s0); [destruct (accept_retry cfg); inversion Hs; subst; (split; [exact Hids|cbn; rewrite ?Hnext; cbn; auto])|].
        destruct (backlog s0); [discriminate|inversion Hs; subst; split; [exact Hids|cbn; auto]].
      * inversion Hs; subst. split; cbn.
        -- intros i c Hn. destruct (Nat.lt_ge_cases i (length (conns s0))) as [Hlt|Hge].
           ++ rewrite nth_error_app1 in Hn by exact Hlt. apply Hids. exact Hn.
           ++ rewrite nth_error_app2 in Hn by exact Hge.
              destruct (i - length (conns s0)) as [|k] eqn:Ek; cbn in Hn; [|destruct k; discriminate].
              inversion Hn; subst. cbn. rewrite Hnext. f_equal. lia.
        -- rewrite app_length. cbn. lia.
    + (* LStop *)
      unfold stop_step in Hs. destruct (nth_error (stops s0) si) as [p|]; [|discriminate].
      destruct p; try discriminate.
      * destruct (lst s0); inversion Hs; subst; split; auto.
      * inversion Hs; subst; split; auto.
      * inversion Hs; subst. split; cbn.
        -- intros j x Hx. unfold interrupt_all in Hx. rewrite nth_error_map in Hx.
           destruct (nth_error (conns s0) j) as [y|] eqn:Ey; [|discriminate]. inversion Hx; subst. rewrite cid_interrupt_tracked. apply Hids. exact Ey.
        -- unfold interrupt_all. rewrite map_length. destruct (run s0); auto.
           destruct Hnext as [-> ->]. auto. destruct Hnext as [-> ->]. auto.
      * destruct (connwg s0 =? 0); [inversion Hs; subst; split; auto|discriminate].
    + (* LConn *)
      destruct (with_conn_frame _ _ _ _ Hs) as [(_ & _ & _ & _ & Hr & _ & Hni & _) (c & c' & e & Hn & Hf & Hc & _)].
      split.
      * rewrite Hc. eapply ids_update; eauto. eapply conn_step_cid; eauto.
      * rewrite Hr, Hni, Hc, length_update_nth. destruct (run s0); auto.
        destruct Hnext as [-> E]. rewrite E in Hn. destruct ci; discriminate.
        destruct Hnext as [-> E]. rewrite E in Hn. destruct ci; discriminate.
    + (* LHandler *)
      destruct (with_conn_frame _ _ _ _ Hs) as [(_ & _ & _ & _ & Hr & _ & Hni & _) (c0 & c' & e & Hn & Hf & Hc & _)].
      split.
      * rewrite Hc. eapply ids_update; eauto. eapply handler_step_cid; eauto.
      * rewrite Hr, Hni, Hc, length_update_nth. destruct (run s0); auto.
        destruct Hnext as [-> E]. rewrite E in Hn. destruct ci; discriminate.
        destruct Hnext as [-> E]. rewrite E in Hn. destruct ci; discriminate.
    + destruct (run s0) eqn:Er; try discriminate. inversion Hs; subst. split; [exact Hids|cbn; exact Hnext].
    + inversion Hs; subst. split; auto.
    + destruct (lst s0); try discriminate. inversion Hs; subst. split; auto.
    + destruct (upd_conn_env_frame _ _ _ _ Hs) as [(_ & _ & _ & _ & Hr & _ & Hni & _) (_ & _ & Hc)].
      split; [rewrite Hc; apply ids_update_f; [reflexivity|exact Hids]|].
      rewrite Hr, Hni, Hc, length_update_nth. destruct (run s0); auto;
        destruct Hnext as [-> E]; rewrite E; destruct ci; auto.
    + destruct (upd_conn_env_frame _ _ _ _ Hs) as [(_ & _ & _ & _ & Hr & _ & Hni & _) (_ & _ & Hc)].
      split; [rewrite Hc; apply ids_update_f; [reflexivity|exact Hids]|].
      rewrite Hr, Hni, Hc, length_update_nth. destruct (run s0); auto;
        destruct Hnext as [-> E]; rewrite E; destruct ci; auto.
    + destruct (upd_conn_env_frame _ _ _ _ Hs) as [(_ & _ & _ & _ & Hr & _ & Hni & _) (_ & _ & Hc)].
      split; [rewrite Hc; apply ids_update_f; [reflexivity|exact Hids]|].
      rewrite Hr, Hni, Hc, length_update_nth. destruct (run s0); auto;
        destruct Hnext as [-> E]; rewrite E; destruct ci; auto.
    + inversion Hs; subst. split; auto.
    + inversion Hs; subst. split; auto.
    + inversion Hs; subst. split; auto.
Qed.

(* ---------------------------------------------------------------- *)
(* server-level invariants: listener, port, Ready, cancellation        *)

Definition stop_active (p : spc) : bool := match p with SStart | SRet => false | _ => true end.
Definition past_cancel (p : spc) : bool := match p with SInterrupt | SWait | SRet => true | _ => false end.
Definition past_interrupt (p : spc) : bool := match p with SWait | SRet => true | _ => false end.
Definition in_loop (r : rpc) : bool := match r with RTop | RAcceptWait | RAccepted => true | _ => false end.

Definition srv_inv (cfg : config) (s : state) : Prop :=
  port_bound s = (match lst s with Listening => true | _ => false end) /\
  (match run s with RNot | RListen _ _ => lst s = NotCreated /\ ready s = false | _ => True end) /\
  (in_loop (run s) = true -> lst s <> NotCreated) /\
  (ready_on_error cfg = false -> ready s = true -> lst s <> NotCreated) /\
  (lst s = Listening -> in_loop (run s) = true \/ (run s = RRet true /\ accept_failed s = true) \/
                        (run s = RRet false /\ close_on_cancel cfg = false)) /\
  (lst s = ClosedL -> stops s <> []) /\
  (cancelled s = true -> stops s <> []) /\
  (run s = RRet false -> stops s <> []) /\
  (ready_on_error cfg = false -> run s = RRet true -> accept_failed s = false -> ready s = false) /\
  (close_on_cancel cfg = true -> cancelled s = true -> lst s = Listening -> run s = RTop) /\
  (stop_in_progress s = true -> lst s <> Listening) /\
  (existsb past_cancel (stops s) = true -> cancelled s = true).

Definition same_srv (s s' : state) : Prop :=
  lst s' = lst s /\ port_bound s' = port_bound s /\ ready s' = ready s /\ cancelled s' = cancelled s /\
  run s' = run s /\ stops s' = stops s /\ accept_failed s' = accept_failed s.

Lemma srv_inv_same cfg s s' : same_srv s s' -> srv_inv cfg s -> srv_inv cfg s'.
Proof.
  intros (E1 & E2 & E3 & E4 & E5 & E6 & E7) H. unfold srv_inv, stop_in_progress in *.
  rewrite E1, E2, E3, E4, E5, E6, E7. exact H.
Qed.

Lemma same_server_srv s s' : same_server s s' -> same_srv s s'.
Proof. intros (a & b & c & d & e & f & _ & _ & _ & g & _). repeat split; assumption. Qed.

Lemma existsb_update_nth {A} (p : A -> bool) l i x y : nth_error l i = Some x ->
  existsb p (update_nth i (fun _ => y) l) = true -> p y = true \/ existsb p l = true.
Proof.
  revert i; induction l as [|a r IH]; intros [|i] Hn H; cbn in *; try discriminate.
  - apply orb_true_iff in H. destruct H as [H|H]; [left; exact H|right; rewrite H; apply orb_true_r].
  - apply orb_true_iff in H. destruct H as [H|H]; [right; rewrite H; reflexivity|].
    destruct (IH i Hn H) as [G|G]; [left; exact G|right; rewrite G; apply orb_true_r].
Qed.

Lemma existsb_nth {A} (p : A -> bool) l i x : nth_error l i = Some x -> p x = true -> existsb p l = true.
Proof. intros Hn Hp. apply existsb_exists. exists x. split; [eapply nth_error_In; eauto|exact Hp]. Qed.

Lemma update_nth_nonnil {A} (f : A -> A) l i : l <> [] -> update_nth i f l <> [].
Proof. destruct l; [congruence|]. destruct i; cbn; discriminate. Qed.

Ltac srv_fin :=
  repeat split; auto; try discriminate; intros; subst;
  try discriminate; try congruence;
  repeat match goal with
         | H : ?x = false, H0 : context [?x] |- _ => rewrite H in H0; cbn in H0
         | H : ?x = true, H0 : context [?x] |- _ => rewrite H in H0; cbn in H0
         end;
  try discriminate; try congruence; auto;
  try (repeat match goal with
              | H : ?x = ?x -> _ |- _ => specialize (H eq_refl)
              | H : ?A -> _, H' : ?A |- _ => specialize (H H')
              end;
       try discriminate; try congruence; auto; tauto).

Theorem srv_inv_reachable cfg s : reachable cfg s -> srv_inv cfg s.
Proof.
  apply invariant_reachable.
  - unfold srv_inv; cbn. srv_fin.
  - intros s0 l s1 _ H Hs. unfold step in Hs. destruct (negb (alive s0)); [discriminate|].
    destruct l as [|si|ci|ci ri|v o| | |ci it|ci|ci b|b|b|].
    + (* LRun *)
      destruct H as (P1 & L0 & L1 & R1 & R2 & R3 & R4 & R5 & R6 & K & K2 & K3).
      unfold run_step in Hs. destruct (run s0) as [|valid ok| | | |e] eqn:Er; try discriminate.
      * destruct L0 as [Hl Hr].
        destruct (negb valid).
        { inversion Hs; subst. unfold srv_inv, stop_in_progress; cbn. rewrite Hl, Hr in *. srv_fin. }
        destruct (stop_in_progress s0) eqn:Esp; [discriminate|].
        destruct ok; inversion Hs; subst; unfold srv_inv, stop_in_progress in *; cbn; rewrite ?Hl, ?Hr in *; srv_fin.
      * cbn in L1. specialize (L1 eq_refl).
        destruct (cancelled s0) eqn:Ec.
        -- specialize (R4 eq_refl).
           destruct (close_on_cancel cfg) eqn:Ecc; inversion Hs; subst; unfold srv_inv, stop_in_progress in *; cbn; srv_fin.
        -- inversion Hs; subst. unfold srv_inv, stop_in_progress in *; cbn. srv_fin.
      * cbn in L1. specialize (L1 eq_refl).
        destruct (lst s0) eqn:El; try congruence.
        -- destruct (accept_err s0).
           ++ destruct (accept_retry cfg); inversion Hs; subst; unfold srv_inv, stop_in_progress, mark_accept_failed in *; cbn; rewrite ?El in *; srv_fin.
           ++ destruct (backlog s0); [discriminate|]. inversion Hs; subst.
              unfold srv_inv, stop_in_progress in *; cbn. rewrite ?El in *. srv_fin.
        -- specialize (R3 eq_refl). inversion Hs; subst. unfold srv_inv, stop_in_progress in *; cbn. rewrite ?El in *. srv_fin.
      * cbn in L1. specialize (L1 eq_refl). inversion Hs; subst. unfold srv_inv, stop_in_progress in *; cbn. srv_fin.
    + (* LStop *)
      destruct H as (P1 & L0 & L1 & R1 & R2 & R3 & R4 & R5 & R6 & K & K2 & K3).
      unfold stop_step in Hs. destruct (nth_error (stops s0) si) as [p|] eqn:En; [|discriminate].
      assert (stops s0 <> []) as Hne by (intros E; rewrite E in En; destruct si; discriminate).
      assert (forall q, update_nth si (fun _ => q) (stops s0) <> []) as Hne' by (intros; apply update_nth_nonnil; exact Hne).
      destruct p; try discriminate.
      * (* SStart *)
        destruct (lst s0) eqn:El; inversion Hs; subst; unfold srv_inv, stop_in_progress in *; cbn; rewrite ?El in *; srv_fin;
          try (apply K3; match goal with Hx : existsb _ (update_nth _ _ _) = true |- _ =>
                 destruct (existsb_update_nth _ _ _ _ _ En Hx) as [G|G]; [discriminate|exact G] end);
          try (destruct (run s0); auto; destruct L0; congruence).
      * (* SCancel *)
        assert (lst s0 <> Listening) as Hnl by (apply K2; eapply existsb_nth; [exact En|reflexivity]).
        inversion Hs; subst; unfold srv_inv, stop_in_progress in *; cbn. srv_fin;
          try (apply K2; eapply existsb_nth; [exact En|reflexivity]).
      * (* SInterrupt *)
        assert (cancelled s0 = true) as Hc by (apply K3; eapply existsb_nth; [exact En|reflexivity]).
        inversion Hs; subst; unfold srv_inv, stop_in_progress in *; cbn. srv_fin;
          try (apply K2; eapply existsb_nth; [exact En|reflexivity]).
      * (* SWait *)
        assert (cancelled s0 = true) as Hc by (apply K3; eapply existsb_nth; [exact En|reflexivity]).
        destruct (connwg s0 =? 0); [|discriminate].
        inversion Hs; subst; unfold srv_inv, stop_in_progress in *; cbn. srv_fin;
          try (apply K2; eapply existsb_nth; [exact En|reflexivity]).
    + destruct (with_conn_frame _ _ _ _ Hs) as [Hsame _]. eapply srv_inv_same; [apply same_server_srv; exact Hsame|exact H].
    + destruct (with_conn_frame _ _ _ _ Hs) as [Hsame _]. eapply srv_inv_same; [apply same_server_srv; exact Hsame|exact H].
    + (* ECallRun *)
      destruct H as (P1 & L0 & L1 & R1 & R2 & R3 & R4 & R5 & R6 & K & K2 & K3).
      destruct (run s0) eqn:Er; try discriminate. destruct L0 as [Hl Hr]. inversion Hs; subst.
      unfold srv_inv, stop_in_progress in *; cbn. rewrite ?Hl, ?Hr in *. srv_fin.
    + (* ECallStop *)
      destruct H as (P1 & L0 & L1 & R1 & R2 & R3 & R4 & R5 & R6 & K & K2 & K3).
      inversion Hs; subst. unfold srv_inv, stop_in_progress in *; cbn. srv_fin;
        try (destruct (stops s0); discriminate);
        try (match goal with Hx : existsb _ (_ ++ _) = true |- _ =>
               rewrite existsb_app in Hx; cbn in Hx; rewrite orb_false_r in Hx; auto end).
    + destruct (lst s0) eqn:El; try discriminate. inversion Hs; subst.
      eapply srv_inv_same; [|exact H]. repeat split; cbn; congruence.
    + destruct (upd_conn_env_frame _ _ _ _ Hs) as [Hsame _]. eapply srv_inv_same; [apply same_server_srv; exact Hsame|exact H].
    + destruct (upd_conn_env_frame _ _ _ _ Hs) as [Hsame _]. eapply srv_inv_same; [apply same_server_srv; exact Hsame|exact H].
    + destruct (upd_conn_env_frame _ _ _ _ Hs) as [Hsame _]. eapply srv_inv_same; [apply same_server_srv; exact Hsame|exact H].
    + inversion Hs; subst. eapply srv_inv_same; [|exact H]. repeat split; reflexivity.
    + inversion Hs; subst. eapply srv_inv_same; [|exact H]. repeat split; reflexivity.
    + inversion Hs; subst. eapply srv_inv_same; [|exact H]. repeat split; reflexivity.
Qed.

(* ---------------------------------------------------------------- *)
(* C07: with recovery on both goroutine kinds the process never dies   *)

Lemma conn_step_no_die cfg s c c' e : recovery cfg = true -> conn_step cfg s c = Some (c', e) -> e <> EDie.
Proof.
  intros Hr H. unfold conn_step in H.
  destruct (pc c) as [| | |k sc|todo|].
  - inversion H; discriminate.
  - destruct (cancelled s); [destruct (can_write c); [|discriminate]|]; inversion H; discriminate.
  - destruct (input c) as [|it rest]; [destruct (eof c || interrupted c); [|discriminate]; inversion H; discriminate|].
    destruct it as [k sc| |]; [destruct k; [| |destruct (has_unbind_route cfg)]|..]; inversion H; discriminate.
  - destruct sc as [|h rest]; [destruct k; inversion H; discriminate|].
    destruct (negb (hstep_enabled s c h)); [discriminate|]. rewrite Hr in H.
    destruct h; inversion H; discriminate.
  - destruct todo as [|t rest]; [inversion H; discriminate|].
    destruct t; [|destruct (inflight c =? 0); [|discriminate]| |destruct (negb (has_onclose cfg)); [|destruct (onclose_held s); [discriminate|]]|];
      inversion H; discriminate.
  - discriminate.
Qed.

Lemma handler_step_no_die cfg s c r c' e : recovery cfg = true -> handler_rec cfg = true ->
  handler_step cfg s c r = Some (c', e) -> e <> EDie.
Proof.
  intros Hr Hh H. unfold handler_step in H. destruct (take_handler r (hs c)) as [[sc others]|]; [|discriminate].
  destruct sc as [|h rest]; [inversion H; discriminate|].
  destruct (negb (hstep_enabled s c h)); [discriminate|]. rewrite Hr, Hh in H.
  destruct h; inversion H; discriminate.
Qed.

Theorem alive_reachable cfg s : recovery cfg = true -> handler_rec cfg = true -> reachable cfg s -> alive s = true.
Proof.
  intros Hr Hh Hre. revert s Hre. apply (invariant_reachable cfg (fun s => alive s = true)); [reflexivity|].
  intros s0 l s1 _ Ha Hs. unfold step in Hs. rewrite Ha in Hs. cbn [negb] in Hs.
  destruct l as [|si|ci|ci ri|v o| | |ci it|ci|ci b|b|b|].
  - unfold run_step in Hs. destruct (run s0) as [|valid ok| | | |e]; try discriminate.
    + destruct (negb valid); [inversion Hs; subst; first [exact Ha|reflexivity]|]. destruct (stop_in_progress s0); [discriminate|].
      destruct ok; inversion Hs; subst; first [exact Ha|reflexivity].
    + destruct (cancelled s0); [destruct (close_on_cancel cfg)|]; inversion Hs; subst; first [exact Ha|reflexivity].
    + destruct (lst s0); try (inversion Hs; subst; first [exact Ha|reflexivity]).
      destruct (accept_err s0); [destruct (accept_retry cfg); inversion Hs; subst; first [exact Ha|reflexivity]|].
      destruct (backlog s0); [discriminate|inversion Hs; subst; first [exact Ha|reflexivity]].
    + inversion Hs; subst; first [exact Ha|reflexivity].
  - unfold stop_step in Hs. destruct (nth_error (stops s0) si) as [p|]; [|discriminate].
    destruct p; try discriminate.
    + destruct (lst s0); inversion Hs; subst; first [exact Ha|reflexivity].
    + inversion Hs; subst; first [exact Ha|reflexivity].
    + inversion Hs; subst; first [exact Ha|reflexivity].
    + destruct (connwg s0 =? 0); [inversion Hs; subst; first [exact Ha|reflexivity]|discriminate].
  - destruct (with_conn_frame _ _ _ _ Hs) as [_ (c & c' & e & _ & Hf & _ & _ & Hal)].
    rewrite Hal. pose proof (conn_step_no_die _ _ _ _ _ Hr Hf). destruct e; try first [exact Ha|reflexivity]. congruence.
  - destruct (with_conn_frame _ _ _ _ Hs) as [_ (c & c' & e & _ & Hf & _ & _ & Hal)].
    rewrite Hal. pose proof (handler_step_no_die _ _ _ _ _ _ Hr Hh Hf). destruct e; try first [exact Ha|reflexivity]. congruence.
  - destruct (run s0); try discriminate. inversion Hs; subst; first [exact Ha|reflexivity].
  - inversion Hs; subst; first [exact Ha|reflexivity].
  - destruct (lst s0); try discriminate. inversion Hs; subst; first [exact Ha|reflexivity].
  - destruct (upd_conn_env_frame _ _ _ _ Hs) as (_ & _ & Hal & _). rewrite Hal. first [exact Ha|reflexivity].
  - destruct (upd_conn_env_frame _ _ _ _ Hs) as (_ & _ & Hal & _). rewrite Hal. first [exact Ha|reflexivity].
  - destruct (upd_conn_env_frame _ _ _ _ Hs) as (_ & _ & Hal & _). rewrite Hal. first [exact Ha|reflexivity].
  - inversion Hs; subst; first [exact Ha|reflexivity].
  - inversion Hs; subst; first [exact Ha|reflexivity].
  - inversion Hs; subst; first [exact Ha|reflexivity].
Qed.

(* a transient Accept error (descriptor exhaustion) never ends Run when it is retried *)
Theorem accept_never_fails cfg s : accept_retry cfg = true -> reachable cfg s -> accept_failed s = false.
Proof.
  intros Har Hre. revert s Hre. apply (invariant_reachable cfg (fun s => accept_failed s = false)); [reflexivity|].
  intros s0 l s1 _ Ha Hs. unfold step in Hs. destruct (negb (alive s0)); [discriminate|].
  destruct l as [|si|ci|ci ri|v o| | |ci it|ci|ci b|b|b|].
  - unfold run_step in Hs. destruct (run s0) as [|valid ok| | | |e]; try discriminate.
    + destruct (negb valid); [inversion Hs; subst; exact Ha|]. destruct (stop_in_progress s0); [discriminate|].
      destruct ok; inversion Hs; subst; exact Ha.
    + destruct (cancelled s0); [destruct (close_on_cancel cfg)|]; inversion Hs; subst; exact Ha.
    + destruct (lst s0); try (inversion Hs; subst; exact Ha).
      destruct (accept_err s0); [rewrite Har in Hs; inversion Hs; subst; exact Ha|].
      destruct (backlog s0); [discriminate|inversion Hs; subst; exact Ha].
    + inversion Hs; subst; exact Ha.
  - unfold stop_step in Hs. destruct (nth_error (stops s0) si) as [p|]; [|discriminate].
    destruct p; try discriminate.
    + destruct (lst s0); inversion Hs; subst; exact Ha.
    + inversion Hs; subst; exact Ha.
    + inversion Hs; subst; exact Ha.
    + destruct (connwg s0 =? 0); [inversion Hs; subst; exact Ha|discriminate].
  - destruct (with_conn_frame _ _ _ _ Hs) as [Hsame _]. apply same_server_srv in Hsame.
    destruct Hsame as (_ & _ & _ & _ & _ & _ & E). rewrite E. exact Ha.
  - destruct (with_conn_frame _ _ _ _ Hs) as [Hsame _]. apply same_server_srv in Hsame.
    destruct Hsame as (_ & _ & _ & _ & _ & _ & E). rewrite E. exact Ha.
  - destruct (run s0); try discriminate. inversion Hs; subst; exact Ha.
  - inversion Hs; subst; exact Ha.
  - destruct (lst s0); try discriminate. inversion Hs; subst; exact Ha.
  - destruct (upd_conn_env_frame _ _ _ _ Hs) as (Hsame & _). apply same_server_srv in Hsame.
    destruct Hsame as (_ & _ & _ & _ & _ & _ & E). rewrite E. exact Ha.
  - destruct (upd_conn_env_frame _ _ _ _ Hs) as (Hsame & _). apply same_server_srv in Hsame.
    destruct Hsame as (_ & _ & _ & _ & _ & _ & E). rewrite E. exact Ha.
  - destruct (upd_conn_env_frame _ _ _ _ Hs) as (Hsame & _). apply same_server_srv in Hsame.
    destruct Hsame as (_ & _ & _ & _ & _ & _ & E). rewrite E. exact Ha.
  - inversion Hs; subst; exact Ha.
  - inversion Hs; subst; exact Ha.
  - inversion Hs; subst; exact Ha.
Qed.

(* pinned: one failed Accept ends Run while the socket stays bound and Ready stays true *)
Lemma accept_error_pinned_refuted :
  exists s, run_labels pinned_cfg init [ECallRun true true; LRun; LRun; EAcceptErr; LRun] = Some s /\
            run s = RRet true /\ ready s = true /\ lst s = Listening /\ accept_failed s = true.
Proof. eexists. split; [vm_compute; reflexivity|]. repeat split. Qed.

(* the pinned configuration: one panicking handler kills the process *)
Lemma alive_pinned_refuted :
  exists s, run_labels pinned_cfg init
              [ECallRun true true; LRun; LRun; EConnect; LRun; LRun; LConn 0; LConn 0;
               ESend 0 (IReq KNormal [HPanic]); LConn 0; LHandler 0 1] = Some s /\ alive s = false.
Proof. eexists. split; [vm_compute; reflexivity|reflexivity]. Qed.

(* a fault on one connection leaves every other connection's record alone *)
Lemma with_conn_others s i f s' : with_conn s i f = Some s' ->
  forall j, j <> i -> nth_error (conns s') j = nth_error (conns s) j.
Proof.
  intros H j Hj. destruct (with_conn_frame _ _ _ _ H) as [_ (c & c' & e & _ & _ & Hc & _)].
  rewrite Hc. apply nth_update_nth_neq. congruence.
Qed.

(* ---------------------------------------------------------------- *)
(* the wait group: connWg counts the connections whose goroutine has   *)
(* not yet released it (plus the one being accepted)                   *)

Definition not_done (c : conn) : bool := negb (wgdone c).
Definition pending (cs : list conn) : nat := length (List.filter not_done cs).
Arguments pending : simpl never.

Definition wg_inv (cfg : config) (s : state) : Prop :=
  connwg s = pending (conns s) +
             (if add_before_accept cfg then match run s with RAcceptWait | RAccepted => 1 | _ => 0 end else 0).

Lemma pending_app cs c : pending (cs ++ [c]) = pending cs + (if not_done c then 1 else 0).
Proof. unfold pending. rewrite filter_app, app_length. cbn. destruct (not_done c); reflexivity. Qed.

Lemma pending_update cs i c c' : nth_error cs i = Some c -> wgdone c' = wgdone c ->
  pending (update_nth i (fun _ => c') cs) = pending cs.
Proof.
  revert i; induction cs as [|x r IH]; intros [|i] Hn Hw; cbn in *; try discriminate.
  - inversion Hn; subst. unfold pending, not_done. cbn. rewrite Hw. destruct (negb (wgdone c)); reflexivity.
  - unfold pending in *. cbn. destruct (not_done x); cbn; rewrite (IH i Hn Hw); reflexivity.
Qed.

Lemma pending_update_done cs i c c' : nth_error cs i = Some c -> wgdone c = false -> wgdone c' = true ->
  pending cs = S (pending (update_nth i (fun _ => c') cs)).
Proof.
  revert i; induction cs as [|x r IH]; intros [|i] Hn Hw Hw'; cbn in *; try discriminate.
  - inversion Hn; subst. unfold pending, not_done. cbn. rewrite Hw, Hw'. reflexivity.
  - unfold pending in *. cbn. destruct (not_done x); cbn; rewrite (IH i Hn Hw Hw'); reflexivity.
Qed.

Lemma pending_update_f cs i (f : conn -> conn) : (forall x, wgdone (f x) = wgdone x) ->
  pending (update_nth i f cs) = pending cs.
Proof.
  intros Hf. revert i; induction cs as [|x r IH]; intros [|i]; cbn; auto.
  - unfold pending, not_done. cbn. rewrite Hf. destruct (negb (wgdone x)); reflexivity.
  - unfold pending in *. cbn. destruct (not_done x); cbn; rewrite IH; reflexivity.
Qed.

Lemma pending_map_intr cs : pending (interrupt_all cs) = pending cs.
Proof.
  unfold pending, interrupt_all. induction cs as [|x r IH]; [reflexivity|].
  cbn [map List.filter].
  replace (not_done (interrupt_tracked x)) with (not_done x)
    by (destruct (interrupt_tracked_cases x) as [-> | ->]; reflexivity).
  destruct (not_done x); cbn [length]; rewrite IH; reflexivity.
Qed.

(* how a connection step relates to its wgdone flag and the effect *)
Lemma conn_step_wg cfg s c c' e : td_inv cfg c -> conn_step cfg s c = Some (c', e) ->
  (e = EWgDone /\ wgdone c = false /\ wgdone c' = true) \/ (e <> EWgDone /\ wgdone c' = wgdone c).
Proof.
  intros Htd H. unfold conn_step in H.
  destruct (pc c) as [| | |k sc|todo|] eqn:Epc.
  - inversion H; subst. right. split; [discriminate|reflexivity].
  - destruct (cancelled s); [destruct (can_write c); [|discriminate]|]; inversion H; subst; right; split; [discriminate|reflexivity|discriminate|reflexivity].
  - destruct (input c) as [|it rest]; [destruct (eof c || interrupted c); [|discriminate]; inversion H; subst; right; split; [discriminate|reflexivity]|].
    destruct it as [k sc| |]; [destruct k; [| |destruct (has_unbind_route cfg)]|..]; inversion H; subst; right; split; try discriminate; reflexivity.
  - destruct sc as [|h rest]; [destruct k; inversion H; subst; right; split; try discriminate; reflexivity|].
    destruct (negb (hstep_enabled s c h)); [discriminate|].
    destruct h; [|destruct (recovery cfg)|..]; inversion H; subst; right; split; try discriminate; reflexivity.
  - destruct todo as [|t rest]; [inversion H; subst; right; split; [discriminate|reflexivity]|].
    destruct t.
    + inversion H; subst. left. split; [reflexivity|]. split; [|reflexivity].
      (* TWgDone had not been executed: it occurs once in the list *)
      unfold td_inv, done_of in Htd. rewrite Epc in Htd. destruct Htd as ((Hsuf & Hlen) & _ & _ & Hwg & _).
      rewrite Hwg. destruct (teardown_of_cases cfg) as [E|[E|[E|E]]]; rewrite E in *; cbn [length] in *;
        destruct rest as [|a [|b [|c0 [|d [|e0 r]]]]]; cbn in *; try lia; inversion Hsuf; reflexivity.
    + destruct (inflight c =? 0); [|discriminate]. inversion H; subst. right. split; [discriminate|reflexivity].
    + inversion H; subst. right. split; [discriminate|reflexivity].
    + destruct (negb (has_onclose cfg)); [inversion H; subst; right; split; [discriminate|reflexivity]|].
      destruct (onclose_held s); [discriminate|]. inversion H; subst. right. split; [discriminate|reflexivity].
    + inversion H; subst. right. split; [discriminate|reflexivity].
  - discriminate.
Qed.

Lemma handler_step_wg cfg s c r c' e : handler_step cfg s c r = Some (c', e) -> e <> EWgDone /\ wgdone c' = wgdone c.
Proof.
  unfold handler_step. intros H. destruct (take_handler r (hs c)) as [[sc others]|]; [|discriminate].
  destruct sc as [|h rest]; [inversion H; subst; split; [discriminate|reflexivity]|].
  destruct (negb (hstep_enabled s c h)); [discriminate|].
  destruct h; [|destruct (recovery cfg && handler_rec cfg)|..]; inversion H; subst; split; try discriminate; reflexivity.
Qed.

Theorem wg_inv_reachable cfg s : reachable cfg s -> wg_inv cfg s.
Proof.
  revert s. apply (invariant_reachable cfg (wg_inv cfg)).
  - unfold wg_inv; cbn. destruct (add_before_accept cfg); reflexivity.
  - intros s0 l s1 Hr0 H Hs. pose proof (td_inv_reachable cfg s0 Hr0) as Htd.
    unfold step in Hs. destruct (negb (alive s0)); [discriminate|].
    unfold wg_inv in *.
    destruct l as [|si|ci|ci ri|v o| | |ci it|ci|ci b|b|b|].
    + unfold run_step in Hs. destruct (run s0) as [|valid ok| | | |e] eqn:Er; try discriminate.
      * destruct (negb valid); [inversion Hs; subst; cbn; rewrite H; destruct (add_before_accept cfg); reflexivity|].
        destruct (stop_in_progress s0); [discriminate|].
        destruct ok; inversion Hs; subst; cbn; rewrite H; destruct (add_before_accept cfg); reflexivity.
      * destruct (cancelled s0); [destruct (close_on_cancel cfg)|]; inversion Hs; subst; cbn; rewrite H;
          destruct (add_before_accept cfg); lia.
      * destruct (lst s0); try (inversion Hs; subst; cbn; rewrite H; destruct (add_before_accept cfg); cbn; lia).
        destruct (accept_err s0); [destruct (accept_retry cfg); inversion Hs; subst; cbn; destruct (add_before_accept cfg); cbn in *; lia|].
        destruct (backlog s0); [discriminate|inversion Hs; subst; cbn; rewrite H; destruct (add_before_accept cfg); reflexivity].
      * inversion Hs; subst; cbn. rewrite pending_app. unfold not_done. cbn. rewrite H.
        destruct (add_before_accept cfg); lia.
    + unfold stop_step in Hs. destruct (nth_error (stops s0) si) as [p|]; [|discriminate].
      destruct p; try discriminate.
      * destruct (lst s0); inversion Hs; subst; cbn; exact H.
      * inversion Hs; subst; cbn; exact H.
      * inversion Hs; subst; cbn. rewrite pending_map_intr. exact H.
      * destruct (connwg s0 =? 0); [inversion Hs; subst; cbn; exact H|discriminate].
    + destruct (with_conn_frame _ _ _ _ Hs) as [(_ & _ & _ & _ & Hrun & _) (c & c' & e & Hn & Hf & Hc & Hw & _)].
      rewrite Hw, Hc, Hrun.
      assert (td_inv cfg c) as Htc by (rewrite Forall_forall in Htd; apply Htd; eapply nth_error_In; eauto).
      destruct (conn_step_wg _ _ _ _ _ Htc Hf) as [(-> & Hw0 & Hw1)|(Hne & Hweq)].
      * rewrite H. rewrite (pending_update_done _ _ _ _ Hn Hw0 Hw1). cbn. reflexivity.
      * rewrite (pending_update _ _ _ _ Hn Hweq). destruct e; try exact H. congruence.
    + destruct (with_conn_frame _ _ _ _ Hs) as [(_ & _ & _ & _ & Hrun & _) (c & c' & e & Hn & Hf & Hc & Hw & _)].
      rewrite Hw, Hc, Hrun. destruct (handler_step_wg _ _ _ _ _ _ Hf) as [Hne Hweq].
      rewrite (pending_update _ _ _ _ Hn Hweq). destruct e; try exact H. congruence.
    + destruct (run s0) eqn:Er; try discriminate. inversion Hs; subst; cbn. rewrite H.
      destruct (add_before_accept cfg); reflexivity.
    + inversion Hs; subst; cbn; exact H.
    + destruct (lst s0); try discriminate. inversion Hs; subst; cbn; exact H.
    + destruct (upd_conn_env_frame _ _ _ _ Hs) as ((_ & _ & _ & _ & Hrun & _) & Hw & _ & Hc).
      rewrite Hw, Hc, Hrun, pending_update_f by reflexivity. exact H.
    + destruct (upd_conn_env_frame _ _ _ _ Hs) as ((_ & _ & _ & _ & Hrun & _) & Hw & _ & Hc).
      rewrite Hw, Hc, Hrun, pending_update_f by reflexivity. exact H.
    + destruct (upd_conn_env_frame _ _ _ _ Hs) as ((_ & _ & _ & _ & Hrun & _) & Hw & _ & Hc).
      rewrite Hw, Hc, Hrun, pending_update_f by reflexivity. exact H.
    + inversion Hs; subst; cbn; exact H.
    + inversion Hs; subst; cbn; exact H.
    + inversion Hs; subst; cbn; exact H.
Qed.

(* ---------------------------------------------------------------- *)
(* once a Stop call has returned: cancelled for good, wait group at 0  *)

Definition is_ret (p : spc) : bool := match p with SRet => true | _ => false end.
Definition stopped (s : state) : bool := existsb is_ret (stops s).

Definition stopped_inv (s : state) : Prop := stopped s = true -> cancelled s = true /\ connwg s = 0.

Theorem stopped_inv_reachable cfg s : add_before_accept cfg = true -> reachable cfg s -> stopped_inv s.
Proof.
  intros Haba. revert s. apply (invariant_reachable cfg stopped_inv).
  - intros H. discriminate.
  - intros s0 l s1 Hr0 H Hs. pose proof (srv_inv_reachable cfg s0 Hr0) as Hsrv.
    destruct Hsrv as (_ & _ & _ & _ & _ & _ & _ & _ & _ & _ & _ & K3).
    unfold step in Hs. destruct (negb (alive s0)); [discriminate|].
    unfold stopped_inv, stopped in *.
    destruct l as [|si|ci|ci ri|v o| | |ci it|ci|ci b|b|b|].
    + unfold run_step in Hs. rewrite Haba in Hs. destruct (run s0) as [|valid ok| | | |e] eqn:Er; try discriminate.
      * destruct (negb valid); [inversion Hs; subst; cbn; exact H|].
        destruct (stop_in_progress s0); [discriminate|]. destruct ok; inversion Hs; subst; cbn; exact H.
      * destruct (cancelled s0) eqn:Ec.
        -- destruct (close_on_cancel cfg); inversion Hs; subst; cbn; intros Hst; specialize (H Hst); tauto.
        -- inversion Hs; subst; cbn. intros Hst. specialize (H Hst). destruct H; congruence.
      * destruct (lst s0); try (inversion Hs; subst; cbn; intros Hst; destruct (H Hst) as [Hc Hw]; rewrite Hw; auto).
        destruct (accept_err s0); [destruct (accept_retry cfg); inversion Hs; subst; cbn; intros Hst; destruct (H Hst) as [Hc Hw]; rewrite Hw; auto|].
        destruct (backlog s0); [discriminate|inversion Hs; subst; cbn; exact H].
      * inversion Hs; subst; cbn. exact H.
    + unfold stop_step in Hs. destruct (nth_error (stops s0) si) as [p|] eqn:En; [|discriminate].
      destruct p; try discriminate.
      * destruct (lst s0); inversion Hs; subst; cbn; intros Hst;
          (destruct (existsb_update_nth _ _ _ _ _ En Hst) as [G|G]; [discriminate|exact (H G)]).
      * inversion Hs; subst; cbn. intros Hst.
        destruct (existsb_update_nth _ _ _ _ _ En Hst) as [G|G]; [destruct (stop_interrupts cfg); discriminate|].
        destruct (H G). auto.
      * inversion Hs; subst; cbn. intros Hst.
        destruct (existsb_update_nth _ _ _ _ _ En Hst) as [G|G]; [discriminate|exact (H G)].
      * destruct (connwg s0 =? 0) eqn:E0; [|discriminate]. apply Nat.eqb_eq in E0.
        inversion Hs; subst; cbn. intros _. split; [|exact E0].
        apply K3. eapply existsb_nth; [exact En|reflexivity].
    + destruct (with_conn_frame _ _ _ _ Hs) as [(_ & _ & _ & Hc & _ & Hst & _) (c & c' & e & _ & _ & _ & Hw & _)].
      rewrite Hc, Hst, Hw. intros Hx. destruct (H Hx) as [A B]. rewrite B. split; [exact A|destruct e; reflexivity].
    + destruct (with_conn_frame _ _ _ _ Hs) as [(_ & _ & _ & Hc & _ & Hst & _) (c & c' & e & _ & _ & _ & Hw & _)].
      rewrite Hc, Hst, Hw. intros Hx. destruct (H Hx) as [A B]. rewrite B. split; [exact A|destruct e; reflexivity].
    + destruct (run s0); try discriminate. inversion Hs; subst; cbn; exact H.
    + inversion Hs; subst; cbn. intros Hst. rewrite existsb_app in Hst. cbn in Hst. rewrite orb_false_r in Hst. exact (H Hst).
    + destruct (lst s0); try discriminate. inversion Hs; subst; cbn; exact H.
    + destruct (upd_conn_env_frame _ _ _ _ Hs) as ((_ & _ & _ & Hc & _ & Hst & _) & Hw & _). rewrite Hc, Hst, Hw. exact H.
    + destruct (upd_conn_env_frame _ _ _ _ Hs) as ((_ & _ & _ & Hc & _ & Hst & _) & Hw & _). rewrite Hc, Hst, Hw. exact H.
    + destruct (upd_conn_env_frame _ _ _ _ Hs) as ((_ & _ & _ & Hc & _ & Hst & _) & Hw & _). rewrite Hc, Hst, Hw. exact H.
    + inversion Hs; subst; cbn; exact H.
    + inversion Hs; subst; cbn; exact H.
    + inversion Hs; subst; cbn; exact H.
Qed.

(* ---------------------------------------------------------------- *)
(* C12: when a Stop call and Run have both returned the server is quiet *)

Definition conn_quiet (cfg : config) (c : conn) : Prop :=
  sock_closed c = true /\ inflight c = 0 /\ hs c = [] /\
  onclose c = (if has_onclose cfg then 1 else 0) /\
  match pc c with CTeardown [] | CDone => True | _ => False end.

Lemma pending_zero cs : pending cs = 0 -> Forall (fun c => wgdone c = true) cs.
Proof.
  unfold pending. induction cs as [|x r IH]; intros H; [constructor|].
  cbn in H. unfold not_done at 1 in H. destruct (wgdone x) eqn:E; cbn in H; [|discriminate].
  constructor; [exact E|apply IH; exact H].
Qed.

(* with connWg.Done last, a connection that has released the wait group has
   done everything else *)
Lemma wgdone_last_quiet cfg c : wg_last cfg = true -> td_inv cfg c -> wgdone c = true -> conn_quiet cfg c.
Proof.
  intros Hl (Hsuf & Hoc & Hsc & Hwg & Hwait & Hinf & _) Hw. unfold conn_quiet, done_of, teardown_of, teardown_core in *.
  rewrite Hl in *. rewrite Hw in Hwg.
  destruct (untrack_late cfg); cbn [app] in *;
  (destruct (pc c) as [| | |k sc|todo|]; cbn in Hwg; try discriminate;
   [ destruct Hsuf as [Hsuf Hlen];
     destruct todo as [|a [|b [|c0 [|d [|e0 r]]]]]; cbn in *; try discriminate; try lia;
     rewrite Hoc, Hsc; rewrite andb_true_r; specialize (Hwait eq_refl); rewrite Hwait in Hinf;
     repeat split; auto; destruct (hs c); [reflexivity|discriminate]
   | cbn in *; rewrite Hoc, Hsc; rewrite andb_true_r; specialize (Hwait eq_refl); rewrite Hwait in Hinf;
     repeat split; auto; destruct (hs c); [reflexivity|discriminate] ]).
Qed.

Theorem quiescent_after_stop cfg s :
  wg_last cfg = true -> add_before_accept cfg = true -> close_on_cancel cfg = true ->
  reachable cfg s -> stopped s = true -> (exists e, run s = RRet e) ->
  lst s <> Listening /\ port_bound s = false /\ Forall (conn_quiet cfg) (conns s).
Proof.
  intros Hl Haba Hcc Hr Hst [e He].
  destruct (stopped_inv_reachable cfg s Haba Hr Hst) as [Hc Hw].
  pose proof (wg_inv_reachable cfg s Hr) as Hwg. unfold wg_inv in Hwg. rewrite Haba, He, Hw in Hwg.
  destruct (srv_inv_reachable cfg s Hr) as (P1 & _ & _ & _ & _ & _ & _ & _ & _ & K & _).
  assert (lst s <> Listening) as Hnl.
  { intros El. specialize (K Hcc Hc El). rewrite He in K. discriminate. }
  split; [exact Hnl|]. split; [rewrite P1; destruct (lst s); congruence|].
  pose proof (td_inv_reachable cfg s Hr) as Htd.
  assert (pending (conns s) = 0) as Hp by lia.
  pose proof (pending_zero _ Hp) as Hall.
  rewrite Forall_forall in *. intros c Hin. apply wgdone_last_quiet; auto.
Qed.

(* the pinned teardown order: Stop returns with the socket open *)
Lemma quiescent_pinned_refuted :
  exists s, run_labels pinned_cfg init
              [ECallRun true true; LRun; LRun; EConnect; LRun; LRun; LConn 0; LConn 0;
               ESend 0 (IReq KNormal [HBarrier 1]); LConn 0; LConn 0; EClose 0; LConn 0; LConn 0;
               ECallStop; LStop 0; LStop 0; LStop 0; LRun] = Some s /\
            stopped s = true /\ run s = RRet false /\
            exists c, nth_error (conns s) 0 = Some c /\ sock_closed c = false /\ onclose c = 0.
Proof. eexists. split; [vm_compute; reflexivity|]. repeat split. eexists. repeat split. Qed.

(* ---------------------------------------------------------------- *)
(* Stop's pass: every connection is interrupted                        *)

(* a connection Stop's pass did not reach had already left the table *)
Definition reached (c : conn) : Prop := interrupted c = true \/ tracked c = false.

Definition intr_inv (cfg : config) (s : state) : Prop :=
  stop_interrupts cfg = true -> existsb past_interrupt (stops s) = true ->
  Forall reached (conns s).

Lemma conn_step_untracked cfg s c c' e : conn_step cfg s c = Some (c', e) -> tracked c = false -> tracked c' = false.
Proof.
  unfold conn_step, tracked. intros H Ht.
  destruct (pc c) as [| | |k sc|todo|]; try discriminate.
  destruct todo as [|t rest]; [inversion H; reflexivity|].
  cbn in Ht. apply orb_false_iff in Ht. destruct Ht as [Ht1 Ht2].
  destruct t; [|destruct (inflight c =? 0); [|discriminate]| |destruct (negb (has_onclose cfg)); [|destruct (onclose_held s); [discriminate|]]|];
    inversion H; subst; cbn; try exact Ht2; discriminate.
Qed.

Lemma handler_step_pc cfg s c r c' e : handler_step cfg s c r = Some (c', e) -> pc c' = pc c \/ e = EDie.
Proof.
  unfold handler_step. intros H. destruct (take_handler r (hs c)) as [[sc others]|]; [|discriminate].
  destruct sc as [|h rest]; [inversion H; left; reflexivity|].
  destruct (negb (hstep_enabled s c h)); [discriminate|].
  destruct h; [|destruct (recovery cfg && handler_rec cfg)|..]; inversion H; subst; auto.
Qed.

Lemma conn_step_intr cfg s c c' e : conn_step cfg s c = Some (c', e) -> interrupted c' = interrupted c.
Proof.
  unfold conn_step. intros H.
  destruct (pc c) as [| | |k sc|todo|].
  - inversion H; reflexivity.
  - destruct (cancelled s); [destruct (can_write c); [|discriminate]|]; inversion H; reflexivity.
  - destruct (input c) as [|it rest]; [destruct (eof c || interrupted c); [|discriminate]; inversion H; reflexivity|].
    destruct it as [k sc| |]; [destruct k; [| |destruct (has_unbind_route cfg)]|..]; inversion H; reflexivity.
  - destruct sc as [|h rest]; [destruct k; inversion H; reflexivity|].
    destruct (negb (hstep_enabled s c h)); [discriminate|].
    destruct h; [|destruct (recovery cfg)|..]; inversion H; reflexivity.
  - destruct todo as [|t rest]; [inversion H; reflexivity|].
    destruct t; [|destruct (inflight c =? 0); [|discriminate]| |destruct (negb (has_onclose cfg)); [|destruct (onclose_held s); [discriminate|]]|];
      inversion H; reflexivity.
  - discriminate.
Qed.

Lemma handler_step_intr cfg s c r c' e : handler_step cfg s c r = Some (c', e) -> interrupted c' = interrupted c.
Proof.
  unfold handler_step. intros H. destruct (take_handler r (hs c)) as [[sc others]|]; [|discriminate].
  destruct sc as [|h rest]; [inversion H; reflexivity|].
  destruct (negb (hstep_enabled s c h)); [discriminate|].
  destruct h; [|destruct (recovery cfg && handler_rec cfg)|..]; inversion H; reflexivity.
Qed.

Lemma Forall_intr_update cs i c c' : Forall reached cs -> nth_error cs i = Some c ->
  interrupted c' = interrupted c -> (tracked c = false -> tracked c' = false) ->
  Forall reached (update_nth i (fun _ => c') cs).
Proof.
  intros HF Hn He Ht. apply Forall_update_nth; [exact HF|]. intros x Hx Px. rewrite Hn in Hx. inversion Hx; subst.
  destruct Px as [Px|Px]; [left; congruence|right; auto].
Qed.

Theorem intr_inv_reachable cfg s : reachable cfg s -> intr_inv cfg s.
Proof.
  revert s. apply (invariant_reachable cfg (intr_inv cfg)).
  - intros _ H. discriminate.
  - intros s0 l s1 Hr0 H Hs. destruct (srv_inv_reachable cfg s0 Hr0) as (_ & _ & _ & _ & _ & _ & _ & _ & _ & _ & _ & K3).
    unfold step in Hs. destruct (negb (alive s0)); [discriminate|].
    unfold intr_inv in *. intros Hsi.
    destruct l as [|si|ci|ci ri|v o| | |ci it|ci|ci b|b|b|].
    + unfold run_step in Hs. destruct (run s0) as [|valid ok| | | |e] eqn:Er; try discriminate.
      * destruct (negb valid); [inversion Hs; subst; cbn; exact (H Hsi)|].
        destruct (stop_in_progress s0); [discriminate|]. destruct ok; inversion Hs; subst; cbn; exact (H Hsi).
      * destruct (cancelled s0); [destruct (close_on_cancel cfg)|]; inversion Hs; subst; cbn; exact (H Hsi).
      * destruct (lst s0); try (inversion Hs; subst; cbn; exact (H Hsi)).
        destruct (accept_err s0); [destruct (accept_retry cfg); inversion Hs; subst; cbn; exact (H Hsi)|].
        destruct (backlog s0); [discriminate|inversion Hs; subst; cbn; exact (H Hsi)].
      * inversion Hs; subst; cbn. intros Hp. apply Forall_app. split; [exact (H Hsi Hp)|].
        constructor; [|constructor]. left. cbn. rewrite Hsi. cbn.
        apply K3. clear -Hp. induction (stops s0) as [|p r IH]; [discriminate|]. cbn in *.
        apply orb_true_iff in Hp. destruct Hp as [Hp|Hp]; [destruct p; try discriminate; reflexivity|].
        rewrite (IH Hp). apply orb_true_r.
    + unfold stop_step in Hs. destruct (nth_error (stops s0) si) as [p|] eqn:En; [|discriminate].
      destruct p; try discriminate.
      * destruct (lst s0); inversion Hs; subst; cbn; intros Hp;
          (destruct (existsb_update_nth _ _ _ _ _ En Hp) as [G|G]; [discriminate|exact (H Hsi G)]).
      * inversion Hs; subst; cbn. rewrite Hsi. intros Hp.
        destruct (existsb_update_nth _ _ _ _ _ En Hp) as [G|G]; [discriminate|exact (H Hsi G)].
      * inversion Hs; subst; cbn. intros _. unfold interrupt_all. rewrite Forall_forall. intros x Hx.
        apply in_map_iff in Hx. destruct Hx as (y & <- & _). unfold reached, interrupt_tracked.
        destruct (tracked y) eqn:Ety; [left; reflexivity|right; exact Ety].
      * destruct (connwg s0 =? 0); [|discriminate]. inversion Hs; subst; cbn. intros _.
        apply (H Hsi). eapply existsb_nth; [exact En|reflexivity].
    + destruct (with_conn_frame _ _ _ _ Hs) as [(_ & _ & _ & _ & _ & Hst & _) (c & c' & e & Hn & Hf & Hc & _)].
      rewrite Hst, Hc. intros Hp. eapply Forall_intr_update; [exact (H Hsi Hp)|exact Hn|eapply conn_step_intr; eauto|eapply conn_step_untracked; eauto].
    + destruct (with_conn_frame _ _ _ _ Hs) as [(_ & _ & _ & _ & _ & Hst & _) (c & c' & e & Hn & Hf & Hc & _)].
      rewrite Hst, Hc. intros Hp. eapply Forall_intr_update; [exact (H Hsi Hp)|exact Hn|eapply handler_step_intr; eauto|].
      intros Ht. unfold tracked in *. unfold handler_step in Hf. destruct (take_handler ri (hs c)) as [[sc others]|]; [|discriminate].
      destruct sc as [|h rest]; [inversion Hf; subst; exact Ht|].
      destruct (negb (hstep_enabled s0 c h)); [discriminate|].
      destruct h; [|destruct (recovery cfg && handler_rec cfg)|..]; inversion Hf; subst; exact Ht.
    + destruct (run s0); try discriminate. inversion Hs; subst; cbn; exact (H Hsi).
    + inversion Hs; subst; cbn. intros Hp. rewrite existsb_app in Hp. cbn in Hp. rewrite orb_false_r in Hp. exact (H Hsi Hp).
    + destruct (lst s0); try discriminate. inversion Hs; subst; cbn; exact (H Hsi).
    + destruct (upd_conn_env_frame _ _ _ _ Hs) as ((_ & _ & _ & _ & _ & Hst & _) & _ & _ & Hc). rewrite Hst, Hc.
      intros Hp. apply Forall_update_nth; [exact (H Hsi Hp)|]. intros x _ Px. exact Px.
    + destruct (upd_conn_env_frame _ _ _ _ Hs) as ((_ & _ & _ & _ & _ & Hst & _) & _ & _ & Hc). rewrite Hst, Hc.
      intros Hp. apply Forall_update_nth; [exact (H Hsi Hp)|]. intros x _ Px. exact Px.
    + destruct (upd_conn_env_frame _ _ _ _ Hs) as ((_ & _ & _ & _ & _ & Hst & _) & _ & _ & Hc). rewrite Hst, Hc.
      intros Hp. apply Forall_update_nth; [exact (H Hsi Hp)|]. intros x _ Px. exact Px.
    + inversion Hs; subst; cbn; exact (H Hsi).
    + inversion Hs; subst; cbn; exact (H Hsi).
    + inversion Hs; subst; cbn; exact (H Hsi).
Qed.

(* ---------------------------------------------------------------- *)
(* C11: after Stop nothing waits for a client                          *)

Definition script_ok (s : state) (sc : list hstep) : Prop :=
  forall b rest, sc = HBarrier b :: rest -> mem_nat b (released s) = true.

(* user code is not holding anything: OnClose returns, and the next step of
   every running handler script is not a barrier the test still holds *)
Definition no_external_block (s : state) : Prop :=
  onclose_held s = false /\
  forall c, In c (conns s) ->
    (forall r sc, In (r, sc) (hs c) -> script_ok s sc) /\
    (forall k sc, pc c = CInline k sc -> script_ok s sc).

Lemma hstep_enabled_intr s c h rest : interrupted c = true -> script_ok s (h :: rest) -> hstep_enabled s c h = true.
Proof.
  intros Hi Hok. destruct h; cbn.
  - eapply Hok. reflexivity.
  - reflexivity.
  - unfold can_write. rewrite Hi. apply orb_true_iff. left. apply orb_true_r.
  - destruct (after_plain (input c)) as [|[| |] ?]; rewrite ?Hi; reflexivity.
  - unfold can_write. rewrite Hi. apply orb_true_iff. left. apply orb_true_r.
Qed.

(* an untracked connection (late untrack) has only OnClose / Done left *)
Lemma untracked_rest cfg c todo : untrack_late cfg = true -> td_inv cfg c -> pc c = CTeardown todo ->
  existsb is_untrack todo = false ->
  todo = [TOnClose; TWgDone] \/ todo = [TWgDone] \/ todo = [TOnClose] \/ todo = [].
Proof.
  intros Hul [Hsuf _] Hpc Hnt. rewrite Hpc in Hsuf. destruct Hsuf as [Hsuf Hlen].
  unfold teardown_of, teardown_core in Hsuf. rewrite Hul in Hsuf.
  destruct (wg_last cfg); cbn [app] in Hsuf;
    destruct todo as [|a [|b [|c0 [|d [|e0 r]]]]]; cbn in *; try lia;
    inversion Hsuf; subst; cbn in Hnt; try discriminate; auto.
Qed.

Lemma conn_progress cfg s c :
  untrack_late cfg = true ->
  td_inv cfg c -> wgdone c = false -> cancelled s = true -> reached c -> onclose_held s = false ->
  (forall r sc, In (r, sc) (hs c) -> script_ok s sc) -> (forall k sc, pc c = CInline k sc -> script_ok s sc) ->
  conn_step cfg s c <> None \/ exists r, handler_step cfg s c r <> None.
Proof.
  intros Hul Htd Hw Hc Hreach Hh Hsc Hin.
  assert (Hdone : pc c <> CDone).
  { intros Epc. destruct Htd as (_ & _ & _ & Hwg & _). unfold done_of in Hwg. rewrite Epc in Hwg.
    rewrite Hw in Hwg. destruct (teardown_of_cases cfg) as [E|[E|[E|E]]]; rewrite E in Hwg; discriminate. }
  destruct Hreach as [Hi|Hut].
  - unfold conn_step. rewrite Hc, Hh.
    destruct (pc c) as [| | |k sc|todo|] eqn:Epc.
    + left. discriminate.
    + left. unfold can_write. rewrite Hi. rewrite orb_true_r. cbn. discriminate.
    + left. destruct (input c) as [|it rest]; [rewrite Hi, orb_true_r; discriminate|].
      destruct it as [k sc| |]; [destruct k; [| |destruct (has_unbind_route cfg)]|..]; discriminate.
    + left. destruct sc as [|h rest]; [destruct k; discriminate|].
      rewrite (hstep_enabled_intr s c h rest Hi (Hin k (h :: rest) eq_refl)). cbn [negb].
      destruct h; [|destruct (recovery cfg)|..]; discriminate.
    + destruct todo as [|t rest]; [left; discriminate|].
      destruct t.
      * left. discriminate.
      * destruct (inflight c =? 0) eqn:E0; [left; discriminate|]. right.
        destruct Htd as (_ & _ & _ & _ & _ & Hinf & _). apply Nat.eqb_neq in E0. rewrite Hinf in E0.
        destruct (hs c) as [|[r0 sc0] others] eqn:Eh; [cbn in E0; congruence|].
        exists r0. unfold handler_step. rewrite Eh. cbn [take_handler]. rewrite Nat.eqb_refl.
        destruct sc0 as [|h rest0]; [discriminate|].
        assert (script_ok s (h :: rest0)) as Hok by (apply (Hsc r0); left; reflexivity).
        rewrite (hstep_enabled_intr s c h rest0 Hi Hok). cbn [negb].
        destruct h; [|destruct (recovery cfg && handler_rec cfg)|..]; discriminate.
      * left. discriminate.
      * left. destruct (negb (has_onclose cfg)); discriminate.
      * left. discriminate.
    + congruence.
  - (* not reached by the pass: it had left the table, so only OnClose / Done remain *)
    left. unfold tracked in Hut. unfold conn_step. rewrite Hh.
    destruct (pc c) as [| | |k sc|todo|] eqn:Epc; try discriminate; [|congruence].
    destruct (untracked_rest cfg c todo Hul Htd Epc Hut) as [-> |[-> |[-> | ->]]];
      try discriminate; destruct (negb (has_onclose cfg)); discriminate.
Qed.

Lemma pending_pos cs : pending cs <> 0 -> exists i c, nth_error cs i = Some c /\ wgdone c = false.
Proof.
  unfold pending. induction cs as [|x r IH]; intros H; [cbn in H; congruence|].
  cbn in H. unfold not_done at 1 in H. destruct (wgdone x) eqn:E; cbn in H.
  - destruct (IH H) as (i & c & Hn & Hw). exists (S i), c. auto.
  - exists 0, x. auto.
Qed.

Theorem stop_progress cfg s :
  stop_interrupts cfg = true -> add_before_accept cfg = true -> untrack_late cfg = true ->
  reachable cfg s -> alive s = true ->
  (exists i p, nth_error (stops s) i = Some p /\ p <> SRet) -> no_external_block s ->
  exists l, internal l = true /\ step cfg s l <> None.
Proof.
  intros Hsi Haba Hul Hr Hal (i & p & Hn & Hp) (Hheld & Hscripts).
  destruct (srv_inv_reachable cfg s Hr) as (_ & _ & _ & _ & _ & _ & _ & _ & _ & _ & K2 & K3).
  pose proof (wg_inv_reachable cfg s Hr) as Hwg.
  pose proof (td_inv_reachable cfg s Hr) as Htd.
  pose proof (intr_inv_reachable cfg s Hr Hsi) as Hintr.
  unfold step. rewrite Hal. cbn [negb].
  destruct p; try congruence.
  - exists (LStop i). split; [reflexivity|]. unfold stop_step. rewrite Hn. destruct (lst s); discriminate.
  - exists (LStop i). split; [reflexivity|]. unfold stop_step. rewrite Hn. discriminate.
  - exists (LStop i). split; [reflexivity|]. unfold stop_step. rewrite Hn. discriminate.
  - destruct (connwg s =? 0) eqn:E0.
    + exists (LStop i). split; [reflexivity|]. unfold stop_step. rewrite Hn, E0. discriminate.
    + apply Nat.eqb_neq in E0.
      assert (stop_in_progress s = true) as Hsp by (unfold stop_in_progress; eapply existsb_nth; [exact Hn|reflexivity]).
      assert (cancelled s = true) as Hc by (apply K3; eapply existsb_nth; [exact Hn|reflexivity]).
      assert (Forall reached (conns s)) as Hall
          by (apply Hintr; eapply existsb_nth; [exact Hn|reflexivity]).
      unfold wg_inv in Hwg. rewrite Haba in Hwg.
      destruct (run s) eqn:Er;
        try (assert (pending (conns s) <> 0) as Hpp by lia;
             destruct (pending_pos _ Hpp) as (j & c & Hj & Hwd);
             assert (In c (conns s)) as Hinc by (eapply nth_error_In; eauto);
             rewrite Forall_forall in Htd, Hall;
             destruct (Hscripts c Hinc) as [Hs1 Hs2];
             destruct (conn_progress cfg s c Hul (Htd c Hinc) Hwd Hc (Hall c Hinc) Hheld Hs1 Hs2) as [Hcs|[r Hhs]];
             [exists (LConn j); split; [reflexivity|]; unfold with_conn; rewrite Hj;
              destruct (conn_step cfg s c) as [[c' e]|]; [discriminate|congruence]
             |exists (LHandler j r); split; [reflexivity|]; unfold with_conn; rewrite Hj;
              destruct (handler_step cfg s c r) as [[c' e]|]; [discriminate|congruence]]).
      * (* Run blocked in Accept: the listener is closed, Accept fails at once *)
        exists LRun. split; [reflexivity|]. unfold run_step. rewrite Er.
        specialize (K2 Hsp). destruct (lst s); try congruence; discriminate.
      * exists LRun. split; [reflexivity|]. unfold run_step. rewrite Er. discriminate.
Qed.

(* the pinned Stop: one idle connection and Stop can never return without the client *)
Lemma stop_progress_pinned_refuted :
  exists s, run_labels pinned_cfg init
              [ECallRun true true; LRun; LRun; EConnect; LRun; LRun; LConn 0; LConn 0;
               ECallStop; LStop 0; LStop 0; LRun] = Some s /\
            nth_error (stops s) 0 = Some SWait /\ length (stops s) = 1 /\ length (conns s) = 1 /\
            (exists c, nth_error (conns s) 0 = Some c /\ hs c = []) /\
            step pinned_cfg s (LStop 0) = None /\ step pinned_cfg s LRun = None /\
            step pinned_cfg s (LConn 0) = None.
Proof. eexists. split; [vm_compute; reflexivity|]. repeat split. eexists. split; reflexivity. Qed.

(* untrackConn before conn.close (the first version of the F9 repair): a connection
   whose read loop has ended (Unbind) while a handler is blocked writing to a client
   that does not read has left Stop's table; the pass reaches nothing and Stop waits
   for a client for ever.  Every other field as in the current tree. *)
Definition early_untrack_cfg : config :=
  {| recovery := true; handler_rec := true; wg_last := true; add_before_accept := true;
     stop_interrupts := true; ready_on_error := false; close_on_cancel := true; accept_retry := true;
     untrack_late := false; has_unbind_route := true; has_onclose := true |}.

Lemma stop_progress_early_untrack_refuted :
  exists s, run_labels early_untrack_cfg init
              [ECallRun true true; LRun; LRun; EConnect; LRun; LRun; LRun; LConn 0; LConn 0; EStall 0 true;
               ESend 0 (IReq KNormal [HWrite]); LConn 0; ESend 0 (IReq KUnbind []); LConn 0; LConn 0; LConn 0; LConn 0;
               ECallStop; LStop 0; LStop 0; LStop 0; LRun] = Some s /\
            nth_error (stops s) 0 = Some SWait /\ onclose_held s = false /\
            (exists c, nth_error (conns s) 0 = Some c /\ hs c = [(1, [HWrite])] /\ interrupted c = false /\ tracked c = false) /\
            step early_untrack_cfg s (LStop 0) = None /\ step early_untrack_cfg s LRun = None /\
            step early_untrack_cfg s (LConn 0) = None /\ step early_untrack_cfg s (LHandler 0 1) = None.
Proof. eexists. split; [vm_compute; reflexivity|]. repeat split. eexists. repeat split. Qed.
