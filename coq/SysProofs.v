(* SysProofs.v — invariants of the LTS of Sys.v, by induction over arbitrary
   label sequences (every interleaving of every number of connections,
   requests, handlers, Stop calls and environment actions). *)
From G Require Import Base Sys.
Open Scope nat_scope.

(* ---------------------------------------------------------------- *)
(* reachability                                                       *)

Lemma run_labels_app cfg ls1 : forall s ls2,
  run_labels cfg s (ls1 ++ ls2) =
  match run_labels cfg s ls1 with Some s' => run_labels cfg s' ls2 | None => None end.
Proof.
  induction ls1 as [|l r IH]; intros s ls2; cbn [app run_labels]; [reflexivity|].
  destruct (step cfg s l); [apply IH|reflexivity].
Qed.

Theorem invariant_reachable cfg (P : state -> Prop) :
  P init -> (forall s l s', reachable cfg s -> P s -> step cfg s l = Some s' -> P s') ->
  forall s, reachable cfg s -> P s.
Proof.
  intros Hinit Hstep s [ls Hls].
  revert s Hls. induction ls as [|l r IH] using rev_ind; intros s Hls.
  - cbn in Hls. inversion Hls; subst. exact Hinit.
  - rewrite run_labels_app in Hls. destruct (run_labels cfg init r) as [s0|] eqn:E; [|discriminate].
    cbn [run_labels] in Hls. destruct (step cfg s0 l) as [s1|] eqn:El; [|discriminate].
    inversion Hls; subst. apply (Hstep s0 l s); [exists r; exact E|apply IH; reflexivity|exact El].
Qed.

Lemma reachable_step cfg s l s' : reachable cfg s -> step cfg s l = Some s' -> reachable cfg s'.
Proof.
  intros [ls H] Hs. exists (ls ++ [l]). rewrite run_labels_app, H. cbn [run_labels]. rewrite Hs. reflexivity.
Qed.

(* ---------------------------------------------------------------- *)
(* lists                                                              *)

Lemma nth_update_nth_eq {A} (f : A -> A) l : forall i x, nth_error l i = Some x ->
  nth_error (update_nth i f l) i = Some (f x).
Proof.
  induction l as [|y r IH]; intros [|i] x H; cbn in *; try discriminate.
  - inversion H; reflexivity.
  - apply IH. exact H.
Qed.

Lemma nth_update_nth_neq {A} (f : A -> A) l : forall i j, i <> j ->
  nth_error (update_nth i f l) j = nth_error l j.
Proof.
  induction l as [|y r IH]; intros [|i] [|j] H; cbn; try reflexivity; try congruence.
  apply IH. congruence.
Qed.

Lemma length_update_nth {A} (f : A -> A) l : forall i, length (update_nth i f l) = length l.
Proof. induction l as [|y r IH]; intros [|i]; cbn; auto. Qed.

Lemma Forall_update_nth {A} (P : A -> Prop) (f : A -> A) l i :
  Forall P l -> (forall x, nth_error l i = Some x -> P x -> P (f x)) -> Forall P (update_nth i f l).
Proof.
  revert i; induction l as [|y r IH]; intros [|i] HF Hf; cbn; auto.
  - inversion HF; subst. constructor; [apply Hf; [reflexivity|assumption]|assumption].
  - inversion HF; subst. constructor; [assumption|]. apply IH; [assumption|]. intros x Hx. apply Hf. exact Hx.
Qed.

(* ---------------------------------------------------------------- *)
(* lifting a per-connection invariant to every reachable state         *)

Section Lift.
  Variable cfg : config.
  Variable CI : conn -> Prop.
  Hypothesis CI_new : forall id b, CI (new_conn id b).
  Hypothesis CI_conn : forall s c c' e, CI c -> conn_step cfg s c = Some (c', e) -> CI c'.
  Hypothesis CI_handler : forall s c r c' e, CI c -> handler_step cfg s c r = Some (c', e) -> CI c'.
  Hypothesis CI_send : forall it c, CI c -> CI (env_send it c).
  Hypothesis CI_close : forall c, CI c -> CI (env_close c).
  Hypothesis CI_stall : forall b c, CI c -> CI (env_stall b c).
  Hypothesis CI_intr : forall c, CI c -> CI (interrupt c).

  Lemma conns_apply_effect s e : conns (apply_effect s e) = conns s.
  Proof. destruct e; reflexivity. Qed.

  Lemma with_conn_forall s i f s' :
    Forall CI (conns s) -> (forall c c' e, CI c -> f c = Some (c', e) -> CI c') ->
    with_conn s i f = Some s' -> Forall CI (conns s').
  Proof.
    unfold with_conn. intros HF Hf H.
    destruct (nth_error (conns s) i) as [c|] eqn:En; [|discriminate].
    destruct (f c) as [[c' e]|] eqn:Ef; [|discriminate].
    inversion H; subst. rewrite conns_apply_effect. cbn [conns set_conns].
    apply Forall_update_nth; [exact HF|]. intros x Hx Px. rewrite En in Hx. inversion Hx; subst. eapply Hf; eauto.
  Qed.

  Lemma upd_conn_env_forall s i f s' :
    Forall CI (conns s) -> (forall c, CI c -> CI (f c)) -> upd_conn_env s i f = Some s' -> Forall CI (conns s').
  Proof.
    unfold upd_conn_env. intros HF Hf H. destruct (nth_error (conns s) i); [|discriminate].
    inversion H; subst. cbn [conns set_conns]. apply Forall_update_nth; [exact HF|]. intros x _ Px. apply Hf. exact Px.
  Qed.

  Lemma run_step_conns s s' : run_step cfg s = Some s' ->
    conns s' = conns s \/ exists b, conns s' = conns s ++ [new_conn (nextid s) b].
  Proof.
    unfold run_step. intros H.
    destruct (run s) as [|valid ok| | | |e]; try discriminate.
    - destruct (negb valid); [inversion H; subst; left; reflexivity|]. destruct (stop_in_progress s); [discriminate|].
      destruct ok; inversion H; subst; left; reflexivity.
    - destruct (cancelled s); [destruct (close_on_cancel cfg)|]; inversion H; subst; left; reflexivity.
    - destruct (lst s); try (inversion H; subst; left; reflexivity).
      destruct (accept_err s); [inversion H; subst; left; reflexivity|].
      destruct (backlog s); [discriminate|inversion H; subst; left; reflexivity].
    - inversion H; subst. right. eexists. reflexivity.
  Qed.

  Lemma stop_step_conns s i s' : stop_step cfg s i = Some s' ->
    conns s' = conns s \/ conns s' = interrupt_all (conns s).
  Proof.
    unfold stop_step. intros H. destruct (nth_error (stops s) i) as [p|]; [|discriminate].
    destruct p; try discriminate.
    - destruct (lst s); inversion H; subst; left; reflexivity.
    - inversion H; subst; left; reflexivity.
    - inversion H; subst; right; reflexivity.
    - destruct (connwg s =? 0); [inversion H; subst; left; reflexivity|discriminate].
  Qed.

  Theorem lift_step s l s' : Forall CI (conns s) -> step cfg s l = Some s' -> Forall CI (conns s').
  Proof.
    intros HF H. unfold step in H. destruct (negb (alive s)); [discriminate|].
    destruct l.
    - destruct (run_step_conns s s' H) as [->|[b ->]]; [exact HF|].
      apply Forall_app. split; [exact HF|]. constructor; [apply CI_new|constructor].
    - destruct (stop_step_conns s i s' H) as [->| ->]; [exact HF|].
      unfold interrupt_all. rewrite Forall_forall in *. intros x Hx. apply in_map_iff in Hx.
      destruct Hx as (y & <- & Hy). apply CI_intr. apply HF. exact Hy.
    - eapply with_conn_forall; [exact HF| |exact H]. intros; eapply CI_conn; eauto.
    - eapply with_conn_forall; [exact HF| |exact H]. intros c0 c1 e0 Hc Hh. cbv beta in Hh. eapply CI_handler; eauto.
    - destruct (run s); try discriminate. inversion H; exact HF.
    - inversion H; exact HF.
    - destruct (lst s); try discriminate. inversion H; exact HF.
    - eapply upd_conn_env_forall; [exact HF| |exact H]. intros; apply CI_send; assumption.
    - eapply upd_conn_env_forall; [exact HF| |exact H]. intros; apply CI_close; assumption.
    - eapply upd_conn_env_forall; [exact HF| |exact H]. intros; apply CI_stall; assumption.
    - inversion H; exact HF.
    - inversion H; exact HF.
    - inversion H; exact HF.
  Qed.

  Theorem lift_reachable s : reachable cfg s -> Forall CI (conns s).
  Proof.
    apply (invariant_reachable cfg (fun s => Forall CI (conns s))).
    - constructor.
    - intros s0 l s1 _ HF Hs. eapply lift_step; eauto.
  Qed.
End Lift.

(* ---------------------------------------------------------------- *)
(* L0: bookkeeping every step keeps                                   *)

Lemma take_handler_length r : forall l sc rest, take_handler r l = Some (sc, rest) -> length l = S (length rest).
Proof.
  induction l as [|[r' sc'] l IH]; intros sc rest H; cbn in H; [discriminate|].
  destruct (r' =? r).
  - inversion H; subst. reflexivity.
  - destruct (take_handler r l) as [[sc2 rest2]|]; [|discriminate].
    inversion H; subst. cbn. f_equal. eapply IH. reflexivity.
Qed.

(* the teardown that is still to do is a suffix of the configured list, and
   the effects of the executed prefix are exactly the recorded ones *)
Definition mem_t (t : tstep) (l : list tstep) : bool :=
  existsb (fun x => match t, x with
                    | TWgDone, TWgDone | TWaitHandlers, TWaitHandlers | TSockClose, TSockClose | TOnClose, TOnClose => true
                    | _, _ => false end) l.

Definition done_of (cfg : config) (c : conn) : list tstep :=
  match pc c with
  | CTeardown todo => firstn (4 - length todo) (teardown_of cfg)
  | CDone => teardown_of cfg
  | _ => []
  end.

Definition td_inv (cfg : config) (c : conn) : Prop :=
  (match pc c with
   | CTeardown todo => todo = skipn (4 - length todo) (teardown_of cfg) /\ length todo <= 4
   | _ => True
   end) /\
  onclose c = (if has_onclose cfg && mem_t TOnClose (done_of cfg c) then 1 else 0) /\
  sock_closed c = mem_t TSockClose (done_of cfg c) /\
  wgdone c = mem_t TWgDone (done_of cfg c) /\
  (mem_t TWaitHandlers (done_of cfg c) = true -> inflight c = 0) /\
  inflight c = length (hs c) /\
  (* once the loop has returned nothing is dispatched any more *)
  True.

Lemma teardown_of_cases cfg :
  teardown_of cfg = [TWaitHandlers; TSockClose; TOnClose; TWgDone] \/
  teardown_of cfg = [TWgDone; TWaitHandlers; TSockClose; TOnClose].
Proof. unfold teardown_of. destruct (wg_last cfg); auto. Qed.

Ltac td_start cfg c H :=
  destruct H as (Hsuf & Hoc & Hsc & Hwg & Hwait & Hinf & _);
  unfold done_of in *.

Lemma td_inv_new cfg id b : td_inv cfg (new_conn id b).
Proof. unfold td_inv, done_of; cbn. rewrite andb_false_r. repeat split; auto; discriminate. Qed.

Lemma td_inv_enter cfg c c' :
  td_inv cfg c -> (match pc c with CTeardown _ | CDone => False | _ => True end) ->
  pc c' = CTeardown (teardown_of cfg) -> onclose c' = onclose c -> sock_closed c' = sock_closed c ->
  wgdone c' = wgdone c -> inflight c' = inflight c -> hs c' = hs c -> td_inv cfg c'.
Proof.
  intros H Hpc Hpc' Ho Hs Hw Hi Hh. td_start cfg c H.
  assert (length (teardown_of cfg) = 4) as Hl by (destruct (teardown_of_cases cfg) as [-> | ->]; reflexivity).
  unfold td_inv, done_of. rewrite Hpc', Hl. cbn [Nat.sub firstn skipn].
  destruct (pc c); try contradiction; cbn in *;
    rewrite Ho, Hs, Hw, Hi, Hh; rewrite andb_false_r in Hoc; cbn [mem_t existsb]; rewrite andb_false_r;
    repeat split; auto; try discriminate; try lia.
Qed.

(* executing the head of the remaining teardown *)
Lemma td_split cfg t rest : t :: rest = skipn (4 - length (t :: rest)) (teardown_of cfg) -> length (t :: rest) <= 4 ->
  firstn (4 - length rest) (teardown_of cfg) = firstn (4 - length (t :: rest)) (teardown_of cfg) ++ [t] /\
  rest = skipn (4 - length rest) (teardown_of cfg).
Proof.
  intros H Hl. destruct (teardown_of_cases cfg) as [E|E]; rewrite E in *; cbn [length] in *;
  destruct rest as [|a [|b [|c0 [|d r]]]]; cbn in *; try lia;
    inversion H; subst; split; reflexivity.
Qed.

Lemma mem_t_app t l x : mem_t t (l ++ [x]) = mem_t t l || mem_t t [x].
Proof. unfold mem_t. rewrite existsb_app. reflexivity. Qed.

Lemma td_inv_conn cfg s c c' e : td_inv cfg c -> conn_step cfg s c = Some (c', e) -> td_inv cfg c'.
Proof.
  intros H Hs. unfold conn_step in Hs.
  destruct (pc c) as [| | |k sc|todo|] eqn:Epc.
  - (* CInit *)
    inversion Hs; subst. td_start cfg c H. unfold td_inv, done_of. rewrite Epc in *. cbn in *. repeat split; auto.
  - (* CLoopTop *)
    destruct (cancelled s).
    + destruct (can_write c); [|discriminate]. inversion Hs; subst.
      eapply td_inv_enter; [exact H|rewrite Epc; exact I|reflexivity..].
    + inversion Hs; subst. td_start cfg c H. unfold td_inv, done_of. rewrite Epc in *. cbn in *. repeat split; auto.
  - (* CRead *)
    destruct (input c) as [|it rest].
    + destruct (eof c || interrupted c); [|discriminate]. inversion Hs; subst.
      eapply td_inv_enter; [exact H|rewrite Epc; exact I|reflexivity..].
    + destruct it as [k sc| |].
      * destruct k.
        -- inversion Hs; subst. td_start cfg c H. unfold td_inv, done_of. rewrite Epc in *. cbn in *.
           rewrite app_length. cbn. repeat split; auto; try discriminate. lia.
        -- inversion Hs; subst. td_start cfg c H. unfold td_inv, done_of. rewrite Epc in *. cbn in *. repeat split; auto.
        -- destruct (has_unbind_route cfg).
           ++ inversion Hs; subst. td_start cfg c H. unfold td_inv, done_of. rewrite Epc in *. cbn in *. repeat split; auto.
           ++ inversion Hs; subst. eapply td_inv_enter; [exact H|rewrite Epc; exact I|reflexivity..].
      * inversion Hs; subst. eapply td_inv_enter; [exact H|rewrite Epc; exact I|reflexivity..].
      * inversion Hs; subst. eapply td_inv_enter; [exact H|rewrite Epc; exact I|reflexivity..].
  - (* CInline *)
    destruct sc as [|h rest].
    + destruct k; inversion Hs; subst;
        try (eapply td_inv_enter; [exact H|rewrite Epc; exact I|reflexivity..]);
        (td_start cfg c H; unfold td_inv, done_of; rewrite Epc in *; cbn in *; repeat split; auto).
    + destruct (negb (hstep_enabled s c h)); [discriminate|].
      destruct h.
      * inversion Hs; subst. td_start cfg c H. unfold td_inv, done_of. rewrite Epc in *. cbn in *. repeat split; auto.
      * destruct (recovery cfg).
        -- inversion Hs; subst. eapply td_inv_enter; [exact H|rewrite Epc; exact I|reflexivity..].
        -- inversion Hs; subst. exact H.
      * inversion Hs; subst. td_start cfg c H. unfold td_inv, done_of. rewrite Epc in *. cbn in *. repeat split; auto.
      * inversion Hs; subst. td_start cfg c H. unfold td_inv, done_of. rewrite Epc in *. cbn in *. repeat split; auto.
  - (* CTeardown *)
    td_start cfg c H. rewrite Epc in *. destruct Hsuf as [Hsuf Hlen].
    destruct todo as [|t rest].
    + inversion Hs; subst. unfold td_inv, done_of. cbn [pc set_pc].
      cbn [length Nat.sub] in *.
      assert (firstn 4 (teardown_of cfg) = teardown_of cfg) as Hf
          by (destruct (teardown_of_cases cfg) as [-> | ->]; reflexivity).
      rewrite Hf in *. cbn. repeat split; auto.
    + destruct (td_split cfg t rest Hsuf Hlen) as [Hfirst Hrest].
      assert (length rest <= 4) as Hlr by (cbn in Hlen; lia).
      destruct t.
      * inversion Hs; subst. unfold td_inv, done_of. cbn [pc onclose sock_closed wgdone inflight hs].
        rewrite Hfirst, !mem_t_app. cbn [mem_t existsb orb]. rewrite !orb_false_r, orb_true_r.
        repeat split; auto.
      * destruct (inflight c =? 0) eqn:E0; [|discriminate]. apply Nat.eqb_eq in E0.
        inversion Hs; subst. unfold td_inv, done_of. cbn [pc set_pc onclose sock_closed wgdone inflight hs].
        rewrite Hfirst, !mem_t_app. cbn [mem_t existsb orb]. rewrite !orb_false_r.
        repeat split; auto.
      * inversion Hs; subst. unfold td_inv, done_of. cbn [pc onclose sock_closed wgdone inflight hs].
        rewrite Hfirst, !mem_t_app. cbn [mem_t existsb orb]. rewrite !orb_false_r, orb_true_r.
        repeat split; auto.
      * destruct (negb (has_onclose cfg)) eqn:Eh.
        -- inversion Hs; subst. apply negb_true_iff in Eh.
           unfold td_inv, done_of. cbn [pc set_pc onclose sock_closed wgdone inflight hs].
           rewrite Hfirst, !mem_t_app. cbn [mem_t existsb orb]. rewrite !orb_false_r.
           rewrite Eh in *. cbn [andb] in *. repeat split; auto.
        -- destruct (onclose_held s); [discriminate|]. inversion Hs; subst. apply negb_false_iff in Eh.
           unfold td_inv, done_of. cbn [pc onclose sock_closed wgdone inflight hs].
           rewrite Hfirst, !mem_t_app. cbn [mem_t existsb orb]. rewrite !orb_false_r, orb_true_r.
           rewrite Eh in *. cbn [andb] in *.
           (* OnClose had not been executed before: TOnClose occurs once in the list *)
           assert (mem_t TOnClose (firstn (4 - length (TOnClose :: rest)) (teardown_of cfg)) = false) as Hnot.
           { destruct (teardown_of_cases cfg) as [E|E]; rewrite E in *; cbn [length] in *;
             destruct rest as [|a [|b [|c0 [|d r]]]]; cbn in *; try lia; inversion Hsuf; reflexivity. }
           rewrite Hnot in Hoc. rewrite Hoc. repeat split; auto.
  - discriminate.
Qed.

Lemma td_inv_handler cfg s c r c' e : td_inv cfg c -> handler_step cfg s c r = Some (c', e) -> td_inv cfg c'.
Proof.
  intros H Hs. unfold handler_step in Hs.
  destruct (take_handler r (hs c)) as [[sc others]|] eqn:Et; [|discriminate].
  pose proof (take_handler_length r (hs c) sc others Et) as Hlen.
  td_start cfg c H.
  assert (Hfin : forall c1, pc c1 = pc c -> onclose c1 = onclose c -> sock_closed c1 = sock_closed c ->
                            wgdone c1 = wgdone c -> inflight c1 = pred (inflight c) -> hs c1 = others -> td_inv cfg c1).
  { intros c1 Hp Ho Hs1 Hw Hi Hh. unfold td_inv, done_of. rewrite Hp, Ho, Hs1, Hw, Hi, Hh.
    repeat split; auto; try lia; try (intros Hm; specialize (Hwait Hm); lia). }
  destruct sc as [|h rest].
  - inversion Hs; subst. apply Hfin; reflexivity.
  - destruct (negb (hstep_enabled s c h)); [discriminate|].
    destruct h;
      try (inversion Hs; subst; unfold td_inv, done_of; cbn [pc onclose sock_closed wgdone inflight hs];
           rewrite app_length; cbn [length]; repeat split; auto; lia).
    destruct (recovery cfg && handler_rec cfg).
    + inversion Hs; subst. apply Hfin; reflexivity.
    + inversion Hs; subst. unfold td_inv, done_of. repeat split; auto.
Qed.

Lemma td_inv_env cfg c :
  td_inv cfg c -> (forall it, td_inv cfg (env_send it c)) /\ td_inv cfg (env_close c) /\
                  (forall b, td_inv cfg (env_stall b c)) /\ td_inv cfg (interrupt c).
Proof. intros H. split; [intros it; exact H|split; [exact H|split; [intros b; exact H|exact H]]]. Qed.

Theorem td_inv_reachable cfg s : reachable cfg s -> Forall (td_inv cfg) (conns s).
Proof.
  apply lift_reachable.
  - apply td_inv_new.
  - intros; eapply td_inv_conn; eauto.
  - intros; eapply td_inv_handler; eauto.
  - intros it c H; apply (td_inv_env cfg c H).
  - intros c H; apply (td_inv_env cfg c H).
  - intros b c H; apply (td_inv_env cfg c H).
  - intros c H; apply (td_inv_env cfg c H).
Qed.

(* ---------------------------------------------------------------- *)
(* L2/L3: numbering of requests; nothing is read after an Unbind      *)

Fixpoint increasing (l : list nat) : Prop :=
  match l with
  | [] => True
  | x :: r => (forall y, In y r -> x < y) /\ increasing r
  end.

Lemma increasing_app l x : increasing l -> (forall y, In y l -> y < x) -> increasing (l ++ [x]).
Proof.
  induction l as [|a r IH]; intros Hi Hlt; cbn; [split; [intros y []|exact I]|].
  destruct Hi as [Ha Hr]. split.
  - intros y Hy. apply in_app_or in Hy. destruct Hy as [Hy|[<-|[]]]; [apply Ha; exact Hy|apply Hlt; left; reflexivity].
  - apply IH; [exact Hr|]. intros y Hy. apply Hlt. right. exact Hy.
Qed.

Definition count_unbind (l : list (nat * rkind)) : nat :=
  length (List.filter (fun x => match snd x with KUnbind => true | _ => false end) l).

Definition num_inv (cfg : config) (c : conn) : Prop :=
  (* Request.ID of the current iteration vs. items read *)
  (match pc c with
   | CInit => nreq c = 0 /\ nread c = 0
   | CRead => nreq c = S (nread c)
   | CLoopTop | CInline _ _ => nreq c = nread c
   | _ => True
   end) /\
  (* every handler that ran was given the number of its request in arrival order *)
  (forall r k, In (r, k) (started c) -> 1 <= r <= nread c) /\
  increasing (map fst (started c)) /\
  (* Unbind *)
  read_after_unbind c = 0 /\
  (unbind_seen c = true -> match pc c with CInline KUnbind _ | CTeardown _ | CDone => True | _ => False end) /\
  (unbind_seen c = false -> count_unbind (started c) = 0) /\
  count_unbind (started c) <= 1.

Lemma num_inv_new cfg id b : num_inv cfg (new_conn id b).
Proof. unfold num_inv; cbn. repeat split; auto; try discriminate; intros; contradiction. Qed.

Lemma count_unbind_app l x : count_unbind (l ++ [x]) =
  count_unbind l + match snd x with KUnbind => 1 | _ => 0 end.
Proof.
  unfold count_unbind. rewrite filter_app, app_length. cbn. destruct (snd x); reflexivity.
Qed.

Ltac num_start H :=
  destruct H as (Hn & Hst & Hinc & Hrau & Hub & Hcu0 & Hcu1).

(* the step that reads a request: it is dispatched with Request.ID = its
   position in the arrival order *)
Lemma dispatch_numbering cfg s c c' e k sc rest : num_inv cfg c -> pc c = CRead -> input c = IReq k sc :: rest ->
  conn_step cfg s c = Some (c', e) ->
  nread c' = S (nread c) /\
  (started c' = started c ++ [(S (nread c), k)] \/ (k = KUnbind /\ has_unbind_route cfg = false /\ started c' = started c)).
Proof.
  intros H Hpc Hin Hs. num_start H. unfold conn_step in Hs. rewrite Hpc, Hin in *.
  destruct k; [| |destruct (has_unbind_route cfg) eqn:Eu]; inversion Hs; subst; cbn; rewrite ?Hn; auto.
Qed.

Ltac fields := cbn [cid pc nreq nread input eof stalled interrupted inflight hs started ended unbind_seen
                        read_after_unbind sock_closed onclose wgdone set_pc].

Ltac num_fin Hub Hst :=
  repeat split; auto; try lia; try discriminate;
  try (let Hu := fresh in intros Hu; apply Hub in Hu; contradiction);
  try (let r0 := fresh in let k0 := fresh in let Hin0 := fresh in
       intros r0 k0 Hin0; specialize (Hst r0 k0 Hin0); lia);
  try (match goal with Hin : In (?r, ?k) (started _) |- _ => specialize (Hst r k Hin); lia end).

Ltac num_disp Hst :=
  repeat split; auto; try lia; try discriminate;
  try (let r0 := fresh in let k0 := fresh in let Hin0 := fresh in let Heq0 := fresh in
       intros r0 k0 Hin0; apply in_app_or in Hin0; destruct Hin0 as [Hin0|[Heq0|[]]];
       [specialize (Hst r0 k0 Hin0); lia|inversion Heq0; subst; lia]);
  try (match goal with Hin : In (?r, ?k) (_ ++ _) |- _ =>
         apply in_app_or in Hin; destruct Hin as [Hin|[Hin|[]]];
         [specialize (Hst r k Hin); lia|inversion Hin; subst; lia] end);
  try (apply increasing_app; assumption).

Lemma num_inv_conn cfg s c c' e : num_inv cfg c -> conn_step cfg s c = Some (c', e) -> num_inv cfg c'.
Proof.
  intros H Hs. num_start H. unfold conn_step in Hs.
  destruct (pc c) as [| | |k sc|todo|] eqn:Epc.
  - inversion Hs; subst. unfold num_inv. fields. destruct Hn as [Hn1 Hn2]. rewrite Hn1, Hn2 in *. num_fin Hub Hst.
  - destruct (cancelled s).
    + destruct (can_write c); [|discriminate]. inversion Hs; subst. unfold num_inv. fields. num_fin Hub Hst.
    + inversion Hs; subst. unfold num_inv. fields. num_fin Hub Hst.
  - assert (unbind_seen c = false) as Hus.
    { destruct (unbind_seen c) eqn:E; [|reflexivity]. specialize (Hub eq_refl). contradiction. }
    destruct (input c) as [|it rest].
    + destruct (eof c || interrupted c); [|discriminate]. inversion Hs; subst. unfold num_inv. fields. num_fin Hub Hst.
    + rewrite Hus in *. specialize (Hcu0 eq_refl).
      assert (Hfresh : forall y, In y (map fst (started c)) -> y < S (nread c)).
      { intros y Hy. apply in_map_iff in Hy. destruct Hy as ([r k0] & <- & Hin). cbn. specialize (Hst r k0 Hin). lia. }
      destruct it as [k sc| |].
      * destruct k.
        -- inversion Hs; subst. unfold num_inv. fields. rewrite Hn in *.
           rewrite map_app, count_unbind_app. cbn [map fst snd]. num_disp Hst.
        -- inversion Hs; subst. unfold num_inv. fields. rewrite Hn in *.
           rewrite map_app, count_unbind_app. cbn [map fst snd]. num_disp Hst.
        -- destruct (has_unbind_route cfg).
           ++ inversion Hs; subst. unfold num_inv. fields. rewrite Hn in *.
              rewrite map_app, count_unbind_app. cbn [map fst snd]. num_disp Hst.
           ++ inversion Hs; subst. unfold num_inv. fields. num_fin Hub Hst.
      * inversion Hs; subst. unfold num_inv. fields. num_fin Hub Hst.
      * inversion Hs; subst. unfold num_inv. fields. num_fin Hub Hst.
  - destruct sc as [|h rest].
    + destruct k; inversion Hs; subst; unfold num_inv; fields; num_fin Hub Hst.
    + destruct (negb (hstep_enabled s c h)); [discriminate|].
      destruct h.
      * inversion Hs; subst. unfold num_inv. fields. num_fin Hub Hst.
      * destruct (recovery cfg); inversion Hs; subst; unfold num_inv; fields; try rewrite Epc; num_fin Hub Hst.
      * inversion Hs; subst. unfold num_inv. fields. num_fin Hub Hst.
      * inversion Hs; subst. unfold num_inv. fields. num_fin Hub Hst.
  - destruct todo as [|t rest].
    + inversion Hs; subst. unfold num_inv. fields. num_fin Hub Hst.
    + destruct t.
      * inversion Hs; subst. unfold num_inv. fields. num_fin Hub Hst.
      * destruct (inflight c =? 0); [|discriminate]. inversion Hs; subst. unfold num_inv. fields. num_fin Hub Hst.
      * inversion Hs; subst. unfold num_inv. fields. num_fin Hub Hst.
      * destruct (negb (has_onclose cfg)); [inversion Hs; subst; unfold num_inv; fields; num_fin Hub Hst|].
        destruct (onclose_held s); [discriminate|]. inversion Hs; subst. unfold num_inv. fields. num_fin Hub Hst.
  - discriminate.
Qed.

Lemma num_inv_handler cfg s c r c' e : num_inv cfg c -> handler_step cfg s c r = Some (c', e) -> num_inv cfg c'.
Proof.
  intros H Hs. unfold handler_step in Hs.
  destruct (take_handler r (hs c)) as [[sc others]|]; [|discriminate].
  destruct sc as [|h rest].
  - inversion Hs; subst. exact H.
  - destruct (negb (hstep_enabled s c h)); [discriminate|].
    destruct h; try (inversion Hs; subst; exact H).
    destruct (recovery cfg && handler_rec cfg); inversion Hs; subst; exact H.
Qed.

Theorem num_inv_reachable cfg s : reachable cfg s -> Forall (num_inv cfg) (conns s).
Proof.
  apply lift_reachable.
  - apply num_inv_new.
  - intros; eapply num_inv_conn; eauto.
  - intros; eapply num_inv_handler; eauto.
  - intros it c H; exact H.
  - intros c H; exact H.
  - intros b c H; exact H.
  - intros c H; exact H.
Qed.

(* ---------------------------------------------------------------- *)
(* frame lemmas: what a step of each kind can change                  *)

Definition same_server (s s' : state) : Prop :=
  lst s' = lst s /\ port_bound s' = port_bound s /\ ready s' = ready s /\ cancelled s' = cancelled s /\
  run s' = run s /\ stops s' = stops s /\ nextid s' = nextid s /\ backlog s' = backlog s /\
  accept_err s' = accept_err s /\ accept_failed s' = accept_failed s /\ released s' = released s /\
  onclose_held s' = onclose_held s.

Lemma with_conn_frame s i f s' : with_conn s i f = Some s' ->
  same_server s s' /\
  exists c c' e, nth_error (conns s) i = Some c /\ f c = Some (c', e) /\
                 conns s' = update_nth i (fun _ => c') (conns s) /\
                 connwg s' = (match e with EWgDone => pred (connwg s) | _ => connwg s end) /\
                 alive s' = (match e with EDie => false | _ => alive s end).
Proof.
  unfold with_conn. intros H. destruct (nth_error (conns s) i) as [c|] eqn:En; [|discriminate].
  destruct (f c) as [[c' e]|] eqn:Ef; [|discriminate]. inversion H; subst.
  split; [destruct e; repeat split; reflexivity|].
  exists c, c', e. repeat split; auto; destruct e; reflexivity.
Qed.

Lemma upd_conn_env_frame s i f s' : upd_conn_env s i f = Some s' ->
  same_server s s' /\ connwg s' = connwg s /\ alive s' = alive s /\ conns s' = update_nth i f (conns s).
Proof.
  unfold upd_conn_env. intros H. destruct (nth_error (conns s) i); [|discriminate]. inversion H; subst.
  repeat split; reflexivity.
Qed.

(* connection ids never change *)
Lemma conn_step_cid cfg s c c' e : conn_step cfg s c = Some (c', e) -> cid c' = cid c.
Proof.
  unfold conn_step. intros H.
  destruct (pc c) as [| | |k sc|todo|].
  - inversion H; reflexivity.
  - destruct (cancelled s); [destruct (can_write c); [|discriminate]|]; inversion H; reflexivity.
  - destruct (input c) as [|it rest]; [destruct (eof c || interrupted c); [|discriminate]; inversion H; reflexivity|].
    destruct it as [k sc| |]; [destruct k; [| |destruct (has_unbind_route cfg)]|..]; inversion H; reflexivity.
  - destruct sc as [|h rest]; [destruct k; inversion H; reflexivity|].
    destruct (negb (hstep_enabled s c h)); [discriminate|].
    destruct h; [|destruct (recovery cfg)|..]; inversion H; reflexivity.
  - destruct todo as [|t rest]; [inversion H; reflexivity|].
    destruct t; [|destruct (inflight c =? 0); [|discriminate]| |destruct (negb (has_onclose cfg)); [|destruct (onclose_held s); [discriminate|]]];
      inversion H; reflexivity.
  - discriminate.
Qed.

Lemma handler_step_cid cfg s c r c' e : handler_step cfg s c r = Some (c', e) -> cid c' = cid c.
Proof.
  unfold handler_step. intros H. destruct (take_handler r (hs c)) as [[sc others]|]; [|discriminate].
  destruct sc as [|h rest]; [inversion H; reflexivity|].
  destruct (negb (hstep_enabled s c h)); [discriminate|].
  destruct h; [|destruct (recovery cfg && handler_rec cfg)|..]; inversion H; reflexivity.
Qed.

(* ---------------------------------------------------------------- *)
(* G1 (C09): connection ids are the accept order 1, 2, 3, ...          *)

Definition ids_inv (s : state) : Prop :=
  (forall i c, nth_error (conns s) i = Some c -> cid c = S i) /\
  match run s with
  | RNot | RListen _ _ => nextid s = 0 /\ conns s = []
  | RTop => nextid s = length (conns s)
  | RAcceptWait | RAccepted => nextid s = S (length (conns s))
  | RRet _ => True
  end.

Lemma ids_update (cs : list conn) i (c' : conn) c :
  (forall j x, nth_error cs j = Some x -> cid x = S j) -> nth_error cs i = Some c -> cid c' = cid c ->
  forall j x, nth_error (update_nth i (fun _ => c') cs) j = Some x -> cid x = S j.
Proof.
  intros H Hn Hc j x Hx. destruct (Nat.eq_dec i j) as [->|Hne].
  - rewrite (nth_update_nth_eq _ _ _ _ Hn) in Hx. inversion Hx; subst. rewrite Hc. apply H. exact Hn.
  - rewrite nth_update_nth_neq in Hx by exact Hne. apply H. exact Hx.
Qed.

Lemma ids_update_f (cs : list conn) i (f : conn -> conn) :
  (forall x, cid (f x) = cid x) ->
  (forall j x, nth_error cs j = Some x -> cid x = S j) ->
  forall j x, nth_error (update_nth i f cs) j = Some x -> cid x = S j.
Proof.
  intros Hf H j x Hx. destruct (nth_error cs i) as [c|] eqn:En.
  - destruct (Nat.eq_dec i j) as [->|Hne].
    + rewrite (nth_update_nth_eq _ _ _ _ En) in Hx. inversion Hx; subst. rewrite Hf. apply H. exact En.
    + rewrite nth_update_nth_neq in Hx by exact Hne. apply H. exact Hx.
  - assert (update_nth i f cs = cs) as E.
    { clear -En. revert i En. induction cs as [|y r IH]; intros [|i] En; cbn in *; try discriminate; auto.
      f_equal. apply IH. exact En. }
    rewrite E in Hx. apply H. exact Hx.
Qed.

Theorem ids_inv_reachable cfg s : reachable cfg s -> ids_inv s.
Proof.
  apply invariant_reachable.
  - split; [intros [|i] c H; discriminate|cbn; auto].
  - intros s0 l s1 _ [Hids Hnext] Hs. unfold step in Hs. destruct (negb (alive s0)); [discriminate|].
    destruct l as [|si|ci|ci ri|v o| | |ci it|ci|ci b|b|b|].
    + (* LRun *)
      unfold run_step in Hs. destruct (run s0) as [|valid ok| | | |e] eqn:Er; try discriminate.
      * destruct (negb valid); [inversion Hs; subst; split; [exact Hids|exact I]|].
        destruct (stop_in_progress s0); [discriminate|]. destruct Hnext as [Hn Hc].
        destruct ok; inversion Hs; subst; (split; [exact Hids|cbn; rewrite ?Hc; cbn; auto]).
      * destruct (cancelled s0); [destruct (close_on_cancel cfg)|]; inversion Hs; subst;
          (split; [exact Hids|cbn; auto]).
      * destruct (lst s0); try (inversion Hs; subst; split; [exact Hids|exact I]).
        destruct (accept_err s0); [inversion Hs; subst; split; [exact Hids|exact I]|].
        destruct (backlog s0); [discriminate|inversion Hs; subst; split; [exact Hids|cbn; auto]].
      * inversion Hs; subst. split; cbn.
        -- intros i c Hn. destruct (Nat.lt_ge_cases i (length (conns s0))) as [Hlt|Hge].
           ++ rewrite nth_error_app1 in Hn by exact Hlt. apply Hids. exact Hn.
           ++ rewrite nth_error_app2 in Hn by exact Hge.
              destruct (i - length (conns s0)) as [|k] eqn:Ek; cbn in Hn; [|destruct k; discriminate].
              inversion Hn; subst. cbn. rewrite Hnext. f_equal. lia.
        -- rewrite app_length. cbn. lia.
    + (* LStop *)
      unfold stop_step in Hs. destruct (nth_error (stops s0) si) as [p|]; [|discriminate].
      destruct p; try discriminate.
      * destruct (lst s0); inversion Hs; subst; split; auto.
      * inversion Hs; subst; split; auto.
      * inversion Hs; subst. split; cbn.
        -- intros j x Hx. unfold interrupt_all in Hx. rewrite nth_error_map in Hx.
           destruct (nth_error (conns s0) j) as [y|] eqn:Ey; [|discriminate]. inversion Hx; subst. cbn. apply Hids. exact Ey.
        -- unfold interrupt_all. rewrite map_length. destruct (run s0); auto.
           destruct Hnext as [-> ->]. auto. destruct Hnext as [-> ->]. auto.
      * destruct (connwg s0 =? 0); [inversion Hs; subst; split; auto|discriminate].
    + (* LConn *)
      destruct (with_conn_frame _ _ _ _ Hs) as [(_ & _ & _ & _ & Hr & _ & Hni & _) (c & c' & e & Hn & Hf & Hc & _)].
      split.
      * rewrite Hc. eapply ids_update; eauto. eapply conn_step_cid; eauto.
      * rewrite Hr, Hni, Hc, length_update_nth. destruct (run s0); auto.
        destruct Hnext as [-> E]. rewrite E in Hn. destruct ci; discriminate.
        destruct Hnext as [-> E]. rewrite E in Hn. destruct ci; discriminate.
    + (* LHandler *)
      destruct (with_conn_frame _ _ _ _ Hs) as [(_ & _ & _ & _ & Hr & _ & Hni & _) (c0 & c' & e & Hn & Hf & Hc & _)].
      split.
      * rewrite Hc. eapply ids_update; eauto. eapply handler_step_cid; eauto.
      * rewrite Hr, Hni, Hc, length_update_nth. destruct (run s0); auto.
        destruct Hnext as [-> E]. rewrite E in Hn. destruct ci; discriminate.
        destruct Hnext as [-> E]. rewrite E in Hn. destruct ci; discriminate.
    + destruct (run s0) eqn:Er; try discriminate. inversion Hs; subst. split; [exact Hids|cbn; exact Hnext].
    + inversion Hs; subst. split; auto.
    + destruct (lst s0); try discriminate. inversion Hs; subst. split; auto.
    + destruct (upd_conn_env_frame _ _ _ _ Hs) as [(_ & _ & _ & _ & Hr & _ & Hni & _) (_ & _ & Hc)].
      split; [rewrite Hc; apply ids_update_f; [reflexivity|exact Hids]|].
      rewrite Hr, Hni, Hc, length_update_nth. destruct (run s0); auto;
        destruct Hnext as [-> E]; rewrite E; destruct ci; auto.
    + destruct (upd_conn_env_frame _ _ _ _ Hs) as [(_ & _ & _ & _ & Hr & _ & Hni & _) (_ & _ & Hc)].
      split; [rewrite Hc; apply ids_update_f; [reflexivity|exact Hids]|].
      rewrite Hr, Hni, Hc, length_update_nth. destruct (run s0); auto;
        destruct Hnext as [-> E]; rewrite E; destruct ci; auto.
    + destruct (upd_conn_env_frame _ _ _ _ Hs) as [(_ & _ & _ & _ & Hr & _ & Hni & _) (_ & _ & Hc)].
      split; [rewrite Hc; apply ids_update_f; [reflexivity|exact Hids]|].
      rewrite Hr, Hni, Hc, length_update_nth. destruct (run s0); auto;
        destruct Hnext as [-> E]; rewrite E; destruct ci; auto.
    + inversion Hs; subst. split; auto.
    + inversion Hs; subst. split; auto.
    + inversion Hs; subst. split; auto.
Qed.

(* ---------------------------------------------------------------- *)
(* server-level invariants: listener, port, Ready, cancellation        *)

Definition stop_active (p : spc) : bool := match p with SStart | SRet => false | _ => true end.
Definition past_cancel (p : spc) : bool := match p with SInterrupt | SWait | SRet => true | _ => false end.
Definition past_interrupt (p : spc) : bool := match p with SWait | SRet => true | _ => false end.
Definition in_loop (r : rpc) : bool := match r with RTop | RAcceptWait | RAccepted => true | _ => false end.

Definition srv_inv (cfg : config) (s : state) : Prop :=
  port_bound s = (match lst s with Listening => true | _ => false end) /\
  (match run s with RNot | RListen _ _ => lst s = NotCreated /\ ready s = false | _ => True end) /\
  (in_loop (run s) = true -> lst s <> NotCreated) /\
  (ready_on_error cfg = false -> ready s = true -> lst s <> NotCreated) /\
  (lst s = Listening -> in_loop (run s) = true \/ (run s = RRet true /\ accept_failed s = true) \/
                        (run s = RRet false /\ close_on_cancel cfg = false)) /\
  (lst s = ClosedL -> stops s <> []) /\
  (cancelled s = true -> stops s <> []) /\
  (run s = RRet false -> stops s <> []) /\
  (ready_on_error cfg = false -> run s = RRet true -> accept_failed s = false -> ready s = false) /\
  (close_on_cancel cfg = true -> cancelled s = true -> lst s = Listening -> run s = RTop) /\
  (stop_in_progress s = true -> lst s <> Listening) /\
  (existsb past_cancel (stops s) = true -> cancelled s = true).

Definition same_srv (s s' : state) : Prop :=
  lst s' = lst s /\ port_bound s' = port_bound s /\ ready s' = ready s /\ cancelled s' = cancelled s /\
  run s' = run s /\ stops s' = stops s /\ accept_failed s' = accept_failed s.

Lemma srv_inv_same cfg s s' : same_srv s s' -> srv_inv cfg s -> srv_inv cfg s'.
Proof.
  intros (E1 & E2 & E3 & E4 & E5 & E6 & E7) H. unfold srv_inv, stop_in_progress in *.
  rewrite E1, E2, E3, E4, E5, E6, E7. exact H.
Qed.

Lemma same_server_srv s s' : same_server s s' -> same_srv s s'.
Proof. intros (a & b & c & d & e & f & _ & _ & _ & g & _). repeat split; assumption. Qed.

Lemma existsb_update_nth {A} (p : A -> bool) l i x y : nth_error l i = Some x ->
  existsb p (update_nth i (fun _ => y) l) = true -> p y = true \/ existsb p l = true.
Proof.
  revert i; induction l as [|a r IH]; intros [|i] Hn H; cbn in *; try discriminate.
  - apply orb_true_iff in H. destruct H as [H|H]; [left; exact H|right; rewrite H; apply orb_true_r].
  - apply orb_true_iff in H. destruct H as [H|H]; [right; rewrite H; reflexivity|].
    destruct (IH i Hn H) as [G|G]; [left; exact G|right; rewrite G; apply orb_true_r].
Qed.

Lemma existsb_nth {A} (p : A -> bool) l i x : nth_error l i = Some x -> p x = true -> existsb p l = true.
Proof. intros Hn Hp. apply existsb_exists. exists x. split; [eapply nth_error_In; eauto|exact Hp]. Qed.

Lemma update_nth_nonnil {A} (f : A -> A) l i : l <> [] -> update_nth i f l <> [].
Proof. destruct l; [congruence|]. destruct i; cbn; discriminate. Qed.

Ltac srv_fin :=
  repeat split; auto; try discriminate; intros; subst;
  try discriminate; try congruence;
  repeat match goal with
         | H : ?x = false, H0 : context [?x] |- _ => rewrite H in H0; cbn in H0
         | H : ?x = true, H0 : context [?x] |- _ => rewrite H in H0; cbn in H0
         end;
  try discriminate; try congruence; auto;
  try (repeat match goal with
              | H : ?x = ?x -> _ |- _ => specialize (H eq_refl)
              | H : ?A -> _, H' : ?A |- _ => specialize (H H')
              end;
       try discriminate; try congruence; auto; tauto).

Theorem srv_inv_reachable cfg s : reachable cfg s -> srv_inv cfg s.
Proof.
  apply invariant_reachable.
  - unfold srv_inv; cbn. srv_fin.
  - intros s0 l s1 _ H Hs. unfold step in Hs. destruct (negb (alive s0)); [discriminate|].
    destruct l as [|si|ci|ci ri|v o| | |ci it|ci|ci b|b|b|].
    + (* LRun *)
      destruct H as (P1 & L0 & L1 & R1 & R2 & R3 & R4 & R5 & R6 & K & K2 & K3).
      unfold run_step in Hs. destruct (run s0) as [|valid ok| | | |e] eqn:Er; try discriminate.
      * destruct L0 as [Hl Hr].
        destruct (negb valid).
        { inversion Hs; subst. unfold srv_inv, stop_in_progress; cbn. rewrite Hl, Hr in *. srv_fin. }
        destruct (stop_in_progress s0) eqn:Esp; [discriminate|].
        destruct ok; inversion Hs; subst; unfold srv_inv, stop_in_progress in *; cbn; rewrite ?Hl, ?Hr in *; srv_fin.
      * cbn in L1. specialize (L1 eq_refl).
        destruct (cancelled s0) eqn:Ec.
        -- specialize (R4 eq_refl).
           destruct (close_on_cancel cfg) eqn:Ecc; inversion Hs; subst; unfold srv_inv, stop_in_progress in *; cbn; srv_fin.
        -- inversion Hs; subst. unfold srv_inv, stop_in_progress in *; cbn. srv_fin.
      * cbn in L1. specialize (L1 eq_refl).
        destruct (lst s0) eqn:El; try congruence.
        -- destruct (accept_err s0).
           ++ inversion Hs; subst. unfold srv_inv, stop_in_progress, mark_accept_failed in *; cbn. rewrite ?El in *. srv_fin.
           ++ destruct (backlog s0); [discriminate|]. inversion Hs; subst.
              unfold srv_inv, stop_in_progress in *; cbn. rewrite ?El in *. srv_fin.
        -- specialize (R3 eq_refl). inversion Hs; subst. unfold srv_inv, stop_in_progress in *; cbn. rewrite ?El in *. srv_fin.
      * cbn in L1. specialize (L1 eq_refl). inversion Hs; subst. unfold srv_inv, stop_in_progress in *; cbn. srv_fin.
    + (* LStop *)
      destruct H as (P1 & L0 & L1 & R1 & R2 & R3 & R4 & R5 & R6 & K & K2 & K3).
      unfold stop_step in Hs. destruct (nth_error (stops s0) si) as [p|] eqn:En; [|discriminate].
      assert (stops s0 <> []) as Hne by (intros E; rewrite E in En; destruct si; discriminate).
      assert (forall q, update_nth si (fun _ => q) (stops s0) <> []) as Hne' by (intros; apply update_nth_nonnil; exact Hne).
      destruct p; try discriminate.
      * (* SStart *)
        destruct (lst s0) eqn:El; inversion Hs; subst; unfold srv_inv, stop_in_progress in *; cbn; rewrite ?El in *; srv_fin;
          try (apply K3; match goal with Hx : existsb _ (update_nth _ _ _) = true |- _ =>
                 destruct (existsb_update_nth _ _ _ _ _ En Hx) as [G|G]; [discriminate|exact G] end);
          try (destruct (run s0); auto; destruct L0; congruence).
      * (* SCancel *)
        assert (lst s0 <> Listening) as Hnl by (apply K2; eapply existsb_nth; [exact En|reflexivity]).
        inversion Hs; subst; unfold srv_inv, stop_in_progress in *; cbn. srv_fin;
          try (apply K2; eapply existsb_nth; [exact En|reflexivity]).
      * (* SInterrupt *)
        assert (cancelled s0 = true) as Hc by (apply K3; eapply existsb_nth; [exact En|reflexivity]).
        inversion Hs; subst; unfold srv_inv, stop_in_progress in *; cbn. srv_fin;
          try (apply K2; eapply existsb_nth; [exact En|reflexivity]).
      * (* SWait *)
        assert (cancelled s0 = true) as Hc by (apply K3; eapply existsb_nth; [exact En|reflexivity]).
        destruct (connwg s0 =? 0); [|discriminate].
        inversion Hs; subst; unfold srv_inv, stop_in_progress in *; cbn. srv_fin;
          try (apply K2; eapply existsb_nth; [exact En|reflexivity]).
    + destruct (with_conn_frame _ _ _ _ Hs) as [Hsame _]. eapply srv_inv_same; [apply same_server_srv; exact Hsame|exact H].
    + destruct (with_conn_frame _ _ _ _ Hs) as [Hsame _]. eapply srv_inv_same; [apply same_server_srv; exact Hsame|exact H].
    + (* ECallRun *)
      destruct H as (P1 & L0 & L1 & R1 & R2 & R3 & R4 & R5 & R6 & K & K2 & K3).
      destruct (run s0) eqn:Er; try discriminate. destruct L0 as [Hl Hr]. inversion Hs; subst.
      unfold srv_inv, stop_in_progress in *; cbn. rewrite ?Hl, ?Hr in *. srv_fin.
    + (* ECallStop *)
      destruct H as (P1 & L0 & L1 & R1 & R2 & R3 & R4 & R5 & R6 & K & K2 & K3).
      inversion Hs; subst. unfold srv_inv, stop_in_progress in *; cbn. srv_fin;
        try (destruct (stops s0); discriminate);
        try (match goal with Hx : existsb _ (_ ++ _) = true |- _ =>
               rewrite existsb_app in Hx; cbn in Hx; rewrite orb_false_r in Hx; auto end).
    + destruct (lst s0) eqn:El; try discriminate. inversion Hs; subst.
      eapply srv_inv_same; [|exact H]. repeat split; cbn; congruence.
    + destruct (upd_conn_env_frame _ _ _ _ Hs) as [Hsame _]. eapply srv_inv_same; [apply same_server_srv; exact Hsame|exact H].
    + destruct (upd_conn_env_frame _ _ _ _ Hs) as [Hsame _]. eapply srv_inv_same; [apply same_server_srv; exact Hsame|exact H].
    + destruct (upd_conn_env_frame _ _ _ _ Hs) as [Hsame _]. eapply srv_inv_same; [apply same_server_srv; exact Hsame|exact H].
    + inversion Hs; subst. eapply srv_inv_same; [|exact H]. repeat split; reflexivity.
    + inversion Hs; subst. eapply srv_inv_same; [|exact H]. repeat split; reflexivity.
    + inversion Hs; subst. eapply srv_inv_same; [|exact H]. repeat split; reflexivity.
Qed.
