(* ResponseProofs.v — C04: what ResponseWriter.Write puts on the wire parses,
   with a strict RFC 4511 parser, to exactly one LDAPMessage carrying the
   request's message id, the constructor's tag and the values set; plus the
   totality of the constructors (C16). *)
From G Require Import Base Ber BerProofs Helpers Ldap LdapProofs LdapRoundTrip Response.
Ltac Zify.zify_post_hook ::= Z.div_mod_to_equations.
Open Scope N_scope.

(* ---------------------------------------------------------------- *)
(* constructors and setters: totality and field bookkeeping            *)

Theorem new_response_total k id dn xs : new_response true k id dn xs <> Panic.
Proof. unfold new_response. destruct k; try discriminate. destruct (o_code _); discriminate. Qed.

Lemma new_response_pinned_refuted : new_response false KModify 5 [] [] = Panic.
Proof. reflexivity. Qed.

Lemma new_response_id k id dn xs r : new_response true k id dn xs = Ok r -> r_id r = id /\ r_kind r = k.
Proof.
  unfold new_response. destruct k; try (intros H; inversion H; subst; split; reflexivity).
  destruct (o_code _); intros H; inversion H; subst; split; reflexivity.
Qed.

Lemma apply_setter_id r s : r_id (apply_setter r s) = r_id r /\ r_kind (apply_setter r s) = r_kind r /\
                            r_app (apply_setter r s) = r_app r /\ r_dn (apply_setter r s) = r_dn r.
Proof. destruct s; repeat split; reflexivity. Qed.

Lemma run_setters_id ss : forall r, r_id (run_setters r ss) = r_id r /\ r_kind (run_setters r ss) = r_kind r /\
                                    r_app (run_setters r ss) = r_app r /\ r_dn (run_setters r ss) = r_dn r.
Proof.
  induction ss as [|s ss IH]; intros r; [repeat split; reflexivity|].
  unfold run_setters in *. cbn [fold_left]. destruct (IH (apply_setter r s)) as (a & b & c & d).
  destruct (apply_setter_id r s) as (a' & b' & c' & d'). rewrite a, b, c, d. auto.
Qed.

Lemma run_setters_app r ss s : run_setters r (ss ++ [s]) = apply_setter (run_setters r ss) s.
Proof. unfold run_setters. rewrite fold_left_app. reflexivity. Qed.

(* the last setter of a field wins; the others leave it alone *)
Theorem last_setter_wins r ss :
  (forall z, r_code (run_setters r (ss ++ [SCode z])) = int16_of z) /\
  (forall d, r_diag (run_setters r (ss ++ [SDiag d])) = d) /\
  (forall d, r_matched (run_setters r (ss ++ [SMatched d])) = d) /\
  (forall cs, r_ctrls (run_setters r (ss ++ [SControls cs])) = cs) /\
  (forall n vs, r_attrs (run_setters r (ss ++ [SAddAttr n vs])) = r_attrs (run_setters r ss) ++ [(n, vs)]).
Proof. repeat split; intros; rewrite run_setters_app; reflexivity. Qed.

Theorem setter_frames r s :
  (forall z, s <> SCode z) -> r_code (apply_setter r s) = r_code r.
Proof. intros H. destruct s; try reflexivity. exfalso. eapply H. reflexivity. Qed.

Lemma int16_of_range z : (-32768 <= int16_of z <= 32767)%Z.
Proof. unfold int16_of. destruct (32768 <=? z mod 65536)%Z eqn:?; lia. Qed.

Lemma int16_of_id z : (0 <= z <= 32767)%Z -> int16_of z = z.
Proof. intros H. unfold int16_of. rewrite Z.mod_small by lia. destruct (32768 <=? z)%Z eqn:?; lia. Qed.

(* constructor defaults and "later option wins" *)
Lemma get_ropts_app xs x : get_ropts (xs ++ [x]) = apply_ropt (get_ropts xs) x.
Proof. unfold get_ropts. rewrite fold_left_app. reflexivity. Qed.

Theorem later_option_wins xs :
  (forall z, o_code (get_ropts (xs ++ [WCode z])) = Some z) /\
  (forall z, o_app (get_ropts (xs ++ [WApp z])) = Some z) /\
  (forall d, o_diag (get_ropts (xs ++ [WDiag d])) = d) /\
  (forall d, o_matched (get_ropts (xs ++ [WMatched d])) = d) /\
  get_ropts (xs ++ [OIgnored]) = get_ropts xs.
Proof. repeat split; intros; rewrite get_ropts_app; reflexivity. Qed.

(* ---------------------------------------------------------------- *)
(* controls at the RFC level (C14, response direction)                 *)

Lemma is_univ_prim_octet s : is_univ_prim (octet s) 4 = true. Proof. reflexivity. Qed.
Lemma is_univ_prim_octet1 s : is_univ_prim (octet s) 1 = false. Proof. reflexivity. Qed.

Theorem parse_control_rfc_encode c : parse_control_rfc (encode_control c) = Some (raw_of_control c).
Proof.
  destruct c as [size cookie|e g err| |e|crit| | | |oid crit v]; cbn [encode_control raw_of_control]; try reflexivity.
  - destruct (0 <=? g)%Z; [reflexivity|]. destruct (0 <=? e)%Z; [reflexivity|]. destruct (0 <=? err)%Z; reflexivity.
  - destruct crit; reflexivity.
  - destruct crit; destruct v; reflexivity.
Qed.

Lemma all_some_map {A B} (f : A -> option B) (g : A -> B) l :
  (forall x, f x = Some (g x)) -> all_some (map f l) = Some (map g l).
Proof. intros H. induction l as [|x r IH]; [reflexivity|]. cbn [map all_some]. rewrite H, IH. reflexivity. Qed.

Lemma parse_attr_enc a : parse_attr (enc_entry_attr a) = Some a.
Proof.
  destruct a as [n vs]. unfold enc_entry_attr, parse_attr. cbn [fst snd].
  change (is_univ_cons (seq [octet n; set_of (map octet vs)]) 16) with true. cbn [negb].
  unfold seq, set_of. rewrite !p_kids_cons.
  change (is_univ_prim (octet n) 4) with true. change (is_univ_cons (mk_cons 0 17 (map octet vs)) 17) with true.
  cbn [andb]. rewrite ?p_kids_cons.
  assert (forallb (fun v => is_univ_prim v 4) (map octet vs) = true) as -> by (induction vs; simpl; auto).
  rewrite map_map. cbn [octet new_string p_data]. rewrite map_id. reflexivity.
Qed.

(* ---------------------------------------------------------------- *)
(* the strict parser on packet() trees                                  *)

Definition expected (r : response) : parsed :=
  match r_kind r with
  | KEntry => PEntry (r_id r) (r_dn r) (r_attrs r)
  | KExtended => PResult (r_id r) 24 (r_code r) (r_matched r) (r_diag r) []
  | KBind => PResult (r_id r) 1 (r_code r) (r_matched r) (r_diag r) (map raw_of_control (r_ctrls r))
  | KSearchDone => PResult (r_id r) 5 (r_code r) (r_matched r) (r_diag r) (map raw_of_control (r_ctrls r))
  | KGeneral | KModify => PResult (r_id r) (tag_of_int (r_app r)) (r_code r) (r_matched r) (r_diag r) []
  end.

Definition wf_response (r : response) : bool :=
  int64_ok (r_id r) && (-32768 <=? r_code r)%Z && (r_code r <=? 32767)%Z &&
  (0 <=? r_app r)%Z && (r_app r <=? 30)%Z &&
  (N.of_nat (length (response_bytes r)) <=? 2147483647).

Lemma int_data_ok z : (- 2 ^ 63 <= z < 2 ^ 63)%Z ->
  ((8 <? length (enc_int z))%nat || (length (enc_int z) =? 0)%nat) = false /\ parse_int64 (enc_int z) = z.
Proof.
  intros H. rewrite enc_int_length. destruct (int64_len_bound z H) as [Hn _]. cbn zeta in Hn.
  split; [|apply parse_int64_enc_int; exact H].
  destruct (8 <? int64_len z)%nat eqn:?; [lia|]. destruct (int64_len z =? 0)%nat eqn:?; [lia|]. reflexivity.
Qed.

Lemma result_tree id t code matched diag (rest : list pkt) cs :
  (- 2 ^ 63 <= id < 2 ^ 63)%Z -> (- 2 ^ 63 <= code < 2 ^ 63)%Z -> t <> 4 ->
  match rest with
  | [] => Some []
  | [cp] => if (p_cls cp =? 128) && p_cons cp && (p_tag cp =? 0)
            then all_some (map parse_control_rfc (p_kids cp)) else None
  | _ => None
  end = Some cs ->
  parse_response_tree (seq ([integer id; app_tagged t [enumerated code; octet matched; octet diag]] ++ rest)) =
  Some (PResult id t code matched diag cs).
Proof.
  intros Hid Hcode Ht Hrest. unfold parse_response_tree.
  change (is_univ_cons (seq _) 16) with true. cbn [negb]. unfold seq. rewrite p_kids_cons. cbn [app].
  change (is_univ_prim (integer id) 2) with true. cbn [negb].
  change (p_data (integer id)) with (enc_int id).
  destruct (int_data_ok id Hid) as [-> ->].
  unfold app_tagged. change (p_cls (mk_cons 64 t _)) with 64. change (p_cons (mk_cons 64 t _)) with true.
  cbn [N.eqb Pos.eqb andb negb]. rewrite Hrest. rewrite p_tag_cons, p_kids_cons.
  replace (t =? 4) with false by (symmetry; apply N.eqb_neq; exact Ht). cbn [andb].
  change (is_univ_prim (enumerated code) 10) with true. rewrite !is_univ_prim_octet. cbn [andb].
  change (p_data (enumerated code)) with (enc_int code).
  destruct (int_data_ok code Hcode) as [-> ->]. reflexivity.
Qed.

(* the same under tag 4: three children, so it is read as an LDAPResult *)
Lemma result_tree4 id code matched diag :
  (- 2 ^ 63 <= id < 2 ^ 63)%Z -> (- 2 ^ 63 <= code < 2 ^ 63)%Z ->
  parse_response_tree (seq [integer id; app_tagged 4 [enumerated code; octet matched; octet diag]]) =
  Some (PResult id 4 code matched diag []).
Proof.
  intros Hid Hcode. unfold parse_response_tree.
  change (is_univ_cons (seq _) 16) with true. cbn [negb]. unfold seq. rewrite p_kids_cons.
  change (is_univ_prim (integer id) 2) with true. cbn [negb].
  change (p_data (integer id)) with (enc_int id).
  destruct (int_data_ok id Hid) as [-> ->].
  unfold app_tagged. change (p_cls (mk_cons 64 4 _)) with 64. change (p_cons (mk_cons 64 4 _)) with true.
  cbn [N.eqb Pos.eqb andb negb]. rewrite p_tag_cons, p_kids_cons.
  cbn [N.eqb Pos.eqb length Nat.eqb andb].
  change (is_univ_prim (enumerated code) 10) with true. rewrite !is_univ_prim_octet. cbn [andb].
  change (p_data (enumerated code)) with (enc_int code).
  destruct (int_data_ok code Hcode) as [-> ->]. reflexivity.
Qed.

Theorem parse_packet_of r : wf_response r = true -> parse_response_tree (packet_of r) = Some (expected r).
Proof.
  unfold wf_response, int64_ok. intros W0.
  repeat (apply andb_true_iff in W0; destruct W0 as [W0 ?]).
  assert (- 2 ^ 63 <= r_id r < 2 ^ 63)%Z as Hid by lia.
  assert (- 2 ^ 63 <= r_code r < 2 ^ 63)%Z as Hc by lia.
  unfold packet_of, expected. destruct (r_kind r).
  - (* general *)
    assert (tag_of_int (r_app r) = Z.to_N (r_app r)) as Ht by (unfold tag_of_int; rewrite Z.mod_small by lia; reflexivity).
    destruct (N.eq_dec (tag_of_int (r_app r)) 4) as [E4|N4].
    + rewrite E4. apply result_tree4; assumption.
    + apply (result_tree _ _ _ _ _ [] []); auto.
  - (* bind *)
    destruct (r_ctrls r) as [|c cs] eqn:Ec.
    + apply (result_tree _ _ _ _ _ [] []); auto. discriminate.
    + apply (result_tree _ 1 _ _ _ [encode_controls (c :: cs)]); auto; [discriminate|].
      change (p_cls (encode_controls (c :: cs))) with 128. change (p_cons (encode_controls (c :: cs))) with true.
      change (p_tag (encode_controls (c :: cs))) with 0. cbn [N.eqb Pos.eqb andb].
      unfold encode_controls, ctx_cons. rewrite p_kids_cons. rewrite map_map.
      apply all_some_map. apply parse_control_rfc_encode.
  - apply (result_tree _ _ _ _ _ [] []); auto. discriminate.
  - (* search done *)
    destruct (r_ctrls r) as [|c cs] eqn:Ec.
    + apply (result_tree _ _ _ _ _ [] []); auto. discriminate.
    + apply (result_tree _ 5 _ _ _ [encode_controls (c :: cs)]); auto; [discriminate|].
      change (p_cls (encode_controls (c :: cs))) with 128. change (p_cons (encode_controls (c :: cs))) with true.
      change (p_tag (encode_controls (c :: cs))) with 0. cbn [N.eqb Pos.eqb andb].
      unfold encode_controls, ctx_cons. rewrite p_kids_cons. rewrite map_map.
      apply all_some_map. apply parse_control_rfc_encode.
  - (* entry *)
    unfold parse_response_tree.
    change (is_univ_cons (seq _) 16) with true. cbn [negb]. unfold seq at 1. rewrite p_kids_cons.
    change (is_univ_prim (integer (r_id r)) 2) with true. cbn [negb].
    change (p_data (integer (r_id r))) with (enc_int (r_id r)).
    destruct (int_data_ok (r_id r) Hid) as [-> ->].
    unfold app_tagged. change (p_cls (mk_cons 64 4 _)) with 64. change (p_cons (mk_cons 64 4 _)) with true.
    cbn [N.eqb Pos.eqb andb negb]. rewrite p_tag_cons, p_kids_cons.
    cbn [N.eqb Pos.eqb length Nat.eqb andb].
    rewrite is_univ_prim_octet. change (is_univ_cons (seq _) 16) with true. cbn [andb].
    unfold seq. rewrite p_kids_cons. rewrite map_map.
    rewrite (all_some_map (fun x => parse_attr (enc_entry_attr x)) (fun x => x)) by (apply parse_attr_enc).
    rewrite map_id. reflexivity.
  - (* modify *)
    assert (tag_of_int (r_app r) = Z.to_N (r_app r)) as Ht by (unfold tag_of_int; rewrite Z.mod_small by lia; reflexivity).
    destruct (N.eq_dec (tag_of_int (r_app r)) 4) as [E4|N4].
    + rewrite E4. apply result_tree4; assumption.
    + apply (result_tree _ _ _ _ _ [] []); auto.
Qed.

(* every packet() tree is structurally well formed *)
Lemma swf_packet_of prim_ok r : (0 <= r_app r <= 30)%Z -> swf prim_ok (packet_of r) = true.
Proof.
  intros Happ.
  assert (tag_of_int (r_app r) < 31) as Ht.
  { unfold tag_of_int. rewrite Z.mod_small by lia. lia. }
  assert (forall t, t < 31 -> swf prim_ok (app_tagged t [enumerated (r_code r); octet (r_matched r); octet (r_diag r)]) = true) as Hres.
  { intros t Hlt. apply swf_cons; [reflexivity|exact Hlt|]. cbn [forallb]. rewrite swf_enumerated, !swf_octet. reflexivity. }
  unfold packet_of. destruct (r_kind r).
  - apply swf_cons; [reflexivity|lia|]. cbn [forallb]. rewrite swf_integer, Hres by exact Ht. reflexivity.
  - apply swf_cons; [reflexivity|lia|]. rewrite forallb_app. cbn [forallb]. rewrite swf_integer, Hres by lia.
    destruct (r_ctrls r); cbn [forallb]; rewrite ?swf_controls; reflexivity.
  - apply swf_cons; [reflexivity|lia|]. cbn [forallb]. rewrite swf_integer, Hres by lia. reflexivity.
  - apply swf_cons; [reflexivity|lia|]. rewrite forallb_app. cbn [forallb]. rewrite swf_integer, Hres by lia.
    destruct (r_ctrls r); cbn [forallb]; rewrite ?swf_controls; reflexivity.
  - apply swf_cons; [reflexivity|lia|]. cbn [forallb]. rewrite swf_integer. cbn [andb]. rewrite andb_true_r.
    apply swf_cons; [reflexivity|lia|]. cbn [forallb]. rewrite swf_octet. cbn [andb]. rewrite andb_true_r.
    apply swf_cons; [reflexivity|lia|]. apply forallb_map_true. intros [n vs]. unfold enc_entry_attr. cbn [fst snd].
    apply swf_cons; [reflexivity|lia|]. cbn [forallb]. rewrite swf_octet, swf_set_octets. reflexivity.
  - apply swf_cons; [reflexivity|lia|]. cbn [forallb]. rewrite swf_integer, Hres by exact Ht. reflexivity.
Qed.

Theorem parse_response_bytes prim_ok r : wf_response r = true ->
  parse_response prim_ok (response_bytes r) = Some (expected r).
Proof.
  intros H. unfold parse_response, response_bytes.
  rewrite <- (app_nil_r (bytes_of (packet_of r))).
  rewrite read_packet_bytes_of.
  - apply parse_packet_of. exact H.
  - unfold wf_response in H. repeat (apply andb_true_iff in H; destruct H as [H ?]).
    apply wire_wf_small; [apply swf_packet_of; lia|]. apply N.leb_le. assumption.
Qed.

(* one Write = one whole frame: the bytes of a response followed by anything
   parse as that response and leave the rest untouched *)
Theorem one_frame prim_ok r rest : wf_response r = true ->
  read_packet prim_ok (response_bytes r ++ rest) = Ok (packet_of r, rest).
Proof.
  intros H. unfold response_bytes. apply read_packet_bytes_of.
  unfold wf_response in H. repeat (apply andb_true_iff in H; destruct H as [H ?]).
  apply wire_wf_small; [apply swf_packet_of; lia|]. apply N.leb_le. assumption.
Qed.

(* non-vacuity *)
Example wf_response_example :
  exists r, new_response true KBind 77 [] [WCode 49; OIgnored] = Ok r /\
            wf_response (run_setters r [SDiag [97; 98]; SControls [CPaging 5 [1]]]) = true.
Proof. eexists. split; [reflexivity|]. vm_compute. reflexivity. Qed.
