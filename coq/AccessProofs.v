(* AccessProofs.v - the discipline of Access.v holds of the table regenerated
   from the source (finite domain: decided by computation inside the kernel). *)
From Coq Require Import String List Bool.
From G Require Import AccessGen Access.
Import ListNotations.

Theorem discipline_holds : check_all gen_sites gen_calls = true.
Proof. vm_compute. reflexivity. Qed.

Lemma every_function_classified a : In a gen_sites -> fn_threads (g_fn a) <> [].
Proof.
  intros Ha. pose proof discipline_holds as H. unfold check_all in H.
  apply andb_true_iff in H. destruct H as [H _].
  rewrite forallb_forall in H. specialize (H a Ha). unfold known in H.
  destruct (fn_threads (g_fn a)); [discriminate|discriminate].
Qed.

Theorem every_conflict_justified a b ta tb :
  In a gen_sites -> In b gen_sites -> conflict a b = true ->
  In ta (fn_threads (g_fn a)) -> In tb (fn_threads (g_fn b)) ->
  justified gen_calls a b ta tb = true.
Proof.
  intros Ha Hb Hc Hta Htb. pose proof discipline_holds as H. unfold check_all in H.
  apply andb_true_iff in H. destruct H as [_ H].
  rewrite forallb_forall in H. specialize (H a Ha).
  rewrite forallb_forall in H. specialize (H b Hb).
  unfold pair_safe in H. rewrite Hc in H.
  rewrite forallb_forall in H. specialize (H ta Hta).
  rewrite forallb_forall in H. exact (H tb Htb).
Qed.

(* the pinned directory (handlers without the lock) does not meet it *)
Theorem pinned_directory_refuted :
  check_all (map strip_handler_lock gen_sites) (map strip_call_lock gen_calls) = false.
Proof. vm_compute. reflexivity. Qed.

(* non-vacuity: there are conflicting pairs, of every justification kind *)
Example conflicts_exist :
  length (filter (fun p => conflict (fst p) (snd p)) (list_prod gen_sites gen_sites)) <> 0.
Proof. vm_compute. discriminate. Qed.

(* C05's premise about the code, read off the same table: every use of the connection's
   buffered writer (method calls through conn.writer / ResponseWriter.writer) happens with the
   connection's writer mutex held *)
Definition uses_writer (a : gsite) : bool := String.eqb (canon_field (g_field a)) "conn.writer*".
Theorem writer_only_under_mutex :
  forallb (fun a => implb (uses_writer a) (existsb (String.eqb "conn.writerMu:W") (eff_locks gen_calls a))) gen_sites = true.
Proof. vm_compute. reflexivity. Qed.
Example writer_is_used : existsb uses_writer gen_sites = true.
Proof. vm_compute. reflexivity. Qed.
