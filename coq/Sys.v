(* Sys.v — the concurrent shell of gldap as a labelled transition system:
   server.go Run / Stop / Ready, the per-connection goroutine and its deferred
   teardown, conn.go serveRequests (read loop, inline Unbind / StartTLS,
   per-request goroutines), handler threads with arbitrary scripts, and the
   environment (clients, the test's barriers, OnClose being slow, calls of
   Run and Stop).  One label = one atomic step of one thread or of the
   environment; blocking = the label is not enabled.   MODEL ONLY.

   The places where the pinned tree and the current tree differ are the
   boolean fields of [config]; theorems quantify over every config that
   satisfies the stated predicate, [pinned_cfg] and [fixed_cfg] are two values
   (DESIGN Appendix A). *)
From G Require Import Base.

Record config := {
  recovery : bool;            (* not WithDisablePanicRecovery *)
  handler_rec : bool;         (* per-request goroutines recover panics (when recovery is on) *)
  wg_last : bool;             (* connWg.Done after conn.close and OnClose (else first) *)
  add_before_accept : bool;   (* connWg.Add before listener.Accept (else after newConn) *)
  stop_interrupts : bool;     (* Stop expires the deadlines of every tracked connection *)
  ready_on_error : bool;      (* listenerReady set even when net.Listen failed *)
  close_on_cancel : bool;     (* Run closes the listener when it returns because of Stop *)
  accept_retry : bool;        (* a transient Accept error (descriptor exhaustion) is retried after a back-off *)
  untrack_late : bool;        (* the connection leaves Stop's table only after its socket is closed *)
  has_unbind_route : bool;
  has_onclose : bool
}.

Definition fixed_cfg : config :=
  {| recovery := true; handler_rec := true; wg_last := true; add_before_accept := true;
     stop_interrupts := true; ready_on_error := false; close_on_cancel := true; accept_retry := true; untrack_late := true;
     has_unbind_route := true; has_onclose := true |}.
Definition pinned_cfg : config :=
  {| recovery := true; handler_rec := false; wg_last := false; add_before_accept := false;
     stop_interrupts := false; ready_on_error := true; close_on_cancel := false; accept_retry := false; untrack_late := false;
     has_unbind_route := true; has_onclose := true |}.

(* ---------------------------------------------------------------- *)
(* what clients send and what handlers do                             *)

Inductive hstep :=
| HBarrier (b : nat)      (* waits until the test releases barrier b *)
| HPanic
| HWrite                  (* writes a response: blocks while the client is not reading *)
| HHandshake              (* Request.StartTLS: waits for the client's handshake *)
| HStaleWrite.            (* a write through a ResponseWriter made BEFORE a StartTLS upgrade that has happened
                             since: it goes to the raw socket, in the clear.  Never in a script a client
                             or a test supplies: [stale_script] puts it there at the upgrade *)

Inductive rkind := KNormal | KStartTLS | KUnbind.

Inductive item :=
| IReq (k : rkind) (script : list hstep)   (* a well-formed request and what its handler will do *)
| IBad                                      (* malformed frame / unsupported operation *)
| IHello.                                   (* TLS handshake bytes *)

(* deferred teardown of the connection goroutine, in execution order *)
Inductive tstep := TWgDone | TWaitHandlers | TSockClose | TOnClose | TUntrack.

Definition teardown_core (cfg : config) : list tstep :=
  if untrack_late cfg then [TWaitHandlers; TSockClose; TUntrack; TOnClose]
  else [TUntrack; TWaitHandlers; TSockClose; TOnClose].
Definition teardown_of (cfg : config) : list tstep :=
  if wg_last cfg then teardown_core cfg ++ [TWgDone] else TWgDone :: teardown_core cfg.

Inductive cpc :=
| CInit                               (* goroutine started, defers installed *)
| CLoopTop                            (* requestID++, shutdown check *)
| CRead                               (* blocked in readRequest *)
| CInline (k : rkind) (script : list hstep)   (* Unbind / StartTLS handler on the loop goroutine *)
| CTeardown (todo : list tstep)
| CDone.

Record conn := {
  cid : nat;                          (* connection ID *)
  pc : cpc;
  nreq : nat;                         (* requestID *)
  nread : nat;                        (* ghost: items taken from the input so far *)
  input : list item;                  (* bytes the client sent and the server has not read *)
  eof : bool;                         (* client closed or reset *)
  stalled : bool;                     (* client does not read *)
  interrupted : bool;                 (* deadlines expired by Stop *)
  inflight : nat;                     (* requestsWg *)
  hs : list (nat * list hstep);       (* running per-request goroutines: request id, rest of script *)
  started : list (nat * rkind);       (* history: handlers entered, in order *)
  ended : list nat;                   (* history: handlers returned (or recovered) *)
  unbind_seen : bool;
  read_after_unbind : nat;            (* requests taken from the input after an Unbind was read *)
  sock_closed : bool;
  onclose : nat;                      (* OnClose calls made for this connection *)
  wgdone : bool;                      (* connWg.Done executed *)
  sent : nat                          (* LDAPMessages gldap has put on this connection's wire *)
}.

Definition new_conn (id : nat) (intr : bool) : conn :=
  {| cid := id; pc := CInit; nreq := 0; nread := 0; input := []; eof := false; stalled := false; interrupted := intr;
     inflight := 0; hs := []; started := []; ended := []; unbind_seen := false; read_after_unbind := 0;
     sock_closed := false; onclose := 0; wgdone := false; sent := 0 |}.

Inductive lstate := NotCreated | Listening | ClosedL.

Inductive rpc :=
| RNot                                (* Run not called *)
| RListen (valid ok : bool)           (* address validated?, will net.Listen succeed? *)
| RTop                                (* connID++, shutdown check *)
| RAcceptWait                         (* blocked in Accept *)
| RAccepted                           (* Accept returned a connection: newConn, Add, go *)
| RRet (err : bool).

Inductive spc := SStart | SCancel | SInterrupt | SWait | SRet.

Record state := {
  lst : lstate;
  port_bound : bool;
  ready : bool;
  cancelled : bool;
  run : rpc;
  stops : list spc;
  nextid : nat;                       (* connID *)
  connwg : nat;
  backlog : nat;                      (* clients connected and not yet accepted *)
  accept_err : bool;                  (* a non-"closed" Accept error is pending *)
  accept_failed : bool;               (* ghost, sticky: Run returned because Accept failed *)
  conns : list conn;
  alive : bool;                       (* the process has not died of an unrecovered panic *)
  released : list nat;                (* barriers the test has released *)
  onclose_held : bool                 (* the OnClose callback blocks (slow user code) *)
}.

Definition init : state :=
  {| lst := NotCreated; port_bound := false; ready := false; cancelled := false; run := RNot; stops := [];
     nextid := 0; connwg := 0; backlog := 0; accept_err := false; accept_failed := false; conns := []; alive := true;
     released := []; onclose_held := false |}.

Inductive label :=
(* threads of the server process *)
| LRun
| LStop (i : nat)
| LConn (c : nat)                     (* c = index in [conns] *)
| LHandler (c r : nat)                (* r = request id *)
(* environment *)
| ECallRun (valid ok : bool)
| ECallStop
| EConnect
| ESend (c : nat) (it : item)
| EClose (c : nat)
| EStall (c : nat) (b : bool)
| ERelease (b : nat)
| EHoldOnClose (b : bool)
| EAcceptErr.

Definition internal (l : label) : bool :=
  match l with LRun | LStop _ | LConn _ | LHandler _ _ => true | _ => false end.

(* ---------------------------------------------------------------- *)
(* record updates                                                     *)

Definition set_pc (c : conn) (p : cpc) : conn :=
  {| cid := cid c; pc := p; nreq := nreq c; nread := nread c; input := input c; eof := eof c; stalled := stalled c;
     interrupted := interrupted c; inflight := inflight c; hs := hs c; started := started c; ended := ended c;
     unbind_seen := unbind_seen c; read_after_unbind := read_after_unbind c; sock_closed := sock_closed c;
     onclose := onclose c; wgdone := wgdone c; sent := sent c |}.

Fixpoint update_nth {A} (n : nat) (f : A -> A) (l : list A) : list A :=
  match n, l with
  | _, [] => []
  | O, x :: r => f x :: r
  | S n', x :: r => x :: update_nth n' f r
  end.

Definition set_conns (s : state) (cs : list conn) : state :=
  {| lst := lst s; port_bound := port_bound s; ready := ready s; cancelled := cancelled s; run := run s;
     stops := stops s; nextid := nextid s; connwg := connwg s; backlog := backlog s; accept_err := accept_err s; accept_failed := accept_failed s;
     conns := cs; alive := alive s; released := released s; onclose_held := onclose_held s |}.

Definition mem_nat (x : nat) (l : list nat) : bool := existsb (Nat.eqb x) l.

(* can a write to this connection's client make progress (or fail at once)? *)
Definition can_write (c : conn) : bool := negb (stalled c) || interrupted c || eof c.

(* StartTLS hands the socket to the TLS layer and gives the connection a fresh reader: requests
   the client pipelined in the clear behind its StartTLS request (they sit in the old reader's
   buffer) are dropped, never served; the handshake starts at the first bytes that are not such
   a request *)
Fixpoint after_plain (l : list item) : list item :=
  match l with
  | IReq _ _ :: r => after_plain r
  | _ => l
  end.

(* does a write that is attempted now reach the client (else it fails at once)? *)
Definition delivered (c : conn) : bool := negb (stalled c) && negb (interrupted c) && negb (eof c).
(* what the upgrade does to the handlers that are running: their ResponseWriters keep the old
   bufio.Writer (response.go: the writer is captured by newResponseWriter; conn.initConn installs
   a new one over the TLS session) *)
Definition stale_script (sc : list hstep) : list hstep :=
  map (fun h => match h with HWrite => HStaleWrite | x => x end) sc.
Definition stale_hs (l : list (nat * list hstep)) : list (nat * list hstep) :=
  map (fun p => (fst p, stale_script (snd p))) l.

Definition frame_of (c : conn) (h : hstep) : nat :=
  match h with HWrite => if delivered c then 1 else 0 | _ => 0 end.

(* is the next step of a handler script enabled? *)
Definition hstep_enabled (s : state) (c : conn) (h : hstep) : bool :=
  match h with
  | HBarrier b => mem_nat b (released s)
  | HPanic => true
  | HWrite | HStaleWrite => can_write c
  | HHandshake => match after_plain (input c) with IHello :: _ | IBad :: _ => true | _ => interrupted c || eof c end
  end.

(* ---------------------------------------------------------------- *)
(* per-connection steps; the effect on the server-wide state is       *)
(* returned as a small record                                         *)

Inductive effect := ENone | EWgDone | EDie.

Definition conn_step (cfg : config) (s : state) (c : conn) : option (conn * effect) :=
  match pc c with
  | CInit => Some (set_pc c CLoopTop, ENone)
  | CLoopTop =>
    let c1 := {| cid := cid c; pc := pc c; nreq := S (nreq c); nread := nread c; input := input c; eof := eof c; stalled := stalled c;
                 interrupted := interrupted c; inflight := inflight c; hs := hs c; started := started c;
                 ended := ended c; unbind_seen := unbind_seen c; read_after_unbind := read_after_unbind c;
                 sock_closed := sock_closed c; onclose := onclose c; wgdone := wgdone c;
                 sent := sent c + (if cancelled s && delivered c then 1 else 0) |} in
    if cancelled s then
      (* "server stopping" notice, then return *)
      if can_write c then Some (set_pc c1 (CTeardown (teardown_of cfg)), ENone) else None
    else Some (set_pc c1 CRead, ENone)
  | CRead =>
    match input c with
    | [] => if eof c || interrupted c then Some (set_pc c (CTeardown (teardown_of cfg)), ENone) else None
    | it :: rest =>
      let after := if unbind_seen c then S (read_after_unbind c) else read_after_unbind c in
      let base p st inf h ub :=
          {| cid := cid c; pc := p; nreq := nreq c; nread := S (nread c); input := rest; eof := eof c; stalled := stalled c;
             interrupted := interrupted c; inflight := inf; hs := h; started := st; ended := ended c;
             unbind_seen := ub; read_after_unbind := after; sock_closed := sock_closed c;
             onclose := onclose c; wgdone := wgdone c; sent := sent c |} in
      match it with
      | IReq KNormal script =>
        Some (base CLoopTop (started c ++ [(nreq c, KNormal)]) (S (inflight c)) (hs c ++ [(nreq c, script)]) (unbind_seen c), ENone)
      | IReq KStartTLS script =>
        Some (base (CInline KStartTLS script) (started c ++ [(nreq c, KStartTLS)]) (inflight c) (hs c) (unbind_seen c), ENone)
      | IReq KUnbind script =>
        if has_unbind_route cfg
        then Some (base (CInline KUnbind script) (started c ++ [(nreq c, KUnbind)]) (inflight c) (hs c) true, ENone)
        else Some (base (CTeardown (teardown_of cfg)) (started c) (inflight c) (hs c) true, ENone)
      | IBad | IHello => Some (base (CTeardown (teardown_of cfg)) (started c) (inflight c) (hs c) (unbind_seen c), ENone)
      end
    end
  | CInline k [] =>
    let c1 := {| cid := cid c; pc := pc c; nreq := nreq c; nread := nread c; input := input c; eof := eof c; stalled := stalled c;
                 interrupted := interrupted c; inflight := inflight c; hs := hs c; started := started c;
                 ended := ended c ++ [nreq c]; unbind_seen := unbind_seen c;
                 read_after_unbind := read_after_unbind c; sock_closed := sock_closed c; onclose := onclose c;
                 wgdone := wgdone c; sent := sent c |} in
    match k with
    | KUnbind => Some (set_pc c1 (CTeardown (teardown_of cfg)), ENone)
    | _ => Some (set_pc c1 CLoopTop, ENone)
    end
  | CInline k (h :: rest) =>
    if negb (hstep_enabled s c h) then None else
    match h with
    | HPanic => if recovery cfg then Some (set_pc c (CTeardown (teardown_of cfg)), ENone) else Some (c, EDie)
    | HHandshake =>
      (* consumes the client's handshake bytes when they are there *)
      (* (bytes that are not a TLS ClientHello are consumed as well: the handshake fails at once) *)
      let inp := match after_plain (input c) with IHello :: r | IBad :: r => r | _ => input c end in
      (* a ClientHello: the handshake succeeds and initConn swaps reader and writer *)
      let up := match after_plain (input c) with IHello :: _ => true | _ => false end in
      Some ({| cid := cid c; pc := CInline k (if up then stale_script rest else rest); nreq := nreq c; nread := nread c; input := inp; eof := eof c; stalled := stalled c;
               interrupted := interrupted c; inflight := inflight c; hs := (if up then stale_hs (hs c) else hs c); started := started c;
               ended := ended c; unbind_seen := unbind_seen c; read_after_unbind := read_after_unbind c;
               sock_closed := sock_closed c; onclose := onclose c; wgdone := wgdone c; sent := sent c |}, ENone)
    | HStaleWrite =>
      (* plaintext on a connection that has been upgraded: the client's TLS layer sees bytes that
         are no record and gives the connection up *)
      Some ({| cid := cid c; pc := CInline k rest; nreq := nreq c; nread := nread c; input := input c; eof := true; stalled := stalled c;
               interrupted := interrupted c; inflight := inflight c; hs := hs c; started := started c;
               ended := ended c; unbind_seen := unbind_seen c; read_after_unbind := read_after_unbind c;
               sock_closed := sock_closed c; onclose := onclose c; wgdone := wgdone c; sent := sent c |}, ENone)
    | _ =>
      Some ({| cid := cid c; pc := CInline k rest; nreq := nreq c; nread := nread c; input := input c; eof := eof c; stalled := stalled c;
               interrupted := interrupted c; inflight := inflight c; hs := hs c; started := started c;
               ended := ended c; unbind_seen := unbind_seen c; read_after_unbind := read_after_unbind c;
               sock_closed := sock_closed c; onclose := onclose c; wgdone := wgdone c; sent := sent c + frame_of c h |}, ENone)
    end
  | CTeardown [] => Some (set_pc c CDone, ENone)
  | CTeardown (t :: rest) =>
    match t with
    | TWgDone =>
      Some ({| cid := cid c; pc := CTeardown rest; nreq := nreq c; nread := nread c; input := input c; eof := eof c; stalled := stalled c;
               interrupted := interrupted c; inflight := inflight c; hs := hs c; started := started c;
               ended := ended c; unbind_seen := unbind_seen c; read_after_unbind := read_after_unbind c;
               sock_closed := sock_closed c; onclose := onclose c; wgdone := true; sent := sent c |}, EWgDone)
    | TWaitHandlers => if (inflight c =? 0)%nat then Some (set_pc c (CTeardown rest), ENone) else None
    | TSockClose =>
      Some ({| cid := cid c; pc := CTeardown rest; nreq := nreq c; nread := nread c; input := input c; eof := eof c; stalled := stalled c;
               interrupted := interrupted c; inflight := inflight c; hs := hs c; started := started c;
               ended := ended c; unbind_seen := unbind_seen c; read_after_unbind := read_after_unbind c;
               sock_closed := true; onclose := onclose c; wgdone := wgdone c; sent := sent c |}, ENone)
    | TUntrack => Some (set_pc c (CTeardown rest), ENone)      (* untrackConn: Stop's pass no longer reaches it *)
    | TOnClose =>
      if negb (has_onclose cfg) then Some (set_pc c (CTeardown rest), ENone)
      else if onclose_held s then None
      else Some ({| cid := cid c; pc := CTeardown rest; nreq := nreq c; nread := nread c; input := input c; eof := eof c;
                    stalled := stalled c; interrupted := interrupted c; inflight := inflight c; hs := hs c;
                    started := started c; ended := ended c; unbind_seen := unbind_seen c;
                    read_after_unbind := read_after_unbind c; sock_closed := sock_closed c;
                    onclose := S (onclose c); wgdone := wgdone c; sent := sent c |}, ENone)
    end
  | CDone => None
  end.

(* a per-request goroutine: next script step, or return (requestsWg.Done) *)
Fixpoint take_handler (r : nat) (l : list (nat * list hstep)) : option (list hstep * list (nat * list hstep)) :=
  match l with
  | [] => None
  | (r', sc) :: rest =>
    if (r' =? r)%nat then Some (sc, rest)
    else match take_handler r rest with Some (sc', rest') => Some (sc', (r', sc) :: rest') | None => None end
  end.

Definition handler_step (cfg : config) (s : state) (c : conn) (r : nat) : option (conn * effect) :=
  match take_handler r (hs c) with
  | None => None
  | Some (sc, others) =>
    let finish :=
        {| cid := cid c; pc := pc c; nreq := nreq c; nread := nread c; input := input c; eof := eof c; stalled := stalled c;
           interrupted := interrupted c; inflight := pred (inflight c); hs := others; started := started c;
           ended := ended c ++ [r]; unbind_seen := unbind_seen c; read_after_unbind := read_after_unbind c;
           sock_closed := sock_closed c; onclose := onclose c; wgdone := wgdone c; sent := sent c |} in
    match sc with
    | [] => Some (finish, ENone)
    | h :: rest =>
      if negb (hstep_enabled s c h) then None else
      match h with
      | HPanic =>
        (* recovered: the goroutine ends (requestsWg.Done runs) without the handler having returned *)
        if recovery cfg && handler_rec cfg
        then Some ({| cid := cid c; pc := pc c; nreq := nreq c; nread := nread c; input := input c; eof := eof c; stalled := stalled c;
                      interrupted := interrupted c; inflight := pred (inflight c); hs := others;
                      started := started c; ended := ended c; unbind_seen := unbind_seen c;
                      read_after_unbind := read_after_unbind c; sock_closed := sock_closed c;
                      onclose := onclose c; wgdone := wgdone c; sent := sent c |}, ENone)
        else Some (c, EDie)
      | HStaleWrite =>
        Some ({| cid := cid c; pc := pc c; nreq := nreq c; nread := nread c; input := input c; eof := true; stalled := stalled c;
                 interrupted := interrupted c; inflight := inflight c; hs := others ++ [(r, rest)];
                 started := started c; ended := ended c; unbind_seen := unbind_seen c;
                 read_after_unbind := read_after_unbind c; sock_closed := sock_closed c; onclose := onclose c;
                 wgdone := wgdone c; sent := sent c |}, ENone)
      | _ =>
        Some ({| cid := cid c; pc := pc c; nreq := nreq c; nread := nread c; input := input c; eof := eof c; stalled := stalled c;
                 interrupted := interrupted c; inflight := inflight c; hs := others ++ [(r, rest)];
                 started := started c; ended := ended c; unbind_seen := unbind_seen c;
                 read_after_unbind := read_after_unbind c; sock_closed := sock_closed c; onclose := onclose c;
                 wgdone := wgdone c; sent := sent c + frame_of c h |}, ENone)
      end
    end
  end.

Definition apply_effect (s : state) (e : effect) : state :=
  match e with
  | ENone => s
  | EWgDone =>
    {| lst := lst s; port_bound := port_bound s; ready := ready s; cancelled := cancelled s; run := run s;
       stops := stops s; nextid := nextid s; connwg := pred (connwg s); backlog := backlog s;
       accept_err := accept_err s; accept_failed := accept_failed s; conns := conns s; alive := alive s; released := released s;
       onclose_held := onclose_held s |}
  | EDie =>
    {| lst := lst s; port_bound := port_bound s; ready := ready s; cancelled := cancelled s; run := run s;
       stops := stops s; nextid := nextid s; connwg := connwg s; backlog := backlog s;
       accept_err := accept_err s; accept_failed := accept_failed s; conns := conns s; alive := false; released := released s;
       onclose_held := onclose_held s |}
  end.

Definition with_conn (s : state) (i : nat) (f : conn -> option (conn * effect)) : option state :=
  match nth_error (conns s) i with
  | None => None
  | Some c =>
    match f c with
    | None => None
    | Some (c', e) => Some (apply_effect (set_conns s (update_nth i (fun _ => c') (conns s))) e)
    end
  end.

(* ---------------------------------------------------------------- *)
(* Run and Stop                                                       *)

Definition mk (s : state) l pb rd cn rn st ni wg bl ae cs : state :=
  {| lst := l; port_bound := pb; ready := rd; cancelled := cn; run := rn; stops := st; nextid := ni; connwg := wg;
     backlog := bl; accept_err := ae; accept_failed := accept_failed s; conns := cs; alive := alive s; released := released s;
     onclose_held := onclose_held s |}.

Definition mark_accept_failed (s : state) : state :=
  {| lst := lst s; port_bound := port_bound s; ready := ready s; cancelled := cancelled s; run := run s;
     stops := stops s; nextid := nextid s; connwg := connwg s; backlog := backlog s; accept_err := accept_err s;
     accept_failed := true; conns := conns s; alive := alive s; released := released s;
     onclose_held := onclose_held s |}.

(* is some Stop call holding the read lock (between its first step and its return)? *)
Definition stop_in_progress (s : state) : bool :=
  existsb (fun p => match p with SStart | SRet => false | _ => true end) (stops s).

Definition run_step (cfg : config) (s : state) : option state :=
  match run s with
  | RNot => None
  | RListen valid ok =>
    if negb valid then Some (mk s (lst s) (port_bound s) (ready s) (cancelled s) (RRet true) (stops s) (nextid s)
                                (connwg s) (backlog s) (accept_err s) (conns s))
    else if stop_in_progress s then None            (* s.mu.Lock() waits for Stop's RLock *)
    else if ok then Some (mk s Listening true true (cancelled s) RTop (stops s) (nextid s) (connwg s) (backlog s)
                             (accept_err s) (conns s))
    else Some (mk s (lst s) (port_bound s) (ready s || ready_on_error cfg) (cancelled s) (RRet true) (stops s)
                  (nextid s) (connwg s) (backlog s) (accept_err s) (conns s))
  | RTop =>
    if cancelled s then
      if close_on_cancel cfg
      then Some (mk s ClosedL false (ready s) true (RRet false) (stops s) (S (nextid s)) (connwg s) 0
                    (accept_err s) (conns s))
      else Some (mk s (lst s) (port_bound s) (ready s) true (RRet false) (stops s) (S (nextid s)) (connwg s)
                    (backlog s) (accept_err s) (conns s))
    else Some (mk s (lst s) (port_bound s) (ready s) false RAcceptWait (stops s) (S (nextid s))
                  (if add_before_accept cfg then S (connwg s) else connwg s) (backlog s) (accept_err s) (conns s))
  | RAcceptWait =>
    let undo := if add_before_accept cfg then pred (connwg s) else connwg s in
    match lst s with
    | Listening =>
      if accept_err s then
        if accept_retry cfg
        then (* the error is logged, Run backs off and goes round the loop again with the same connID *)
          Some (mk s (lst s) (port_bound s) (ready s) (cancelled s) RTop (stops s) (pred (nextid s)) undo (backlog s)
                   false (conns s))
        else
        Some (mark_accept_failed
                (mk s (lst s) (port_bound s) (ready s) (cancelled s) (RRet true) (stops s) (nextid s) undo (backlog s)
                    false (conns s)))
      else match backlog s with
           | O => None
           | S b => Some (mk s (lst s) (port_bound s) (ready s) (cancelled s) RAccepted (stops s) (nextid s)
                             (connwg s) b (accept_err s) (conns s))
           end
    | _ => Some (mk s (lst s) (port_bound s) (ready s) (cancelled s) (RRet false) (stops s) (nextid s) undo
                    (backlog s) (accept_err s) (conns s))
    end
  | RAccepted =>
    (* newConn, (Add), go: a connection tracked after Stop's pass is interrupted at once *)
    Some (mk s (lst s) (port_bound s) (ready s) (cancelled s) RTop (stops s) (nextid s)
             (if add_before_accept cfg then connwg s else S (connwg s)) (backlog s) (accept_err s)
             (conns s ++ [new_conn (nextid s) (stop_interrupts cfg && cancelled s)]))
  | RRet _ => None
  end.

Definition interrupt (c : conn) : conn :=
  {| cid := cid c; pc := pc c; nreq := nreq c; nread := nread c; input := input c; eof := eof c; stalled := stalled c;
     interrupted := true; inflight := inflight c; hs := hs c; started := started c; ended := ended c;
     unbind_seen := unbind_seen c; read_after_unbind := read_after_unbind c;
     sock_closed := sock_closed c; onclose := onclose c; wgdone := wgdone c; sent := sent c |}.
(* is the connection still in the server's table (trackConn .. untrackConn)? *)
Definition is_untrack (t : tstep) : bool := match t with TUntrack => true | _ => false end.
Definition tracked (c : conn) : bool :=
  match pc c with
  | CTeardown todo => existsb is_untrack todo
  | CDone => false
  | _ => true
  end.
Definition interrupt_tracked (c : conn) : conn := if tracked c then interrupt c else c.
Definition interrupt_all (cs : list conn) : list conn := map interrupt_tracked cs.

(* what the environment does to a connection *)
Definition env_send (it : item) (c : conn) : conn :=
  {| cid := cid c; pc := pc c; nreq := nreq c; nread := nread c; input := input c ++ [it]; eof := eof c;
     stalled := stalled c; interrupted := interrupted c; inflight := inflight c; hs := hs c; started := started c;
     ended := ended c; unbind_seen := unbind_seen c; read_after_unbind := read_after_unbind c;
     sock_closed := sock_closed c; onclose := onclose c; wgdone := wgdone c; sent := sent c |}.
Definition env_close (c : conn) : conn :=
  {| cid := cid c; pc := pc c; nreq := nreq c; nread := nread c; input := input c; eof := true;
     stalled := stalled c; interrupted := interrupted c; inflight := inflight c; hs := hs c; started := started c;
     ended := ended c; unbind_seen := unbind_seen c; read_after_unbind := read_after_unbind c;
     sock_closed := sock_closed c; onclose := onclose c; wgdone := wgdone c; sent := sent c |}.
Definition env_stall (b : bool) (c : conn) : conn :=
  {| cid := cid c; pc := pc c; nreq := nreq c; nread := nread c; input := input c; eof := eof c;
     stalled := b; interrupted := interrupted c; inflight := inflight c; hs := hs c; started := started c;
     ended := ended c; unbind_seen := unbind_seen c; read_after_unbind := read_after_unbind c;
     sock_closed := sock_closed c; onclose := onclose c; wgdone := wgdone c; sent := sent c |}.

Definition stop_step (cfg : config) (s : state) (i : nat) : option state :=
  match nth_error (stops s) i with
  | None => None
  | Some p =>
    let upd q := update_nth i (fun _ => q) (stops s) in
    match p with
    | SStart =>
      (* RLock; close the listener if there is one *)
      match lst s with
      | Listening => Some (mk s ClosedL false (ready s) (cancelled s) (run s) (upd SCancel) (nextid s) (connwg s) 0
                              (accept_err s) (conns s))
      | _ => Some (mk s (lst s) (port_bound s) (ready s) (cancelled s) (run s) (upd SCancel) (nextid s) (connwg s)
                      (backlog s) (accept_err s) (conns s))
      end
    | SCancel =>
      Some (mk s (lst s) (port_bound s) (ready s) true (run s) (upd (if stop_interrupts cfg then SInterrupt else SWait))
               (nextid s) (connwg s) (backlog s) (accept_err s) (conns s))
    | SInterrupt =>
      Some (mk s (lst s) (port_bound s) (ready s) (cancelled s) (run s) (upd SWait) (nextid s) (connwg s) (backlog s)
               (accept_err s) (interrupt_all (conns s)))
    | SWait =>
      if (connwg s =? 0)%nat
      then Some (mk s (lst s) (port_bound s) (ready s) (cancelled s) (run s) (upd SRet) (nextid s) (connwg s)
                    (backlog s) (accept_err s) (conns s))
      else None
    | SRet => None
    end
  end.

(* ---------------------------------------------------------------- *)
(* the transition function                                            *)

Definition upd_conn_env (s : state) (i : nat) (f : conn -> conn) : option state :=
  match nth_error (conns s) i with
  | None => None
  | Some _ => Some (set_conns s (update_nth i f (conns s)))
  end.

Definition step (cfg : config) (s : state) (l : label) : option state :=
  if negb (alive s) then None else
  match l with
  | LRun => run_step cfg s
  | LStop i => stop_step cfg s i
  | LConn i => with_conn s i (conn_step cfg s)
  | LHandler i r => with_conn s i (fun c => handler_step cfg s c r)
  | ECallRun valid ok =>
    match run s with
    | RNot => Some (mk s (lst s) (port_bound s) (ready s) (cancelled s) (RListen valid ok) (stops s) (nextid s)
                       (connwg s) (backlog s) (accept_err s) (conns s))
    | _ => None
    end
  | ECallStop =>
    Some (mk s (lst s) (port_bound s) (ready s) (cancelled s) (run s) (stops s ++ [SStart]) (nextid s) (connwg s)
             (backlog s) (accept_err s) (conns s))
  | EConnect =>
    match lst s with
    | Listening => Some (mk s (lst s) (port_bound s) (ready s) (cancelled s) (run s) (stops s) (nextid s) (connwg s)
                            (S (backlog s)) (accept_err s) (conns s))
    | _ => None     (* connection refused *)
    end
  | ESend i it =>
    upd_conn_env s i (env_send it)
  | EClose i =>
    upd_conn_env s i env_close
  | EStall i b =>
    upd_conn_env s i (env_stall b)
  | ERelease b =>
    Some {| lst := lst s; port_bound := port_bound s; ready := ready s; cancelled := cancelled s; run := run s;
            stops := stops s; nextid := nextid s; connwg := connwg s; backlog := backlog s;
            accept_err := accept_err s; accept_failed := accept_failed s; conns := conns s; alive := alive s; released := b :: released s;
            onclose_held := onclose_held s |}
  | EHoldOnClose b =>
    Some {| lst := lst s; port_bound := port_bound s; ready := ready s; cancelled := cancelled s; run := run s;
            stops := stops s; nextid := nextid s; connwg := connwg s; backlog := backlog s;
            accept_err := accept_err s; accept_failed := accept_failed s; conns := conns s; alive := alive s; released := released s;
            onclose_held := b |}
  | EAcceptErr =>
    Some (mk s (lst s) (port_bound s) (ready s) (cancelled s) (run s) (stops s) (nextid s) (connwg s) (backlog s)
             true (conns s))
  end.

(* runs: a label sequence all of whose steps are enabled *)
Fixpoint run_labels (cfg : config) (s : state) (ls : list label) : option state :=
  match ls with
  | [] => Some s
  | l :: r => match step cfg s l with Some s' => run_labels cfg s' r | None => None end
  end.

Definition reachable (cfg : config) (s : state) : Prop := exists ls, run_labels cfg init ls = Some s.

(* ---------------------------------------------------------------- *)
(* a canonical scheduler: take enabled internal steps until none is   *)
(* left (fuel-bounded); used to predict what the harness must observe *)

Definition internal_labels (s : state) : list label :=
  LRun :: map LStop (seq 0 (length (stops s))) ++
  flat_map (fun i => LConn i :: match nth_error (conns s) i with
                                | Some c => map (fun h => LHandler i (fst h)) (hs c)
                                | None => []
                                end) (seq 0 (length (conns s))).

Fixpoint first_enabled (cfg : config) (s : state) (ls : list label) : option state :=
  match ls with
  | [] => None
  | l :: r => match step cfg s l with Some s' => Some s' | None => first_enabled cfg s r end
  end.

Fixpoint quiesce (cfg : config) (fuel : nat) (s : state) : state :=
  match fuel with
  | O => s
  | S f => match first_enabled cfg s (internal_labels s) with
           | Some s' => quiesce cfg f s'
           | None => s
           end
  end.

(* one controllable operation followed by running to quiescence *)
Definition do_op (cfg : config) (fuel : nat) (s : state) (l : label) : option state :=
  match step cfg s l with
  | Some s' => Some (quiesce cfg fuel s')
  | None => None
  end.
