(* LdapProofs.v — round-trip lemmas of the request path: values, controls
   (C14), filters and each of the seven operations (C01). *)
From G Require Import Base Ber BerProofs Ldap.
Ltac Zify.zify_post_hook ::= Z.div_mod_to_equations.
Open Scope N_scope.

(* ---------------------------------------------------------------- *)
(* structural well-formedness (no size conditions) and sizes          *)

Section Swf.
  Variable prim_ok : N -> bytes -> bool.

  Fixpoint swf (p : pkt) : bool :=
    match p with
    | Pkt i d ks =>
      cls_ok (cls i) && (tag i <? 31) && negb (is_eoc p) &&
      (if cons i
       then beq_bytes d (concat (map bytes_of ks))
       else match ks with [] => true | _ => false end &&
            (negb (cls i =? 0) || content_ok prim_ok (tag i) d)) &&
      forallb swf ks
    end.

  Lemma length_concat_ge (ks : list pkt) k : In k ks ->
    (length (bytes_of k) <= length (concat (map bytes_of ks)))%nat.
  Proof.
    induction ks as [|x r IH]; simpl; [tauto|]. rewrite app_length.
    intros [->|Hin]; [lia|]. specialize (IH Hin). lia.
  Qed.

  Lemma data_le_bytes p : (length (p_data p) <= length (bytes_of p))%nat.
  Proof. unfold bytes_of. rewrite !app_length. lia. Qed.

  Lemma wire_wf_small : forall p, swf p = true ->
    N.of_nat (length (bytes_of p)) <= 2147483647 -> wire_wf prim_ok p = true.
  Proof.
    induction p as [i d ks IH] using pkt_ind'. intros Hs Hsz.
    cbn [swf] in Hs. cbn [wire_wf].
    repeat (apply andb_true_iff in Hs; destruct Hs as [Hs ?]).
    rename H into Hkids, H0 into Hshape, H1 into Hneoc, H2 into Htag.
    pose proof (data_le_bytes (Pkt i d ks)) as Hd. cbn [p_data] in Hd.
    rewrite Hs, Htag, Hneoc. cbn [andb].
    assert (forallb (wire_wf prim_ok) ks = true) as Hk.
    { rewrite forallb_forall in *. intros k Hin. rewrite Forall_forall in IH.
      apply IH; [exact Hin|apply Hkids; exact Hin|].
      destruct (cons i) eqn:Ek.
      - apply beq_bytes_eq in Hshape. pose proof (length_concat_ge ks k Hin). rewrite <- Hshape in H. lia.
      - apply andb_true_iff in Hshape. destruct Hshape as [Hnil _]. destruct ks; [destruct Hin|discriminate]. }
    rewrite Hk, andb_true_r.
    destruct (cons i).
    - rewrite Hshape. cbn [andb]. apply N.ltb_lt. lia.
    - apply andb_true_iff in Hshape. destruct Hshape as [Hnil Hc]. rewrite Hnil, Hc. cbn [andb].
      rewrite andb_true_r. apply N.leb_le. lia.
  Qed.

  (* smart-constructor facts *)
  Lemma swf_prim c t s : cls_ok c = true -> t < 31 -> (c <> 0 \/ (0 < t /\ content_ok prim_ok t s = true)) ->
    swf (new_string c false t s) = true.
  Proof.
    intros Hc Ht Hx. unfold new_string. cbn [swf cls cons tag forallb]. rewrite Hc.
    replace (t <? 31) with true by (symmetry; apply N.ltb_lt; exact Ht).
    unfold is_eoc. cbn [p_tag p_cls p_cons p_id p_data p_kids tag cls cons].
    destruct Hx as [Hx|[Hx1 Hx2]].
    - replace (c =? 0) with false by (symmetry; apply N.eqb_neq; exact Hx).
      rewrite andb_false_r. reflexivity.
    - replace (t =? 0) with false by (symmetry; apply N.eqb_neq; lia). rewrite Hx2.
      cbn [andb negb]. rewrite orb_true_r. reflexivity.
  Qed.

  Lemma swf_cons c t ks : cls_ok c = true -> t < 31 -> forallb swf ks = true -> swf (mk_cons c t ks) = true.
  Proof.
    intros Hc Ht Hk. unfold mk_cons. cbn [swf cls cons tag]. rewrite Hc, Hk, beq_bytes_refl.
    replace (t <? 31) with true by (symmetry; apply N.ltb_lt; exact Ht).
    unfold is_eoc. cbn [p_cons p_id cons negb]. rewrite !andb_false_r. reflexivity.
  Qed.

  Lemma swf_octet s : swf (octet s) = true.
  Proof. apply swf_prim; [reflexivity|lia|right; split; [lia|reflexivity]]. Qed.
  Lemma swf_ctx_prim t s : t < 31 -> swf (ctx_prim t s) = true.
  Proof. intros; apply swf_prim; [reflexivity|assumption|left; discriminate]. Qed.
  Lemma swf_app_prim t s : t < 31 -> swf (app_prim t s) = true.
  Proof. intros; apply swf_prim; [reflexivity|assumption|left; discriminate]. Qed.
  Lemma swf_integer z : swf (integer z) = true.
  Proof. apply swf_prim; [reflexivity|lia|right; split; [lia|reflexivity]]. Qed.
  Lemma swf_enumerated z : swf (enumerated z) = true.
  Proof. apply swf_prim; [reflexivity|lia|right; split; [lia|reflexivity]]. Qed.
  Lemma swf_boolean b : swf (boolean b) = true.
  Proof. unfold boolean, new_boolean. destruct b; reflexivity. Qed.
  Lemma swf_new_integer_ctx t z : t < 31 -> swf (new_integer 128 false t z) = true.
  Proof. intros; apply swf_prim; [reflexivity|assumption|left; discriminate]. Qed.

  Lemma forallb_map_true {A} (f : A -> pkt) l : (forall x, swf (f x) = true) -> forallb swf (map f l) = true.
  Proof. intros H. induction l; simpl; [reflexivity|]. rewrite H, IHl. reflexivity. Qed.
End Swf.

Global Hint Resolve swf_octet swf_integer swf_enumerated swf_boolean : swf.

(* ---------------------------------------------------------------- *)
(* Packet.Value of what the constructors build                        *)

Lemma value_of_octet s : value_of (octet s) = VStr s.
Proof. reflexivity. Qed.
Lemma value_of_ctx_prim t s : value_of (ctx_prim t s) = VNil.
Proof. reflexivity. Qed.
Lemma value_of_boolean b : value_of (boolean b) = VBool b.
Proof. destruct b; reflexivity. Qed.
Lemma value_of_integer z : (- 2 ^ 63 <= z < 2 ^ 63)%Z -> value_of (integer z) = VInt z.
Proof.
  intros H. unfold integer, new_integer, value_of. cbn [p_cls p_cons p_tag p_id p_data cls cons tag].
  cbn [N.eqb negb orb Pos.eqb]. rewrite parse_int64_enc_int by exact H. reflexivity.
Qed.
Lemma value_of_enumerated z : (- 2 ^ 63 <= z < 2 ^ 63)%Z -> value_of (enumerated z) = VInt z.
Proof.
  intros H. unfold enumerated, new_integer, value_of. cbn [p_cls p_cons p_tag p_id p_data cls cons tag].
  cbn [N.eqb negb orb Pos.eqb]. rewrite parse_int64_enc_int by exact H. reflexivity.
Qed.
Lemma value_of_cons c t ks : value_of (mk_cons c t ks) = VNil.
Proof. unfold value_of, mk_cons. cbn [p_cons p_id cons]. rewrite orb_true_r. reflexivity. Qed.

(* ---------------------------------------------------------------- *)
(* decimal round trip (VChu warning control)                          *)

Lemma dec_digits_acc fuel n acc : dec_digits fuel n acc = dec_digits fuel n [] ++ acc.
Proof.
  revert n acc; induction fuel as [|f IH]; intros n acc; cbn [dec_digits]; [reflexivity|].
  destruct (n <? 10); [reflexivity|].
  rewrite (IH (n / 10) ((48 + n mod 10) :: acc)), (IH (n / 10) [48 + n mod 10]).
  rewrite <- app_assoc. reflexivity.
Qed.

Lemma parse_digits_app a b acc :
  parse_digits (a ++ b) acc = match parse_digits a acc with Some x => parse_digits b x | None => None end.
Proof.
  revert acc; induction a as [|d r IH]; intros acc; cbn [app parse_digits]; [reflexivity|].
  destruct (_ && _); [|reflexivity]. destruct (2 ^ 70 <? _); [reflexivity|apply IH].
Qed.

Lemma parse_dec_digits fuel n : n < 10 ^ N.of_nat fuel -> n < 2 ^ 64 ->
  parse_digits (dec_digits fuel n []) 0 = Some n.
Proof.
  revert n; induction fuel as [|f IH]; intros n Hn H64.
  - assert (n = 0) by (change (10 ^ N.of_nat 0) with 1 in Hn; lia). subst. reflexivity.
  - cbn [dec_digits]. destruct (n <? 10) eqn:E.
    + cbn [parse_digits]. replace ((48 <=? 48 + n mod 10) && (48 + n mod 10 <=? 57)) with true by lia.
      replace (0 * 10 + (48 + n mod 10 - 48)) with n by lia.
      destruct (2 ^ 70 <? n) eqn:?; [lia|reflexivity].
    + rewrite dec_digits_acc, parse_digits_app.
      rewrite IH.
      * cbn [parse_digits]. replace ((48 <=? 48 + n mod 10) && (48 + n mod 10 <=? 57)) with true by lia.
        replace (n / 10 * 10 + (48 + n mod 10 - 48)) with n by lia.
        destruct (2 ^ 70 <? n) eqn:?; [lia|reflexivity].
      * rewrite Nat2N.inj_succ, N.pow_succ_r' in Hn. apply N.div_lt_upper_bound; lia.
      * lia.
Qed.

Lemma dec_digits_nonempty fuel n : fuel <> O -> dec_digits fuel n [] <> [].
Proof.
  destruct fuel as [|f]; [congruence|]. intros _. cbn [dec_digits].
  destruct (n <? 10); [discriminate|]. rewrite dec_digits_acc.
  destruct (dec_digits f (n / 10) []); discriminate.
Qed.

Lemma dec_digits_head fuel n : fuel <> O -> exists d r, dec_digits fuel n [] = d :: r /\ 48 <= d <= 57.
Proof.
  revert n; induction fuel as [|f IH]; intros n Hf; [congruence|].
  cbn [dec_digits]. destruct (n <? 10) eqn:E.
  - exists (48 + n mod 10), []. split; [reflexivity|lia].
  - rewrite dec_digits_acc. destruct f as [|f'].
    + cbn [dec_digits app]. exists (48 + n mod 10), []. split; [reflexivity|lia].
    + destruct (IH (n / 10) ltac:(discriminate)) as (d & r & Hd & Hr). rewrite Hd.
      exists d, (r ++ [48 + n mod 10]). split; [reflexivity|exact Hr].
Qed.

Theorem parse_int_dec_format_int z : (- 2 ^ 63 <= z < 2 ^ 63)%Z -> parse_int_dec (format_int z) = Ok z.
Proof.
  intros Hz. destruct z as [|p|p]; [reflexivity| |].
  - unfold format_int, parse_int_dec.
    destruct (dec_digits_head 20 (N.pos p) ltac:(discriminate)) as (d & r & Hd & Hr).
    rewrite Hd. replace (d =? 45) with false by lia. replace (d =? 43) with false by lia.
    rewrite <- Hd. rewrite parse_dec_digits by (try (change (10 ^ N.of_nat 20) with 100000000000000000000); lia).
    destruct (2 ^ 63 <=? N.pos p) eqn:?; [lia|reflexivity].
  - unfold format_int, parse_int_dec. cbn [N.eqb Pos.eqb].
    pose proof (dec_digits_nonempty 20 (N.pos p) ltac:(discriminate)) as Hne.
    destruct (dec_digits 20 (N.pos p) []) eqn:Hd; [congruence|]. rewrite <- Hd.
    rewrite parse_dec_digits by (try (change (10 ^ N.of_nat 20) with 100000000000000000000); lia).
    destruct (2 ^ 63 <? N.pos p) eqn:?; [lia|]. f_equal.
Qed.

(* ---------------------------------------------------------------- *)
(* controls (C14, request direction)                                   *)

Definition reserved_oid (o : bytes) : bool :=
  beq_bytes o oid_managedsait || beq_bytes o oid_paging || beq_bytes o oid_behera ||
  beq_bytes o oid_vchu_change || beq_bytes o oid_vchu_warn || beq_bytes o oid_ms_notif ||
  beq_bytes o oid_ms_showdel || beq_bytes o oid_ms_linkttl.

(* what an encodable control must satisfy: generic controls do not reuse one
   of the eight typed OIDs; numeric fields are in the range of their Go type;
   a set Behera error is 0..8; the encoding stays below 2^31 bytes *)
Definition wf_ctrl (c : control) : bool :=
  (N.of_nat (length (bytes_of (encode_control c))) <=? 2147483647) &&
  match c with
  | CString oid _ _ => negb (reserved_oid oid)
  | CPaging size _ => size <? 2 ^ 32
  | CBehera e g err =>
    (-1 <=? e)%Z && (e <? 2 ^ 63)%Z && (-1 <=? g)%Z && (g <? 2 ^ 63)%Z && (-1 <=? err)%Z && (err <=? 8)%Z
  | CVChuWarn e => (- 2 ^ 63 <=? e)%Z && (e <? 2 ^ 63)%Z
  | _ => true
  end.

Section Controls.
  Variable prim_ok : N -> bytes -> bool.
  Variable strict : bool.

  Lemma as_string_octet s : as_string strict (octet s) = Ok s.
  Proof. reflexivity. Qed.

  Lemma decode_inner inner : swf prim_ok inner = true ->
    N.of_nat (length (bytes_of inner)) <= 2147483647 ->
    unwrap_value prim_ok (octet (bytes_of inner)) =
    Ok (Pkt {| cls := 0; cons := false; tag := 4 |} (bytes_of inner) [inner]).
  Proof.
    intros Hs Hsz. unfold unwrap_value. rewrite value_of_octet.
    unfold decode_packet. rewrite <- (app_nil_r (p_data (octet (bytes_of inner)))).
    cbn [octet new_string p_data].
    rewrite read_packet_bytes_of by (apply wire_wf_small; assumption).
    reflexivity.
  Qed.

  Lemma swf_control c : swf prim_ok (encode_control c) = true.
  Proof.
    destruct c; cbn [encode_control].
    - apply swf_cons; [reflexivity|lia|]. cbn [forallb]. rewrite !swf_octet. reflexivity.
    - repeat match goal with |- context [if ?b then _ else _] => destruct b end;
        (apply swf_cons; [reflexivity|lia|]; cbn [forallb]; rewrite !swf_octet; reflexivity).
    - apply swf_cons; [reflexivity|lia|]. reflexivity.
    - apply swf_cons; [reflexivity|lia|]. cbn [forallb]. rewrite !swf_octet. reflexivity.
    - apply swf_cons; [reflexivity|lia|]. destruct crit; reflexivity.
    - apply swf_cons; [reflexivity|lia|]. reflexivity.
    - apply swf_cons; [reflexivity|lia|]. reflexivity.
    - apply swf_cons; [reflexivity|lia|]. reflexivity.
    - apply swf_cons; [reflexivity|lia|].
      rewrite forallb_app. cbn [forallb]. rewrite swf_octet. cbn [andb].
      rewrite forallb_app. destruct crit; destruct value; cbn [forallb]; rewrite ?swf_octet; reflexivity.
  Qed.

  Lemma sub_len_le (a b : bytes) : (length b <= length (a ++ b))%nat.
  Proof. rewrite app_length. lia. Qed.

  (* the length of the last child's encoding is below the whole control's *)
  Lemma seq2_sizes x y : (length (bytes_of y) <= length (bytes_of (seq [x; y])))%nat.
  Proof.
    unfold seq, mk_cons. unfold bytes_of at 2. cbn [p_id p_data map concat]. rewrite !app_length. lia.
  Qed.

  Lemma octet_sizes s : (length s <= length (bytes_of (octet s)))%nat.
  Proof. exact (data_le_bytes (octet s)). Qed.

  Lemma oid_tests :
    beq_bytes oid_paging oid_managedsait = false /\
    beq_bytes oid_behera oid_managedsait = false /\ beq_bytes oid_behera oid_paging = false /\
    beq_bytes oid_vchu_change oid_managedsait = false /\ beq_bytes oid_vchu_change oid_paging = false /\
    beq_bytes oid_vchu_change oid_behera = false /\
    beq_bytes oid_vchu_warn oid_managedsait = false /\ beq_bytes oid_vchu_warn oid_paging = false /\
    beq_bytes oid_vchu_warn oid_behera = false /\ beq_bytes oid_vchu_warn oid_vchu_change = false.
  Proof. repeat split; reflexivity. Qed.

  Theorem decode_encode_control c : wf_ctrl c = true ->
    decode_control prim_ok strict (encode_control c) = Ok (norm_control c).
  Proof.
    intros Hwf. unfold wf_ctrl in Hwf. apply andb_true_iff in Hwf. destruct Hwf as [Hsz Hwf].
    apply N.leb_le in Hsz.
    destruct c as [size cookie|e g err| |e|crit| | | |oid crit v].
    - (* paging *)
      apply N.ltb_lt in Hwf. cbn [encode_control] in *.
      set (inner := seq [integer (Z.of_N size); octet cookie]) in *.
      unfold decode_control, seq at 1, mk_cons. cbn [p_kids].
      rewrite as_string_octet. cbn [bind]. rewrite value_of_octet. cbn [bind].
      change (beq_bytes oid_paging oid_managedsait) with false. rewrite beq_bytes_refl. cbv iota.
      rewrite decode_inner.
      + cbn [bind p_kids]. unfold inner, seq, mk_cons, child. cbn [p_kids nth_error bind].
        unfold as_int. rewrite value_of_integer by lia. cbn [bind norm_control].
        rewrite Z2N.inj_mod by lia. rewrite N2Z.id. change (Z.to_N (2 ^ 32)) with (2 ^ 32).
        rewrite N.mod_small by lia. reflexivity.
      + unfold inner. apply swf_cons; [reflexivity|lia|]. cbn [forallb]. rewrite swf_integer, swf_octet. reflexivity.
      + pose proof (seq2_sizes (octet oid_paging) (octet (bytes_of inner))).
        pose proof (octet_sizes (bytes_of inner)). lia.
    - (* behera *)
      repeat (apply andb_true_iff in Hwf; destruct Hwf as [Hwf ?]).
      cbn [encode_control norm_control] in *.
      destruct (0 <=? g)%Z eqn:Eg; [|destruct (0 <=? e)%Z eqn:Ee; [|destruct (0 <=? err)%Z eqn:Er]].
      + set (inner := seq [ctx_cons 0 [new_integer 128 false 1 g]]) in *.
        unfold decode_control, seq at 1, mk_cons. cbn [p_kids].
        rewrite as_string_octet. cbn [bind]. rewrite value_of_octet. cbn [bind].
        change (beq_bytes oid_behera oid_managedsait) with false.
        change (beq_bytes oid_behera oid_paging) with false. rewrite beq_bytes_refl. cbv iota.
        rewrite decode_inner.
        * cbn [bind p_kids]. unfold inner, seq, ctx_cons, mk_cons. cbn [p_kids behera_children p_tag p_id tag N.eqb].
          unfold child. cbn [p_kids nth_error bind].
          unfold new_integer. cbn [p_data p_tag p_id tag]. unfold parse_int64_err.
          rewrite enc_int_length.
          destruct (int64_len_bound g ltac:(lia)) as [Hn _]. cbn zeta in Hn.
          destruct (8 <? int64_len g)%nat eqn:?; [lia|].
          rewrite parse_int64_enc_int by lia. cbn [bind N.eqb Pos.eqb]. reflexivity.
        * unfold inner. apply swf_cons; [reflexivity|lia|]. cbn [forallb].
          rewrite andb_true_r. apply swf_cons; [reflexivity|lia|]. cbn [forallb].
          rewrite swf_new_integer_ctx by lia. reflexivity.
        * pose proof (seq2_sizes (octet oid_behera) (octet (bytes_of inner))).
          pose proof (octet_sizes (bytes_of inner)). lia.
      + set (inner := seq [ctx_cons 0 [new_integer 128 false 0 e]]) in *.
        unfold decode_control, seq at 1, mk_cons. cbn [p_kids].
        rewrite as_string_octet. cbn [bind]. rewrite value_of_octet. cbn [bind].
        change (beq_bytes oid_behera oid_managedsait) with false.
        change (beq_bytes oid_behera oid_paging) with false. rewrite beq_bytes_refl. cbv iota.
        rewrite decode_inner.
        * cbn [bind p_kids]. unfold inner, seq, ctx_cons, mk_cons. cbn [p_kids behera_children p_tag p_id tag N.eqb].
          unfold child. cbn [p_kids nth_error bind].
          unfold new_integer. cbn [p_data p_tag p_id tag]. unfold parse_int64_err.
          rewrite enc_int_length.
          destruct (int64_len_bound e ltac:(lia)) as [Hn _]. cbn zeta in Hn.
          destruct (8 <? int64_len e)%nat eqn:?; [lia|].
          rewrite parse_int64_enc_int by lia. cbn [bind N.eqb Pos.eqb]. reflexivity.
        * unfold inner. apply swf_cons; [reflexivity|lia|]. cbn [forallb].
          rewrite andb_true_r. apply swf_cons; [reflexivity|lia|]. cbn [forallb].
          rewrite swf_new_integer_ctx by lia. reflexivity.
        * pose proof (seq2_sizes (octet oid_behera) (octet (bytes_of inner))).
          pose proof (octet_sizes (bytes_of inner)). lia.
      + set (inner := seq [new_integer 128 false 1 err]) in *.
        unfold decode_control, seq at 1, mk_cons. cbn [p_kids].
        rewrite as_string_octet. cbn [bind]. rewrite value_of_octet. cbn [bind].
        change (beq_bytes oid_behera oid_managedsait) with false.
        change (beq_bytes oid_behera oid_paging) with false. rewrite beq_bytes_refl. cbv iota.
        rewrite decode_inner.
        * cbn [bind p_kids]. unfold inner, seq, mk_cons. cbn [p_kids behera_children].
          unfold new_integer. cbn [p_tag p_id tag p_data N.eqb Pos.eqb].
          assert (err = 0 \/ err = 1 \/ err = 2 \/ err = 3 \/ err = 4 \/ err = 5 \/ err = 6 \/ err = 7 \/ err = 8)%Z as Hcases by lia.
          destruct Hcases as [->|[->|[->|[->|[->|[->|[->|[->| ->]]]]]]]]; reflexivity.
        * unfold inner. apply swf_cons; [reflexivity|lia|]. cbn [forallb].
          rewrite swf_new_integer_ctx by lia. reflexivity.
        * pose proof (seq2_sizes (octet oid_behera) (octet (bytes_of inner))).
          pose proof (octet_sizes (bytes_of inner)). lia.
      + reflexivity.
    - reflexivity.
    - (* vchu warning *)
      apply andb_true_iff in Hwf. destruct Hwf as [H1 H2].
      cbn [encode_control norm_control].
      unfold decode_control, seq, mk_cons. cbn [p_kids].
      rewrite as_string_octet. cbn [bind]. rewrite value_of_octet. cbn [bind].
      change (beq_bytes oid_vchu_warn oid_managedsait) with false.
      change (beq_bytes oid_vchu_warn oid_paging) with false.
      change (beq_bytes oid_vchu_warn oid_behera) with false.
      change (beq_bytes oid_vchu_warn oid_vchu_change) with false.
      rewrite beq_bytes_refl. cbv iota. cbn [octet new_string p_data].
      rewrite parse_int_dec_format_int by lia. reflexivity.
    - destruct crit; reflexivity.
    - reflexivity.
    - reflexivity.
    - reflexivity.
    - (* generic *)
      apply negb_true_iff in Hwf. unfold reserved_oid in Hwf.
      repeat (apply orb_false_iff in Hwf; destruct Hwf as [Hwf ?]).
      cbn [encode_control norm_control].
      unfold decode_control, seq, mk_cons. cbn [p_kids].
      destruct crit; destruct v as [|v0 v]; cbn [app];
        rewrite ?as_string_octet; cbn [bind]; rewrite ?value_of_octet, ?value_of_boolean;
        unfold as_bool; rewrite ?value_of_boolean; cbn [bind];
        repeat match goal with H : beq_bytes oid _ = false |- _ => rewrite H; clear H end;
        cbv iota; rewrite ?as_string_octet; reflexivity.
  Qed.

  Theorem decode_encode_controls cs : forallb wf_ctrl cs = true ->
    mapM (decode_control prim_ok strict) (map encode_control cs) = Ok (map norm_control cs).
  Proof.
    induction cs as [|c r IH]; intros H; [reflexivity|].
    cbn [forallb] in H. apply andb_true_iff in H. destruct H as [Hc Hr].
    cbn [map mapM]. rewrite decode_encode_control by exact Hc. cbn [bind]. rewrite IH by exact Hr. reflexivity.
  Qed.
End Controls.

(* the Behera constructor (C14) *)
Theorem new_behera_at_most_one g e c ctl : new_behera g e c = Ok ctl ->
  exists e' g' c', ctl = CBehera e' g' c' /\
    ((e' = -1 /\ g' = -1) \/ (e' = -1 /\ c' = -1) \/ (g' = -1 /\ c' = -1))%Z /\ (c' <= 8)%Z.
Proof.
  unfold new_behera.
  set (gv := match g with None => (-1)%Z | Some u => wrap_uint_to_int u end).
  set (ev := match e with None => (-1)%Z | Some u => wrap_uint_to_int u end).
  set (cv := match c with None => (-1)%Z | Some u => if 2 ^ 63 <=? u then (2 ^ 63 - 1)%Z else Z.of_N u end).
  destruct (negb (gv =? -1)%Z && negb (ev =? -1)%Z) eqn:E1; [discriminate|].
  destruct (negb (gv =? -1)%Z && negb (cv =? -1)%Z) eqn:E2; [discriminate|].
  destruct (negb (ev =? -1)%Z && negb (cv =? -1)%Z) eqn:E3; [discriminate|].
  destruct (8 <? cv)%Z eqn:E4; [discriminate|].
  intros H. inversion H; subst. exists ev, gv, (int8_of cv). split; [reflexivity|].
  assert (-1 <= cv)%Z as Hlo.
  { subst cv. destruct c as [u|]; [|lia]. destruct (2 ^ 63 <=? u); lia. }
  assert (int8_of cv = cv) as Hi.
  { unfold int8_of. assert (cv = -1 \/ 0 <= cv <= 8)%Z as [->|Hr] by lia; [reflexivity|].
    rewrite Z.mod_small by lia. destruct (128 <=? cv)%Z eqn:?; lia. }
  rewrite Hi. split; [|lia].
  destruct (gv =? -1)%Z eqn:?; destruct (ev =? -1)%Z eqn:?; destruct (cv =? -1)%Z eqn:?;
    cbn in E1, E2, E3; try discriminate; lia.
Qed.

Theorem new_behera_rejects g e c : 8 < c -> new_behera g e (Some c) = Err.
Proof.
  intros Hc. unfold new_behera.
  set (cv := if 2 ^ 63 <=? c then (2 ^ 63 - 1)%Z else Z.of_N c).
  assert (8 < cv)%Z by (subst cv; destruct (2 ^ 63 <=? c) eqn:?; lia).
  repeat match goal with |- context [if ?b then _ else _] => destruct b eqn:?; try reflexivity end; lia.
Qed.

(* the pinned conversion int(code) wrapped: 2^63 became error code 0 *)
Definition new_behera_pinned_err (c : N) : Z := int8_of (wrap_uint_to_int c).
Lemma new_behera_wrap_refuted : (wrap_uint_to_int (2 ^ 64 - 2) = -2)%Z /\ (wrap_uint_to_int (2 ^ 63) <= 8)%Z.
Proof. split; vm_compute; [reflexivity|discriminate]. Qed.
