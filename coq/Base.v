(* Base.v — shared conventions of the gldap model.

   Bytes are [N] (every decoder is total over all [list N]; encoders only
   emit values < 256).  Everything that can fail returns an [outcome]:
   [Ok] a value, [Err] the ordinary Go error path, [Panic] a Go run-time
   panic (unchecked type assertion, index out of range, nil dereference,
   explicit panic).  No proofs of properties live here, only small
   arithmetic/list facts used everywhere. *)
From Coq Require Export List NArith ZArith Lia Bool Arith.
From Coq Require Export ZifyN ZifyNat ZifyBool.
Export ListNotations.
Ltac Zify.zify_post_hook ::= Z.div_mod_to_equations.

Definition byte := N.
Definition bytes := list N.

Inductive outcome (A : Type) : Type :=
| Ok (a : A)
| Err
| Panic.
Arguments Ok {A} a.
Arguments Err {A}.
Arguments Panic {A}.

Definition bind {A B} (x : outcome A) (f : A -> outcome B) : outcome B :=
  match x with Ok a => f a | Err => Err | Panic => Panic end.

Notation "'do' x <- a ; b" := (bind a (fun x => b))
  (at level 200, x pattern, a at level 100, b at level 200).

Definition is_ok {A} (x : outcome A) : bool := match x with Ok _ => true | _ => false end.
Definition is_err {A} (x : outcome A) : bool := match x with Err => true | _ => false end.
Definition is_panic {A} (x : outcome A) : bool := match x with Panic => true | _ => false end.

Definition omap {A B} (f : A -> B) (x : outcome A) : outcome B :=
  match x with Ok a => Ok (f a) | Err => Err | Panic => Panic end.

(* sequence a list of outcomes, left to right, stopping at the first failure *)
Fixpoint mapM {A B} (f : A -> outcome B) (l : list A) : outcome (list B) :=
  match l with
  | [] => Ok []
  | x :: r => do y <- f x; do ys <- mapM f r; Ok (y :: ys)
  end.

Definition all_bytes (bs : bytes) : bool := forallb (fun b => b <? 256)%N bs.

(* list equality on N lists, boolean *)
Fixpoint beq_bytes (a b : bytes) : bool :=
  match a, b with
  | [], [] => true
  | x :: a', y :: b' => (x =? y)%N && beq_bytes a' b'
  | _, _ => false
  end.

Lemma beq_bytes_eq a b : beq_bytes a b = true <-> a = b.
Proof.
  revert b; induction a as [|x a IH]; destruct b as [|y b]; simpl; split; try congruence; try discriminate.
  - intros H. apply andb_true_iff in H. destruct H as [H1 H2]. apply N.eqb_eq in H1. apply IH in H2. congruence.
  - intros H. inversion H; subst. rewrite N.eqb_refl. simpl. apply IH. reflexivity.
Qed.

Lemma beq_bytes_refl a : beq_bytes a a = true.
Proof. apply beq_bytes_eq. reflexivity. Qed.

(* byte-lexicographic order: Go's string comparison *)
Fixpoint bytes_leb (a b : bytes) : bool :=
  match a, b with
  | [], _ => true
  | _ :: _, [] => false
  | x :: a', y :: b' => if (x <? y)%N then true else if (y <? x)%N then false else bytes_leb a' b'
  end.

Lemma bytes_leb_total a b : bytes_leb a b = true \/ bytes_leb b a = true.
Proof.
  revert b; induction a as [|x a IH]; destruct b as [|y b]; simpl; auto.
  destruct (x <? y)%N eqn:E1; destruct (y <? x)%N eqn:E2; auto.
Qed.

Lemma bytes_leb_refl a : bytes_leb a a = true.
Proof. induction a as [|x a IH]; simpl; auto. rewrite N.ltb_irrefl. exact IH. Qed.

Lemma bytes_leb_trans a b c : bytes_leb a b = true -> bytes_leb b c = true -> bytes_leb a c = true.
Proof.
  revert b c; induction a as [|x a IH]; intros [|y b] [|z c]; simpl; auto; try discriminate.
  destruct (x <? y)%N eqn:E1; destruct (y <? x)%N eqn:E2;
  destruct (y <? z)%N eqn:E3; destruct (z <? y)%N eqn:E4;
  destruct (x <? z)%N eqn:E5; destruct (z <? x)%N eqn:E6; auto; try discriminate; try lia.
  intros; eapply IH; eauto.
Qed.

Lemma bytes_leb_antisym a b : bytes_leb a b = true -> bytes_leb b a = true -> a = b.
Proof.
  revert b; induction a as [|x a IH]; intros [|y b]; simpl; auto; try discriminate.
  destruct (x <? y)%N eqn:E1; destruct (y <? x)%N eqn:E2; try discriminate; try lia.
  intros H1 H2. assert (x = y) by lia. subst. f_equal. auto.
Qed.

(* firstn/skipn helpers *)
Lemma firstn_app_exact {A} (a b : list A) : firstn (length a) (a ++ b) = a.
Proof. rewrite firstn_app, Nat.sub_diag, firstn_all, firstn_O, app_nil_r. reflexivity. Qed.

Lemma skipn_app_exact {A} (a b : list A) : skipn (length a) (a ++ b) = b.
Proof. rewrite skipn_app, Nat.sub_diag, skipn_all, skipn_O. reflexivity. Qed.
