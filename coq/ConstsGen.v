(* ConstsGen.v - REGENERATED from /repo's gldap package on every run by `vh consts` (harness/consts.go). Do not edit. *)
From Coq Require Import NArith ZArith List.
Import ListNotations.
Definition gen_ResultSuccess : Z := 0%Z.
Definition gen_ResultOperationsError : Z := 1%Z.
Definition gen_ResultProtocolError : Z := 2%Z.
Definition gen_ResultInappropriateMatching : Z := 18%Z.
Definition gen_ResultNoSuchObject : Z := 32%Z.
Definition gen_ResultInvalidCredentials : Z := 49%Z.
Definition gen_ResultUnwillingToPerform : Z := 53%Z.
Definition gen_ResultEntryAlreadyExists : Z := 68%Z.
Definition gen_ApplicationBindRequest : N := 0%N.
Definition gen_ApplicationBindResponse : N := 1%N.
Definition gen_ApplicationUnbindRequest : N := 2%N.
Definition gen_ApplicationSearchRequest : N := 3%N.
Definition gen_ApplicationSearchResultEntry : N := 4%N.
Definition gen_ApplicationSearchResultDone : N := 5%N.
Definition gen_ApplicationModifyRequest : N := 6%N.
Definition gen_ApplicationModifyResponse : N := 7%N.
Definition gen_ApplicationAddRequest : N := 8%N.
Definition gen_ApplicationAddResponse : N := 9%N.
Definition gen_ApplicationDelRequest : N := 10%N.
Definition gen_ApplicationDelResponse : N := 11%N.
Definition gen_ApplicationExtendedRequest : N := 23%N.
Definition gen_ApplicationExtendedResponse : N := 24%N.
Definition gen_oid_paging : list N := [49; 46; 50; 46; 56; 52; 48; 46; 49; 49; 51; 53; 53; 54; 46; 49; 46; 52; 46; 51; 49; 57]%N.
Definition gen_oid_behera : list N := [49; 46; 51; 46; 54; 46; 49; 46; 52; 46; 49; 46; 52; 50; 46; 50; 46; 50; 55; 46; 56; 46; 53; 46; 49]%N.
Definition gen_oid_vchu_change : list N := [50; 46; 49; 54; 46; 56; 52; 48; 46; 49; 46; 49; 49; 51; 55; 51; 48; 46; 51; 46; 52; 46; 52]%N.
Definition gen_oid_vchu_warn : list N := [50; 46; 49; 54; 46; 56; 52; 48; 46; 49; 46; 49; 49; 51; 55; 51; 48; 46; 51; 46; 52; 46; 53]%N.
Definition gen_oid_managedsait : list N := [50; 46; 49; 54; 46; 56; 52; 48; 46; 49; 46; 49; 49; 51; 55; 51; 48; 46; 51; 46; 52; 46; 50]%N.
Definition gen_oid_ms_notif : list N := [49; 46; 50; 46; 56; 52; 48; 46; 49; 49; 51; 53; 53; 54; 46; 49; 46; 52; 46; 53; 50; 56]%N.
Definition gen_oid_ms_showdel : list N := [49; 46; 50; 46; 56; 52; 48; 46; 49; 49; 51; 53; 53; 54; 46; 49; 46; 52; 46; 52; 49; 55]%N.
Definition gen_oid_ms_linkttl : list N := [49; 46; 50; 46; 56; 52; 48; 46; 49; 49; 51; 53; 53; 54; 46; 49; 46; 52; 46; 50; 51; 48; 57]%N.
Definition gen_oid_starttls : list N := [49; 46; 51; 46; 54; 46; 49; 46; 52; 46; 49; 46; 49; 52; 54; 54; 46; 50; 48; 48; 51; 55]%N.
