(* Helpers.v — model of the exported helpers of gldap:
   request.go ConvertString/readLength, sid.go SIDBytes/SIDBytesToString,
   entry.go NewEntry/NewEntryAttribute/AddValue.   MODEL ONLY. *)
From G Require Import Base Ber.
Open Scope N_scope.

(* ---------------------------------------------------------------- *)
(* request.go readLength(bytes []byte) (length, read int, err)       *)
(* [guarded] = true is the code with the length checks (current tree after the
   fix: commit); false is the pinned code, where bytes[0] / bytes[read] index
   out of range. *)
Definition read_length_slice (guarded : bool) (bs : bytes) : outcome (Z * nat) :=
  match bs with
  | [] => if guarded then Err else Panic                 (* b := bytes[0] *)
  | b :: r =>
    if b =? 255 then Err
    else if b =? 128 then Ok ((-1)%Z, 1%nat)
    else if b <? 128 then Ok (Z.of_N b, 1%nat)
    else
      let k := N.to_nat (b - 128) in
      if (8 <? k)%nat then Err
      else if (length r <? k)%nat then (if guarded then Err else Panic)  (* bytes[read] *)
      else
        let v := be_value 0 (firstn k r) in
        let z := if 2 ^ 63 <=? v then (Z.of_N v - 2 ^ 64)%Z else Z.of_N v in
        Ok (z, S k)
  end.

(* ConvertString, one element *)
Definition convert_one (guarded : bool) (s : bytes) : outcome bytes :=
  if guarded && (length s <? 2)%nat then Err else
  match s with
  | [] => Panic                                           (* data[berTagIdx] *)
  | t :: rest =>
    if (t =? 4) || (t =? 27) then
      do (_, read) <- read_length_slice guarded rest;
      (* data[(1+read):] — 1+read <= len(data) always holds after readLength *)
      Ok (skipn read rest)
    else Err
  end.

Definition convert_string_g (guarded : bool) (ss : list bytes) : outcome (list bytes) :=
  mapM (convert_one guarded) ss.

Definition convert_string := convert_string_g true.
Definition convert_string_pinned := convert_string_g false.

(* BER octet-string wrapping of a string (what gldap delivers for modify values) *)
Definition wrap_octet (s : bytes) : bytes := 4 :: enc_len (N.of_nat (length s)) ++ s.
Definition wrap_with (t : N) (s : bytes) : bytes := t :: enc_len (N.of_nat (length s)) ++ s.

(* ---------------------------------------------------------------- *)
(* sid.go                                                            *)

(* SIDBytes(revision uint8, identifierAuthority uint16) *)
Definition sid_bytes (r a : N) : bytes :=
  [r mod 256; 0; 0; 0; 0; 0; (a / 256) mod 256; a mod 256].

Fixpoint le32s (n : nat) (bs : bytes) : option (list N) :=
  match n with
  | O => Some []
  | S n' =>
    match bs with
    | b0 :: b1 :: b2 :: b3 :: r =>
      match le32s n' r with
      | Some l => Some ((b0 + 256 * b1 + 65536 * b2 + 16777216 * b3) :: l)
      | None => None
      end
    | _ => None
    end
  end.

(* SIDBytesToString as the triple (revision, authority, subauthorities);
   the decimal rendering "S-r-a-s1-..." is fmt's *)
Definition sid_to_parts (bs : bytes) : outcome (N * N * list N) :=
  match bs with
  | r :: c :: p0h :: p0l :: p1h :: p1l :: p2h :: p2l :: rest =>
    let auth := (p0h * 256 + p0l) * 4294967296 + (p1h * 256 + p1l) * 65536 + (p2h * 256 + p2l) in
    match le32s (N.to_nat c) rest with
    | Some subs => Ok (r, auth, subs)
    | None => Err
    end
  | _ => Err
  end.

(* ---------------------------------------------------------------- *)
(* entry.go                                                          *)

Record entry_attr := { ea_name : bytes; ea_values : list bytes; ea_bytevalues : list bytes }.
Record entry := { e_dn : bytes; e_attrs : list entry_attr }.

Definition new_entry_attribute (name : bytes) (values : list bytes) : entry_attr :=
  {| ea_name := name; ea_values := values; ea_bytevalues := values |}.

Definition add_value (a : entry_attr) (vs : list bytes) : entry_attr :=
  {| ea_name := ea_name a; ea_values := ea_values a ++ vs; ea_bytevalues := ea_bytevalues a ++ vs |}.

(* sort.Strings: insertion sort on byte-lexicographic order (result is unique
   for distinct keys, so the algorithm does not matter) *)
Fixpoint insert_sorted (x : bytes) (l : list bytes) : list bytes :=
  match l with
  | [] => [x]
  | y :: r => if bytes_leb x y then x :: l else y :: insert_sorted x r
  end.
Definition sort_strings (l : list bytes) : list bytes := fold_right insert_sorted [] l.

(* A Go map[string][]string is an association list with distinct keys in an
   arbitrary order. *)
Definition gomap := list (bytes * list bytes).

Fixpoint map_lookup (k : bytes) (m : gomap) : list bytes :=
  match m with
  | [] => []
  | (k', v) :: r => if beq_bytes k k' then v else map_lookup k r
  end.

Definition new_entry (dn : bytes) (m : gomap) : entry :=
  {| e_dn := dn;
     e_attrs := map (fun k => new_entry_attribute k (map_lookup k m)) (sort_strings (map fst m)) |}.

(* Entry.GetAttributeValues *)
Fixpoint get_attribute_values (attrs : list entry_attr) (name : bytes) : list bytes :=
  match attrs with
  | [] => []
  | a :: r => if beq_bytes (ea_name a) name then ea_values a else get_attribute_values r name
  end.
