(* Ber.v — executable model of github.com/go-asn1-ber/asn1-ber v1.5.5 as used
   by gldap: Packet, encodeIdentifier/encodeLength/Bytes/AppendChild,
   NewString/NewInteger/NewBoolean, readIdentifier/readLength/readHeader/
   readPacket, ParseInt64 and the dynamic type of Packet.Value.

   MODEL ONLY — no proofs here (BerProofs.v).  Transliteration notes are next
   to each definition. *)
From G Require Import Base.
Open Scope N_scope.

(* ---------------------------------------------------------------- *)
(* Packets                                                           *)

(* ClassType is kept as the byte mask the library uses: 0, 64, 128, 192. *)
Record ident := { cls : N; cons : bool; tag : N }.

(* ber.Packet: Identifier, Data (bytes.Buffer), Children.  Value/ByteValue are
   functions of (identifier, data) for packets that came off the wire
   ([value_of]); Description is not modelled. *)
Inductive pkt := Pkt (id : ident) (data : bytes) (kids : list pkt).

Definition p_id (p : pkt) := match p with Pkt i _ _ => i end.
Definition p_data (p : pkt) := match p with Pkt _ d _ => d end.
Definition p_kids (p : pkt) := match p with Pkt _ _ k => k end.
Definition p_cls p := cls (p_id p).
Definition p_cons p := cons (p_id p).
Definition p_tag p := tag (p_id p).

Definition ClassUniversal := 0.
Definition ClassApplication := 64.
Definition ClassContext := 128.
Definition ClassPrivate := 192.

Definition TagEOC := 0.
Definition TagBoolean := 1.
Definition TagInteger := 2.
Definition TagOctetString := 4.
Definition TagRealFloat := 9.
Definition TagEnumerated := 10.
Definition TagUTF8String := 12.
Definition TagSequence := 16.
Definition TagSet := 17.
Definition TagPrintableString := 19.
Definition TagIA5String := 22.
Definition TagGeneralizedTime := 24.
Definition TagGeneralString := 27.

(* ---------------------------------------------------------------- *)
(* Unsigned big-endian helpers                                       *)

(* minimal big-endian base-256 digits, at least one; [fuel]+1 digits at most *)
Fixpoint be_digits (fuel : nat) (n : N) : bytes :=
  match fuel with
  | O => [n mod 256]
  | S f => if n <? 256 then [n] else be_digits f (n / 256) ++ [n mod 256]
  end.

Fixpoint be_value (acc : N) (bs : bytes) : N :=
  match bs with [] => acc | b :: r => be_value (acc * 256 + b) r end.

(* exactly [k] big-endian digits of n (n mod 256^k) *)
Fixpoint be_fixed (k : nat) (n : N) : bytes :=
  match k with
  | O => []
  | S k' => be_fixed k' (n / 256) ++ [n mod 256]
  end.

(* ---------------------------------------------------------------- *)
(* Encoding                                                          *)

(* encodeHighTag: base-128, most significant first, continuation bit on all
   but the last.  [fuel] 9 suffices for tags < 2^63, 10 for uint64. *)
Fixpoint high_tag_digits (fuel : nat) (t : N) : bytes :=
  match fuel with
  | O => [t mod 128]
  | S f => if t <? 128 then [t] else high_tag_digits f (t / 128) ++ [t mod 128]
  end.

Definition set_cont (ds : bytes) : bytes :=
  match rev ds with
  | [] => []
  | last :: rest_rev => rev (map (fun b => b + 128) rest_rev) ++ [last]
  end.

Definition enc_high_tag (t : N) : bytes := set_cont (high_tag_digits 9 t).

(* encodeIdentifier *)
Definition enc_ident (i : ident) : bytes :=
  let b0 := cls i + (if cons i then 32 else 0) in
  if tag i <? 31 then [b0 + tag i] else (b0 + 31) :: enc_high_tag (tag i).

(* encodeLength (length is a Go int >= 0 here: Data.Len()) *)
Definition enc_len (n : N) : bytes :=
  let ds := be_digits 8 n in
  if n <=? 127 then ds else (128 + N.of_nat (length ds)) :: ds.

(* Packet.Bytes *)
Definition bytes_of (p : pkt) : bytes :=
  enc_ident (p_id p) ++ enc_len (N.of_nat (length (p_data p))) ++ p_data p.

(* Packet.AppendChild: Data.Write(child.Bytes()); Children = append(...) *)
Definition append_child (p c : pkt) : pkt :=
  Pkt (p_id p) (p_data p ++ bytes_of c) (p_kids p ++ [c]).

(* ber.Encode(class, type, tag, nil, _) *)
Definition encode_empty (c : N) (k : bool) (t : N) : pkt :=
  Pkt {| cls := c; cons := k; tag := t |} [] [].

(* a constructed packet built by Encode + AppendChild of each kid in order *)
Definition mk_cons (c : N) (t : N) (ks : list pkt) : pkt :=
  Pkt {| cls := c; cons := true; tag := t |} (concat (map bytes_of ks)) ks.

(* ber.NewString *)
Definition new_string (c : N) (k : bool) (t : N) (s : bytes) : pkt :=
  Pkt {| cls := c; cons := k; tag := t |} s [].

(* int64Length *)
Fixpoint int64_len_pos (fuel : nat) (z : Z) : nat :=
  match fuel with
  | O => 1
  | S f => if (127 <? z)%Z then S (int64_len_pos f (z / 256)) else 1
  end.
Fixpoint int64_len_neg (fuel : nat) (z : Z) : nat :=
  match fuel with
  | O => 1
  | S f => if (z <? -128)%Z then S (int64_len_neg f (z / 256)) else 1
  end.
Definition int64_len (z : Z) : nat :=
  if (0 <=? z)%Z then int64_len_pos 8 z else int64_len_neg 8 z.

(* encodeInteger: the low [n] bytes of the two's complement, big-endian *)
Definition enc_int (z : Z) : bytes :=
  let n := int64_len z in
  be_fixed n (Z.to_N (z mod 2 ^ (8 * Z.of_nat n))).

(* ber.NewInteger (value already converted to int64 by the caller's type) *)
Definition new_integer (c : N) (k : bool) (t : N) (z : Z) : pkt :=
  Pkt {| cls := c; cons := k; tag := t |} (enc_int z) [].

(* ber.NewBoolean: encodeInteger(1) or encodeInteger(0) *)
Definition new_boolean (c : N) (k : bool) (t : N) (b : bool) : pkt :=
  Pkt {| cls := c; cons := k; tag := t |} (if b then [1] else [0]) [].

(* ---------------------------------------------------------------- *)
(* Decoding                                                          *)

(* ParseInt64: more than 8 bytes is an error whose value (0) the reader keeps *)
Definition parse_int64 (bs : bytes) : Z :=
  let n := length bs in
  if (8 <? n)%nat then 0%Z else
  let v := Z.of_N (be_value 0 bs) in
  let m := (2 ^ (8 * Z.of_nat n))%Z in
  if (n =? 0)%nat then 0%Z else
  if (v <? m / 2)%Z then v else (v - m)%Z.

(* ParseInt64's error return (used directly by the Behera decoder) *)
Definition parse_int64_err (bs : bytes) : outcome Z :=
  if (8 <? length bs)%nat then Err else Ok (parse_int64 bs).

(* readIdentifier.  High-tag form: up to 9 following bytes of 7 bits; a first
   following byte with value bits 0 is rejected; a 10th byte is rejected. *)
Fixpoint read_high_tag (fuel : nat) (first : bool) (acc : N) (bs : bytes)
  : outcome (N * bytes) :=
  match fuel with
  | O => Err                                  (* tagBytes > 9 *)
  | S f =>
    match bs with
    | [] => Err                               (* unexpected EOF *)
    | b :: r =>
      let acc' := acc * 128 + b mod 128 in
      if first && (acc' =? 0) then Err
      else if b <? 128 then Ok (acc', r)
      else read_high_tag f false acc' r
    end
  end.

Definition read_ident (bs : bytes) : outcome (ident * bytes) :=
  match bs with
  | [] => Err                                 (* io.EOF *)
  | b :: r =>
    let c := (b / 64) * 64 in
    let k := ((b / 32) mod 2 =? 1) in
    let t := b mod 32 in
    if t =? 31 then
      do (t', r') <- read_high_tag 9 true 0 r;
      Ok ({| cls := c; cons := k; tag := t' |}, r')
    else Ok ({| cls := c; cons := k; tag := t |}, r)
  end.

(* readLength: Z result, -1 = LengthIndefinite; 8 octets wrap into int64 *)
Definition read_len (bs : bytes) : outcome (Z * bytes) :=
  match bs with
  | [] => Err
  | b :: r =>
    if b =? 255 then Err
    else if b =? 128 then Ok ((-1)%Z, r)
    else if b <? 128 then Ok (Z.of_N b, r)
    else
      let k := N.to_nat (b - 128) in
      if (8 <? k)%nat then Err
      else if (length r <? k)%nat then Err   (* unexpected EOF *)
      else
        let v := be_value 0 (firstn k r) in
        let z := if 2 ^ 63 <=? v then (Z.of_N v - 2 ^ 64)%Z else Z.of_N v in
        Ok (z, skipn k r)
  end.

Definition MaxPacketLengthBytes : Z := 2147483647.

Definition is_eoc (p : pkt) : bool :=
  (p_tag p =? 0) && (p_cls p =? 0) && negb (p_cons p) &&
  match p_data p with [] => true | _ => false end &&
  match p_kids p with [] => true | _ => false end.

Definition printable_char (c : N) : bool :=
  ((97 <=? c) && (c <=? 122)) || ((65 <=? c) && (c <=? 90)) || ((48 <=? c) && (c <=? 57)) ||
  (c =? 39) || (c =? 40) || (c =? 41) || (c =? 43) || (c =? 44) || (c =? 45) || (c =? 46) ||
  (c =? 61) || (c =? 47) || (c =? 58) || (c =? 63) || (c =? 32).

Section Reader.
  (* Oracle for the three universal content checks that are not modelled
     concretely: Real (9, ParseReal), UTF8String (12, utf8.Valid),
     GeneralizedTime (24, ParseGeneralizedTime).  [prim_ok tag content]. *)
  Variable prim_ok : N -> bytes -> bool.

  (* content check of a universal primitive: false = readPacket returns err *)
  Definition content_ok (t : N) (content : bytes) : bool :=
    if t =? 9 then prim_ok 9 content
    else if t =? 12 then prim_ok 12 content
    else if t =? 24 then prim_ok 24 content
    else if t =? 19 then forallb printable_char content
    else if t =? 22 then forallb (fun c => c <? 127) content
    else true.

  (* readPacket.  Returns the packet and the unread rest of the stream. *)
  Fixpoint read_pkt (fuel : nat) (bs : bytes) {struct fuel} : outcome (pkt * bytes) :=
    match fuel with
    | O => Err
    | S f =>
      do (i, r1) <- read_ident bs;
      do (len, r2) <- read_len r1;
      if (len =? -1)%Z && negb (cons i) then Err      (* indefinite + primitive *)
      else if (len <? -1)%Z then Err
      else if cons i then
        do (ks, r3) <- read_kids f (if (len =? -1)%Z then None else Some (Z.to_N len)) r2 [];
        Ok (Pkt i (concat (map bytes_of ks)) ks, r3)
      else if (MaxPacketLengthBytes <? len)%Z then Err
      else if N.of_nat (length r2) <? Z.to_N len then Err   (* unexpected EOF *)
      else
        let n := Z.to_nat len in
        let content := firstn n r2 in
        if (cls i =? 0) && negb (content_ok (tag i) content) then Err
        else Ok (Pkt i content [], skipn n r2)
    end
  (* the child loop: [remaining] = Some (length - contentRead) or None when
     indefinite; [acc] children read so far, reversed *)
  with read_kids (fuel : nat) (remaining : option N) (bs : bytes) (acc : list pkt)
       {struct fuel} : outcome (list pkt * bytes) :=
    match remaining with
    | Some 0 => Ok (rev acc, bs)
    | _ =>
      match fuel with
      | O => Err
      | S f =>
        do (child, r) <- read_pkt f bs;
        let used := N.of_nat (length bs - length r) in
        if is_eoc child then
          match remaining with None => Ok (rev acc, r) | Some _ => Err end
        else
          match remaining with
          | None => read_kids f None r (child :: acc)
          | Some n => if n <? used then Err else read_kids f (Some (n - used)) r (child :: acc)
          end
      end
    end.

  (* ber.ReadPacket on a reader holding [bs]; fuel is always enough *)
  Definition read_packet (bs : bytes) : outcome (pkt * bytes) :=
    read_pkt (S (length bs)) bs.

  (* ber.DecodePacketErr: trailing bytes ignored *)
  Definition decode_packet (bs : bytes) : outcome pkt :=
    omap fst (read_packet bs).
End Reader.

(* ---------------------------------------------------------------- *)
(* Packet.Value as the reader sets it                                *)

Inductive value := VNil | VInt (z : Z) | VBool (b : bool) | VStr (s : bytes) | VOther.

Definition value_of (p : pkt) : value :=
  if negb (p_cls p =? 0) || p_cons p then VNil
  else
    let t := p_tag p in
    let d := p_data p in
    if t =? 1 then VBool (negb (parse_int64 d =? 0)%Z)
    else if (t =? 2) || (t =? 10) then VInt (parse_int64 d)
    else if (t =? 4) || (t =? 12) || (t =? 19) || (t =? 22) then VStr d
    else if (t =? 9) || (t =? 24) then VOther
    else VNil.

(* number of nodes + edges: enough fuel for [read_pkt] on [bytes_of p] *)
Fixpoint psize (p : pkt) : nat :=
  match p with Pkt _ _ ks => S (fold_right (fun k a => S (psize k) + a)%nat 0%nat ks) end.
