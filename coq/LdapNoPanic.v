(* LdapNoPanic.v — with the checked assertions of the current tree
   ([strict] = true) no byte string makes request reading and decoding panic
   (C02); and the witnesses that the pinned code ([strict] = false) did. *)
From G Require Import Base Ber BerProofs Ldap.
Ltac Zify.zify_post_hook ::= Z.div_mod_to_equations.
Open Scope N_scope.

Create HintDb np.

(* one step of the walk: every construct of the model either cannot be Panic
   by shape or is a call whose no-panic lemma is in the hint database *)
Ltac np_step :=
  first
    [ discriminate
    | solve [auto with np]
    | apply bind_not_panic; [ | intros ? _ ]
    | match goal with
      | |- (let (_, _) := ?x in _) <> Panic => destruct x
      | |- (match ?x with _ => _ end) <> Panic => destruct x
      end ].
Ltac np := repeat np_step.

Section NP.
  Variable prim_ok : N -> bytes -> bool.
  Variable modfix : bool.

  Lemma as_string_np p : as_string true p <> Panic.
  Proof. unfold as_string, fail_assert. np. Qed.
  Lemma as_bool_np p : as_bool true p <> Panic.
  Proof. unfold as_bool, fail_assert. np. Qed.
  Lemma as_int_np p : as_int true p <> Panic.
  Proof. unfold as_int, fail_assert. np. Qed.
  Lemma child_np p i : child true p i <> Panic.
  Proof. unfold child, fail_assert. np. Qed.
  Hint Resolve as_string_np as_bool_np as_int_np child_np : np.

  Lemma parse_int64_err_np bs : parse_int64_err bs <> Panic.
  Proof. unfold parse_int64_err. np. Qed.
  Lemma parse_int_dec_np bs : parse_int_dec bs <> Panic.
  Proof. unfold parse_int_dec. np. Qed.
  Hint Resolve parse_int64_err_np parse_int_dec_np : np.

  Lemma unwrap_value_np v : unwrap_value prim_ok v <> Panic.
  Proof.
    unfold unwrap_value.
    assert (H := decode_packet_no_panic prim_ok (p_data v)).
    destruct (value_of v); try discriminate;
      (apply bind_not_panic; [exact H|intros ? _; discriminate]).
  Qed.
  Hint Resolve unwrap_value_np : np.

  Lemma behera_children_np kids c : behera_children true kids c <> Panic.
  Proof.
    revert c; induction kids as [|ch r IH]; intros [[e g] er]; cbn [behera_children]; [discriminate|].
    destruct (p_tag ch =? 0).
    - apply bind_not_panic; [apply child_np|intros w _].
      apply bind_not_panic; [apply parse_int64_err_np|intros val _].
      destruct (p_tag w =? 0); [apply IH|]. destruct (p_tag w =? 1); apply IH.
    - destruct (p_tag ch =? 1); [|apply IH].
      destruct (p_data ch) as [|b [|? ?]]; try discriminate.
      destruct (8 <? b); [discriminate|apply IH].
  Qed.
  Hint Resolve behera_children_np : np.

  Lemma decode_control_np p : decode_control prim_ok true p <> Panic.
  Proof.
    unfold decode_control.
    apply bind_not_panic.
    - destruct (p_kids p) as [|t [|x [|v [|? ?]]]]; np.
    - intros [[ctype crit] value] _.
      repeat match goal with
             | |- (if ?c then _ else _) <> Panic => destruct c
             end; np.
  Qed.
  Hint Resolve decode_control_np : np.

  Lemma decode_controls_np p : decode_controls prim_ok true p <> Panic.
  Proof.
    unfold decode_controls. destruct (nth_error (p_kids p) 2); [|discriminate].
    destruct (negb _); [discriminate|].
    clear. induction (p_kids p0) as [|c r IH]; cbn [mapM]; [discriminate|].
    apply bind_not_panic; [apply decode_control_np|intros ? _].
    apply bind_not_panic; [exact IH|intros ? _; discriminate].
  Qed.
  Hint Resolve decode_controls_np : np.

  Lemma mapM_np {A B} (f : A -> outcome B) l : (forall x, f x <> Panic) -> mapM f l <> Panic.
  Proof.
    intros Hf. induction l as [|x r IH]; cbn [mapM]; [discriminate|].
    apply bind_not_panic; [apply Hf|intros ? _].
    apply bind_not_panic; [exact IH|intros ? _; discriminate].
  Qed.

  Lemma kid_data_err_np p i : kid_data_err p i <> Panic.
  Proof. unfold kid_data_err. np. Qed.
  Hint Resolve kid_data_err_np : np.

  Lemma ext_parts_np kids acc : ext_parts kids acc <> Panic.
  Proof.
    revert acc; induction kids as [|ch r IH]; intros [[[a d] ru] v]; cbn [ext_parts]; [discriminate|].
    repeat match goal with |- (if ?c then _ else _) <> Panic => destruct c end; try apply IH.
    destruct (value_of ch); try discriminate. apply IH.
  Qed.
  Hint Resolve ext_parts_np : np.

  Lemma decompile_np fuel p : decompile fuel p <> Panic.
  Proof.
    revert p; induction fuel as [|f IH]; intros p; cbn [decompile]; [discriminate|].
    repeat match goal with |- (if ?c then _ else _) <> Panic => destruct c end;
      try (apply bind_not_panic; [apply mapM_np; exact IH|intros ? _; discriminate]);
      try (destruct (p_kids p) as [|c ?]; [discriminate|];
           apply bind_not_panic; [apply IH|intros ? _; discriminate]);
      np.
  Qed.

  Lemma decompile_filter_np p : decompile_filter p <> Panic.
  Proof. apply decompile_np. Qed.
  Hint Resolve decompile_filter_np : np.

  Lemma decode_attribute_np p : decode_attribute p <> Panic.
  Proof.
    unfold decode_attribute.
    repeat match goal with |- (if ?c then _ else _) <> Panic => destruct c end; np.
  Qed.

  Lemma decode_change_np c : decode_change true modfix c <> Panic.
  Proof.
    unfold decode_change.
    repeat (first [ discriminate
                  | match goal with |- (if ?c then _ else _) <> Panic => destruct c end
                  | apply bind_not_panic; [solve [auto with np]|intros ? _]
                  | match goal with |- (match ?x with _ => _ end) <> Panic => destruct x end ]).
  Qed.

  Lemma request_packet_np p : request_packet true p <> Panic.
  Proof.
    unfold request_packet, fail_assert.
    repeat (first [ discriminate
                  | match goal with |- (if ?c then _ else _) <> Panic => destruct c end
                  | apply bind_not_panic; [solve [auto with np]|intros ? _]
                  | match goal with |- (match ?x with _ => _ end) <> Panic => destruct x end ]).
  Qed.

  Lemma request_message_id_np p : request_message_id true p <> Panic.
  Proof.
    unfold request_message_id.
    repeat (first [ discriminate
                  | solve [auto with np]
                  | match goal with |- (if ?c then _ else _) <> Panic => destruct c end
                  | match goal with |- (match ?x with _ => _ end) <> Panic => destruct x end ]).
  Qed.
  Hint Resolve request_packet_np request_message_id_np : np.

  Lemma new_message_np p : new_message prim_ok true modfix p <> Panic.
  Proof.
    unfold new_message.
    apply bind_not_panic; [apply request_packet_np|intros rp _].
    destruct (negb _); [discriminate|].
    apply bind_not_panic; [apply request_message_id_np|intros id _].
    repeat (first [ discriminate
                  | match goal with |- (if ?c then _ else _) <> Panic => destruct c end
                  | apply bind_not_panic;
                    [first [ solve [auto with np]
                           | apply mapM_np; first [apply decode_change_np|apply decode_attribute_np] ]
                    |intros ? _]
                  | match goal with |- (match ?x with _ => _ end) <> Panic => destruct x end ]).
  Qed.

  Theorem server_receive_rest_np bs : server_receive_rest prim_ok true modfix bs <> Panic.
  Proof.
    unfold server_receive_rest.
    apply bind_not_panic; [apply read_packet_no_panic|intros [p rest] _].
    destruct (negb _); [discriminate|].
    apply bind_not_panic; [apply new_message_np|intros m _; congruence].
  Qed.

  Theorem server_receive_no_panic bs : server_receive prim_ok true modfix bs <> Panic.
  Proof.
    unfold server_receive. pose proof (server_receive_rest_np bs).
    destruct (server_receive_rest prim_ok true modfix bs); simpl; congruence.
  Qed.

  Theorem server_receive_total bs :
    is_ok (server_receive prim_ok true modfix bs) = true \/ is_err (server_receive prim_ok true modfix bs) = true.
  Proof.
    pose proof (server_receive_no_panic bs).
    destruct (server_receive prim_ok true modfix bs); simpl; auto; congruence.
  Qed.

  Theorem serve_stream_no_panic fuel bs : Forall (fun o => o <> Panic) (serve_stream prim_ok true modfix fuel bs).
  Proof.
    revert bs; induction fuel as [|f IH]; intros bs; cbn [serve_stream]; [constructor|].
    destruct bs as [|b r]; [constructor|].
    pose proof (server_receive_rest_np (b :: r)) as H.
    destruct (server_receive_rest prim_ok true modfix (b :: r)) as [[m rest]| |].
    - constructor; [discriminate|]. destruct m; try apply IH. constructor.
    - constructor; [discriminate|constructor].
    - congruence.
  Qed.
End NP.

(* The pinned code (unchecked assertions): concrete frames that panic. *)
Definition no_oracle (_ : N) (_ : bytes) : bool := false.

(* Bind with version 2 *)
Definition frame_bind_v2 : bytes :=
  bytes_of (seq [integer 1; app_cons 0 [integer 2; octet [99]; ctx_prim 0 [112]]]).
(* Delete with a control whose type is an INTEGER *)
Definition frame_ctl_int_type : bytes :=
  bytes_of (seq [integer 5; app_prim 10 [99]; ctx_cons 0 [seq [integer 1]]]).
(* paging control whose value has a single child *)
Definition frame_paging_short : bytes :=
  bytes_of (seq [integer 5; app_prim 10 [99]; ctx_cons 0 [seq [octet oid_paging; octet (bytes_of (seq [integer 5]))]]]).

Lemma server_receive_pinned_refuted :
  server_receive no_oracle false false frame_bind_v2 = Panic /\
  server_receive no_oracle false false frame_ctl_int_type = Panic /\
  server_receive no_oracle false false frame_paging_short = Panic.
Proof. repeat split; vm_compute; reflexivity. Qed.

(* ... and the same frames are ordinary errors on the current tree *)
Example server_receive_strict_examples :
  server_receive no_oracle true true frame_bind_v2 = Err /\
  server_receive no_oracle true true frame_ctl_int_type = Err /\
  server_receive no_oracle true true frame_paging_short = Err.
Proof. repeat split; vm_compute; reflexivity. Qed.
