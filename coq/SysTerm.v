(* SysTerm.v - C11's "bounded": the server's own steps terminate.
   A measure [mu] on states that every internal step (Run, Stop, connection
   goroutines, per-request goroutines) strictly decreases, in every state and
   under every configuration.  Consequences:
     - every run made of internal steps only, from a state s, has at most [mu s]
       steps: between two actions of the environment the server does a bounded
       amount of work, in every schedule;
     - with [stop_progress]: once the environment is silent, after at most [mu s]
       steps nothing is enabled any more, and if no user code blocks in that state
       every Stop call has returned.
   The bound counts steps, not seconds: what a step costs is the runtime's business
   (the scenario runs put 5 s on it). *)

From G Require Import Base Sys SysProofs.
From Coq Require Import Lia List Arith Bool.
Import ListNotations.
Open Scope nat_scope.

Definition T : nat := 7.        (* above the weight of a whole teardown *)
Definition KC : nat := T + 3.   (* weight of a fresh connection *)

Definition item_w (it : item) : nat :=
  match it with
  | IReq _ sc => length sc + 6
  | IBad => 2
  | IHello => 2
  end.

Definition pc_w (p : cpc) : nat :=
  match p with
  | CInit => T + 3
  | CLoopTop => T + 2
  | CRead => T + 1
  | CInline _ sc => T + 3 + length sc
  | CTeardown todo => length todo + 1
  | CDone => 0
  end.

Definition hs_w (l : list (nat * list hstep)) : nat := list_sum (map (fun h => 1 + length (snd h)) l).
Definition input_w (l : list item) : nat := list_sum (map item_w l).

Definition conn_w (c : conn) : nat := pc_w (pc c) + input_w (input c) + hs_w (hs c).
Definition conns_w (cs : list conn) : nat := list_sum (map conn_w cs).

Definition spc_w (p : spc) : nat :=
  match p with SStart => 4 | SCancel => 3 | SInterrupt => 2 | SWait => 1 | SRet => 0 end.
Definition stops_w (l : list spc) : nat := list_sum (map spc_w l).

Definition run_w (s : state) : nat :=
  match run s with
  | RNot => 0
  | RListen _ _ => 4
  | RTop => 3
  | RAcceptWait => 2
  | RAccepted => KC + 4
  | RRet _ => 0
  end
  + (KC + 3) * backlog s
  + (if accept_err s then 2 else 0).

Definition mu (s : state) : nat :=
  (if alive s then 1 else 0) + run_w s + stops_w (stops s) + conns_w (conns s).

(* ---------------------------------------------------------------- *)

Arguments input_w : simpl never.
Arguments hs_w : simpl never.
Arguments conns_w : simpl never.
Arguments stops_w : simpl never.

Lemma hs_w_cons r sc l : hs_w ((r, sc) :: l) = 1 + length sc + hs_w l.
Proof. reflexivity. Qed.
Lemma hs_w_nil : hs_w [] = 0.
Proof. reflexivity. Qed.
Lemma input_w_cons it l : input_w (it :: l) = item_w it + input_w l.
Proof. reflexivity. Qed.
Lemma input_w_nil : input_w [] = 0.
Proof. reflexivity. Qed.
Lemma conns_w_cons c l : conns_w (c :: l) = conn_w c + conns_w l.
Proof. reflexivity. Qed.
Lemma stops_w_cons p l : stops_w (p :: l) = spc_w p + stops_w l.
Proof. reflexivity. Qed.

Lemma hs_w_app a b : hs_w (a ++ b) = hs_w a + hs_w b.
Proof. unfold hs_w. rewrite map_app, list_sum_app. reflexivity. Qed.

Lemma input_w_app a b : input_w (a ++ b) = input_w a + input_w b.
Proof. unfold input_w. rewrite map_app, list_sum_app. reflexivity. Qed.

Lemma take_handler_w r : forall l sc rest, take_handler r l = Some (sc, rest) ->
  hs_w l = 1 + length sc + hs_w rest.
Proof.
  induction l as [|[r' sc'] l IH]; intros sc rest H; cbn in H; [discriminate|].
  destruct (r' =? r).
  - inversion H; subst. rewrite hs_w_cons. lia.
  - destruct (take_handler r l) as [[sc2 rest2]|] eqn:E; [|discriminate].
    inversion H; subst. specialize (IH _ _ eq_refl). rewrite !hs_w_cons, IH. lia.
Qed.

Lemma sum_update_nth {A} (w : A -> nat) (l : list A) i x y : nth_error l i = Some x ->
  list_sum (map w (update_nth i (fun _ => y) l)) + w x = list_sum (map w l) + w y.
Proof.
  revert i; induction l as [|a r IH]; intros [|i] H; cbn [nth_error update_nth map] in *; try discriminate.
  - inversion H; subst. cbn [list_sum fold_right]. change (fold_right Nat.add 0 (map w r)) with (list_sum (map w r)). lia.
  - specialize (IH i H). cbn [list_sum fold_right].
    change (fold_right Nat.add 0 (map w (update_nth i (fun _ => y) r))) with (list_sum (map w (update_nth i (fun _ => y) r))).
    change (fold_right Nat.add 0 (map w r)) with (list_sum (map w r)). lia.
Qed.

Lemma after_plain_w l : input_w (after_plain l) <= input_w l.
Proof.
  induction l as [|it r IH]; [apply le_n|].
  destruct it; cbn [after_plain]; rewrite ?input_w_cons; try apply le_n. lia.
Qed.

Ltac wnorm :=
  repeat rewrite hs_w_app; repeat rewrite hs_w_cons; rewrite ?hs_w_nil;
  repeat rewrite input_w_app; repeat rewrite input_w_cons; rewrite ?input_w_nil;
  cbn [item_w length snd fst pc_w app].

Lemma stale_script_length sc : length (stale_script sc) = length sc.
Proof. unfold stale_script. apply map_length. Qed.
Lemma hs_w_stale l : hs_w (stale_hs l) = hs_w l.
Proof.
  unfold hs_w, stale_hs. induction l as [|[r sc] l IH]; [reflexivity|].
  cbn [map fst snd]. change (list_sum (?a :: ?b)) with (a + list_sum b).
  cbn [list_sum]. rewrite stale_script_length. rewrite IH. reflexivity.
Qed.

Lemma teardown_len cfg : length (teardown_of cfg) = 5.
Proof. destruct (teardown_of_cases cfg) as [-> |[-> |[-> | ->]]]; reflexivity. Qed.

(* a step of the connection's own goroutine: the weight goes down, or the process dies *)
Lemma conn_step_w cfg s c c' e : conn_step cfg s c = Some (c', e) ->
  (e = EDie /\ c' = c) \/ (e <> EDie /\ conn_w c' < conn_w c).
Proof.
  unfold conn_step. intros H. pose proof (teardown_len cfg) as HT.
  assert (Hfin : forall c1, e <> EDie -> c' = c1 -> conn_w c1 < conn_w c -> (e = EDie /\ c' = c) \/ (e <> EDie /\ conn_w c' < conn_w c))
    by (intros c1 Hne -> Hlt; right; split; assumption).
  unfold conn_w in *.
  destruct (pc c) as [| | |k sc|todo|] eqn:Epc.
  - inversion H; subst. eapply Hfin; [discriminate|reflexivity|]. cbn [pc input hs set_pc]. wnorm. lia.
  - destruct (cancelled s).
    + destruct (can_write c); [|discriminate]. inversion H; subst. eapply Hfin; [discriminate|reflexivity|].
      cbn [pc input hs set_pc]. wnorm. rewrite HT. unfold T. lia.
    + inversion H; subst. eapply Hfin; [discriminate|reflexivity|]. cbn [pc input hs set_pc]. wnorm. lia.
  - destruct (input c) as [|it rest] eqn:Ein.
    + destruct (eof c || interrupted c); [|discriminate]. inversion H; subst. eapply Hfin; [discriminate|reflexivity|].
      cbn [pc input hs set_pc]. rewrite Ein. wnorm. rewrite HT. unfold T. lia.
    + destruct it as [k sc| |].
      * destruct k.
        -- inversion H; subst. eapply Hfin; [discriminate|reflexivity|]. cbn [pc input hs]. wnorm. lia.
        -- inversion H; subst. eapply Hfin; [discriminate|reflexivity|]. cbn [pc input hs]. wnorm. lia.
        -- destruct (has_unbind_route cfg); inversion H; subst; (eapply Hfin; [discriminate|reflexivity|]);
             cbn [pc input hs]; wnorm; rewrite ?HT; unfold T; lia.
      * inversion H; subst. eapply Hfin; [discriminate|reflexivity|]. cbn [pc input hs]. wnorm. rewrite HT. unfold T. lia.
      * inversion H; subst. eapply Hfin; [discriminate|reflexivity|]. cbn [pc input hs]. wnorm. rewrite HT. unfold T. lia.
  - destruct sc as [|h rest].
    + destruct k; inversion H; subst; (eapply Hfin; [discriminate|reflexivity|]); cbn [pc input hs set_pc]; wnorm;
        rewrite ?HT; unfold T; lia.
    + destruct (negb (hstep_enabled s c h)); [discriminate|].
      destruct h.
      * inversion H; subst. eapply Hfin; [discriminate|reflexivity|]. cbn [pc input hs]. wnorm. lia.
      * destruct (recovery cfg).
        -- inversion H; subst. eapply Hfin; [discriminate|reflexivity|]. cbn [pc input hs set_pc]. wnorm. rewrite HT. unfold T. lia.
        -- inversion H; subst. left. split; reflexivity.
      * inversion H; subst. eapply Hfin; [discriminate|reflexivity|]. cbn [pc input hs]. wnorm. lia.
      * inversion H; subst. eapply Hfin; [discriminate|reflexivity|]. cbn [pc input hs].
        pose proof (after_plain_w (input c)) as Hap.
        destruct (after_plain (input c)) as [|[| |] r0]; repeat rewrite input_w_cons in Hap; cbn [item_w] in Hap;
          cbn [pc_w]; rewrite ?stale_script_length, ?hs_w_stale; wnorm; lia.
      * inversion H; subst. eapply Hfin; [discriminate|reflexivity|]. cbn [pc input hs]. wnorm. lia.
  - destruct todo as [|t rest].
    + inversion H; subst. eapply Hfin; [discriminate|reflexivity|]. cbn [pc input hs set_pc]. wnorm. lia.
    + destruct t; [|destruct (inflight c =? 0); [|discriminate]| |destruct (negb (has_onclose cfg)); [|destruct (onclose_held s); [discriminate|]]|];
        inversion H; subst; (eapply Hfin; [discriminate|reflexivity|]); cbn [pc input hs set_pc]; wnorm; lia.
  - discriminate.
Qed.

Lemma handler_step_w cfg s c r c' e : handler_step cfg s c r = Some (c', e) ->
  (e = EDie /\ c' = c) \/ (e <> EDie /\ conn_w c' < conn_w c).
Proof.
  unfold handler_step. intros H.
  assert (Hfin : forall c1, e <> EDie -> c' = c1 -> conn_w c1 < conn_w c -> (e = EDie /\ c' = c) \/ (e <> EDie /\ conn_w c' < conn_w c))
    by (intros c1 Hne -> Hlt; right; split; assumption).
  unfold conn_w in *.
  destruct (take_handler r (hs c)) as [[sc others]|] eqn:Et; [|discriminate].
  pose proof (take_handler_w r (hs c) sc others Et) as Hw.
  destruct sc as [|h rest].
  - inversion H; subst. eapply Hfin; [discriminate|reflexivity|]. cbn [pc input hs]. cbn [length] in Hw. lia.
  - destruct (negb (hstep_enabled s c h)); [discriminate|].
    cbn [length] in Hw.
    destruct h.
    + inversion H; subst. eapply Hfin; [discriminate|reflexivity|]. cbn [pc input hs]. wnorm. lia.
    + destruct (recovery cfg && handler_rec cfg).
      * inversion H; subst. eapply Hfin; [discriminate|reflexivity|]. cbn [pc input hs]. lia.
      * inversion H; subst. left. split; reflexivity.
    + inversion H; subst. eapply Hfin; [discriminate|reflexivity|]. cbn [pc input hs]. wnorm. lia.
    + inversion H; subst. eapply Hfin; [discriminate|reflexivity|]. cbn [pc input hs]. wnorm. lia.
    + inversion H; subst. eapply Hfin; [discriminate|reflexivity|]. cbn [pc input hs]. wnorm. lia.
Qed.

Lemma interrupt_tracked_w c : conn_w (interrupt_tracked c) = conn_w c.
Proof. destruct (interrupt_tracked_cases c) as [-> | ->]; reflexivity. Qed.

Lemma interrupt_all_w cs : conns_w (interrupt_all cs) = conns_w cs.
Proof.
  unfold interrupt_all. induction cs as [|c r IH]; [reflexivity|].
  cbn [map]. rewrite !conns_w_cons, interrupt_tracked_w, IH. reflexivity.
Qed.

Lemma stops_update l i p q : nth_error l i = Some p ->
  stops_w (update_nth i (fun _ => q) l) + spc_w p = stops_w l + spc_w q.
Proof. intros H. unfold stops_w. apply sum_update_nth. exact H. Qed.

Lemma with_conn_mu s i f s' :
  alive s = true ->
  (forall c c' e, f c = Some (c', e) -> (e = EDie /\ c' = c) \/ (e <> EDie /\ conn_w c' < conn_w c)) ->
  with_conn s i f = Some s' -> mu s' < mu s.
Proof.
  intros Hal Hf H. unfold with_conn in H.
  destruct (nth_error (conns s) i) as [c|] eqn:En; [|discriminate].
  destruct (f c) as [[c' e]|] eqn:Ef; [|discriminate]. inversion H; subst. clear H.
  pose proof (sum_update_nth conn_w (conns s) i c c' En) as Hs.
  destruct (Hf c c' e Ef) as [[-> ->]|[Hne Hlt]].
  - unfold mu, run_w, apply_effect, set_conns, conns_w in *. cbn [alive run backlog accept_err stops conns]. rewrite Hal. lia.
  - unfold mu, run_w, conns_w in *.
    destruct e; try congruence; unfold apply_effect, set_conns; cbn [alive run backlog accept_err stops conns]; rewrite ?Hal; lia.
Qed.

(* every internal step strictly decreases the measure *)
Theorem internal_step_decreases cfg s l s' : internal l = true -> step cfg s l = Some s' -> mu s' < mu s.
Proof.
  intros Hi H. unfold step in H. destruct (alive s) eqn:Hal; cbn [negb] in H; [|discriminate].
  destruct l; try discriminate.
  - (* LRun *)
    unfold run_step in H. unfold mu, run_w, KC, T.
    destruct (run s) as [|valid ok| | | |e] eqn:Er; try discriminate.
    + destruct (negb valid); [inversion H; subst; cbn; rewrite Hal; lia|].
      destruct (stop_in_progress s); [discriminate|].
      destruct ok; inversion H; subst; cbn; rewrite Hal; lia.
    + destruct (cancelled s); [destruct (close_on_cancel cfg)|]; inversion H; subst; cbn; rewrite Hal; lia.
    + destruct (lst s).
      * inversion H; subst; cbn; rewrite Hal; lia.
      * destruct (accept_err s).
        -- destruct (accept_retry cfg); inversion H; subst; cbn; rewrite Hal; lia.
        -- destruct (backlog s) as [|b]; [discriminate|]. inversion H; subst; cbn; rewrite Hal. lia.
      * inversion H; subst; cbn; rewrite Hal; lia.
    + inversion H; subst; cbn. rewrite Hal. unfold conns_w. rewrite map_app, list_sum_app. cbn.
      unfold conn_w, input_w, hs_w, T. cbn. lia.
  - (* LStop *)
    unfold stop_step in H. destruct (nth_error (stops s) i) as [p|] eqn:En; [|discriminate].
    unfold mu, run_w.
    destruct p; try discriminate.
    + pose proof (stops_update (stops s) i SStart SCancel En) as Hs. cbn in Hs.
      destruct (lst s); inversion H; subst; cbn; rewrite Hal; lia.
    + destruct (stop_interrupts cfg).
      * pose proof (stops_update (stops s) i SCancel SInterrupt En) as Hs. cbn in Hs.
        inversion H; subst; cbn; rewrite Hal; lia.
      * pose proof (stops_update (stops s) i SCancel SWait En) as Hs. cbn in Hs.
        inversion H; subst; cbn; rewrite Hal; lia.
    + pose proof (stops_update (stops s) i SInterrupt SWait En) as Hs. cbn in Hs.
      inversion H; subst; cbn. rewrite Hal, interrupt_all_w. lia.
    + destruct (connwg s =? 0); [|discriminate].
      pose proof (stops_update (stops s) i SWait SRet En) as Hs. cbn in Hs.
      inversion H; subst; cbn; rewrite Hal; lia.
  - (* LConn *)
    eapply with_conn_mu; [exact Hal| |exact H]. intros c0 c1 e0 Hc. eapply conn_step_w; eauto.
  - (* LHandler *)
    eapply with_conn_mu; [exact Hal| |exact H]. intros c0 c1 e0 Hc. cbv beta in Hc. eapply handler_step_w; eauto.
Qed.

(* a run of internal steps is never longer than the measure of its first state *)
Theorem internal_runs_bounded cfg : forall ls s s',
  Forall (fun l => internal l = true) ls -> run_labels cfg s ls = Some s' -> length ls + mu s' <= mu s.
Proof.
  induction ls as [|l r IH]; intros s s' HF H; cbn in *.
  - inversion H; subst. lia.
  - inversion HF as [|? ? Hl Hr]; subst.
    destruct (step cfg s l) as [s1|] eqn:Es; [|discriminate].
    pose proof (internal_step_decreases cfg s l s1 Hl Es). specialize (IH s1 s' Hr H). lia.
Qed.

(* reachability is closed under runs *)
Lemma run_labels_app cfg : forall a b s, run_labels cfg s (a ++ b) =
  match run_labels cfg s a with Some s1 => run_labels cfg s1 b | None => None end.
Proof.
  induction a as [|l r IH]; intros b s; cbn; [reflexivity|].
  destruct (step cfg s l); [apply IH|reflexivity].
Qed.

Lemma reachable_run cfg s ls s' : reachable cfg s -> run_labels cfg s ls = Some s' -> reachable cfg s'.
Proof.
  intros [l0 H0] H. exists (l0 ++ ls). rewrite run_labels_app, H0. exact H.
Qed.

(* C11, bounded: from any reachable state, however the server's goroutines are
   scheduled, they take at most [mu s] steps before nothing of the server is enabled
   any more; and in such a state - alive, no user code blocking - no Stop call is
   still waiting *)
Theorem stop_returns_within_bound cfg s ls s' :
  stop_interrupts cfg = true -> add_before_accept cfg = true -> untrack_late cfg = true ->
  reachable cfg s ->
  Forall (fun l => internal l = true) ls -> run_labels cfg s ls = Some s' ->
  length ls <= mu s /\
  ((forall l, internal l = true -> step cfg s' l = None) -> alive s' = true -> no_external_block s' ->
   forall i p, nth_error (stops s') i = Some p -> p = SRet).
Proof.
  intros Hsi Haba Hul Hr HF H. split.
  - pose proof (internal_runs_bounded cfg ls s s' HF H). lia.
  - intros Hq Hal Hnb i p Hn.
    assert (Hd : p = SRet \/ p <> SRet) by (destruct p; auto; right; discriminate).
    destruct Hd as [Hd|Hd]; [exact Hd|]. exfalso.
    assert (Hex : exists i0 p0, nth_error (stops s') i0 = Some p0 /\ p0 <> SRet) by (exists i, p; split; assumption).
    destruct (stop_progress cfg s' Hsi Haba Hul (reachable_run cfg s ls s' Hr H) Hal Hex Hnb) as (l & Hl & Hs).
    apply Hs. apply Hq. exact Hl.
Qed.

(* non-vacuity: the measure of a concrete busy state, and a run that uses it up *)
Example mu_example :
  exists s, run_labels fixed_cfg init
              [ECallRun true true; LRun; LRun; EConnect; LRun; LRun; LRun; LConn 0; LConn 0;
               ESend 0 (IReq KNormal [HWrite; HWrite]); ECallStop] = Some s /\ mu s = 23.
Proof. eexists. split; [vm_compute; reflexivity|]. vm_compute. reflexivity. Qed.
