(* Consts.v - the constants written into the model are the values gldap's source
   has now (ConstsGen.v is regenerated from the package on every run). *)
From Coq Require Import NArith ZArith List.
From G Require Import Base Ber Ldap Response Directory ConstsGen.
Import ListNotations.

Theorem result_codes_agree :
  Directory.ResultSuccess = gen_ResultSuccess /\ Directory.ResultOperationsError = gen_ResultOperationsError /\
  Directory.ResultProtocolError = gen_ResultProtocolError /\
  Directory.ResultInappropriateMatching = gen_ResultInappropriateMatching /\
  Directory.ResultNoSuchObject = gen_ResultNoSuchObject /\
  Directory.ResultInvalidCredentials = gen_ResultInvalidCredentials /\
  Directory.ResultEntryAlreadyExists = gen_ResultEntryAlreadyExists /\
  Response.ResultUnwillingToPerform = gen_ResultUnwillingToPerform.
Proof. repeat split; reflexivity. Qed.

Theorem application_tags_agree :
  ApplicationBindRequest = gen_ApplicationBindRequest /\ ApplicationBindResponse = gen_ApplicationBindResponse /\
  ApplicationUnbindRequest = gen_ApplicationUnbindRequest /\ ApplicationSearchRequest = gen_ApplicationSearchRequest /\
  ApplicationSearchResultEntry = gen_ApplicationSearchResultEntry /\
  ApplicationSearchResultDone = gen_ApplicationSearchResultDone /\
  ApplicationModifyRequest = gen_ApplicationModifyRequest /\ ApplicationModifyResponse = gen_ApplicationModifyResponse /\
  ApplicationAddRequest = gen_ApplicationAddRequest /\ ApplicationAddResponse = gen_ApplicationAddResponse /\
  ApplicationDelRequest = gen_ApplicationDelRequest /\ ApplicationDelResponse = gen_ApplicationDelResponse /\
  ApplicationExtendedRequest = gen_ApplicationExtendedRequest /\ ApplicationExtendedResponse = gen_ApplicationExtendedResponse.
Proof. repeat split; reflexivity. Qed.

Theorem oids_agree :
  oid_paging = gen_oid_paging /\ oid_behera = gen_oid_behera /\ oid_vchu_change = gen_oid_vchu_change /\
  oid_vchu_warn = gen_oid_vchu_warn /\ oid_managedsait = gen_oid_managedsait /\ oid_ms_notif = gen_oid_ms_notif /\
  oid_ms_showdel = gen_oid_ms_showdel /\ oid_ms_linkttl = gen_oid_ms_linkttl /\ oid_starttls = gen_oid_starttls.
Proof. repeat split; reflexivity. Qed.
