(* SysProps.v — the lifecycle properties C06-C13, C17 as corollaries of the
   invariants of SysProofs.v. *)
From G Require Import Base Sys SysProofs.
Open Scope nat_scope.

Definition conn_of (s : state) (i : nat) (c : conn) : Prop := nth_error (conns s) i = Some c.

Lemma forall_conn {P : conn -> Prop} {s i c} : Forall P (conns s) -> conn_of s i c -> P c.
Proof. intros HF Hn. rewrite Forall_forall in HF. apply HF. eapply nth_error_In. exact Hn. Qed.

(* ---------------------------------------------------------------- *)
(* C06                                                                *)

(* every handler that ran got the arrival number of its request; numbers are
   strictly increasing in dispatch order; Request.ID is the read counter *)
Theorem c06_numbering cfg s i c : reachable cfg s -> conn_of s i c ->
  (forall r k, In (r, k) (started c) -> 1 <= r <= nread c) /\ increasing (map fst (started c)) /\
  (pc c = CRead -> nreq c = S (nread c)).
Proof.
  intros Hr Hc. destruct (forall_conn (num_inv_reachable cfg s Hr) Hc) as (Hn & Hst & Hinc & _).
  split; [exact Hst|]. split; [exact Hinc|]. intros Hpc. rewrite Hpc in Hn. exact Hn.
Qed.

(* the request read as the (n+1)-th item is dispatched with Request.ID n+1 *)
Theorem c06_dispatch cfg s i c c' e k sc rest : reachable cfg s -> conn_of s i c ->
  pc c = CRead -> input c = IReq k sc :: rest -> conn_step cfg s c = Some (c', e) ->
  nread c' = S (nread c) /\
  (started c' = started c ++ [(S (nread c), k)] \/ (k = KUnbind /\ has_unbind_route cfg = false /\ started c' = started c)).
Proof.
  intros Hr Hc Hpc Hin Hs. eapply dispatch_numbering; eauto. exact (forall_conn (num_inv_reachable cfg s Hr) Hc).
Qed.

(* dispatching a request never waits for handlers: whatever the in-flight
   handlers of the connection are doing, the read loop's step is enabled, and
   after it the loop is back at its top with the handler running on its own *)
Theorem c06_no_wait cfg s c sc rest : cancelled s = false -> pc c = CRead -> input c = IReq KNormal sc :: rest ->
  exists c', conn_step cfg s c = Some (c', ENone) /\ pc c' = CLoopTop /\
             hs c' = hs c ++ [(nreq c, sc)] /\ inflight c' = S (inflight c).
Proof. intros _ Hpc Hin. unfold conn_step. rewrite Hpc, Hin. eexists. split; [reflexivity|]. repeat split. Qed.

(* what a connection's next step may do depends on the server only through
   the shutdown flag, the released barriers and a held OnClose: not on any
   other connection *)
Lemma hstep_enabled_indep s s' c h : released s' = released s -> hstep_enabled s' c h = hstep_enabled s c h.
Proof. intros H. destruct h; cbn; rewrite ?H; reflexivity. Qed.

Theorem c06_isolation cfg s s' c :
  cancelled s' = cancelled s -> released s' = released s -> onclose_held s' = onclose_held s ->
  conn_step cfg s' c = conn_step cfg s c /\ forall r, handler_step cfg s' c r = handler_step cfg s c r.
Proof.
  intros Hc Hr Hh. split.
  - unfold conn_step. rewrite Hc, Hh.
    destruct (pc c) as [| | |k sc|todo|]; try reflexivity.
    destruct sc as [|h rest]; [reflexivity|]. rewrite (hstep_enabled_indep s s' c h Hr). reflexivity.
  - intros r. unfold handler_step. destruct (take_handler r (hs c)) as [[sc others]|]; [|reflexivity].
    destruct sc as [|h rest]; [reflexivity|]. rewrite (hstep_enabled_indep s s' c h Hr). reflexivity.
Qed.

(* a step of connection i (its loop or one of its handlers) leaves every other
   connection's record untouched *)
Theorem c06_other_conns cfg s l s' i : step cfg s l = Some s' ->
  (l = LConn i \/ exists r, l = LHandler i r) -> forall j, j <> i -> nth_error (conns s') j = nth_error (conns s) j.
Proof.
  intros Hs Hl j Hj. unfold step in Hs. destruct (negb (alive s)); [discriminate|].
  destruct Hl as [->|[r ->]]; eapply with_conn_others; eauto.
Qed.

(* ---------------------------------------------------------------- *)
(* C08                                                                *)

Lemma onclose_after cfg c : td_inv cfg c -> onclose c <= 1 /\
  (onclose c = 1 -> inflight c = 0 /\ hs c = [] /\ sock_closed c = true).
Proof.
  intros (Hsuf & Hoc & Hsc & Hwg & Hwait & Hinf & _).
  split; [rewrite Hoc; destruct (has_onclose cfg && _); lia|].
  intros H1. rewrite Hoc in H1. destruct (has_onclose cfg && mem_t TOnClose (done_of cfg c)) eqn:E; [|discriminate].
  apply andb_true_iff in E. destruct E as [_ E].
  (* TOnClose executed => TWaitHandlers and TSockClose executed: they precede it in both orders *)
  assert (mem_t TWaitHandlers (done_of cfg c) = true /\ mem_t TSockClose (done_of cfg c) = true) as [Ha Hb].
  { unfold done_of in *. destruct (pc c) as [| | |k sc|todo|]; cbn in E; try discriminate.
    - destruct Hsuf as [Hsuf Hlen].
      destruct (teardown_of_cases cfg) as [Et|[Et|[Et|Et]]]; rewrite Et in *; cbn [length] in *;
        destruct todo as [|a [|b [|c0 [|d [|e0 r]]]]]; cbn in *; try discriminate; try lia; auto.
    - destruct (teardown_of_cases cfg) as [Et|[Et|[Et|Et]]]; rewrite Et in *; cbn; auto. }
  specialize (Hwait Ha). rewrite Hwait in Hinf. rewrite Hsc, Hb.
  repeat split; auto. destruct (hs c); [reflexivity|discriminate].
Qed.

Theorem c08_once_after_handlers cfg s i c : reachable cfg s -> conn_of s i c ->
  onclose c <= 1 /\ (onclose c = 1 -> inflight c = 0 /\ hs c = [] /\ sock_closed c = true).
Proof. intros Hr Hc. apply (onclose_after cfg). exact (forall_conn (td_inv_reachable cfg s Hr) Hc). Qed.

(* whatever made the read loop return, the teardown ends with the socket
   closed, no handler in flight and OnClose called exactly once *)
Theorem c08_every_ending cfg s i c : reachable cfg s -> conn_of s i c -> pc c = CDone ->
  onclose c = (if has_onclose cfg then 1 else 0) /\ sock_closed c = true /\ inflight c = 0 /\ wgdone c = true.
Proof.
  intros Hr Hc Hpc. destruct (forall_conn (td_inv_reachable cfg s Hr) Hc) as (_ & Hoc & Hsc & Hwg & Hwait & _).
  unfold done_of in *. rewrite Hpc in *.
  destruct (teardown_of_cases cfg) as [E|[E|[E|E]]]; rewrite E in *; cbn in *; rewrite andb_true_r in Hoc; auto.
Qed.

(* every way out of the read loop goes through the teardown: from a state
   outside it, a step of the connection either stays outside or enters it with
   the whole list still to do *)
Theorem c08_funnel cfg s c c' e : conn_step cfg s c = Some (c', e) ->
  (match pc c with CTeardown _ | CDone => False | _ => True end) ->
  (match pc c' with CTeardown todo => todo = teardown_of cfg | CDone => False | _ => True end).
Proof.
  unfold conn_step. intros H Hpc.
  destruct (pc c) as [| | |k sc|todo|] eqn:Epc; try contradiction.
  - inversion H; subst; exact I.
  - destruct (cancelled s); [destruct (can_write c); [|discriminate]|]; inversion H; subst; cbn [pc set_pc]; auto.
  - destruct (input c) as [|it rest]; [destruct (eof c || interrupted c); [|discriminate]; inversion H; subst; reflexivity|].
    destruct it as [k sc| |]; [destruct k; [| |destruct (has_unbind_route cfg)]|..]; inversion H; subst; cbn [pc set_pc]; auto.
  - destruct sc as [|h rest]; [destruct k; inversion H; subst; cbn [pc set_pc]; auto|].
    destruct (negb (hstep_enabled s c h)); [discriminate|].
    destruct h; [|destruct (recovery cfg)|..]; inversion H; subst; cbn [pc set_pc]; auto.
    rewrite Epc. exact I.
Qed.

(* ---------------------------------------------------------------- *)
(* C09                                                                *)

Theorem c09_ids cfg s : reachable cfg s ->
  (forall i c, conn_of s i c -> cid c = S i) /\
  (forall i j ci cj, conn_of s i ci -> conn_of s j cj -> cid ci = cid cj -> i = j).
Proof.
  intros Hr. destruct (ids_inv_reachable cfg s Hr) as [Hids _]. split; [exact Hids|].
  intros i j ci cj Hi Hj E. rewrite (Hids i ci Hi), (Hids j cj Hj) in E. congruence.
Qed.

(* the id of a connection never changes: position i holds id i+1 in every later state *)
Theorem c09_stable cfg s l s' i c : reachable cfg s -> step cfg s l = Some s' -> conn_of s i c ->
  exists c', conn_of s' i c' /\ cid c' = cid c.
Proof.
  intros Hr Hs Hc.
  assert (reachable cfg s') as Hr' by (eapply reachable_step; eauto).
  destruct (ids_inv_reachable cfg s Hr) as [Hids _]. destruct (ids_inv_reachable cfg s' Hr') as [Hids' _].
  assert (length (conns s) <= length (conns s')) as Hlen.
  { unfold step in Hs. destruct (negb (alive s)); [discriminate|].
    destruct l as [|si|ci|ci ri|v o| | |ci it|ci|ci b|b|b|].
    - destruct (run_step_conns cfg s s' Hs) as [->|[b ->]]; [lia|rewrite app_length; lia].
    - destruct (stop_step_conns cfg s si s' Hs) as [->| ->]; [lia|unfold interrupt_all; rewrite map_length; lia].
    - destruct (with_conn_frame _ _ _ _ Hs) as [_ (c0 & c1 & e & _ & _ & -> & _)]. rewrite length_update_nth. lia.
    - destruct (with_conn_frame _ _ _ _ Hs) as [_ (c0 & c1 & e & _ & _ & -> & _)]. rewrite length_update_nth. lia.
    - destruct (run s); try discriminate. inversion Hs; subst; cbn; lia.
    - inversion Hs; subst; cbn; lia.
    - destruct (lst s); try discriminate. inversion Hs; subst; cbn; lia.
    - destruct (upd_conn_env_frame _ _ _ _ Hs) as (_ & _ & _ & ->). rewrite length_update_nth. lia.
    - destruct (upd_conn_env_frame _ _ _ _ Hs) as (_ & _ & _ & ->). rewrite length_update_nth. lia.
    - destruct (upd_conn_env_frame _ _ _ _ Hs) as (_ & _ & _ & ->). rewrite length_update_nth. lia.
    - inversion Hs; subst; cbn; lia.
    - inversion Hs; subst; cbn; lia.
    - inversion Hs; subst; cbn; lia. }
  assert (i < length (conns s)) as Hi by (apply nth_error_Some; unfold conn_of in Hc; congruence).
  destruct (nth_error (conns s') i) as [c'|] eqn:E; [|apply nth_error_None in E; lia].
  exists c'. split; [exact E|]. rewrite (Hids' i c' E), (Hids i c Hc). reflexivity.
Qed.

(* ---------------------------------------------------------------- *)
(* C10                                                                *)

Theorem c10_nothing_after_unbind cfg s i c : reachable cfg s -> conn_of s i c ->
  read_after_unbind c = 0 /\
  (unbind_seen c = true -> match pc c with CInline KUnbind _ | CTeardown _ | CDone => True | _ => False end) /\
  count_unbind (started c) <= 1 /\ (unbind_seen c = false -> count_unbind (started c) = 0).
Proof.
  intros Hr Hc. destruct (forall_conn (num_inv_reachable cfg s Hr) Hc) as (_ & _ & _ & Hrau & Hub & Hcu0 & Hcu1). auto.
Qed.

(* after the Unbind the loop goroutine never reads again: from those program
   points no step consumes input as a request *)
Theorem c10_no_more_reads cfg s c c' e : conn_step cfg s c = Some (c', e) ->
  (match pc c with CInline KUnbind _ | CTeardown _ | CDone => True | _ => False end) ->
  nread c' = nread c /\ started c' = started c /\
  (match pc c' with CInline KUnbind _ | CTeardown _ | CDone => True | _ => False end).
Proof.
  unfold conn_step. intros H Hpc.
  destruct (pc c) as [| | |k sc|todo|] eqn:Epc; try contradiction.
  - destruct k; try contradiction. destruct sc as [|h rest]; [inversion H; subst; cbn; auto; try (rewrite Epc; auto)|].
    destruct (negb (hstep_enabled s c h)); [discriminate|].
    destruct h; [|destruct (recovery cfg)|..]; inversion H; subst; cbn; auto; try (rewrite Epc; auto).
  - destruct todo as [|t rest]; [inversion H; subst; cbn; auto; try (rewrite Epc; auto)|].
    destruct t; [|destruct (inflight c =? 0); [|discriminate]| |destruct (negb (has_onclose cfg)); [|destruct (onclose_held s); [discriminate|]]|];
      inversion H; subst; cbn; auto; try (rewrite Epc; auto).
  - discriminate.
Qed.

(* what gldap itself puts on the wire of a connection: [sent] counts LDAPMessages.
   The read loop writes nothing except the notice when Stop has cancelled the
   server and what an inline (StartTLS / Unbind) handler writes; per-request
   goroutines write exactly what their handler's script writes. *)
Theorem c10_loop_writes cfg s c c' e : conn_step cfg s c = Some (c', e) ->
  sent c' = sent c \/
  (pc c = CLoopTop /\ cancelled s = true /\ sent c' = S (sent c)) \/
  (exists k rest, pc c = CInline k (HWrite :: rest) /\ sent c' = S (sent c)).
Proof.
  unfold conn_step. intros H.
  destruct (pc c) as [| | |k sc|todo|] eqn:Epc.
  - inversion H; subst; left; reflexivity.
  - destruct (cancelled s) eqn:Ec.
    + destruct (can_write c); [|discriminate]. inversion H; subst. cbn [sent set_pc andb].
      destruct (delivered c); [right; left; repeat split; lia|left; lia].
    + inversion H; subst. cbn [sent set_pc andb]. left. lia.
  - destruct (input c) as [|it rest]; [destruct (eof c || interrupted c); [|discriminate]; inversion H; subst; left; reflexivity|].
    destruct it as [k sc| |]; [destruct k; [| |destruct (has_unbind_route cfg)]|..]; inversion H; subst; left; reflexivity.
  - destruct sc as [|h rest]; [destruct k; inversion H; subst; left; reflexivity|].
    destruct (negb (hstep_enabled s c h)); [discriminate|].
    destruct h; [|destruct (recovery cfg)|..]; inversion H; subst; cbn [sent set_pc frame_of]; try (left; lia).
    destruct (delivered c); [right; right; exists k, rest; split; [reflexivity|lia]|left; lia].
  - destruct todo as [|t rest]; [inversion H; subst; left; reflexivity|].
    destruct t; [|destruct (inflight c =? 0); [|discriminate]| |destruct (negb (has_onclose cfg)); [|destruct (onclose_held s); [discriminate|]]|];
      inversion H; subst; left; reflexivity.
  - discriminate.
Qed.

(* reading an Unbind puts nothing on the wire, and neither does anything after it
   except the Unbind handler's own script (when a route for it is registered) *)
Theorem c10_no_response_to_unbind cfg s c c' e sc rest : pc c = CRead -> input c = IReq KUnbind sc :: rest ->
  conn_step cfg s c = Some (c', e) -> sent c' = sent c.
Proof.
  intros Hpc Hin H. unfold conn_step in H. rewrite Hpc, Hin in H.
  destruct (has_unbind_route cfg); inversion H; subst; reflexivity.
Qed.

Theorem c10_teardown_is_silent cfg s c c' e todo : pc c = CTeardown todo ->
  conn_step cfg s c = Some (c', e) -> sent c' = sent c.
Proof.
  intros Hpc H. destruct (c10_loop_writes cfg s c c' e H) as [E|[(E & _)|(k & r & E & _)]]; [exact E|congruence|congruence].
Qed.

Theorem c06_handler_writes cfg s c r c' e : handler_step cfg s c r = Some (c', e) ->
  sent c' = sent c \/ (delivered c = true /\ sent c' = S (sent c) /\
                       exists rest others, take_handler r (hs c) = Some (HWrite :: rest, others)).
Proof.
  unfold handler_step. intros H. destruct (take_handler r (hs c)) as [[sc others]|] eqn:Et; [|discriminate].
  destruct sc as [|h rest]; [inversion H; subst; left; reflexivity|].
  destruct (negb (hstep_enabled s c h)); [discriminate|].
  destruct h; [|destruct (recovery cfg && handler_rec cfg)|..]; inversion H; subst; cbn [sent frame_of]; try (left; lia).
  destruct (delivered c); [right; split; [reflexivity|]; split; [lia|]; exists rest, others; reflexivity|left; lia].
Qed.

(* ---------------------------------------------------------------- *)
(* C13                                                                *)

Definition is_req (it : item) : Prop := match it with IReq _ _ => True | _ => False end.

Lemma after_plain_split l : exists d, l = d ++ after_plain l /\ Forall is_req d.
Proof.
  induction l as [|it r IH]; [exists []; split; [reflexivity|constructor]|].
  destruct it as [k sc| |]; cbn [after_plain]; try (exists []; split; [reflexivity|constructor]).
  destruct IH as (d & E & F). exists (IReq k sc :: d). split; [cbn; rewrite <- E; reflexivity|constructor; [exact I|exact F]].
Qed.

(* while the StartTLS (or Unbind) handler runs on the loop goroutine, a step of that
   goroutine executes the handler: it dispatches no request (the read counter and the
   handlers started do not change).  The only step that takes anything from the input is the
   handshake: it takes the client's handshake bytes (a ClientHello, or bytes that are none: the
   handshake then fails), and the requests the client had pipelined in the clear in front of
   them disappear with the old reader - they are never served *)
Theorem c13_inline cfg s c c' e k sc : conn_step cfg s c = Some (c', e) -> pc c = CInline k sc ->
  nread c' = nread c /\ started c' = started c /\
  (input c' = input c \/
   exists rest d, sc = HHandshake :: rest /\ Forall is_req d /\
                  (input c = d ++ IHello :: input c' \/ input c = d ++ IBad :: input c')).
Proof.
  unfold conn_step. intros H Hpc. rewrite Hpc in H.
  destruct sc as [|h rest]; [destruct k; inversion H; subst; cbn; auto|].
  destruct (negb (hstep_enabled s c h)); [discriminate|].
  destruct h; [|destruct (recovery cfg)|..]; try (inversion H; subst; cbn; auto; fail).
  inversion H; subst; cbn. split; [reflexivity|]. split; [reflexivity|].
  destruct (after_plain_split (input c)) as (d & E & F).
  destruct (after_plain (input c)) as [|[| |] r] eqn:Ea; auto; right; exists rest, d;
    (split; [reflexivity|]); (split; [exact F|]); [right|left]; exact E.
Qed.

(* per-request goroutines never touch the input or the read counter either *)
Theorem c13_handlers_do_not_read cfg s c r c' e : handler_step cfg s c r = Some (c', e) ->
  input c' = input c /\ nread c' = nread c /\ pc c' = pc c.
Proof.
  unfold handler_step. intros H. destruct (take_handler r (hs c)) as [[sc others]|]; [|discriminate].
  destruct sc as [|h rest]; [inversion H; subst; auto|].
  destruct (negb (hstep_enabled s c h)); [discriminate|].
  destruct h; [|destruct (recovery cfg && handler_rec cfg)|..]; inversion H; subst; auto.
Qed.

(* a conforming client (handshake bytes first in the input when the handler
   reaches Request.StartTLS): the handshake step is enabled and consumes them *)
Theorem c13_first_byte cfg s c k rest inp : pc c = CInline k (HHandshake :: rest) -> input c = IHello :: inp ->
  exists c', conn_step cfg s c = Some (c', ENone) /\ input c' = inp /\
             pc c' = CInline k (stale_script rest) /\ hs c' = stale_hs (hs c).
Proof.
  intros Hpc Hin. unfold conn_step. rewrite Hpc. cbn [hstep_enabled]. rewrite Hin. cbn [negb].
  eexists. split; [reflexivity|]. repeat split; reflexivity.
Qed.

(* "after a successful upgrade every byte is TLS-protected" - for the handlers that start
   afterwards.  A handler that was already running keeps the ResponseWriter it was given, and
   that one writes to the raw socket: at the upgrade its remaining writes become stale writes.
   Nothing is staled exactly when nothing was in flight and the StartTLS handler itself writes
   nothing more. *)
Theorem c13_clean_upgrade cfg s c k rest inp c' e :
  pc c = CInline k (HHandshake :: rest) -> input c = IHello :: inp -> conn_step cfg s c = Some (c', e) ->
  hs c = [] -> Forall (fun h => h <> HWrite) rest -> hs c' = [] /\ pc c' = CInline k rest.
Proof.
  intros Hpc Hin Hs Hh Hr. destruct (c13_first_byte cfg s c k rest inp Hpc Hin) as (c1 & E & _ & Hp & Hhs).
  rewrite E in Hs. inversion Hs; subst. rewrite Hhs, Hh, Hp. split; [reflexivity|]. f_equal.
  clear - Hr. unfold stale_script. induction Hr as [|h r Hh Hr IH]; [reflexivity|].
  cbn [map]. rewrite IH. destruct h; try reflexivity. exfalso. apply Hh. reflexivity.
Qed.

(* the statement at full strength is false of the code: a request whose handler is still
   running when a later StartTLS on the same connection completes is answered in the clear.
   Client: Search, StartTLS, ClientHello; the search handler answers after the handshake. *)
Definition late_writer_run : list label :=
  [ECallRun true true; LRun; LRun; EConnect; LRun; LRun; LConn 0; LConn 0;
   ESend 0 (IReq KNormal [HBarrier 5; HWrite]); LConn 0; LConn 0;
   ESend 0 (IReq KStartTLS [HWrite; HHandshake]); LConn 0; LConn 0; ESend 0 IHello; LConn 0;
   ERelease 5; LHandler 0 1].

Lemma c13_late_writer_refuted :
  exists s c c', run_labels fixed_cfg init late_writer_run = Some s /\ nth_error (conns s) 0 = Some c /\
    pc c = CInline KStartTLS [] /\ hs c = [(1, [HStaleWrite])] /\ sent c = 1 /\
    handler_step fixed_cfg s c 1 = Some (c', ENone) /\ eof c' = true /\ sent c' = 1.
Proof.
  eexists. eexists. eexists.
  split; [vm_compute; reflexivity|].
  split; [reflexivity|].
  split; [reflexivity|]. split; [reflexivity|]. split; [reflexivity|].
  split; [vm_compute; reflexivity|].
  split; reflexivity.
Qed.

(* ---------------------------------------------------------------- *)
(* C17                                                                *)

Theorem c17_ready_means_listening cfg s : ready_on_error cfg = false -> reachable cfg s ->
  ready s = true -> stops s = [] -> accept_failed s = false ->
  lst s = Listening /\ in_loop (run s) = true /\ port_bound s = true.
Proof.
  intros Hroe Hr Hrd Hst Haf.
  destruct (srv_inv_reachable cfg s Hr) as (P1 & _ & _ & R1 & R2 & R3 & _ & R5 & _).
  specialize (R1 Hroe Hrd).
  assert (lst s = Listening) as El.
  { destruct (lst s) eqn:E; [congruence|reflexivity|specialize (R3 eq_refl); congruence]. }
  split; [exact El|]. split; [|rewrite P1, El; reflexivity].
  destruct (R2 El) as [H|[[_ H]|[H _]]]; [exact H|congruence|specialize (R5 H); congruence].
Qed.

Theorem c17_run_error cfg s : ready_on_error cfg = false -> reachable cfg s ->
  run s = RRet true -> accept_failed s = false -> ready s = false.
Proof.
  intros Hroe Hr He Haf. destruct (srv_inv_reachable cfg s Hr) as (_ & _ & _ & _ & _ & _ & _ & _ & R6 & _). auto.
Qed.

(* while Ready() is true and Stop has not been called, a connection attempt is
   accepted into the backlog and the accept loop is there to take it *)
Theorem c17_connect_succeeds cfg s : ready_on_error cfg = false -> reachable cfg s -> alive s = true ->
  ready s = true -> stops s = [] -> accept_failed s = false -> step cfg s EConnect <> None.
Proof.
  intros Hroe Hr Hal Hrd Hst Haf. destruct (c17_ready_means_listening cfg s Hroe Hr Hrd Hst Haf) as (El & _).
  unfold step. rewrite Hal, El. discriminate.
Qed.

(* with the retry, the accept_failed hypothesis of the three theorems above is
   discharged: descriptor exhaustion at accept time does not stop the server *)
Theorem c07_accepting_despite_accept_errors cfg s :
  accept_retry cfg = true -> ready_on_error cfg = false -> reachable cfg s -> alive s = true ->
  ready s = true -> stops s = [] ->
  step cfg s EConnect <> None /\ in_loop (run s) = true /\ lst s = Listening.
Proof.
  intros Har Hroe Hr Hal Hrd Hst. pose proof (accept_never_fails cfg s Har Hr) as Haf.
  destruct (c17_ready_means_listening cfg s Hroe Hr Hrd Hst Haf) as (El & Hl & _).
  split; [apply c17_connect_succeeds; assumption|]. split; assumption.
Qed.

(* the transition itself: an Accept error sends Run round the loop with the same
   connection id and the wait group restored *)
Theorem c07_accept_error_step cfg s :
  accept_retry cfg = true -> run s = RAcceptWait -> lst s = Listening -> accept_err s = true ->
  exists s', run_step cfg s = Some s' /\ run s' = RTop /\ nextid s' = pred (nextid s) /\ conns s' = conns s /\
             accept_err s' = false /\ accept_failed s' = accept_failed s /\ ready s' = ready s /\ lst s' = Listening.
Proof.
  intros Har Er El Ee. unfold run_step. rewrite Er, El, Ee, Har. eexists. split; [reflexivity|]. cbn. repeat split; auto.
Qed.

Lemma c17_pinned_refuted :
  exists s, run_labels pinned_cfg init [ECallRun true false; LRun] = Some s /\ run s = RRet true /\ ready s = true.
Proof. eexists. split; [vm_compute; reflexivity|]. split; reflexivity. Qed.

(* non-vacuity: a reachable state of the current configuration with two
   connections, a handler in flight and a Stop in progress *)
Example reachable_example :
  exists s, run_labels fixed_cfg init
              [ECallRun true true; LRun; LRun; EConnect; EConnect; LRun; LRun; LRun; LRun; LRun;
               LConn 0; LConn 0; ESend 0 (IReq KNormal [HBarrier 1; HWrite]); LConn 0; LConn 1;
               ECallStop; LStop 0; LStop 0] = Some s /\
            length (conns s) = 2 /\ ready s = true /\ cancelled s = true /\ stopped s = false.
Proof. eexists. split; [vm_compute; reflexivity|]. repeat split. Qed.
