(* Addr.v - server.go validateAddrPort, function for function.
   The four questions the Go code asks other packages are oracle bits of the
   model, each about a substring the code determines:
     o_trim_ip   netip.ParseAddr(strings.Trim(rawHost, "[]")) succeeds
     o_resolves  net.DefaultResolver.LookupHost(rawHost) returns something
     o_host_addr netip.ParseAddr(rawHost) succeeds
     o_host_ip   net.ParseIP(rawHost) != nil
   The correspondence run computes them with the same library calls and hands them
   to the model together with the address. *)

From G Require Import Base.
From Coq Require Import List NArith Bool Lia.
Import ListNotations.
Open Scope N_scope.

Record addr_oracle := { o_trim_ip : bool; o_resolves : bool; o_host_addr : bool; o_host_ip : bool }.

Definition colon : N := 58.
Definition lbr : N := 91.
Definition rbr : N := 93.

(* split at the LAST colon: Some (host, port) *)
Fixpoint split_last (s : bytes) : option (bytes * bytes) :=
  match s with
  | [] => None
  | b :: r =>
    match split_last r with
    | Some (h, p) => Some (b :: h, p)
    | None => if b =? colon then Some ([], r) else None
    end
  end.

Definition has_byte (b : N) (s : bytes) : bool := existsb (N.eqb b) s.
Definition first_is (b : N) (s : bytes) : bool := match s with x :: _ => x =? b | [] => false end.
Definition last_is (b : N) (s : bytes) : bool := match rev s with x :: _ => x =? b | [] => false end.

Definition loopback6 : bytes := [58; 58; 49].      (* "::1" *)

Definition validate_addr (o : addr_oracle) (addr : bytes) : outcome bytes :=
  match split_last addr with
  | None => Err                                               (* missing port *)
  | Some (host, port) =>
    match port, host with
    | [], _ => Err                                            (* missing port *)
    | _, [] => Ok (colon :: port)
    | _, _ =>
      if first_is lbr addr && last_is rbr addr then Err       (* "[...]" with nothing after it *)
      else if first_is lbr host then
        (* ipv6 literal with brackets *)
        if negb (has_byte rbr host) then Err
        else if negb (o_trim_ip o) then Err
        else Ok (host ++ colon :: port)
      else if o_resolves o then
        if beq_bytes host loopback6 then Ok (lbr :: host ++ rbr :: colon :: port)
        else Ok (host ++ colon :: port)
      else if has_byte colon host then
        (* ipv6 literal without brackets *)
        if negb (o_host_addr o) then Err else Ok (lbr :: host ++ rbr :: colon :: port)
      else if negb (o_host_ip o) then Err
      else Ok (host ++ colon :: port)
    end
  end.
