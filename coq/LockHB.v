(* LockHB.v - why the discipline of Access.v excludes data races: in every trace
   that respects mutex semantics, two accesses by different goroutines that are
   both performed while holding the same mutex are ordered by happens-before
   (program order, and Unlock -> any later Lock of the same mutex: the Go memory
   model's rule for sync.Mutex).  Unbounded: any trace, any number of goroutines,
   mutexes and events.  An RWMutex is modelled with RLock as an exclusive
   acquire: that removes only the overlap of two readers, who do not conflict.  *)

From Coq Require Import List Arith Lia.
Import ListNotations.

Inductive act := Acq (m : nat) | Rel (m : nat) | Acc (loc : nat) (w : bool).
Record ev := mkEv { thr : nat; what : act }.
Definition trace := list ev.

Definition lockst := nat -> option nat.
Definition upd (h : lockst) (m : nat) (v : option nat) : lockst :=
  fun m' => if Nat.eqb m' m then v else h m'.
Definition init : lockst := fun _ => None.

Definition step (h : lockst) (e : ev) : lockst :=
  match what e with
  | Acq m => upd h m (Some (thr e))
  | Rel m => upd h m None
  | Acc _ _ => h
  end.
Definition run (h : lockst) (tr : trace) : lockst := fold_left step tr h.

(* mutex semantics: Lock only when free, Unlock only by the holder *)
Fixpoint valid (h : lockst) (tr : trace) : Prop :=
  match tr with
  | [] => True
  | e :: r =>
      match what e with
      | Acq m => h m = None
      | Rel m => h m = Some (thr e)
      | Acc _ _ => True
      end /\ valid (step h e) r
  end.

Inductive hb (tr : trace) : nat -> nat -> Prop :=
| hb_po i j ei ej : i < j -> nth_error tr i = Some ei -> nth_error tr j = Some ej -> thr ei = thr ej -> hb tr i j
| hb_sync i j ei ej m : i < j -> nth_error tr i = Some ei -> nth_error tr j = Some ej ->
                        what ei = Rel m -> what ej = Acq m -> hb tr i j
| hb_trans i j k : hb tr i j -> hb tr j k -> hb tr i k.

Lemma run_app h a b : run h (a ++ b) = run (run h a) b.
Proof. unfold run. apply fold_left_app. Qed.

Lemma valid_app h a b : valid h (a ++ b) -> valid h a /\ valid (run h a) b.
Proof.
  revert h. induction a as [|e a IH]; intros h H; cbn in *.
  - split; [exact I|exact H].
  - destruct H as [H1 H2]. destruct (IH _ H2) as [Ha Hb]. split; [split; assumption|exact Hb].
Qed.

Lemma upd_same h m v : upd h m v m = v.
Proof. unfold upd. rewrite Nat.eqb_refl. reflexivity. Qed.
Lemma upd_other h m m' v : m' <> m -> upd h m v m' = h m'.
Proof. unfold upd. intros H. apply Nat.eqb_neq in H. rewrite H. reflexivity. Qed.

(* whoever holds m at the end either held it at the start or acquired it on the way *)
Lemma holder_acquired m t : forall l h,
  run h l m = Some t ->
  h m = Some t \/ exists l2 l3, l = l2 ++ mkEv t (Acq m) :: l3.
Proof.
  induction l as [|e r IH]; intros h H.
  - left. exact H.
  - cbn in H. destruct (IH _ H) as [Hh|[l2 [l3 E]]].
    + destruct e as [te [m'|m'|lc w]]; unfold step in Hh; cbn in Hh.
      * destruct (Nat.eq_dec m m') as [->|Hne].
        -- rewrite upd_same in Hh. injection Hh as ->. right. exists [], r. reflexivity.
        -- rewrite upd_other in Hh by exact Hne. left. exact Hh.
      * destruct (Nat.eq_dec m m') as [->|Hne].
        -- rewrite upd_same in Hh. discriminate.
        -- rewrite upd_other in Hh by exact Hne. left. exact Hh.
      * left. exact Hh.
    + right. exists (e :: l2), l3. rewrite E. reflexivity.
Qed.

(* if t1 holds m at the start and t2 <> t1 at the end, t1 released and t2 later acquired *)
Lemma handover m t1 t2 : t1 <> t2 -> forall l h,
  valid h l -> h m = Some t1 -> run h l m = Some t2 ->
  exists l1 l2 l3, l = l1 ++ mkEv t1 (Rel m) :: l2 ++ mkEv t2 (Acq m) :: l3.
Proof.
  intros Hne. induction l as [|e r IH]; intros h Hv Hh Hr.
  - cbn in Hr. congruence.
  - cbn in Hv, Hr. destruct Hv as [Hv1 Hv2].
    destruct e as [te [m'|m'|lc w]]; cbn in Hv1.
    + (* Acq m' *)
      destruct (Nat.eq_dec m m') as [->|Hm]; [congruence|].
      assert (Hs : step h (mkEv te (Acq m')) m = Some t1) by (unfold step; cbn; rewrite upd_other by exact Hm; exact Hh).
      destruct (IH _ Hv2 Hs Hr) as [l1 [l2 [l3 E]]].
      exists (mkEv te (Acq m') :: l1), l2, l3. rewrite E. reflexivity.
    + (* Rel m' *)
      destruct (Nat.eq_dec m m') as [->|Hm].
      * assert (te = t1) by congruence. subst te.
        destruct (holder_acquired m' t2 r _ Hr) as [Hc|[l2 [l3 E]]].
        -- unfold step in Hc; cbn in Hc. rewrite upd_same in Hc. discriminate.
        -- exists [], l2, l3. rewrite E. reflexivity.
      * assert (Hs : step h (mkEv te (Rel m')) m = Some t1) by (unfold step; cbn; rewrite upd_other by exact Hm; exact Hh).
        destruct (IH _ Hv2 Hs Hr) as [l1 [l2 [l3 E]]].
        exists (mkEv te (Rel m') :: l1), l2, l3. rewrite E. reflexivity.
    + assert (Hs : step h (mkEv te (Acc lc w)) m = Some t1) by exact Hh.
      destruct (IH _ Hv2 Hs Hr) as [l1 [l2 [l3 E]]].
      exists (mkEv te (Acc lc w) :: l1), l2, l3. rewrite E. reflexivity.
Qed.

Lemma nth_error_mid {A} (a : list A) x b : nth_error (a ++ x :: b) (length a) = Some x.
Proof. rewrite nth_error_app2 by lia. rewrite Nat.sub_diag. reflexivity. Qed.

(* J1: two accesses of different goroutines under a common mutex are ordered *)
Theorem common_lock_ordered pre e1 mid e2 post m lc1 w1 :
  let tr := pre ++ e1 :: mid ++ e2 :: post in
  valid init tr ->
  what e1 = Acc lc1 w1 ->
  run init pre m = Some (thr e1) ->                      (* e1 runs holding m *)
  run init (pre ++ e1 :: mid) m = Some (thr e2) ->       (* e2 runs holding m *)
  thr e1 <> thr e2 ->
  hb tr (length pre) (length pre + 1 + length mid).
Proof.
  intros tr Hv Ha H1 H2 Hne.
  assert (Hs : step (run init pre) e1 = run init pre) by (unfold step; rewrite Ha; reflexivity).
  assert (Hvm : valid (run init pre) mid).
  { pose proof Hv as Hv'. unfold tr in Hv'. apply valid_app in Hv'. destruct Hv' as [_ Hv'].
    cbn [valid] in Hv'. destruct Hv' as [_ Hv']. rewrite Hs in Hv'.
    apply valid_app in Hv'. exact (proj1 Hv'). }
  rewrite run_app in H2. cbn in H2. fold (run (step (run init pre) e1) mid) in H2. rewrite Hs in H2.
  destruct (handover m (thr e1) (thr e2) Hne mid _ Hvm H1 H2) as [l1 [l2 [l3 E]]].
  set (i := length pre). set (r := i + 1 + length l1). set (q := r + 1 + length l2).
  assert (Etr : tr = pre ++ e1 :: l1 ++ mkEv (thr e1) (Rel m) :: l2 ++ mkEv (thr e2) (Acq m) :: l3 ++ e2 :: post).
  { unfold tr. rewrite E. repeat (rewrite <- app_assoc; cbn). reflexivity. }
  assert (Hi : nth_error tr i = Some e1) by (unfold tr, i; apply nth_error_mid).
  assert (Hr : nth_error tr r = Some (mkEv (thr e1) (Rel m))).
  { rewrite Etr. unfold r, i.
    replace (pre ++ e1 :: l1 ++ mkEv (thr e1) (Rel m) :: l2 ++ mkEv (thr e2) (Acq m) :: l3 ++ e2 :: post)
      with ((pre ++ e1 :: l1) ++ mkEv (thr e1) (Rel m) :: l2 ++ mkEv (thr e2) (Acq m) :: l3 ++ e2 :: post)
      by (rewrite <- app_assoc; reflexivity).
    replace (length pre + 1 + length l1) with (length (pre ++ e1 :: l1)) by (rewrite app_length; cbn; lia).
    apply nth_error_mid. }
  assert (Hq : nth_error tr q = Some (mkEv (thr e2) (Acq m))).
  { rewrite Etr. unfold q, r, i.
    replace (pre ++ e1 :: l1 ++ mkEv (thr e1) (Rel m) :: l2 ++ mkEv (thr e2) (Acq m) :: l3 ++ e2 :: post)
      with ((pre ++ e1 :: l1 ++ mkEv (thr e1) (Rel m) :: l2) ++ mkEv (thr e2) (Acq m) :: l3 ++ e2 :: post)
      by (repeat (rewrite <- app_assoc; cbn); reflexivity).
    replace (length pre + 1 + length l1 + 1 + length l2) with (length (pre ++ e1 :: l1 ++ mkEv (thr e1) (Rel m) :: l2))
      by (rewrite app_length; cbn; rewrite app_length; cbn; lia).
    apply nth_error_mid. }
  assert (Hj : nth_error tr (i + 1 + length mid) = Some e2).
  { unfold tr, i.
    replace (pre ++ e1 :: mid ++ e2 :: post) with ((pre ++ e1 :: mid) ++ e2 :: post) by (rewrite <- app_assoc; reflexivity).
    replace (length pre + 1 + length mid) with (length (pre ++ e1 :: mid)) by (rewrite app_length; cbn; lia).
    apply nth_error_mid. }
  assert (Hlen : length mid = length l1 + 1 + length l2 + 1 + length l3).
  { rewrite E. rewrite app_length. cbn. rewrite app_length. cbn. lia. }
  apply hb_trans with r.
  - eapply hb_po; [|exact Hi|exact Hr|reflexivity]. unfold r. lia.
  - apply hb_trans with q.
    + eapply hb_sync; [|exact Hr|exact Hq|reflexivity|reflexivity]. unfold q. lia.
    + eapply hb_po; [|exact Hq|exact Hj|reflexivity]. unfold q, r. fold i. lia.
Qed.

(* J2: accesses of one goroutine are ordered by program order *)
Theorem same_goroutine_ordered tr i j ei ej :
  i < j -> nth_error tr i = Some ei -> nth_error tr j = Some ej -> thr ei = thr ej -> hb tr i j.
Proof. intros. eapply hb_po; eassumption. Qed.

(* mutual exclusion itself: two goroutines never hold m at once (the state has one holder) *)
Lemma one_holder h tr m t1 t2 : run h tr m = Some t1 -> run h tr m = Some t2 -> t1 = t2.
Proof. congruence. Qed.

(* non-vacuity: a valid two-goroutine trace with both accesses under mutex 0 *)
Example handover_example :
  let tr := [mkEv 1 (Acq 0); mkEv 1 (Acc 7 true); mkEv 1 (Rel 0); mkEv 2 (Acq 0); mkEv 2 (Acc 7 false); mkEv 2 (Rel 0)] in
  valid init tr /\ hb tr 1 4.
Proof.
  split.
  - cbn. repeat split; reflexivity.
  - exact (common_lock_ordered [mkEv 1 (Acq 0)] (mkEv 1 (Acc 7 true)) [mkEv 1 (Rel 0); mkEv 2 (Acq 0)] (mkEv 2 (Acc 7 false)) [mkEv 2 (Rel 0)]
             0 7 true ltac:(cbn; repeat split; reflexivity) eq_refl eq_refl eq_refl ltac:(cbn; lia)).
Qed.

(* ---------------------------------------------------------------- *)
(* J5 (publication): a goroutine writes a location with no lock held, then
   publishes it inside a critical section of m (trackConn under connsMu); another
   goroutine enters a critical section of m later and reads it there.  The write
   is ordered before the read: program order to the Unlock, Unlock -> Lock, program
   order to the read. *)
Theorem publication_ordered tr iw ir iu il ew er eu el m :
  nth_error tr iw = Some ew -> nth_error tr iu = Some eu -> nth_error tr il = Some el -> nth_error tr ir = Some er ->
  iw < iu -> iu < il -> il < ir ->
  thr ew = thr eu -> what eu = Rel m ->
  thr el = thr er -> what el = Acq m ->
  hb tr iw ir.
Proof.
  intros Hw Hu Hl Hr L1 L2 L3 T1 Wu T2 Wl.
  apply hb_trans with iu; [eapply hb_po; eauto|].
  apply hb_trans with il; [eapply hb_sync; eauto|eapply hb_po; eauto].
Qed.

(* ---------------------------------------------------------------- *)
(* J4 (spawn): traces with `go` statements.  [Fork c] by a goroutine starts
   goroutine c; everything the parent did before the statement is ordered before
   everything the child does (Go memory model: the go statement is synchronized
   before the start of the goroutine's execution). *)
Inductive fact := FAct (a : act) | FFork (child : nat).
Record fev := mkFev { fthr : nat; fwhat : fact }.

Inductive fhb (tr : list fev) : nat -> nat -> Prop :=
| fhb_po i j ei ej : i < j -> nth_error tr i = Some ei -> nth_error tr j = Some ej -> fthr ei = fthr ej -> fhb tr i j
| fhb_fork i j ei ej c : i < j -> nth_error tr i = Some ei -> nth_error tr j = Some ej ->
                         fwhat ei = FFork c -> fthr ej = c -> fhb tr i j
| fhb_trans i j k : fhb tr i j -> fhb tr j k -> fhb tr i k.

(* a goroutine does nothing before the go statement that starts it *)
Definition started_by_fork (tr : list fev) (c : nat) (ifork : nat) : Prop :=
  forall j ej, nth_error tr j = Some ej -> fthr ej = c -> ifork < j.

Theorem spawn_ordered tr ip ifork jc ep ef ec c :
  nth_error tr ip = Some ep -> nth_error tr ifork = Some ef -> nth_error tr jc = Some ec ->
  ip < ifork -> fthr ep = fthr ef -> fwhat ef = FFork c -> fthr ec = c ->
  started_by_fork tr c ifork ->
  fhb tr ip jc.
Proof.
  intros Hp Hf Hc L T W Tc Hs.
  pose proof (Hs jc ec Hc Tc) as Lj.
  apply fhb_trans with ifork; [eapply fhb_po; eauto|eapply fhb_fork; eauto].
Qed.

(* and transitively to grandchildren: the per-request goroutines are started by the
   connection's goroutine, which Run started *)
Theorem spawn_ordered_twice tr ip if1 if2 jc ep e1 e2 ec c1 c2 :
  nth_error tr ip = Some ep -> nth_error tr if1 = Some e1 -> nth_error tr if2 = Some e2 -> nth_error tr jc = Some ec ->
  ip < if1 -> fthr ep = fthr e1 -> fwhat e1 = FFork c1 ->
  fthr e2 = c1 -> fwhat e2 = FFork c2 -> fthr ec = c2 ->
  started_by_fork tr c1 if1 -> started_by_fork tr c2 if2 ->
  fhb tr ip jc.
Proof.
  intros Hp H1 H2 Hc L T W1 T2 W2 Tc S1 S2.
  pose proof (S1 if2 e2 H2 T2) as L12. pose proof (S2 jc ec Hc Tc) as L2c.
  apply fhb_trans with if1; [eapply fhb_po; eauto|].
  apply fhb_trans with if2; [eapply fhb_fork; eauto|eapply fhb_fork; eauto].
Qed.
