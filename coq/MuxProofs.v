(* MuxProofs.v — C03: registration order is precedence order, exactly one
   handler (the first matching route, else the default route), else a refusal
   the client recognises; for ANY case-insensitive comparison function. *)
From G Require Import Base Ber BerProofs Helpers Ldap LdapProofs LdapRoundTrip Response ResponseProofs Mux.
Ltac Zify.zify_post_hook ::= Z.div_mod_to_equations.
Open Scope N_scope.

(* ---------------------------------------------------------------- *)
(* registration                                                       *)

Definition reg_routes (g : reg) : list (route * hid) :=
  match g with RegRoute r (Some h) => [(r, h)] | _ => [] end.

Fixpoint last_default (gs : list reg) (acc : option hid) : option hid :=
  match gs with
  | [] => acc
  | RegDefault (Some h) :: r => last_default r (Some h)
  | _ :: r => last_default r acc
  end.
Fixpoint last_unbind (gs : list reg) (acc : option hid) : option hid :=
  match gs with
  | [] => acc
  | RegUnbind (Some h) :: r => last_unbind r (Some h)
  | _ :: r => last_unbind r acc
  end.

Lemma build_from gs : forall m,
  let m' := fold_left (fun m g => fst (register m g)) gs m in
  routes m' = routes m ++ flat_map reg_routes gs /\
  dflt m' = last_default gs (dflt m) /\ unbind m' = last_unbind gs (unbind m).
Proof.
  induction gs as [|g gs IH]; intros m; cbn [fold_left flat_map last_default last_unbind].
  - rewrite app_nil_r. auto.
  - destruct (IH (fst (register m g))) as (Hr & Hd & Hu). cbn zeta in *.
    rewrite Hr, Hd, Hu. clear.
    destruct g as [r [h|]|[h|]|[h|]]; cbn [register fst routes dflt unbind reg_routes app];
      rewrite <- ?app_assoc; auto.
Qed.

Theorem registration_order gs :
  routes (build gs) = flat_map reg_routes gs /\
  dflt (build gs) = last_default gs None /\ unbind (build gs) = last_unbind gs None.
Proof. unfold build. destruct (build_from gs mux_empty) as (a & b & c). cbn zeta in *. rewrite a, b, c. auto. Qed.

(* a nil handler is an error and changes nothing; every call is total *)
Theorem register_nil_rejected m :
  (forall r, register m (RegRoute r None) = (m, false)) /\
  register m (RegDefault None) = (m, false) /\ register m (RegUnbind None) = (m, false).
Proof. repeat split; reflexivity. Qed.

Lemma enc_len_le9 n : (length (enc_len n) <= 10)%nat.
Proof. unfold enc_len. pose proof (be_digits_len 8 n). destruct (n <=? 127); cbn [length]; lia. Qed.

Section WithFold.
  Variable eqfold : bytes -> bytes -> bool.

  (* ---------------------------------------------------------------- *)
  (* match predicates                                                   *)

  Theorem matches_search b f s m : matches eqfold (RtSearch b f s) m = true <->
    exists id base scope deref size time ty filter attrs cs,
      m = MSearch id base scope deref size time ty filter attrs cs /\
      (b = [] \/ eqfold base b = true) /\ (f = [] \/ eqfold filter f = true) /\ (s = 0%Z \/ scope = s).
  Proof.
    split.
    - destruct m; cbn [matches]; try discriminate. intros H.
      repeat (apply andb_true_iff in H; destruct H as [H ?]).
      do 10 eexists. split; [reflexivity|].
      repeat split.
      + apply orb_true_iff in H. destruct H as [H|H]; [left; destruct b; [reflexivity|discriminate]|right; exact H].
      + apply orb_true_iff in H1. destruct H1 as [H1|H1]; [left; destruct f; [reflexivity|discriminate]|right; exact H1].
      + apply orb_true_iff in H0. destruct H0 as [H0|H0]; [left|right]; lia.
    - intros (id & base & scope & deref & size & time & ty & filter & attrs & cs & -> & Hb & Hf & Hs).
      cbn [matches]. repeat (apply andb_true_iff; split); apply orb_true_iff.
      + destruct Hb as [->|Hb]; [left; reflexivity|right; exact Hb].
      + destruct Hf as [->|Hf]; [left; reflexivity|right; exact Hf].
      + destruct Hs as [->|Hs]; [left; reflexivity|right; lia].
  Qed.

  Theorem matches_ext n m : matches eqfold (RtExt n) m = true <-> exists id, m = MExt id n.
  Proof.
    split.
    - destruct m; cbn [matches]; try discriminate. intros H. apply beq_bytes_eq in H. subst. eauto.
    - intros (id & ->). cbn [matches]. apply beq_bytes_refl.
  Qed.

  Theorem matches_op r m : matches eqfold r m = true ->
    match r with
    | RtBind => msg_op m = OpBind | RtSearch _ _ _ => msg_op m = OpSearch | RtExt _ => msg_op m = OpExt
    | RtModify => msg_op m = OpModify | RtAdd => msg_op m = OpAdd | RtDelete => msg_op m = OpDel
    end.
  Proof. destruct r, m; cbn [matches]; try discriminate; reflexivity. Qed.

  (* ---------------------------------------------------------------- *)
  (* first match                                                        *)

  Theorem first_match_spec rs m h : first_match eqfold rs m = Some h <->
    exists i r, nth_error rs i = Some (r, h) /\ matches eqfold r m = true /\
                forall j r' h', (j < i)%nat -> nth_error rs j = Some (r', h') -> matches eqfold r' m = false.
  Proof.
    revert h; induction rs as [|[r0 h0] rs IH]; intros h; cbn [first_match].
    - split; [discriminate|]. intros (i & r & H & _). destruct i; discriminate.
    - destruct (matches eqfold r0 m) eqn:E.
      + split.
        * intros H. inversion H; subst. exists 0%nat, r0. split; [reflexivity|]. split; [exact E|]. intros; lia.
        * intros (i & r & Hn & Hm & Hlt). destruct i as [|i].
          -- cbn in Hn. inversion Hn; subst. reflexivity.
          -- specialize (Hlt 0%nat r0 h0 ltac:(lia) eq_refl). congruence.
      + rewrite IH. split.
        * intros (i & r & Hn & Hm & Hlt). exists (S i), r. split; [exact Hn|]. split; [exact Hm|].
          intros j r' h' Hj Hnj. destruct j as [|j]; [cbn in Hnj; inversion Hnj; subst; exact E|].
          apply (Hlt j r' h'); [lia|exact Hnj].
        * intros (i & r & Hn & Hm & Hlt). destruct i as [|i].
          -- cbn in Hn. inversion Hn; subst. congruence.
          -- exists i, r. split; [exact Hn|]. split; [exact Hm|]. intros j r' h' Hj Hnj.
             apply (Hlt (S j) r' h'); [lia|exact Hnj].
  Qed.

  Lemma first_match_none rs m : first_match eqfold rs m = None <->
    forall r h, In (r, h) rs -> matches eqfold r m = false.
  Proof.
    induction rs as [|[r0 h0] rs IH]; cbn [first_match].
    - split; [intros _ r h []|reflexivity].
    - destruct (matches eqfold r0 m) eqn:E.
      + split; [discriminate|]. intros H. specialize (H r0 h0 (or_introl eq_refl)). congruence.
      + rewrite IH. split.
        * intros H r h [Heq|Hin]; [inversion Heq; subst; exact E|eauto].
        * intros H r h Hin. apply (H r h). right. exact Hin.
  Qed.

  (* ---------------------------------------------------------------- *)
  (* serve                                                              *)

  Theorem serve_run tagfix mx m h : serve eqfold tagfix mx m = Run h <->
    first_match eqfold (routes mx) m = Some h \/
    (first_match eqfold (routes mx) m = None /\ dflt mx = Some h).
  Proof.
    unfold serve. destruct (first_match eqfold (routes mx) m) as [h'|].
    - split; [intros H; inversion H; auto|]. intros [H|[H _]]; [inversion H; reflexivity|discriminate].
    - destruct (dflt mx) as [d|].
      + split; [intros H; inversion H; auto|]. intros [H|[_ H]]; [discriminate|inversion H; reflexivity].
      + split.
        * intros H. destruct (new_response _ _ _ _ _); discriminate.
        * intros [H|[_ H]]; discriminate.
  Qed.

  (* exactly one handler, or none and a refusal: never two *)
  Theorem serve_exactly_once tagfix mx m :
    (exists h, serve eqfold tagfix mx m = Run h /\ serve_trace eqfold tagfix mx m = [h]) \/
    (exists r, serve eqfold tagfix mx m = Refuse r /\ serve_trace eqfold tagfix mx m = []).
  Proof.
    unfold serve_trace. destruct (serve eqfold tagfix mx m) as [h|r]; [left|right]; eauto.
  Qed.

  (* the built-in refusal: unwillingToPerform, the request's message id, and
     the response type that belongs to the request's operation *)
  Theorem serve_refusal prim_ok mx m : first_match eqfold (routes mx) m = None -> dflt mx = None ->
    int64_ok (msg_id m) = true ->
    exists resp, serve eqfold true mx m = Refuse resp /\
      parse_response prim_ok (response_bytes resp) =
      Some (PResult (msg_id m) (Z.to_N (response_tag (msg_op m))) 53 unused no_handler_msg []).
  Proof.
    intros Hn Hd Hid. unfold serve. rewrite Hn, Hd.
    eexists. split; [reflexivity|].
    rewrite parse_response_bytes.
    - unfold expected. cbn [r_kind mk_resp r_id r_code r_matched r_diag r_app].
      destruct (msg_op m); reflexivity.
    - unfold wf_response. cbn [r_id r_code r_app mk_resp]. rewrite Hid.
      assert (Hsz : N.of_nat (length (response_bytes
                (mk_resp KGeneral (msg_id m) (int16_of 53) no_handler_msg unused (response_tag (msg_op m))))) <= 2147483647).
      { unfold response_bytes, packet_of. cbn [r_kind mk_resp r_id r_code r_matched r_diag r_app].
        set (op := app_tagged _ _).
        assert (length (bytes_of op) <= 60)%nat as Hop.
        { subst op. unfold app_tagged, bytes_of, mk_cons. cbn [p_id p_data].
          rewrite !app_length.
          assert (length (enc_ident {| cls := 64; cons := true; tag := tag_of_int (response_tag (msg_op m)) |}) = 1)%nat as ->
            by (destruct (msg_op m); reflexivity).
          match goal with |- context [length (concat ?l)] =>
            let x := eval vm_compute in (length (concat l)) in change (length (concat l)) with x end.
          match goal with |- context [enc_len ?n] => pose proof (enc_len_le9 n) end. lia. }
        unfold seq, mk_cons, bytes_of at 1. cbn [p_id p_data map concat]. rewrite ?app_nil_r, !app_length.
        change (length (enc_ident {| cls := 0; cons := true; tag := 16 |})) with 1%nat.
        match goal with |- context [length (enc_len ?n)] => pose proof (enc_len_le9 n) end.
        assert (length (bytes_of (integer (msg_id m))) <= 19)%nat as Hint.
        { unfold integer, new_integer, bytes_of. cbn [p_id p_data]. rewrite !app_length.
          change (length (enc_ident {| cls := 0; cons := false; tag := 2 |})) with 1%nat.
          rewrite enc_int_length.
          match goal with |- context [length (enc_len ?n)] => pose proof (enc_len_le9 n) end.
          pose proof (int64_len_bound (msg_id m) (int64_ok_range _ Hid)) as [Hl _]. cbn zeta in Hl. lia. }
        lia. }
      destruct (msg_op m); cbn in *; try reflexivity; rewrite ?andb_true_r; apply N.leb_le; exact Hsz.
  Qed.

  (* histories: every served request is answered by the mux built from exactly
     the registration calls made before it, whatever was served in between *)

  Lemma run_events_from tagfix mx pre m post :
    run_events eqfold tagfix mx (pre ++ EvServe m :: post) =
    run_events eqfold tagfix mx pre ++
    serve eqfold tagfix (fold_left (fun m g => fst (register m g)) (regs_of pre) mx) m ::
    run_events eqfold tagfix (fold_left (fun m g => fst (register m g)) (regs_of pre) mx) post.
  Proof.
    revert mx. induction pre as [|e pre IH]; intros mx; cbn [app run_events regs_of flat_map fold_left].
    - reflexivity.
    - destruct e as [g|m']; cbn [app fold_left].
      + rewrite IH. reflexivity.
      + rewrite IH. reflexivity.
  Qed.

  Theorem run_events_history tagfix pre m post :
    run_events eqfold tagfix mux_empty (pre ++ EvServe m :: post) =
    run_events eqfold tagfix mux_empty pre ++
    serve eqfold tagfix (build (regs_of pre)) m ::
    run_events eqfold tagfix (build (regs_of pre)) post.
  Proof. unfold build. apply run_events_from. Qed.

  (* one answer per served request, in order *)
  Theorem run_events_length tagfix mx evs :
    length (run_events eqfold tagfix mx evs) =
    length (List.filter (fun e => match e with EvServe _ => true | EvReg _ => false end) evs).
  Proof.
    revert mx. induction evs as [|e evs IH]; intros mx; [reflexivity|].
    destruct e as [g|m]; cbn [run_events List.filter length]; rewrite IH; reflexivity.
  Qed.

  (* registrations made later never take a request away from a route that
     already matches it: precedence is by registration order and nothing else *)
  Lemma first_match_app_some rs rs' m h :
    first_match eqfold rs m = Some h -> first_match eqfold (rs ++ rs') m = Some h.
  Proof.
    induction rs as [|[r h0] rs IH]; cbn [first_match app]; [discriminate|].
    destruct (matches eqfold r m); auto.
  Qed.

  Lemma first_match_app_none rs rs' m :
    first_match eqfold rs m = None -> first_match eqfold (rs ++ rs') m = first_match eqfold rs' m.
  Proof.
    induction rs as [|[r h0] rs IH]; cbn [first_match app]; [reflexivity|].
    destruct (matches eqfold r m); [discriminate|auto].
  Qed.

  Theorem serve_stable_under_registration tagfix mx g m h :
    first_match eqfold (routes mx) m = Some h ->
    serve eqfold tagfix (fst (register mx g)) m = Run h.
  Proof.
    intros H. unfold serve.
    destruct g as [r [h'|]|[h'|]|[h'|]]; cbn [register fst routes];
      rewrite ?(first_match_app_some _ _ _ _ H), ?H; reflexivity.
  Qed.

  Theorem serve_stable_under_registrations tagfix gs : forall mx m h,
    first_match eqfold (routes mx) m = Some h ->
    serve eqfold tagfix (fold_left (fun m g => fst (register m g)) gs mx) m = Run h.
  Proof.
    induction gs as [|g gs IH]; intros mx m h H; cbn [fold_left].
    - unfold serve. rewrite H. reflexivity.
    - apply IH. destruct g as [r [h'|]|[h'|]|[h'|]]; cbn [register fst routes]; auto using first_match_app_some.
  Qed.

  (* a default route registered at any time is used only when no route matches;
     a route registered after it still takes precedence over it *)
  Theorem serve_route_beats_default tagfix mx r h d m :
    first_match eqfold (routes mx) m = None -> matches eqfold r m = true ->
    serve eqfold tagfix (fst (register (fst (register mx (RegDefault (Some d)))) (RegRoute r (Some h)))) m = Run h.
  Proof.
    intros Hn Hm. unfold serve. cbn [register fst routes].
    rewrite (first_match_app_none _ _ _ Hn). cbn [first_match]. rewrite Hm. reflexivity.
  Qed.

  (* the pinned refusal was an ExtendedResponse for every operation *)
  Lemma serve_refusal_pinned_refuted :
    exists resp, serve eqfold false mux_empty (MSearch 2 [] 0 0 0 0 false [] [] []) = Refuse resp /\
                 r_app resp = 24%Z.
  Proof. eexists. split; reflexivity. Qed.
End WithFold.

(* non-vacuity: a table where a later, more specific route is shadowed *)
Example serve_example :
  serve ascii_eqfold true
        (build [RegRoute (RtSearch [100; 99] [] 0) (Some 1%nat); RegDefault (Some 9%nat);
                RegRoute (RtSearch [] [] 2) (Some 2%nat); RegRoute RtBind None])
        (MSearch 7 [68; 67] 2 0 0 0 false [40; 41] [] []) = Run 1%nat.
Proof. reflexivity. Qed.
