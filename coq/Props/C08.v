(* C08 - each connection is closed and reported via OnClose once, after its handlers end.
   ONLY statements.  The model is the labelled transition system of Sys.v:
   every interleaving of the Run thread, any number of Stop calls, connection
   goroutines, per-request goroutines (with arbitrary handler scripts) and the
   environment (clients, barriers, slow OnClose).  [reachable cfg s]: s is the
   result of some label sequence from the initial state.  The boolean fields
   of [cfg] are the places where the pinned and the current tree differ;
   [fixed_cfg] is the current tree (validated behaviourally on every run by the
   scenario correspondence), [pinned_cfg] the tree before the fix commits. *)
From G Require Import Base Sys SysProofs SysProps.
Open Scope nat_scope.

Theorem C08_once_after_handlers : forall cfg s i c, reachable cfg s -> conn_of s i c ->
  onclose c <= 1 /\ (onclose c = 1 -> inflight c = 0 /\ hs c = [] /\ sock_closed c = true).
Proof. exact c08_once_after_handlers. Qed.
Print Assumptions C08_once_after_handlers.

Theorem C08_every_ending : forall cfg s i c, reachable cfg s -> conn_of s i c -> pc c = CDone ->
  onclose c = (if has_onclose cfg then 1 else 0) /\ sock_closed c = true /\ inflight c = 0 /\ wgdone c = true.
Proof. exact c08_every_ending. Qed.
Print Assumptions C08_every_ending.

Theorem C08_funnel : forall cfg s c c' e, conn_step cfg s c = Some (c', e) ->
  (match pc c with CTeardown _ | CDone => False | _ => True end) ->
  (match pc c' with CTeardown todo => todo = teardown_of cfg | CDone => False | _ => True end).
Proof. exact c08_funnel. Qed.
Print Assumptions C08_funnel.
