(* C03 — each request is served by exactly one handler: the first matching
   route, else the default route, else a refusal the client recognises.
   ONLY statements.  Everything holds for ANY comparison function [eqfold]
   (strings.EqualFold is one); [build gs] is the mux after the registration
   calls [gs] (nil handlers included), [serve eqfold true] is Mux.serve of the
   current tree. *)
From G Require Import Base Ber Ldap LdapRoundTrip Response ResponseProofs Mux MuxProofs.
Open Scope N_scope.

Theorem C03_registration_order : forall gs,
  routes (build gs) = flat_map reg_routes gs /\
  dflt (build gs) = last_default gs None /\ unbind (build gs) = last_unbind gs None.
Proof. exact registration_order. Qed.
Print Assumptions C03_registration_order.

Theorem C03_first_match : forall eqfold rs m h, first_match eqfold rs m = Some h <->
  exists i r, nth_error rs i = Some (r, h) /\ matches eqfold r m = true /\
              forall j r' h', (j < i)%nat -> nth_error rs j = Some (r', h') -> matches eqfold r' m = false.
Proof. exact first_match_spec. Qed.
Print Assumptions C03_first_match.

Theorem C03_serve : forall eqfold tagfix mx m h, serve eqfold tagfix mx m = Run h <->
  first_match eqfold (routes mx) m = Some h \/
  (first_match eqfold (routes mx) m = None /\ dflt mx = Some h).
Proof. exact serve_run. Qed.
Print Assumptions C03_serve.

Theorem C03_exactly_once : forall eqfold tagfix mx m,
  (exists h, serve eqfold tagfix mx m = Run h /\ serve_trace eqfold tagfix mx m = [h]) \/
  (exists r, serve eqfold tagfix mx m = Refuse r /\ serve_trace eqfold tagfix mx m = []).
Proof. exact serve_exactly_once. Qed.
Print Assumptions C03_exactly_once.

Theorem C03_match_search : forall eqfold b f s m, matches eqfold (RtSearch b f s) m = true <->
  exists id base scope deref size time ty filter attrs cs,
    m = MSearch id base scope deref size time ty filter attrs cs /\
    (b = [] \/ eqfold base b = true) /\ (f = [] \/ eqfold filter f = true) /\ (s = 0%Z \/ scope = s).
Proof. exact matches_search. Qed.
Print Assumptions C03_match_search.

Theorem C03_match_ext : forall eqfold n m, matches eqfold (RtExt n) m = true <-> exists id, m = MExt id n.
Proof. exact matches_ext. Qed.
Print Assumptions C03_match_ext.

Theorem C03_match_op : forall eqfold r m, matches eqfold r m = true ->
  match r with
  | RtBind => msg_op m = OpBind | RtSearch _ _ _ => msg_op m = OpSearch | RtExt _ => msg_op m = OpExt
  | RtModify => msg_op m = OpModify | RtAdd => msg_op m = OpAdd | RtDelete => msg_op m = OpDel
  end.
Proof. exact matches_op. Qed.
Print Assumptions C03_match_op.

(* no route and no default: unwillingToPerform (53), the request's message
   id, the response type of the request's operation, one well-formed message *)
Theorem C03_refusal : forall eqfold prim_ok mx m,
  first_match eqfold (routes mx) m = None -> dflt mx = None -> int64_ok (msg_id m) = true ->
  exists resp, serve eqfold true mx m = Refuse resp /\
    parse_response prim_ok (response_bytes resp) =
    Some (PResult (msg_id m) (Z.to_N (response_tag (msg_op m))) 53 unused no_handler_msg []).
Proof. exact serve_refusal. Qed.
Print Assumptions C03_refusal.

(* the pinned refusal was an ExtendedResponse whatever the operation *)
Theorem C03_refusal_pinned_refuted : forall eqfold,
  exists resp, serve eqfold false mux_empty (MSearch 2 [] 0 0 0 0 false [] [] []) = Refuse resp /\ r_app resp = 24%Z.
Proof. exact serve_refusal_pinned_refuted. Qed.
Print Assumptions C03_refusal_pinned_refuted.

(* histories of registration calls and served requests in any order: each
   request is answered by the mux made of exactly the registrations that
   precede it; serving leaves the mux as it was (no memory of earlier answers) *)
Theorem C03_history : forall eqfold tagfix pre m post,
  run_events eqfold tagfix mux_empty (pre ++ EvServe m :: post) =
  run_events eqfold tagfix mux_empty pre ++
  serve eqfold tagfix (build (regs_of pre)) m ::
  run_events eqfold tagfix (build (regs_of pre)) post.
Proof. exact run_events_history. Qed.
Print Assumptions C03_history.

Theorem C03_history_one_answer_each : forall eqfold tagfix mx evs,
  length (run_events eqfold tagfix mx evs) =
  length (List.filter (fun e => match e with EvServe _ => true | EvReg _ => false end) evs).
Proof. exact run_events_length. Qed.
Print Assumptions C03_history_one_answer_each.

(* a route that matches a request keeps it whatever is registered afterwards
   (routes, default routes, unbind routes, nil handlers): precedence is by
   registration order alone *)
Theorem C03_stable_under_registrations : forall eqfold tagfix gs mx m h,
  first_match eqfold (routes mx) m = Some h ->
  serve eqfold tagfix (fold_left (fun m g => fst (register m g)) gs mx) m = Run h.
Proof. exact serve_stable_under_registrations. Qed.
Print Assumptions C03_stable_under_registrations.

(* the default route is a fallback wherever it is registered: a matching route
   registered after it still gets the request *)
Theorem C03_route_beats_default : forall eqfold tagfix mx r h d m,
  first_match eqfold (routes mx) m = None -> matches eqfold r m = true ->
  serve eqfold tagfix (fst (register (fst (register mx (RegDefault (Some d)))) (RegRoute r (Some h)))) m = Run h.
Proof. exact serve_route_beats_default. Qed.
Print Assumptions C03_route_beats_default.
