(* C18 - with TLS configured, only clients that satisfy it ever reach a handler.
   ONLY statements.  [hs_ok cfg b] - does the handshake of a client behaving
   like b complete under configuration cfg - is the crypto/tls ORACLE; the
   theorems hold for every oracle satisfying [tls_contract] (a handshake
   completes only with a TLS client, and under require-and-verify only with a
   certificate of the configured CA; application data only after a completed
   handshake).  gldap's part: the listener is wrapped iff a configuration was
   given, the first read drives the handshake, its failure is an ordinary read
   error; the test directory maps WithMTLS to require-and-verify. *)
From G Require Import Base Sys Tls.

Theorem C18_gate : forall hs_ok, tls_contract hs_ok -> forall cfg b, cfg <> NoTls -> handler_ran hs_ok cfg b = true ->
  hs_ok cfg b = true /\ is_tls_client b = true /\ (cfg = RequireVerify -> b = TlsGoodCert).
Proof. exact gate. Qed.
Print Assumptions C18_gate.

Theorem C18_no_plaintext : forall hs_ok, tls_contract hs_ok -> forall cfg b, cfg <> NoTls -> is_tls_client b = false ->
  handler_ran hs_ok cfg b = false.
Proof. exact no_plaintext. Qed.
Print Assumptions C18_no_plaintext.

Theorem C18_isolated : forall cfg s c rest, pc c = CRead -> input c = IBad :: rest ->
  exists c', conn_step cfg s c = Some (c', ENone) /\ pc c' = CTeardown (teardown_of cfg) /\ started c' = started c.
Proof. exact failed_handshake_is_local. Qed.
Print Assumptions C18_isolated.

Theorem C18_directory_mtls : dir_tls_config false true = RequireVerify /\ dir_tls_config false false = ServerAuth /\
                             forall m, dir_tls_config true m = NoTls.
Proof. exact directory_mtls. Qed.
Print Assumptions C18_directory_mtls.

(* the table the correspondence run expects of the real library satisfies the contract *)
Theorem C18_std_contract : tls_contract std_hs_ok.
Proof. exact std_contract. Qed.
Print Assumptions C18_std_contract.
