(* C11 - Stop returns in bounded time whatever clients are doing: once Stop has been called and while it has not returned, some step of the SERVER is enabled - no step of a client is ever needed (user code not holding a barrier or OnClose).
   ONLY statements.  The model is the labelled transition system of Sys.v:
   every interleaving of the Run thread, any number of Stop calls, connection
   goroutines, per-request goroutines (with arbitrary handler scripts) and the
   environment (clients, barriers, slow OnClose).  [reachable cfg s]: s is the
   result of some label sequence from the initial state.  The boolean fields
   of [cfg] are the places where the pinned and the current tree differ;
   [fixed_cfg] is the current tree (validated behaviourally on every run by the
   scenario correspondence), [pinned_cfg] the tree before the fix commits. *)
From G Require Import Base Sys SysProofs SysProps SysTerm SysFinal.
Open Scope nat_scope.

Theorem C11_no_client_needed : forall cfg s, stop_interrupts cfg = true -> add_before_accept cfg = true ->
  untrack_late cfg = true -> reachable cfg s -> alive s = true ->
  (exists i p, nth_error (stops s) i = Some p /\ p <> SRet) -> no_external_block s ->
  exists l, internal l = true /\ step cfg s l <> None.
Proof. exact stop_progress. Qed.
Print Assumptions C11_no_client_needed.

Theorem C11_interrupt_pass : forall cfg s, reachable cfg s -> stop_interrupts cfg = true -> existsb past_interrupt (stops s) = true ->
  Forall (fun c => interrupted c = true \/ tracked c = false) (conns s).
Proof. exact intr_inv_reachable. Qed.
Print Assumptions C11_interrupt_pass.

(* a connection the pass does not reach (it had left the table) has, with the late
   untrack of the current tree, nothing left to do that could wait for its client *)
Theorem C11_untracked_needs_no_client : forall cfg c todo, untrack_late cfg = true -> td_inv cfg c -> pc c = CTeardown todo ->
  existsb is_untrack todo = false ->
  todo = [TOnClose; TWgDone] \/ todo = [TWgDone] \/ todo = [TOnClose] \/ todo = [].
Proof. exact untracked_rest. Qed.
Print Assumptions C11_untracked_needs_no_client.

(* bounded: a measure that every step of the server's own goroutines strictly decreases, in
   every state and configuration - so between two actions of the environment the server takes
   at most [mu s] steps, in every schedule *)
Theorem C11_every_internal_step_decreases : forall cfg s l s', internal l = true -> step cfg s l = Some s' -> mu s' < mu s.
Proof. exact internal_step_decreases. Qed.
Print Assumptions C11_every_internal_step_decreases.

(* ... and when, after at most [mu s] such steps, nothing of the server is enabled any more,
   the process is alive and no user code blocks, every Stop call has returned *)
Theorem C11_stop_returns_within_bound : forall cfg s ls s',
  stop_interrupts cfg = true -> add_before_accept cfg = true -> untrack_late cfg = true ->
  reachable cfg s ->
  Forall (fun l => internal l = true) ls -> run_labels cfg s ls = Some s' ->
  length ls <= mu s /\
  ((forall l, internal l = true -> step cfg s' l = None) -> alive s' = true -> no_external_block s' ->
   forall i p, nth_error (stops s') i = Some p -> p = SRet).
Proof. exact stop_returns_within_bound. Qed.
Print Assumptions C11_stop_returns_within_bound.

(* with untrackConn before conn.close (first version of the repair) Stop can wait for ever *)
Theorem C11_early_untrack_refuted :
  exists s, run_labels early_untrack_cfg init
              [ECallRun true true; LRun; LRun; EConnect; LRun; LRun; LRun; LConn 0; LConn 0; EStall 0 true;
               ESend 0 (IReq KNormal [HWrite]); LConn 0; ESend 0 (IReq KUnbind []); LConn 0; LConn 0; LConn 0; LConn 0;
               ECallStop; LStop 0; LStop 0; LStop 0; LRun] = Some s /\
            nth_error (stops s) 0 = Some SWait /\ onclose_held s = false /\
            (exists c, nth_error (conns s) 0 = Some c /\ hs c = [(1, [HWrite])] /\ interrupted c = false /\ tracked c = false) /\
            step early_untrack_cfg s (LStop 0) = None /\ step early_untrack_cfg s LRun = None /\
            step early_untrack_cfg s (LConn 0) = None /\ step early_untrack_cfg s (LHandler 0 1) = None.
Proof. exact stop_progress_early_untrack_refuted. Qed.
Print Assumptions C11_early_untrack_refuted.

Theorem C11_pinned_refuted : exists s, run_labels pinned_cfg init
              [ECallRun true true; LRun; LRun; EConnect; LRun; LRun; LConn 0; LConn 0;
               ECallStop; LStop 0; LStop 0; LRun] = Some s /\
            nth_error (stops s) 0 = Some SWait /\ length (stops s) = 1 /\ length (conns s) = 1 /\
            (exists c, nth_error (conns s) 0 = Some c /\ hs c = []) /\
            step pinned_cfg s (LStop 0) = None /\ step pinned_cfg s LRun = None /\
            step pinned_cfg s (LConn 0) = None.
Proof. exact stop_progress_pinned_refuted. Qed.
Print Assumptions C11_pinned_refuted.

(* Stop's interrupt is final: no step of anything - the connection's loop, a handler, a
   client, Run, another Stop - makes an interrupted connection uninterrupted again, over
   any continuation of the run.  (In the source: nothing but interrupt() and the accept-time
   timeouts sets a deadline; the deadline sites are counted by `vh cfgflags`, CfgTie.v.) *)
Theorem C11_interrupt_is_final : forall cfg ls s s' i c,
  run_labels cfg s ls = Some s' -> conn_of s i c -> interrupted c = true ->
  exists c', conn_of s' i c' /\ interrupted c' = true.
Proof. exact interrupt_is_final_run. Qed.
Print Assumptions C11_interrupt_is_final.
