(* C01 — a decoded request carries exactly what the client sent.
   ONLY statements.  [wire r] is the RFC 4511 encoding of the typed request
   [r]; [server_receive prim_ok strict true] is conn.readPacket followed by
   conn.readRequest of the current tree; [msg_of_request r] is what the
   property says the handler must see (filter in its RFC 4515 string form,
   modify values in the BER-wrapped form ConvertString unwraps).  The oracle
   [prim_ok] and the assertion mode [strict] are universally quantified.
   [wf_request]: ids and integer fields in int64 (the property asks for
   0..2^31-1), encodable controls, filters whose substring filters have at least
   one part and whose extensible matches do not set dnAttributes (known
   finding K2), total encoding below 2^31 bytes. *)
From G Require Import Base Ber Ldap LdapProofs LdapRoundTrip Helpers HelpersProofs.
Open Scope N_scope.

Theorem C01_roundtrip : forall prim_ok strict r, wf_request r = true ->
  server_receive prim_ok strict true (wire r) = Ok (msg_of_request r).
Proof. exact server_receive_wire. Qed.
Print Assumptions C01_roundtrip.

(* the filter a handler sees is the RFC 4515 string of the filter the client encoded *)
Theorem C01_filter : forall f, wf_filter f = true ->
  decompile_filter (enc_filter f) = Ok (print_filter f).
Proof. exact decompile_filter_enc. Qed.
Print Assumptions C01_filter.

(* modify values: one element per client value, each unwrapped by ConvertString *)
Theorem C01_modify_values : forall vs, Forall (fun s => N.of_nat (length s) < 2 ^ 63) vs ->
  length (map wrap_value vs) = length vs /\ convert_string (map wrap_value vs) = Ok vs.
Proof.
  intros vs H. split; [apply map_length|]. exact (convert_string_many vs H).
Qed.
Print Assumptions C01_modify_values.

(* whatever packet arrives, a delivered message has the kind of its protocolOp
   tag, the tag is one of the seven supported ones, and a Bind carried version 3 *)
Theorem C01_kind_matches : forall prim_ok strict modfix p m,
  new_message prim_ok strict modfix p = Ok m ->
  exists rp, nth_error (p_kids p) 1 = Some rp /\ p_cls rp = 64 /\
             op_of_tag (p_tag rp) = Some (msg_op m) /\
             (msg_op m = OpBind -> exists vp, nth_error (p_kids rp) 0 = Some vp /\ value_of vp = VInt 3).
Proof. exact delivered_kind. Qed.
Print Assumptions C01_kind_matches.

Theorem C01_unsupported_op : forall prim_ok strict modfix p rp, nth_error (p_kids p) 1 = Some rp ->
  op_of_tag (p_tag rp) = None -> forall m, new_message prim_ok strict modfix p <> Ok m.
Proof. exact unsupported_never_delivered. Qed.
Print Assumptions C01_unsupported_op.

Theorem C01_bind_version : forall prim_ok strict modfix p rp vp v, nth_error (p_kids p) 1 = Some rp ->
  p_tag rp = 0 -> nth_error (p_kids rp) 0 = Some vp -> value_of vp = VInt v -> v <> 3%Z ->
  forall m, new_message prim_ok strict modfix p <> Ok m.
Proof. exact bind_other_version_never_delivered. Qed.
Print Assumptions C01_bind_version.

(* K2: with dnAttributes the (modelled) go-ldap decompiler rejects the filter *)
Theorem C01_filter_dn_refuted :
  decompile_filter (enc_filter (FExt (Some [50]) (Some [99; 110]) [97] true)) = Err.
Proof. exact decompile_dn_refuted. Qed.
Print Assumptions C01_filter_dn_refuted.

(* requests pipelined on one connection: the read loop (frame after frame on the shared
   reader) delivers every request of the concatenated stream exactly as if it had come
   alone, in order, up to and including the first Unbind - whatever else is on the
   connection before or behind it.  (What the handler goroutines are then GIVEN is the
   dispatch of Sys.v / C06; the correspondence run sends the generated requests forty at a
   time in one segment to a real server and compares what the handlers received.) *)
Theorem C01_pipelined : forall prim_ok strict rs, Forall (fun r => wf_request r = true) rs ->
  forall fuel, (length rs < fuel)%nat ->
  serve_stream prim_ok strict true fuel (concat (map wire rs)) =
  map (fun r => Ok (msg_of_request r)) (upto_unbind rs).
Proof. exact serve_stream_pipeline. Qed.
Print Assumptions C01_pipelined.

Theorem C01_frame_consumed_exactly : forall prim_ok strict r rest, wf_request r = true ->
  server_receive_rest prim_ok strict true (wire r ++ rest) = Ok (msg_of_request r, rest).
Proof. exact server_receive_rest_wire. Qed.
Print Assumptions C01_frame_consumed_exactly.
