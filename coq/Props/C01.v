(* placeholder until LdapProofs is in place *)
