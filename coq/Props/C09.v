(* C09 - connection IDs are unique per server and stable per connection.
   ONLY statements.  The model is the labelled transition system of Sys.v:
   every interleaving of the Run thread, any number of Stop calls, connection
   goroutines, per-request goroutines (with arbitrary handler scripts) and the
   environment (clients, barriers, slow OnClose).  [reachable cfg s]: s is the
   result of some label sequence from the initial state.  The boolean fields
   of [cfg] are the places where the pinned and the current tree differ;
   [fixed_cfg] is the current tree (validated behaviourally on every run by the
   scenario correspondence), [pinned_cfg] the tree before the fix commits. *)
From G Require Import Base Sys SysProofs SysProps.
Open Scope nat_scope.

Theorem C09_positive_unique : forall cfg s, reachable cfg s ->
  (forall i c, conn_of s i c -> cid c = S i) /\
  (forall i j ci cj, conn_of s i ci -> conn_of s j cj -> cid ci = cid cj -> i = j).
Proof. exact c09_ids. Qed.
Print Assumptions C09_positive_unique.

Theorem C09_stable : forall cfg s l s' i c, reachable cfg s -> step cfg s l = Some s' -> conn_of s i c ->
  exists c', conn_of s' i c' /\ cid c' = cid c.
Proof. exact c09_stable. Qed.
Print Assumptions C09_stable.
