(* C04 — responses reach the client with the request's message id and the
   values set.  ONLY statements.  [new_response true k id dn opts] is the
   New*Response constructor of kind k on a request whose message id is [id];
   [run_setters] the Set*/AddAttribute calls; [response_bytes] what
   ResponseWriter.Write hands to the connection; [parse_response] a strict
   RFC 4511 parser of exactly one LDAPMessage (no trailing bytes).
   [wf_response]: id in int64 (the property asks 0..2^31-1), code within int16
   (every constructor and setter produces that), application code 0..30,
   encoding below 2^31 bytes. *)
From G Require Import Base Ber Ldap LdapRoundTrip Response ResponseProofs.
Open Scope N_scope.

Theorem C04_wire : forall prim_ok r, wf_response r = true ->
  parse_response prim_ok (response_bytes r) = Some (expected r).
Proof. exact parse_response_bytes. Qed.
Print Assumptions C04_wire.

(* exactly one frame per Write: whatever follows is left untouched *)
Theorem C04_one_frame : forall prim_ok r rest, wf_response r = true ->
  read_packet prim_ok (response_bytes r ++ rest) = Ok (packet_of r, rest).
Proof. exact one_frame. Qed.
Print Assumptions C04_one_frame.

(* the message id is the request's, through every constructor and setter *)
Theorem C04_message_id : forall k id dn xs r ss, new_response true k id dn xs = Ok r ->
  r_id (run_setters r ss) = id /\ r_kind (run_setters r ss) = k.
Proof.
  intros k id dn xs r ss H. destruct (new_response_id k id dn xs r H) as [Hi Hk].
  destruct (run_setters_id ss r) as (a & b & _). rewrite a, b. auto.
Qed.
Print Assumptions C04_message_id.

Theorem C04_last_setter_wins : forall r ss,
  (forall z, r_code (run_setters r (ss ++ [SCode z])) = int16_of z) /\
  (forall d, r_diag (run_setters r (ss ++ [SDiag d])) = d) /\
  (forall d, r_matched (run_setters r (ss ++ [SMatched d])) = d) /\
  (forall cs, r_ctrls (run_setters r (ss ++ [SControls cs])) = cs) /\
  (forall n vs, r_attrs (run_setters r (ss ++ [SAddAttr n vs])) = r_attrs (run_setters r ss) ++ [(n, vs)]).
Proof. exact last_setter_wins. Qed.
Print Assumptions C04_last_setter_wins.

Theorem C04_later_option_wins : forall xs,
  (forall z, o_code (get_ropts (xs ++ [WCode z])) = Some z) /\
  (forall z, o_app (get_ropts (xs ++ [WApp z])) = Some z) /\
  (forall d, o_diag (get_ropts (xs ++ [WDiag d])) = d) /\
  (forall d, o_matched (get_ropts (xs ++ [WMatched d])) = d) /\
  get_ropts (xs ++ [OIgnored]) = get_ropts xs.
Proof. exact later_option_wins. Qed.
Print Assumptions C04_later_option_wins.

Theorem C04_code_range : forall z, (0 <= z <= 32767)%Z -> int16_of z = z.
Proof. exact int16_of_id. Qed.
Print Assumptions C04_code_range.

(* controls on Bind / SearchDone responses, at the RFC 4511 level (C14's
   response direction): type, criticality and value bytes are the control's *)
Theorem C04_controls : forall c, parse_control_rfc (encode_control c) = Some (raw_of_control c).
Proof. exact parse_control_rfc_encode. Qed.
Print Assumptions C04_controls.
