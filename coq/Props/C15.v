(* C15 - no data race on state owned by gldap or by the test directory.
   ONLY statements.  Two layers:

   (a) AccessGen.v is regenerated from /repo's Go source on every run: every read
       and write of a field of Server, conn, Mux, ResponseWriter, Request,
       Directory (and of the directory's entries), with the function, the mutexes
       held and the line.  Access.v classifies the functions into goroutine
       classes and decides, for every conflicting pair, one of the justifications
       J1 common mutex, J2 same goroutine, J3 configuration-before-Run,
       J4 written before the `go` statement, J5 published under connsMu.
   (b) LockHB.v: in EVERY trace that respects mutex semantics, two accesses by
       different goroutines under a common mutex are ordered by happens-before;
       accesses of one goroutine are ordered by program order.

   Partial: J3-J5 are happens-before edges taken from the documented contract
   (routes and Router before Run; Run called once), from Go's rule for `go`
   statements and from the lock around the conns map; they are checked on the
   table (line order, locks at call sites) but have no trace-level theorem.
   State the detector cannot be replaced for - the internals of bufio, tls and
   net, and the wait groups' own Add/Wait rule (C12_wait_group covers the
   accounting) - is the correspondence side's part (worker built with -race). *)
From Coq Require Import String List Bool.
From G Require Import AccessGen Access AccessProofs LockHB Sys SysProofs.
Import ListNotations.
Open Scope list_scope.

(* every function that touches shared state is classified, and every pair of
   conflicting accesses of the current source is justified, for every pair of
   goroutine classes the two functions can run on *)
Theorem C15_discipline : check_all gen_sites gen_calls = true.
Proof. exact discipline_holds. Qed.
Print Assumptions C15_discipline.

Theorem C15_every_conflict_justified : forall a b ta tb,
  In a gen_sites -> In b gen_sites -> conflict a b = true ->
  In ta (fn_threads (g_fn a)) -> In tb (fn_threads (g_fn b)) ->
  justified gen_calls a b ta tb = true.
Proof. exact every_conflict_justified. Qed.
Print Assumptions C15_every_conflict_justified.

(* J1 is sound in every trace: any number of goroutines, mutexes and events *)
Theorem C15_common_lock_orders : forall pre e1 mid e2 post m lc1 w1,
  let tr := pre ++ e1 :: mid ++ e2 :: post in
  valid LockHB.init tr -> what e1 = Acc lc1 w1 ->
  LockHB.run LockHB.init pre m = Some (thr e1) -> LockHB.run LockHB.init (pre ++ e1 :: mid) m = Some (thr e2) ->
  thr e1 <> thr e2 ->
  hb tr (length pre) (length pre + 1 + length mid).
Proof. exact common_lock_ordered. Qed.
Print Assumptions C15_common_lock_orders.

(* J2 *)
Theorem C15_same_goroutine_orders : forall tr i j ei ej,
  i < j -> nth_error tr i = Some ei -> nth_error tr j = Some ej -> thr ei = thr ej -> hb tr i j.
Proof. exact same_goroutine_ordered. Qed.
Print Assumptions C15_same_goroutine_orders.

(* the wait groups: the server's counter equals the connections not yet done (plus
   the slot reserved before Accept), in every reachable state - Add never races Wait from zero *)
Theorem C15_wait_group_accounting : forall cfg s, reachable cfg s -> wg_inv cfg s.
Proof. exact wg_inv_reachable. Qed.
Print Assumptions C15_wait_group_accounting.

(* the pinned test directory (handlers reading users/groups/controls with no lock
   while Set* writes them under the lock) does not meet the discipline: F10 *)
Theorem C15_pinned_directory_refuted :
  check_all (map strip_handler_lock gen_sites) (map strip_call_lock gen_calls) = false.
Proof. exact pinned_directory_refuted. Qed.
Print Assumptions C15_pinned_directory_refuted.
