(* C15 - no data race on state owned by gldap or by the test directory.
   ONLY statements.  Two layers:

   (a) AccessGen.v is regenerated from /repo's Go source on every run: every read
       and write of a field of Server, conn, Mux, ResponseWriter, Request,
       Directory (and of the directory's entries), with the function, the mutexes
       held and the line.  Access.v classifies the functions into goroutine
       classes and decides, for every conflicting pair, one of the justifications
       J1 common mutex, J2 same goroutine, J3 configuration-before-Run,
       J4 written before the `go` statement, J5 published under connsMu.
   (b) LockHB.v: in EVERY trace that respects mutex semantics, two accesses by
       different goroutines under a common mutex are ordered by happens-before;
       accesses of one goroutine are ordered by program order.

   Partial: the trace-level theorems cover J1 (common mutex), J2 (same goroutine),
   J4 (go statement) and J5 (publication under a mutex) as rules about traces; that
   the particular sites the table justifies by J4/J5 are placed as those rules need
   is checked on the table (line order, locks at every call site).  J3 (routes and
   Router before Run; Run called once) is the documented contract, a premise.
   State the detector cannot be replaced for - the internals of bufio, tls and
   net, and the wait groups' own Add/Wait rule (C12_wait_group covers the
   accounting) - is the correspondence side's part (worker built with -race). *)
From Coq Require Import String List Bool.
From G Require Import AccessGen Access AccessProofs LockHB Sys SysProofs.
Import ListNotations.
Open Scope list_scope.

(* every function that touches shared state is classified, and every pair of
   conflicting accesses of the current source is justified, for every pair of
   goroutine classes the two functions can run on *)
Theorem C15_discipline : check_all gen_sites gen_calls = true.
Proof. exact discipline_holds. Qed.
Print Assumptions C15_discipline.

Theorem C15_every_conflict_justified : forall a b ta tb,
  In a gen_sites -> In b gen_sites -> conflict a b = true ->
  In ta (fn_threads (g_fn a)) -> In tb (fn_threads (g_fn b)) ->
  justified gen_calls a b ta tb = true.
Proof. exact every_conflict_justified. Qed.
Print Assumptions C15_every_conflict_justified.

(* J1 is sound in every trace: any number of goroutines, mutexes and events *)
Theorem C15_common_lock_orders : forall pre e1 mid e2 post m lc1 w1,
  let tr := pre ++ e1 :: mid ++ e2 :: post in
  valid LockHB.init tr -> what e1 = Acc lc1 w1 ->
  LockHB.run LockHB.init pre m = Some (thr e1) -> LockHB.run LockHB.init (pre ++ e1 :: mid) m = Some (thr e2) ->
  thr e1 <> thr e2 ->
  hb tr (length pre) (length pre + 1 + length mid).
Proof. exact common_lock_ordered. Qed.
Print Assumptions C15_common_lock_orders.

(* J2 *)
Theorem C15_same_goroutine_orders : forall tr i j ei ej,
  i < j -> nth_error tr i = Some ei -> nth_error tr j = Some ej -> thr ei = thr ej -> hb tr i j.
Proof. exact same_goroutine_ordered. Qed.
Print Assumptions C15_same_goroutine_orders.

(* J5: written before being published under a mutex, read under that mutex later *)
Theorem C15_publication_orders : forall tr iw ir iu il ew er eu el m,
  nth_error tr iw = Some ew -> nth_error tr iu = Some eu -> nth_error tr il = Some el -> nth_error tr ir = Some er ->
  iw < iu -> iu < il -> il < ir ->
  thr ew = thr eu -> what eu = Rel m -> thr el = thr er -> what el = Acq m ->
  hb tr iw ir.
Proof. exact publication_ordered. Qed.
Print Assumptions C15_publication_orders.

(* J4: what a goroutine did before a go statement is ordered before everything the
   started goroutine does, and before everything a goroutine that one starts does *)
Theorem C15_spawn_orders : forall tr ip ifork jc ep ef ec c,
  nth_error tr ip = Some ep -> nth_error tr ifork = Some ef -> nth_error tr jc = Some ec ->
  ip < ifork -> fthr ep = fthr ef -> fwhat ef = FFork c -> fthr ec = c ->
  started_by_fork tr c ifork -> fhb tr ip jc.
Proof. exact spawn_ordered. Qed.
Print Assumptions C15_spawn_orders.

Theorem C15_spawn_orders_twice : forall tr ip if1 if2 jc ep e1 e2 ec c1 c2,
  nth_error tr ip = Some ep -> nth_error tr if1 = Some e1 -> nth_error tr if2 = Some e2 -> nth_error tr jc = Some ec ->
  ip < if1 -> fthr ep = fthr e1 -> fwhat e1 = FFork c1 ->
  fthr e2 = c1 -> fwhat e2 = FFork c2 -> fthr ec = c2 ->
  started_by_fork tr c1 if1 -> started_by_fork tr c2 if2 -> fhb tr ip jc.
Proof. exact spawn_ordered_twice. Qed.
Print Assumptions C15_spawn_orders_twice.

(* the wait groups: the server's counter equals the connections not yet done (plus
   the slot reserved before Accept), in every reachable state - Add never races Wait from zero *)
Theorem C15_wait_group_accounting : forall cfg s, reachable cfg s -> wg_inv cfg s.
Proof. exact wg_inv_reachable. Qed.
Print Assumptions C15_wait_group_accounting.

(* the pinned test directory (handlers reading users/groups/controls with no lock
   while Set* writes them under the lock) does not meet the discipline: F10 *)
Theorem C15_pinned_directory_refuted :
  check_all (map strip_handler_lock gen_sites) (map strip_call_lock gen_calls) = false.
Proof. exact pinned_directory_refuted. Qed.
Print Assumptions C15_pinned_directory_refuted.
