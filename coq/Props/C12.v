(* C12 - when Stop returns the server is quiescent and its port is released.
   ONLY statements.  The model is the labelled transition system of Sys.v:
   every interleaving of the Run thread, any number of Stop calls, connection
   goroutines, per-request goroutines (with arbitrary handler scripts) and the
   environment (clients, barriers, slow OnClose).  [reachable cfg s]: s is the
   result of some label sequence from the initial state.  The boolean fields
   of [cfg] are the places where the pinned and the current tree differ;
   [fixed_cfg] is the current tree (validated behaviourally on every run by the
   scenario correspondence), [pinned_cfg] the tree before the fix commits. *)
From G Require Import Base Sys SysProofs SysProps.
Open Scope nat_scope.

Theorem C12_quiescent : forall cfg s,
  wg_last cfg = true -> add_before_accept cfg = true -> close_on_cancel cfg = true ->
  reachable cfg s -> stopped s = true -> (exists e, run s = RRet e) ->
  lst s <> Listening /\ port_bound s = false /\ Forall (conn_quiet cfg) (conns s).
Proof. exact quiescent_after_stop. Qed.
Print Assumptions C12_quiescent.

Theorem C12_wait_group : forall cfg s, reachable cfg s -> wg_inv cfg s.
Proof. exact wg_inv_reachable. Qed.
Print Assumptions C12_wait_group.

Theorem C12_stopped_stays : forall cfg s, add_before_accept cfg = true -> reachable cfg s -> stopped_inv s.
Proof. exact stopped_inv_reachable. Qed.
Print Assumptions C12_stopped_stays.

Theorem C12_pinned_refuted : exists s, run_labels pinned_cfg init
              [ECallRun true true; LRun; LRun; EConnect; LRun; LRun; LConn 0; LConn 0;
               ESend 0 (IReq KNormal [HBarrier 1]); LConn 0; LConn 0; EClose 0; LConn 0; LConn 0;
               ECallStop; LStop 0; LStop 0; LStop 0; LRun] = Some s /\
            stopped s = true /\ run s = RRet false /\
            exists c, nth_error (conns s) 0 = Some c /\ sock_closed c = false /\ onclose c = 0.
Proof. exact quiescent_pinned_refuted. Qed.
Print Assumptions C12_pinned_refuted.
