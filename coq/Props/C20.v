(* C20 — test directory: add, modify, delete and search behave like a
   consistent store.  ONLY statements.  [dstep]/[drun] are the directory's
   handlers (lookups through match: the regular expression, ReplaceAll, the
   Trims and strings.Contains); [spec_step]/[spec_run] the abstract store in
   which an entry is found by DN equality.  [unambiguous d dn]: the DN is plain
   (none of ( ) * | newline, no blank at either end — forced by match, known
   finding K3) and an entry's DN contains it only if it is it (the property's
   "DNs are not substrings of one another").  [hist_ok]: every operation of the
   history is unambiguous in the state it meets. *)
From G Require Import Base Ber Helpers Ldap Directory DirProofs.
Open Scope N_scope.

Theorem C20_refines : forall eqfold replfix d o, op_ok d o ->
  dstep eqfold replfix d o = spec_step eqfold replfix d o.
Proof. exact step_refines. Qed.
Print Assumptions C20_refines.

Theorem C20_histories : forall eqfold replfix ops d, hist_ok eqfold replfix d ops ->
  drun eqfold replfix d ops = spec_run eqfold replfix d ops.
Proof. exact run_refines. Qed.
Print Assumptions C20_histories.

Theorem C20_add_then_found : forall eqfold replfix d dn attrs, has_user d dn = false ->
  spec_step eqfold replfix d (DAdd dn attrs) =
  (set_users d (users d ++ [new_dentry dn attrs]), {| res_code := ResultSuccess; res_entries := [] |}) /\
  lookup_users (set_users d (users d ++ [new_dentry dn attrs])) dn = [new_dentry dn attrs].
Proof. exact spec_add_new. Qed.
Print Assumptions C20_add_then_found.

Theorem C20_add_existing_fails_unchanged : forall eqfold replfix d dn attrs, has_user d dn = true ->
  spec_step eqfold replfix d (DAdd dn attrs) = (d, {| res_code := ResultEntryAlreadyExists; res_entries := [] |}).
Proof. exact spec_add_existing. Qed.
Print Assumptions C20_add_existing_fails_unchanged.

Theorem C20_delete_then_missing : forall eqfold replfix d dn i e,
  NoDup (map d_dn (users d)) -> nth_error (users d) i = Some e -> d_dn e = dn ->
  spec_step eqfold replfix d (DDelete dn) =
  (set_users d (remove_nth i (users d)), {| res_code := ResultSuccess; res_entries := [] |}) /\
  lookup_users (set_users d (remove_nth i (users d))) dn = [].
Proof. exact spec_delete_user. Qed.
Print Assumptions C20_delete_then_missing.

Theorem C20_missing_is_noSuchObject : forall eqfold replfix d dn cs,
  has_user d dn = false -> existsb (spec_lk dn) (groups d) = false ->
  spec_step eqfold replfix d (DDelete dn) = (d, {| res_code := ResultNoSuchObject; res_entries := [] |}) /\
  spec_step eqfold replfix d (DModify dn cs) = (d, {| res_code := ResultNoSuchObject; res_entries := [] |}).
Proof. exact spec_missing. Qed.
Print Assumptions C20_missing_is_noSuchObject.

Theorem C20_modify_applies : forall eqfold replfix d dn i e cs attrs',
  NoDup (map d_dn (users d)) -> nth_error (users d) i = Some e -> d_dn e = dn ->
  apply_changes replfix (d_attrs e) (wrap_changes cs) = Ok attrs' ->
  spec_step eqfold replfix d (DModify dn cs) =
  (set_users d (set_entry_attrs (users d) i attrs'), {| res_code := ResultSuccess; res_entries := [] |}).
Proof. exact spec_modify_user. Qed.
Print Assumptions C20_modify_applies.

(* add-value, delete-attribute and replace on an attribute list; the last
   conjunct is the pinned replace, which changed nothing (refutation of
   "replace is reflected" for the pinned code) *)
Theorem C20_modify_reflected : forall pre t vs post vals,
  existsb (fun a => beq_bytes (fst a) t) post = false ->
  Forall (fun s => N.of_nat (length s) < 2 ^ 63) vals ->
  apply_change true (pre ++ (t, vs) :: post) (0%Z, t, map wrap_value vals) = Ok (pre ++ (t, vs ++ map wrap_value vals) :: post) /\
  apply_change true (pre ++ (t, vs) :: post) (1%Z, t, map wrap_value vals) = Ok (pre ++ post) /\
  apply_change true (pre ++ (t, vs) :: post) (2%Z, t, map wrap_value vals) = Ok (pre ++ (t, vals) :: post) /\
  apply_change false (pre ++ (t, vs) :: post) (2%Z, t, map wrap_value vals) = Ok (pre ++ (t, vs) :: post).
Proof. exact modify_on_present. Qed.
Print Assumptions C20_modify_reflected.

Theorem C20_modify_add_new_attribute : forall attrs t vals,
  existsb (fun a => beq_bytes (fst a) t) attrs = false ->
  apply_change true attrs (0%Z, t, map wrap_value vals) = Ok (attrs ++ [(t, map wrap_value vals)]).
Proof. exact modify_add_new. Qed.
Print Assumptions C20_modify_add_new_attribute.

Theorem C20_search_by_dn : forall eqfold replfix d base flt,
  eqfold base (user_dn d) = false -> eqfold base (group_dn d) = false -> contains base (user_dn d) = true ->
  spec_step eqfold replfix d (DSearch base flt) =
  (d, match lookup_users d base ++ List.filter (spec_lk base) (groups d) with
      | [] => {| res_code := ResultNoSuchObject; res_entries := [] |}
      | es => {| res_code := ResultSuccess; res_entries := es |}
      end).
Proof. exact spec_search_dn. Qed.
Print Assumptions C20_search_by_dn.

(* the lookup the whole refinement rests on: for a plain DN the directory's
   match on the filter "(dn)" is strings.Contains *)
Theorem C20_match_is_contains : forall dn attr, plain dn = true ->
  match_filter (paren dn) attr = contains attr dn.
Proof. exact match_paren_plain. Qed.
Print Assumptions C20_match_is_contains.

(* K3: a DN with a filter metacharacter does not answer to its own DN *)
Theorem C20_plain_needed_refuted :
  match_filter (paren [99; 110; 61; 97; 42; 98]) [99; 110; 61; 97; 42; 98] = false.
Proof. exact match_star_refuted. Qed.
Print Assumptions C20_plain_needed_refuted.

(* reading has no memory: a search repeated after any number of binds,
   searches and Users() probes returns what it returned the first time *)
Theorem C20_search_repeatable : forall eqfold replfix d reads base flt,
  forallb read_only reads = true ->
  snd (dstep eqfold replfix (fst (drun eqfold replfix d (DSearch base flt :: reads))) (DSearch base flt)) =
  snd (dstep eqfold replfix d (DSearch base flt)).
Proof. exact search_repeatable. Qed.
Print Assumptions C20_search_repeatable.
