(* C02 — no byte sequence from a client makes request decoding panic.
   ONLY statements.  [server_receive prim_ok strict modfix] is conn.readPacket
   followed by conn.readRequest on one frame; strict = true is the current
   tree (checked assertions).  The oracle [prim_ok] (acceptance of universal
   Real / UTF8String / GeneralizedTime contents) and [modfix] are universally
   quantified. *)
From G Require Import Base Ber Ldap LdapNoPanic.
Open Scope N_scope.

Theorem C02_no_panic : forall prim_ok modfix bs, server_receive prim_ok true modfix bs <> Panic.
Proof. exact server_receive_no_panic. Qed.
Print Assumptions C02_no_panic.

Theorem C02_stream : forall prim_ok modfix fuel bs,
  Forall (fun o => o <> Panic) (serve_stream prim_ok true modfix fuel bs).
Proof. exact serve_stream_no_panic. Qed.
Print Assumptions C02_stream.

Theorem C02_total : forall prim_ok modfix bs,
  is_ok (server_receive prim_ok true modfix bs) = true \/ is_err (server_receive prim_ok true modfix bs) = true.
Proof. exact server_receive_total. Qed.
Print Assumptions C02_total.

(* the reader underneath (go-asn1-ber readPacket) never panics either *)
Theorem C02_reader : forall prim_ok bs, read_packet prim_ok bs <> Panic.
Proof. exact BerProofs.read_packet_no_panic. Qed.
Print Assumptions C02_reader.

(* the pinned code, with its unchecked assertions, did panic: witnesses *)
Theorem C02_pinned_refuted :
  server_receive no_oracle false false frame_bind_v2 = Panic /\
  server_receive no_oracle false false frame_ctl_int_type = Panic /\
  server_receive no_oracle false false frame_paging_short = Panic.
Proof. exact server_receive_pinned_refuted. Qed.
Print Assumptions C02_pinned_refuted.
