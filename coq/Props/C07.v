(* C07 - a failure on one connection or request never takes the server down.
   ONLY statements.  The model is the labelled transition system of Sys.v:
   every interleaving of the Run thread, any number of Stop calls, connection
   goroutines, per-request goroutines (with arbitrary handler scripts) and the
   environment (clients, barriers, slow OnClose).  [reachable cfg s]: s is the
   result of some label sequence from the initial state.  The boolean fields
   of [cfg] are the places where the pinned and the current tree differ;
   [fixed_cfg] is the current tree (validated behaviourally on every run by the
   scenario correspondence), [pinned_cfg] the tree before the fix commits. *)
From G Require Import Base Sys SysProofs SysProps.
Open Scope nat_scope.

Theorem C07_alive : forall cfg s, recovery cfg = true -> handler_rec cfg = true -> reachable cfg s -> alive s = true.
Proof. exact alive_reachable. Qed.
Print Assumptions C07_alive.

Theorem C07_bystanders : forall cfg s l s' i, step cfg s l = Some s' ->
  (l = LConn i \/ exists r, l = LHandler i r) -> forall j, j <> i -> nth_error (conns s') j = nth_error (conns s) j.
Proof. exact c06_other_conns. Qed.
Print Assumptions C07_bystanders.

Theorem C07_accepting : forall cfg s, ready_on_error cfg = false -> reachable cfg s -> alive s = true ->
  ready s = true -> stops s = [] -> accept_failed s = false -> step cfg s EConnect <> None.
Proof. exact c17_connect_succeeds. Qed.
Print Assumptions C07_accepting.

(* descriptor exhaustion at accept time: with the retry (current tree) Run stays in its
   loop, the socket stays bound and connection attempts keep being accepted *)
Theorem C07_accept_errors_survived : forall cfg s,
  accept_retry cfg = true -> ready_on_error cfg = false -> reachable cfg s -> alive s = true ->
  ready s = true -> stops s = [] ->
  step cfg s EConnect <> None /\ in_loop (run s) = true /\ lst s = Listening.
Proof. exact c07_accepting_despite_accept_errors. Qed.
Print Assumptions C07_accept_errors_survived.

Theorem C07_accept_error_step : forall cfg s,
  accept_retry cfg = true -> run s = RAcceptWait -> lst s = Listening -> accept_err s = true ->
  exists s', run_step cfg s = Some s' /\ run s' = RTop /\ nextid s' = pred (nextid s) /\ conns s' = conns s /\
             accept_err s' = false /\ accept_failed s' = accept_failed s /\ ready s' = ready s /\ lst s' = Listening.
Proof. exact c07_accept_error_step. Qed.
Print Assumptions C07_accept_error_step.

Theorem C07_accept_error_pinned_refuted :
  exists s, run_labels pinned_cfg init [ECallRun true true; LRun; LRun; EAcceptErr; LRun] = Some s /\
            run s = RRet true /\ ready s = true /\ lst s = Listening /\ accept_failed s = true.
Proof. exact accept_error_pinned_refuted. Qed.
Print Assumptions C07_accept_error_pinned_refuted.

Theorem C07_pinned_refuted : exists s, run_labels pinned_cfg init
              [ECallRun true true; LRun; LRun; EConnect; LRun; LRun; LConn 0; LConn 0;
               ESend 0 (IReq KNormal [HPanic]); LConn 0; LHandler 0 1] = Some s /\ alive s = false.
Proof. exact alive_pinned_refuted. Qed.
Print Assumptions C07_pinned_refuted.
