(* C14 — controls survive encode and decode unchanged (request direction:
   Encode -> wire -> gldap's decodeControl), and the Behera constructor.
   ONLY statements.  [norm_control] is the identity on every control except a
   Behera control with several fields set (Encode carries only the first of
   grace / expire / error that is set; the constructor never builds such a
   control, C14_behera_ctor).  [wf_ctrl]: page size < 2^32, Behera fields in
   range with error 0..8, int64 expiry, generic OID not one of the eight typed
   OIDs, encoding below 2^31 bytes.  The response direction (an independent
   client decoding Bind / SearchDone controls) is C04_controls + the go-ldap
   run of the correspondence check. *)
From G Require Import Base Ber Ldap LdapProofs LdapRoundTrip.
Open Scope N_scope.

Theorem C14_request_dir : forall prim_ok strict c, wf_ctrl c = true ->
  decode_control prim_ok strict (encode_control c) = Ok (norm_control c).
Proof. exact decode_encode_control. Qed.
Print Assumptions C14_request_dir.

(* any number and order of controls on one message, through the wire *)
Theorem C14_many : forall prim_ok strict id dn cs, int64_ok id = true -> forallb wf_ctrl cs = true ->
  N.of_nat (length (wire (RDel id dn cs))) <= 2147483647 ->
  server_receive prim_ok strict true (wire (RDel id dn cs)) = Ok (MDel id dn (map norm_control cs)).
Proof.
  intros prim_ok strict id dn cs Hid Hcs Hsz.
  apply (server_receive_wire prim_ok strict (RDel id dn cs)).
  unfold wf_request. apply andb_true_iff. split; [apply N.leb_le; exact Hsz|].
  apply andb_true_iff. split; assumption.
Qed.
Print Assumptions C14_many.

Theorem C14_norm_identity : forall c, (forall e g err, c <> CBehera e g err) -> norm_control c = c.
Proof. intros c H. destruct c; try reflexivity. exfalso. eapply H. reflexivity. Qed.
Print Assumptions C14_norm_identity.

Theorem C14_behera_ctor : forall g e c ctl, new_behera g e c = Ok ctl ->
  exists e' g' c', ctl = CBehera e' g' c' /\
    ((e' = -1 /\ g' = -1) \/ (e' = -1 /\ c' = -1) \/ (g' = -1 /\ c' = -1))%Z /\ (c' <= 8)%Z.
Proof. exact new_behera_at_most_one. Qed.
Print Assumptions C14_behera_ctor.

Theorem C14_behera_rejects : forall g e c, 8 < c -> new_behera g e (Some c) = Err.
Proof. exact new_behera_rejects. Qed.
Print Assumptions C14_behera_rejects.

(* a control the constructor accepts is a fixed point of norm (nothing is lost) *)
Theorem C14_behera_ctor_norm : forall g e c ctl, new_behera g e c = Ok ctl ->
  (forall e' g' c', ctl = CBehera e' g' c' -> (-1 <= e')%Z -> (-1 <= g')%Z -> (-1 <= c')%Z -> norm_control ctl = ctl).
Proof.
  intros g e c ctl H e' g' c' -> He Hg Hc.
  destruct (new_behera_at_most_one g e c _ H) as (e2 & g2 & c2 & Heq & Hone & _).
  inversion Heq; subst e2 g2 c2. cbn [norm_control].
  destruct (0 <=? g')%Z eqn:?; destruct (0 <=? e')%Z eqn:?; destruct (0 <=? c')%Z eqn:?;
    destruct Hone as [[? ?]|[[? ?]|[? ?]]]; subst; try reflexivity; try lia;
    repeat f_equal; lia.
Qed.
Print Assumptions C14_behera_ctor_norm.

(* the pinned conversion wrapped huge error codes into accepted ones *)
Theorem C14_behera_wrap_refuted : (wrap_uint_to_int (2 ^ 64 - 2) = -2)%Z /\ (wrap_uint_to_int (2 ^ 63) <= 8)%Z.
Proof. exact new_behera_wrap_refuted. Qed.
Print Assumptions C14_behera_wrap_refuted.
