(* C05 - concurrent handlers never tear, merge, lose or duplicate response frames.
   ONLY statements.  The model (Writer.v): any number of writer threads, each
   with any list of frames, every Write = take the shared mutex, hand the frame
   to the shared buffered writer, flush, release; socket writes of any chunking,
   short writes and failures with bufio's sticky error.  [wrun (winit frames) ls]:
   the state after the label sequence ls (= a schedule) from the initial state. *)
From Coq Require Import String List Bool.
From G Require Import Base Writer AccessGen Access AccessProofs.
Open Scope list_scope.
Open Scope nat_scope.

(* at every moment of every schedule the stream is whole frames - one per
   successful Write, in completion order - plus a prefix of the one frame being
   written (or that failed) *)
Theorem C05_stream : forall frames ls s, wrun (winit frames) ls = Some s ->
  exists tail, wire s = concat (map snd (oklog s)) ++ tail /\ (werr s = false -> tail = partial s).
Proof. exact c05_stream. Qed.
Print Assumptions C05_stream.

Theorem C05_whole_frames : forall frames ls s, wrun (winit frames) ls = Some s -> holder s = None -> werr s = false ->
  wire s = concat (map snd (oklog s)).
Proof. exact c05_whole_frames. Qed.
Print Assumptions C05_whole_frames.

(* exactly once, and each writer's frames in the order it wrote them: returned
   Writes ++ the frame in progress ++ frames still to write = the writer's frames *)
Theorem C05_exactly_once : forall frames ls s, wrun (winit frames) ls = Some s -> conserve frames s.
Proof. exact c05_exactly_once. Qed.
Print Assumptions C05_exactly_once.

Theorem C05_mutex : forall frames ls s t1 t2 th1 th2, wrun (winit frames) ls = Some s ->
  nth_error (threads s) t1 = Some th1 -> nth_error (threads s) t2 = Some th2 ->
  cur th1 <> None -> cur th2 <> None -> t1 = t2.
Proof. exact c05_mutex. Qed.
Print Assumptions C05_mutex.

Theorem C05_failure : forall s l s', werr s = true -> wstep s l = Some s' -> werr s' = true /\ wire s' = wire s.
Proof. exact c05_failure_sticky. Qed.
Print Assumptions C05_failure.

(* the model's premise, checked on the access table regenerated from the Go source on every
   run: every use of the connection's buffered writer holds the connection's writer mutex
   (so the LTS, in which a frame is handed to the writer only by the mutex's holder, is the
   shape of the code) *)
Theorem C05_writer_only_under_mutex :
  forallb (fun a => implb (uses_writer a) (existsb (String.eqb "conn.writerMu:W") (eff_locks gen_calls a))) gen_sites = true.
Proof. exact writer_only_under_mutex. Qed.
Print Assumptions C05_writer_only_under_mutex.
