(* C17 - Ready is true only while the server is really listening.
   ONLY statements.  The model is the labelled transition system of Sys.v:
   every interleaving of the Run thread, any number of Stop calls, connection
   goroutines, per-request goroutines (with arbitrary handler scripts) and the
   environment (clients, barriers, slow OnClose).  [reachable cfg s]: s is the
   result of some label sequence from the initial state.  The boolean fields
   of [cfg] are the places where the pinned and the current tree differ;
   [fixed_cfg] is the current tree (validated behaviourally on every run by the
   scenario correspondence), [pinned_cfg] the tree before the fix commits. *)
From G Require Import Base Sys SysProofs SysProps Addr AddrProofs.
Open Scope nat_scope.

Theorem C17_ready_bound : forall cfg s, ready_on_error cfg = false -> reachable cfg s ->
  ready s = true -> stops s = [] -> accept_failed s = false ->
  lst s = Listening /\ in_loop (run s) = true /\ port_bound s = true.
Proof. exact c17_ready_means_listening. Qed.
Print Assumptions C17_ready_bound.

Theorem C17_connect_succeeds : forall cfg s, ready_on_error cfg = false -> reachable cfg s -> alive s = true ->
  ready s = true -> stops s = [] -> accept_failed s = false -> step cfg s EConnect <> None.
Proof. exact c17_connect_succeeds. Qed.
Print Assumptions C17_connect_succeeds.

Theorem C17_run_error : forall cfg s, ready_on_error cfg = false -> reachable cfg s ->
  run s = RRet true -> accept_failed s = false -> ready s = false.
Proof. exact c17_run_error. Qed.
Print Assumptions C17_run_error.

(* the hypothesis [accept_failed s = false] above is a theorem of the current tree
   (accept errors are retried): Ready() = true and no Stop imply a bound socket, Run in
   its loop, and a served connection attempt - with no exception *)
Theorem C17_accept_never_fails : forall cfg s, accept_retry cfg = true -> reachable cfg s -> accept_failed s = false.
Proof. exact accept_never_fails. Qed.
Print Assumptions C17_accept_never_fails.

Theorem C17_ready_listening_unconditional : forall cfg s,
  accept_retry cfg = true -> ready_on_error cfg = false -> reachable cfg s -> alive s = true ->
  ready s = true -> stops s = [] ->
  step cfg s EConnect <> None /\ in_loop (run s) = true /\ lst s = Listening.
Proof. exact c07_accepting_despite_accept_errors. Qed.
Print Assumptions C17_ready_listening_unconditional.

(* the address given to Run (Addr.v: validateAddrPort, with the library calls it makes as
   oracle bits): never a panic; what goes on to net.Listen is the host and port the caller
   wrote, split at the last colon, unchanged or with the host put into one pair of brackets -
   brackets are never taken away and the host is never rewritten; a host that starts with a
   bracket is passed on as written, and only if the library accepts what is between the brackets *)
Theorem C17_addr_total : forall o a, validate_addr o a <> Panic.
Proof. exact validate_total. Qed.
Print Assumptions C17_addr_total.

Theorem C17_addr_shape : forall o a out, validate_addr o a = Ok out ->
  exists h p, a = h ++ colon :: p /\ p <> [] /\ has_byte colon p = false /\
              (out = h ++ colon :: p \/ (out = lbr :: h ++ rbr :: colon :: p /\ first_is lbr h = false)).
Proof. exact validate_shape. Qed.
Print Assumptions C17_addr_shape.

Theorem C17_addr_bracketed : forall o a h p out, split_last a = Some (h, p) -> first_is lbr h = true ->
  validate_addr o a = Ok out ->
  has_byte rbr h = true /\ o_trim_ip o = true /\ out = h ++ colon :: p.
Proof. exact validate_bracketed. Qed.
Print Assumptions C17_addr_bracketed.

Theorem C17_pinned_refuted : exists s, run_labels pinned_cfg init [ECallRun true false; LRun] = Some s /\ run s = RRet true /\ ready s = true.
Proof. exact c17_pinned_refuted. Qed.
Print Assumptions C17_pinned_refuted.
