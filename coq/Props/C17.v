(* C17 - Ready is true only while the server is really listening.
   ONLY statements.  The model is the labelled transition system of Sys.v:
   every interleaving of the Run thread, any number of Stop calls, connection
   goroutines, per-request goroutines (with arbitrary handler scripts) and the
   environment (clients, barriers, slow OnClose).  [reachable cfg s]: s is the
   result of some label sequence from the initial state.  The boolean fields
   of [cfg] are the places where the pinned and the current tree differ;
   [fixed_cfg] is the current tree (validated behaviourally on every run by the
   scenario correspondence), [pinned_cfg] the tree before the fix commits. *)
From G Require Import Base Sys SysProofs SysProps.
Open Scope nat_scope.

Theorem C17_ready_bound : forall cfg s, ready_on_error cfg = false -> reachable cfg s ->
  ready s = true -> stops s = [] -> accept_failed s = false ->
  lst s = Listening /\ in_loop (run s) = true /\ port_bound s = true.
Proof. exact c17_ready_means_listening. Qed.
Print Assumptions C17_ready_bound.

Theorem C17_connect_succeeds : forall cfg s, ready_on_error cfg = false -> reachable cfg s -> alive s = true ->
  ready s = true -> stops s = [] -> accept_failed s = false -> step cfg s EConnect <> None.
Proof. exact c17_connect_succeeds. Qed.
Print Assumptions C17_connect_succeeds.

Theorem C17_run_error : forall cfg s, ready_on_error cfg = false -> reachable cfg s ->
  run s = RRet true -> accept_failed s = false -> ready s = false.
Proof. exact c17_run_error. Qed.
Print Assumptions C17_run_error.

(* the hypothesis [accept_failed s = false] above is a theorem of the current tree
   (accept errors are retried): Ready() = true and no Stop imply a bound socket, Run in
   its loop, and a served connection attempt - with no exception *)
Theorem C17_accept_never_fails : forall cfg s, accept_retry cfg = true -> reachable cfg s -> accept_failed s = false.
Proof. exact accept_never_fails. Qed.
Print Assumptions C17_accept_never_fails.

Theorem C17_ready_listening_unconditional : forall cfg s,
  accept_retry cfg = true -> ready_on_error cfg = false -> reachable cfg s -> alive s = true ->
  ready s = true -> stops s = [] ->
  step cfg s EConnect <> None /\ in_loop (run s) = true /\ lst s = Listening.
Proof. exact c07_accepting_despite_accept_errors. Qed.
Print Assumptions C17_ready_listening_unconditional.

Theorem C17_pinned_refuted : exists s, run_labels pinned_cfg init [ECallRun true false; LRun] = Some s /\ run s = RRet true /\ ready s = true.
Proof. exact c17_pinned_refuted. Qed.
Print Assumptions C17_pinned_refuted.
