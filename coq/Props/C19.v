(* C19 — test directory: a bind succeeds only with the right credentials.
   ONLY statements.  [handle_bind d dn pw] is the result code the directory's
   bind handler sets for a simple bind (the route table sends every simple
   bind there; the transport is not an input of the handler, see C13/C18 for
   what a tunnel changes). *)
From G Require Import Base Directory DirProofs.
Open Scope N_scope.

Theorem C19_bind_iff : forall d dn pw, handle_bind d dn pw = ResultSuccess <->
  (pw = [] /\ anon d = true) \/
  (exists u, In u (users d) /\ d_dn u = dn /\ first_password u = Some pw).
Proof. exact bind_iff. Qed.
Print Assumptions C19_bind_iff.

Theorem C19_otherwise : forall d dn pw, handle_bind d dn pw <> ResultSuccess ->
  handle_bind d dn pw = ResultInvalidCredentials.
Proof. exact bind_otherwise. Qed.
Print Assumptions C19_otherwise.

Theorem C19_transport_independent : forall d d' dn pw, users d = users d' -> anon d = anon d' ->
  handle_bind d dn pw = handle_bind d' dn pw.
Proof. exact bind_depends_only. Qed.
Print Assumptions C19_transport_independent.

(* over histories: after ANY operations (adds, deletes and modifies by any DN,
   Set* calls, searches, binds) a bind is answered from the user entries and
   the anonymous flag of the state reached - C19_bind_iff then says which -
   and the Users() getter shows exactly those entries (the correspondence run
   evaluates the property's predicate over what the getter returns) *)
Theorem C19_bind_in_history : forall eqfold replfix d0 pre dn pw post,
  let d := fst (drun eqfold replfix d0 pre) in
  nth_error (snd (drun eqfold replfix d0 (pre ++ DBind dn pw :: post))) (length pre) =
    Some {| res_code := handle_bind d dn pw; res_entries := [] |} /\
  nth_error (snd (drun eqfold replfix d0 (pre ++ DUsers :: post))) (length pre) =
    Some {| res_code := 0; res_entries := users d |}.
Proof. exact bind_in_history. Qed.
Print Assumptions C19_bind_in_history.

(* binds, searches and the Users() probe never write: however many of them
   come first - wrong guesses included - a bind is answered exactly as it would
   have been without them (no lockout, no state a failed attempt could bend) *)
Theorem C19_reads_change_nothing : forall eqfold replfix ops d,
  forallb read_only ops = true -> fst (drun eqfold replfix d ops) = d.
Proof. exact read_only_run. Qed.
Print Assumptions C19_reads_change_nothing.

Theorem C19_bind_after_reads : forall eqfold replfix d0 pre reads dn pw post,
  forallb read_only reads = true ->
  nth_error (snd (drun eqfold replfix d0 (pre ++ reads ++ DBind dn pw :: post))) (length pre + length reads) =
  Some {| res_code := handle_bind (fst (drun eqfold replfix d0 pre)) dn pw; res_entries := [] |}.
Proof. exact bind_after_reads. Qed.
Print Assumptions C19_bind_after_reads.
