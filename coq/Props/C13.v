(* C13 - StartTLS upgrades a connection atomically: the handler runs on the read-loop goroutine, which therefore consumes no LDAP request until it returns; the handshake takes the client's handshake bytes from the head of the input. (What crypto/tls does with those bytes is the oracle of C18.)
   ONLY statements.  The model is the labelled transition system of Sys.v:
   every interleaving of the Run thread, any number of Stop calls, connection
   goroutines, per-request goroutines (with arbitrary handler scripts) and the
   environment (clients, barriers, slow OnClose).  [reachable cfg s]: s is the
   result of some label sequence from the initial state.  The boolean fields
   of [cfg] are the places where the pinned and the current tree differ;
   [fixed_cfg] is the current tree (validated behaviourally on every run by the
   scenario correspondence), [pinned_cfg] the tree before the fix commits. *)
From G Require Import Base Sys SysProofs SysProps.
Open Scope nat_scope.

Theorem C13_inline : forall cfg s c c' e k sc, conn_step cfg s c = Some (c', e) -> pc c = CInline k sc ->
  nread c' = nread c /\ started c' = started c /\
  (input c' = input c \/
   exists rest d, sc = HHandshake :: rest /\ Forall is_req d /\
                  (input c = d ++ IHello :: input c' \/ input c = d ++ IBad :: input c')).
Proof. exact c13_inline. Qed.
Print Assumptions C13_inline.

Theorem C13_handlers_do_not_read : forall cfg s c r c' e, handler_step cfg s c r = Some (c', e) ->
  input c' = input c /\ nread c' = nread c /\ pc c' = pc c.
Proof. exact c13_handlers_do_not_read. Qed.
Print Assumptions C13_handlers_do_not_read.

(* the handshake sees the client's first handshake byte; what the upgrade does to what is
   running: the handlers in flight (and the rest of the StartTLS handler) keep the writer they
   were given - their remaining writes are [HStaleWrite]s, writes to the raw socket *)
Theorem C13_first_byte : forall cfg s c k rest inp, pc c = CInline k (HHandshake :: rest) -> input c = IHello :: inp ->
  exists c', conn_step cfg s c = Some (c', ENone) /\ input c' = inp /\
             pc c' = CInline k (stale_script rest) /\ hs c' = stale_hs (hs c).
Proof. exact c13_first_byte. Qed.
Print Assumptions C13_first_byte.

(* every byte after the upgrade is TLS-protected when no handler of the connection was in
   flight at the upgrade and the StartTLS handler writes nothing after its handshake: nothing
   is staled, and every later handler is given the new writer *)
Theorem C13_clean_upgrade : forall cfg s c k rest inp c' e,
  pc c = CInline k (HHandshake :: rest) -> input c = IHello :: inp -> conn_step cfg s c = Some (c', e) ->
  hs c = [] -> Forall (fun h => h <> HWrite) rest -> hs c' = [] /\ pc c' = CInline k rest.
Proof. exact c13_clean_upgrade. Qed.
Print Assumptions C13_clean_upgrade.

(* at full strength ("every byte in both directions", whatever is in flight) the statement is
   false of the current tree - known finding K5: Search, StartTLS, ClientHello, and the search
   handler answers after the handshake: one frame delivered (the StartTLS response), then a
   stale write, the client gives the connection up (eof), nothing more is delivered *)
Theorem C13_late_writer_refuted :
  exists s c c', run_labels fixed_cfg init late_writer_run = Some s /\ nth_error (conns s) 0 = Some c /\
    pc c = CInline KStartTLS [] /\ hs c = [(1, [HStaleWrite])] /\ sent c = 1 /\
    handler_step fixed_cfg s c 1 = Some (c', ENone) /\ eof c' = true /\ sent c' = 1.
Proof. exact c13_late_writer_refuted. Qed.
Print Assumptions C13_late_writer_refuted.

Theorem C13_same_pipeline : forall cfg s i c, reachable cfg s -> conn_of s i c ->
  (forall r k, In (r, k) (started c) -> 1 <= r <= nread c) /\ increasing (map fst (started c)) /\
  (pc c = CRead -> nreq c = S (nread c)).
Proof. exact c06_numbering. Qed.
Print Assumptions C13_same_pipeline.
