(* C16 — exported helpers and constructors are total: errors, never panics.
   ONLY statements; every proof is [exact] of a lemma proved elsewhere. *)
From G Require Import Base Ber Helpers HelpersProofs.
From Coq Require Import Sorted Permutation.
Open Scope N_scope.

Theorem C16_convert_total : forall ss, convert_string ss <> Panic.
Proof. exact convert_string_total. Qed.
Print Assumptions C16_convert_total.

Theorem C16_convert_inverse : forall t s, t = 4 \/ t = 27 -> N.of_nat (length s) < 2 ^ 63 ->
  convert_string [wrap_with t s] = Ok [s].
Proof. exact convert_string_inverse. Qed.
Print Assumptions C16_convert_inverse.

Theorem C16_convert_many : forall ss, Forall (fun s => N.of_nat (length s) < 2 ^ 63) ss ->
  convert_string (map wrap_octet ss) = Ok ss.
Proof. exact convert_string_many. Qed.
Print Assumptions C16_convert_many.

Theorem C16_sid_roundtrip : forall r a, r < 256 -> a < 65536 ->
  sid_to_parts (sid_bytes r a) = Ok (r, a, []).
Proof. exact sid_roundtrip. Qed.
Print Assumptions C16_sid_roundtrip.

Theorem C16_sid_total : forall bs, sid_to_parts bs <> Panic.
Proof. exact sid_total. Qed.
Print Assumptions C16_sid_total.

Theorem C16_entry_sorted : forall dn m,
  Sorted bytes_le (map ea_name (e_attrs (new_entry dn m))) /\
  Permutation (map fst m) (map ea_name (e_attrs (new_entry dn m))).
Proof. exact new_entry_sorted. Qed.
Print Assumptions C16_entry_sorted.

Theorem C16_entry_deterministic : forall dn m m',
  NoDup (map fst m) -> Permutation m m' -> new_entry dn m = new_entry dn m'.
Proof. exact new_entry_deterministic. Qed.
Print Assumptions C16_entry_deterministic.

Theorem C16_entry_values : forall a vs, ea_values a = ea_bytevalues a ->
  ea_values (add_value a vs) = ea_bytevalues (add_value a vs) /\
  ea_values (add_value a vs) = ea_values a ++ vs.
Proof. exact add_value_preserves. Qed.
Print Assumptions C16_entry_values.

(* constructors and registration methods *)
From G Require Import Ldap LdapProofs Response ResponseProofs Mux MuxProofs.

Theorem C16_ctor_total : forall k id dn xs, new_response true k id dn xs <> Panic.
Proof. exact new_response_total. Qed.
Print Assumptions C16_ctor_total.

Theorem C16_ctor_pinned_refuted : new_response false KModify 5 [] [] = Panic.
Proof. exact new_response_pinned_refuted. Qed.
Print Assumptions C16_ctor_pinned_refuted.

Theorem C16_mux_register_total : forall m,
  (forall r, register m (RegRoute r None) = (m, false)) /\
  register m (RegDefault None) = (m, false) /\ register m (RegUnbind None) = (m, false).
Proof. exact register_nil_rejected. Qed.
Print Assumptions C16_mux_register_total.

Theorem C16_control_ctor_total : forall g e c, new_behera g e c <> Panic.
Proof.
  intros g e c. unfold new_behera.
  repeat match goal with |- context [if ?b then _ else _] => destruct b end; discriminate.
Qed.
Print Assumptions C16_control_ctor_total.
