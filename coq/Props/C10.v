(* C10 - Unbind ends the connection: nothing after it is served.
   ONLY statements.  The model is the labelled transition system of Sys.v:
   every interleaving of the Run thread, any number of Stop calls, connection
   goroutines, per-request goroutines (with arbitrary handler scripts) and the
   environment (clients, barriers, slow OnClose).  [reachable cfg s]: s is the
   result of some label sequence from the initial state.  The boolean fields
   of [cfg] are the places where the pinned and the current tree differ;
   [fixed_cfg] is the current tree (validated behaviourally on every run by the
   scenario correspondence), [pinned_cfg] the tree before the fix commits. *)
From G Require Import Base Sys SysProofs SysProps.
Open Scope nat_scope.

Theorem C10_nothing_after : forall cfg s i c, reachable cfg s -> conn_of s i c ->
  read_after_unbind c = 0 /\
  (unbind_seen c = true -> match pc c with CInline KUnbind _ | CTeardown _ | CDone => True | _ => False end) /\
  count_unbind (started c) <= 1 /\ (unbind_seen c = false -> count_unbind (started c) = 0).
Proof. exact c10_nothing_after_unbind. Qed.
Print Assumptions C10_nothing_after.

Theorem C10_no_more_reads : forall cfg s c c' e, conn_step cfg s c = Some (c', e) ->
  (match pc c with CInline KUnbind _ | CTeardown _ | CDone => True | _ => False end) ->
  nread c' = nread c /\ started c' = started c /\
  (match pc c' with CInline KUnbind _ | CTeardown _ | CDone => True | _ => False end).
Proof. exact c10_no_more_reads. Qed.
Print Assumptions C10_no_more_reads.

Theorem C10_close_after_handlers : forall cfg s i c, reachable cfg s -> conn_of s i c ->
  onclose c <= 1 /\ (onclose c = 1 -> inflight c = 0 /\ hs c = [] /\ sock_closed c = true).
Proof. exact c08_once_after_handlers. Qed.
Print Assumptions C10_close_after_handlers.

(* gldap sends no response to an Unbind: reading it puts nothing on the wire, the
   teardown that follows is silent, and the read loop never writes anything of its
   own except the notice of disconnection after Stop and what an inline handler's
   script writes ([sent] counts the LDAPMessages gldap has written on the connection) *)
Theorem C10_no_response_to_unbind : forall cfg s c c' e sc rest, pc c = CRead -> input c = IReq KUnbind sc :: rest ->
  conn_step cfg s c = Some (c', e) -> sent c' = sent c.
Proof. exact c10_no_response_to_unbind. Qed.
Print Assumptions C10_no_response_to_unbind.

Theorem C10_teardown_is_silent : forall cfg s c c' e todo, pc c = CTeardown todo ->
  conn_step cfg s c = Some (c', e) -> sent c' = sent c.
Proof. exact c10_teardown_is_silent. Qed.
Print Assumptions C10_teardown_is_silent.

Theorem C10_loop_writes : forall cfg s c c' e, conn_step cfg s c = Some (c', e) ->
  sent c' = sent c \/
  (pc c = CLoopTop /\ cancelled s = true /\ sent c' = S (sent c)) \/
  (exists k rest, pc c = CInline k (HWrite :: rest) /\ sent c' = S (sent c)).
Proof. exact c10_loop_writes. Qed.
Print Assumptions C10_loop_writes.
