(* C06 - requests on a connection are numbered in order and dispatched concurrently.
   ONLY statements.  The model is the labelled transition system of Sys.v:
   every interleaving of the Run thread, any number of Stop calls, connection
   goroutines, per-request goroutines (with arbitrary handler scripts) and the
   environment (clients, barriers, slow OnClose).  [reachable cfg s]: s is the
   result of some label sequence from the initial state.  The boolean fields
   of [cfg] are the places where the pinned and the current tree differ;
   [fixed_cfg] is the current tree (validated behaviourally on every run by the
   scenario correspondence), [pinned_cfg] the tree before the fix commits. *)
From G Require Import Base Sys SysProofs SysProps.
Open Scope nat_scope.

Theorem C06_numbering : forall cfg s i c, reachable cfg s -> conn_of s i c ->
  (forall r k, In (r, k) (started c) -> 1 <= r <= nread c) /\ increasing (map fst (started c)) /\
  (pc c = CRead -> nreq c = S (nread c)).
Proof. exact c06_numbering. Qed.
Print Assumptions C06_numbering.

Theorem C06_dispatch : forall cfg s i c c' e k sc rest, reachable cfg s -> conn_of s i c ->
  pc c = CRead -> input c = IReq k sc :: rest -> conn_step cfg s c = Some (c', e) ->
  nread c' = S (nread c) /\
  (started c' = started c ++ [(S (nread c), k)] \/ (k = KUnbind /\ has_unbind_route cfg = false /\ started c' = started c)).
Proof. exact c06_dispatch. Qed.
Print Assumptions C06_dispatch.

Theorem C06_no_wait : forall cfg s c sc rest, cancelled s = false -> pc c = CRead -> input c = IReq KNormal sc :: rest ->
  exists c', conn_step cfg s c = Some (c', ENone) /\ pc c' = CLoopTop /\
             hs c' = hs c ++ [(nreq c, sc)] /\ inflight c' = S (inflight c).
Proof. exact c06_no_wait. Qed.
Print Assumptions C06_no_wait.

Theorem C06_isolation : forall cfg s s' c,
  cancelled s' = cancelled s -> released s' = released s -> onclose_held s' = onclose_held s ->
  conn_step cfg s' c = conn_step cfg s c /\ forall r, handler_step cfg s' c r = handler_step cfg s c r.
Proof. exact c06_isolation. Qed.
Print Assumptions C06_isolation.

Theorem C06_other_conns : forall cfg s l s' i, step cfg s l = Some s' ->
  (l = LConn i \/ exists r, l = LHandler i r) -> forall j, j <> i -> nth_error (conns s') j = nth_error (conns s) j.
Proof. exact c06_other_conns. Qed.
Print Assumptions C06_other_conns.

(* a per-request goroutine puts on the wire exactly what its handler writes: one
   LDAPMessage per write step that reaches the client, nothing otherwise *)
Theorem C06_handler_writes : forall cfg s c r c' e, handler_step cfg s c r = Some (c', e) ->
  sent c' = sent c \/ (delivered c = true /\ sent c' = S (sent c) /\
                       exists rest others, take_handler r (hs c) = Some (HWrite :: rest, others)).
Proof. exact c06_handler_writes. Qed.
Print Assumptions C06_handler_writes.
