(* placeholder *)
