(* BerProofs.v — lemmas about the BER model: length, identifier and integer
   round trips, reader round trip on well-formed trees, reader never panics. *)
From G Require Import Base Ber.
Ltac Zify.zify_post_hook ::= Z.div_mod_to_equations.
Open Scope N_scope.

(* ---------------------------------------------------------------- *)
(* big-endian digits                                                 *)

Lemma be_value_app acc a b : be_value acc (a ++ b) = be_value (be_value acc a) b.
Proof. revert acc; induction a; simpl; auto. Qed.

Lemma be_digits_value fuel n : n < 256 ^ (N.of_nat (S fuel)) -> be_value 0 (be_digits fuel n) = n.
Proof.
  revert n; induction fuel as [|f IH]; intros n H.
  - simpl in *. change (256 ^ 1) with 256 in H. rewrite N.mod_small by lia. lia.
  - cbn [be_digits]. destruct (n <? 256) eqn:E.
    + simpl. lia.
    + rewrite be_value_app, IH.
      * simpl. lia.
      * rewrite Nat2N.inj_succ, N.pow_succ_r' in H.
        apply N.div_lt_upper_bound; lia.
Qed.

Lemma be_digits_len fuel n : (1 <= length (be_digits fuel n) <= S fuel)%nat.
Proof.
  revert n; induction fuel as [|f IH]; intros n; cbn [be_digits].
  - simpl; lia.
  - destruct (n <? 256); simpl; [lia|]. rewrite app_length; simpl. specialize (IH (n/256)). lia.
Qed.

Lemma be_digits_bytes fuel n : Forall (fun b => b < 256) (be_digits fuel n).
Proof.
  revert n; induction fuel as [|f IH]; intros n; cbn [be_digits].
  - constructor; [apply N.mod_lt; lia|constructor].
  - destruct (n <? 256) eqn:E.
    + constructor; [lia|constructor].
    + apply Forall_app; split; [apply IH|].
      constructor; [apply N.mod_lt; lia|constructor].
Qed.

Lemma be_digits_len_tight : forall f m, m < 256 ^ N.of_nat (S f) -> (length (be_digits (S f) m) <= S f)%nat.
Proof.
  induction f as [|f IH]; intros m Hm; cbn [be_digits].
  - change (256 ^ N.of_nat 1) with 256 in Hm. destruct (m <? 256) eqn:?; [simpl; lia|lia].
  - destruct (m <? 256) eqn:?; [simpl; lia|]. rewrite app_length; simpl.
    assert (m / 256 < 256 ^ N.of_nat (S f)) as Hdiv.
    { rewrite (Nat2N.inj_succ (S f)), N.pow_succ_r' in Hm. apply N.div_lt_upper_bound; lia. }
    specialize (IH _ Hdiv). cbn [be_digits] in IH. lia.
Qed.

Lemma be_digits8_len n : n < 2 ^ 64 -> (length (be_digits 8 n) <= 8)%nat.
Proof. intros H. apply (be_digits_len_tight 7%nat). change (256 ^ N.of_nat 8) with (2 ^ 64). exact H. Qed.

(* ---------------------------------------------------------------- *)
(* lengths                                                           *)

Lemma enc_len_bytes n : Forall (fun b => b < 256) (enc_len n).
Proof.
  unfold enc_len. destruct (n <=? 127); [apply be_digits_bytes|].
  constructor; [|apply be_digits_bytes].
  pose proof (be_digits_len 8 n). lia.
Qed.

Lemma enc_len_nonempty n : enc_len n <> [].
Proof.
  unfold enc_len. pose proof (be_digits_len 8 n) as H.
  destruct (n <=? 127); [|discriminate]. destruct (be_digits 8 n); [simpl in H; lia|discriminate].
Qed.

Theorem read_len_enc_len n rest : n < 2 ^ 63 -> read_len (enc_len n ++ rest) = Ok (Z.of_N n, rest).
Proof.
  intros H. unfold enc_len.
  pose proof (be_digits_len 8 n) as HL.
  destruct (n <=? 127) eqn:E.
  - assert (be_digits 8 n = [n]) as ->. { cbn [be_digits]. destruct (n <? 256) eqn:E2; [reflexivity|lia]. }
    simpl. destruct (n =? 255) eqn:?; [lia|]. destruct (n =? 128) eqn:?; [lia|]. destruct (n <? 128) eqn:?; [reflexivity|lia].
  - set (ds := be_digits 8 n) in *.
    cbn [app read_len].
    destruct (128 + N.of_nat (length ds) =? 255) eqn:?; [lia|].
    destruct (128 + N.of_nat (length ds) =? 128) eqn:?; [lia|].
    destruct (128 + N.of_nat (length ds) <? 128) eqn:?; [lia|].
    replace (128 + N.of_nat (length ds) - 128) with (N.of_nat (length ds)) by lia.
    rewrite Nat2N.id.
    assert (length ds <= 8)%nat as HL8 by (apply be_digits8_len; lia).
    destruct (8 <? length ds)%nat eqn:?; [lia|].
    rewrite app_length. destruct (length ds + length rest <? length ds)%nat eqn:?; [lia|].
    rewrite firstn_app_exact, skipn_app_exact.
    subst ds. rewrite be_digits_value by (change (256 ^ N.of_nat 9) with (2 ^ 72); lia).
    destruct (2 ^ 63 <=? n) eqn:?; [lia|reflexivity].
Qed.

(* ---------------------------------------------------------------- *)
(* identifiers (low-tag form: every tag LDAP uses is < 31)           *)

Definition cls_ok (c : N) : bool := (c =? 0) || (c =? 64) || (c =? 128) || (c =? 192).

Lemma read_ident_enc_ident i rest :
  cls_ok (cls i) = true -> tag i < 31 ->
  read_ident (enc_ident i ++ rest) = Ok (i, rest).
Proof.
  destruct i as [c k t]. unfold cls_ok, enc_ident, read_ident. cbn [cls cons tag].
  intros Hc Ht. destruct (t <? 31) eqn:E; [|lia]. cbn [app].
  set (b := c + (if k then 32 else 0) + t).
  assert (b mod 32 = t) as E1 by (subst b; destruct k; lia).
  assert (b / 64 * 64 = c) as E2 by (subst b; destruct k; lia).
  assert ((b / 32) mod 2 = if k then 1 else 0) as E3 by (subst b; destruct k; lia).
  rewrite E1, E2, E3. destruct (t =? 31) eqn:?; [lia|]. destruct k; reflexivity.
Qed.

Lemma enc_ident_low_bytes i : cls_ok (cls i) = true -> tag i < 31 -> Forall (fun b => b < 256) (enc_ident i).
Proof.
  destruct i as [c k t]. unfold cls_ok, enc_ident. cbn [cls cons tag]. intros Hc Ht.
  destruct (t <? 31) eqn:E; [|lia]. constructor; [destruct k; lia|constructor].
Qed.

(* ---------------------------------------------------------------- *)
(* integers                                                          *)

Lemma be_fixed_length k n : length (be_fixed k n) = k.
Proof. revert n; induction k as [|k IH]; intros n; simpl; auto. rewrite app_length, IH. simpl. lia. Qed.

Lemma be_fixed_value k n : be_value 0 (be_fixed k n) = n mod 256 ^ N.of_nat k.
Proof.
  revert n; induction k as [|k IH]; intros n.
  - simpl. rewrite N.mod_1_r. reflexivity.
  - cbn [be_fixed]. rewrite be_value_app, IH. cbn [be_value].
    rewrite Nat2N.inj_succ, N.pow_succ_r'.
    set (M := 256 ^ N.of_nat k).
    assert (M <> 0) by (apply N.pow_nonzero; lia).
    rewrite N.mod_mul_r by lia.
    lia.
Qed.

Lemma be_fixed_bytes k n : Forall (fun b => b < 256) (be_fixed k n).
Proof.
  revert n; induction k as [|k IH]; intros n; simpl; [constructor|].
  apply Forall_app; split; [apply IH|]. constructor; [apply N.mod_lt; lia|constructor].
Qed.

Open Scope Z_scope.

Lemma int64_len_pos_bound f z : 0 <= z -> z < 2 ^ (8 * Z.of_nat (S f) - 1) ->
  let n := int64_len_pos f z in (1 <= n <= S f)%nat /\ z < 2 ^ (8 * Z.of_nat n - 1).
Proof.
  revert z; induction f as [|f IH]; intros z H0 H1; cbn [int64_len_pos].
  - split; [lia|exact H1].
  - destruct (127 <? z) eqn:E.
    + assert (z / 256 < 2 ^ (8 * Z.of_nat (S f) - 1)) as Hd.
      { apply Z.div_lt_upper_bound; [lia|].
        replace (8 * Z.of_nat (S (S f)) - 1) with (8 + (8 * Z.of_nat (S f) - 1)) in H1 by lia.
        rewrite Z.pow_add_r in H1 by lia. exact H1. }
      destruct (IH (z / 256) ltac:(apply Z.div_pos; lia) Hd) as [Hn Hb].
      split; [lia|].
      set (n := int64_len_pos f (z / 256)) in *.
      replace (8 * Z.of_nat (S n) - 1) with (8 + (8 * Z.of_nat n - 1)) by lia.
      rewrite Z.pow_add_r by lia. change (2 ^ 8) with 256.
      assert (0 < 2 ^ (8 * Z.of_nat n - 1)) by (apply Z.pow_pos_nonneg; lia).
      lia.
    + split; [lia|]. change (2 ^ (8 * Z.of_nat 1 - 1)) with 128. lia.
Qed.

Lemma int64_len_neg_bound f z : z < 0 -> - 2 ^ (8 * Z.of_nat (S f) - 1) <= z ->
  let n := int64_len_neg f z in (1 <= n <= S f)%nat /\ - 2 ^ (8 * Z.of_nat n - 1) <= z.
Proof.
  revert z; induction f as [|f IH]; intros z H0 H1; cbn [int64_len_neg].
  - split; [lia|exact H1].
  - destruct (z <? -128) eqn:E.
    + assert (- 2 ^ (8 * Z.of_nat (S f) - 1) <= z / 256) as Hd.
      { apply Z.div_le_lower_bound; [lia|].
        replace (8 * Z.of_nat (S (S f)) - 1) with (8 + (8 * Z.of_nat (S f) - 1)) in H1 by lia.
        rewrite Z.pow_add_r in H1 by lia. change (2 ^ 8) with 256 in H1. lia. }
      assert (z / 256 < 0) as Hneg by (apply Z.div_lt_upper_bound; lia).
      destruct (IH (z / 256) Hneg Hd) as [Hn Hb].
      split; [lia|].
      set (n := int64_len_neg f (z / 256)) in *.
      replace (8 * Z.of_nat (S n) - 1) with (8 + (8 * Z.of_nat n - 1)) by lia.
      rewrite Z.pow_add_r by lia. change (2 ^ 8) with 256.
      assert (0 < 2 ^ (8 * Z.of_nat n - 1)) by (apply Z.pow_pos_nonneg; lia).
      lia.
    + split; [lia|]. change (2 ^ (8 * Z.of_nat 1 - 1)) with 128. lia.
Qed.

Lemma int64_len_bound z : - 2 ^ 63 <= z < 2 ^ 63 ->
  let n := int64_len z in (1 <= n <= 8)%nat /\ - 2 ^ (8 * Z.of_nat n - 1) <= z < 2 ^ (8 * Z.of_nat n - 1).
Proof.
  intros [Hl Hu]. unfold int64_len. destruct (0 <=? z) eqn:E.
  - destruct (int64_len_pos_bound 8 z ltac:(lia)) as [Hn Hb].
    { change (8 * Z.of_nat 9 - 1) with 71. assert (2 ^ 63 < 2 ^ 71) by (apply Z.pow_lt_mono_r; lia). lia. }
    (* fuel 8 allows 9; show 9 is impossible below 2^63 *)
    cbn zeta in *. set (n := int64_len_pos 8 z) in *.
    assert (n <= 8)%nat.
    { destruct (Nat.eq_dec n 9) as [E9|]; [|lia]. exfalso.
      (* n = 9 means 8 successive tests 127 < z/256^i succeeded *)
      subst n. cbn [int64_len_pos] in E9.
      repeat match type of E9 with context [if ?c then _ else _] => destruct c eqn:? end; try discriminate; lia. }
    split; [lia|]. split; [|exact Hb].
    assert (0 < 2 ^ (8 * Z.of_nat n - 1)) by (apply Z.pow_pos_nonneg; lia). lia.
  - destruct (int64_len_neg_bound 8 z ltac:(lia)) as [Hn Hb].
    { change (8 * Z.of_nat 9 - 1) with 71. assert (2 ^ 63 < 2 ^ 71) by (apply Z.pow_lt_mono_r; lia). lia. }
    cbn zeta in *. set (n := int64_len_neg 8 z) in *.
    assert (n <= 8)%nat.
    { destruct (Nat.eq_dec n 9) as [E9|]; [|lia]. exfalso.
      subst n. cbn [int64_len_neg] in E9.
      repeat match type of E9 with context [if ?c then _ else _] => destruct c eqn:? end; try discriminate; lia. }
    split; [lia|]. split; [exact Hb|].
    assert (0 < 2 ^ (8 * Z.of_nat n - 1)) by (apply Z.pow_pos_nonneg; lia). lia.
Qed.

Lemma enc_int_length z : length (enc_int z) = int64_len z.
Proof. unfold enc_int. apply be_fixed_length. Qed.

Theorem parse_int64_enc_int z : - 2 ^ 63 <= z < 2 ^ 63 -> parse_int64 (enc_int z) = z.
Proof.
  intros Hz. destruct (int64_len_bound z Hz) as [Hn Hb]. cbn zeta in *.
  unfold parse_int64. rewrite enc_int_length.
  set (n := int64_len z) in *.
  destruct (8 <? n)%nat eqn:?; [lia|].
  destruct (n =? 0)%nat eqn:?; [lia|].
  unfold enc_int. fold n. rewrite be_fixed_value.
  set (M := 2 ^ (8 * Z.of_nat n)).
  assert (HM : M = 2 * 2 ^ (8 * Z.of_nat n - 1)).
  { subst M. replace (8 * Z.of_nat n) with (1 + (8 * Z.of_nat n - 1)) at 1 by lia.
    rewrite Z.pow_add_r by lia. reflexivity. }
  assert (0 < 2 ^ (8 * Z.of_nat n - 1)) as Hpos by (apply Z.pow_pos_nonneg; lia).
  set (H := 2 ^ (8 * Z.of_nat n - 1)) in *.
  assert (HMN : (256 ^ N.of_nat n)%N = Z.to_N M).
  { subst M. apply N2Z.inj. rewrite Z2N.id by (apply Z.pow_nonneg; lia).
    rewrite N2Z.inj_pow, nat_N_Z. change (Z.of_N 256) with (2 ^ 8).
    rewrite <- Z.pow_mul_r by lia. reflexivity. }
  rewrite HMN.
  assert (0 <= z mod M < M) as Hmod by (apply Z.mod_pos_bound; lia).
  rewrite <- Z2N.inj_mod by lia.
  rewrite Z.mod_mod by lia.
  rewrite Z2N.id by lia.
  replace (M / 2) with H by (rewrite HM; rewrite Z.mul_comm, Z.div_mul; lia).
  destruct (Z_lt_dec z 0) as [Hneg|Hnn].
  - assert (z mod M = z + M) as ->.
    { symmetry. apply (Z.mod_unique z M (-1)); lia. }
    destruct (z + M <? H) eqn:?; lia.
  - rewrite Z.mod_small by lia. destruct (z <? H) eqn:?; lia.
Qed.

Lemma enc_int_bytes z : Forall (fun b => (b < 256)%N) (enc_int z).
Proof. unfold enc_int. apply be_fixed_bytes. Qed.

Lemma enc_int_nonempty z : enc_int z <> [].
Proof.
  intros E. apply (f_equal (@length _)) in E. rewrite enc_int_length in E. simpl in E.
  unfold int64_len in E. destruct (0 <=? z); cbn [int64_len_pos int64_len_neg] in E;
  match type of E with context [if ?c then _ else _] => destruct c end; discriminate.
Qed.

Close Scope Z_scope.

(* ---------------------------------------------------------------- *)
(* induction principle for the nested packet type                     *)

Section PktInd.
  Variable P : pkt -> Prop.
  Hypothesis H : forall i d ks, Forall P ks -> P (Pkt i d ks).
  Fixpoint pkt_ind' (p : pkt) : P p :=
    match p with
    | Pkt i d ks =>
      H i d ks ((fix go (l : list pkt) : Forall P l :=
                   match l with
                   | [] => Forall_nil _
                   | x :: r => Forall_cons _ (pkt_ind' x) (go r)
                   end) ks)
    end.
End PktInd.

(* ---------------------------------------------------------------- *)
(* the reader never panics                                           *)

Lemma bind_not_panic {A B} (x : outcome A) (f : A -> outcome B) :
  x <> Panic -> (forall a, x = Ok a -> f a <> Panic) -> bind x f <> Panic.
Proof. destruct x; simpl; intros; auto; congruence. Qed.

Lemma read_high_tag_no_panic fuel first acc bs : read_high_tag fuel first acc bs <> Panic.
Proof.
  revert first acc bs; induction fuel as [|f IH]; intros first acc bs; simpl; [discriminate|].
  destruct bs as [|b r]; [discriminate|].
  destruct (first && _); [discriminate|]. destruct (b <? 128); [discriminate|apply IH].
Qed.

Lemma read_ident_no_panic bs : read_ident bs <> Panic.
Proof.
  unfold read_ident. destruct bs as [|b r]; [discriminate|].
  destruct (b mod 32 =? 31); [|discriminate].
  apply bind_not_panic; [apply read_high_tag_no_panic|]. intros [t' r'] _. discriminate.
Qed.

Lemma read_len_no_panic bs : read_len bs <> Panic.
Proof.
  unfold read_len. destruct bs as [|b r]; [discriminate|].
  destruct (b =? 255); [discriminate|]. destruct (b =? 128); [discriminate|].
  destruct (b <? 128); [discriminate|]. destruct (8 <? _)%nat; [discriminate|].
  destruct (_ <? _)%nat; discriminate.
Qed.

Lemma read_no_panic prim_ok fuel :
  (forall bs, read_pkt prim_ok fuel bs <> Panic) /\
  (forall rem bs acc, read_kids prim_ok fuel rem bs acc <> Panic).
Proof.
  induction fuel as [|f [IHp IHk]]; split.
  - intros; simpl; discriminate.
  - intros rem bs acc. simpl. destruct rem as [[|n]|]; discriminate.
  - intros bs. cbn [read_pkt].
    apply bind_not_panic; [apply read_ident_no_panic|]. intros [i r1] _.
    apply bind_not_panic; [apply read_len_no_panic|]. intros [len r2] _.
    destruct (_ && _); [discriminate|]. destruct (len <? -1)%Z; [discriminate|].
    destruct (cons i).
    + apply bind_not_panic; [apply IHk|]. intros [ks r3] _. discriminate.
    + destruct (_ <? len)%Z; [discriminate|]. destruct (_ <? _); [discriminate|].
      destruct (_ && _); discriminate.
  - intros rem bs acc. cbn [read_kids].
    assert (G : bind (read_pkt prim_ok f bs)
      (fun '(child, r) =>
       let used := N.of_nat (length bs - length r) in
       if is_eoc child
       then match rem with
            | Some _ => Err
            | None => Ok (rev acc, r)
            end
       else
        match rem with
        | Some n => if n <? used then Err else read_kids prim_ok f (Some (n - used)) r (child :: acc)
        | None => read_kids prim_ok f None r (child :: acc)
        end) <> Panic).
    { apply bind_not_panic; [apply IHp|]. intros [child r] _. cbn zeta.
      destruct (is_eoc child); [destruct rem; discriminate|].
      destruct rem as [n|]; [destruct (n <? _); [discriminate|apply IHk]|apply IHk]. }
    destruct rem as [[|n]|]; [discriminate|exact G|exact G].
Qed.

Theorem read_pkt_no_panic prim_ok fuel bs : read_pkt prim_ok fuel bs <> Panic.
Proof. apply read_no_panic. Qed.

Theorem read_packet_no_panic prim_ok bs : read_packet prim_ok bs <> Panic.
Proof. apply read_pkt_no_panic. Qed.

Theorem decode_packet_no_panic prim_ok bs : decode_packet prim_ok bs <> Panic.
Proof.
  unfold decode_packet. pose proof (read_packet_no_panic prim_ok bs).
  destruct (read_packet prim_ok bs); simpl; congruence.
Qed.

(* ---------------------------------------------------------------- *)
(* well-formed wire trees and the reader round trip                  *)

Section WireWf.
  Variable prim_ok : N -> bytes -> bool.

  (* What an encoder must guarantee for its tree to be read back verbatim:
     low-tag identifiers with a proper class, constructed data equal to the
     children's encodings, primitive content within MaxPacketLengthBytes and
     passing the universal content check, no end-of-contents child. *)
  Fixpoint wire_wf (p : pkt) : bool :=
    match p with
    | Pkt i d ks =>
      cls_ok (cls i) && (tag i <? 31) && negb (is_eoc p) &&
      (if cons i
       then beq_bytes d (concat (map bytes_of ks)) && (N.of_nat (length d) <? 2 ^ 63)
       else match ks with [] => true | _ => false end &&
            (N.of_nat (length d) <=? 2147483647) &&
            (negb (cls i =? 0) || content_ok prim_ok (tag i) d)) &&
      forallb wire_wf ks
    end.


  Lemma read_pkt_S f bs : read_pkt prim_ok (S f) bs =
      do (i, r1) <- read_ident bs;
      do (len, r2) <- read_len r1;
      if (len =? -1)%Z && negb (cons i) then Err
      else if (len <? -1)%Z then Err
      else if cons i then
        do (ks, r3) <- read_kids prim_ok f (if (len =? -1)%Z then None else Some (Z.to_N len)) r2 [];
        Ok (Pkt i (concat (map bytes_of ks)) ks, r3)
      else if (MaxPacketLengthBytes <? len)%Z then Err
      else if N.of_nat (length r2) <? Z.to_N len then Err
      else
        let n := Z.to_nat len in
        let content := firstn n r2 in
        if (cls i =? 0) && negb (content_ok prim_ok (tag i) content) then Err
        else Ok (Pkt i content [], skipn n r2).
  Proof. reflexivity. Qed.

  Lemma read_kids_S f rem bs acc : read_kids prim_ok (S f) rem bs acc =
    match rem with
    | Some 0 => Ok (rev acc, bs)
    | _ =>
        do (child, r) <- read_pkt prim_ok f bs;
        let used := N.of_nat (length bs - length r) in
        if is_eoc child then
          match rem with None => Ok (rev acc, r) | Some _ => Err end
        else
          match rem with
          | None => read_kids prim_ok f None r (child :: acc)
          | Some n => if n <? used then Err else read_kids prim_ok f (Some (n - used)) r (child :: acc)
          end
    end.
  Proof. destruct rem as [[|n]|]; reflexivity. Qed.

  Lemma read_kids_done f bs acc : read_kids prim_ok f (Some 0) bs acc = Ok (rev acc, bs).
  Proof. destruct f; reflexivity. Qed.

  Definition kids_fuel (ks : list pkt) : nat := fold_right (fun k a => S (psize k) + a)%nat 0%nat ks.

  Lemma bytes_of_nonempty p : bytes_of p <> [].
  Proof.
    unfold bytes_of, enc_ident. destruct (tag (p_id p) <? 31); simpl; discriminate.
  Qed.

  Lemma bytes_of_length_pos p : (1 <= length (bytes_of p))%nat.
  Proof. pose proof (bytes_of_nonempty p). destruct (bytes_of p); [congruence|simpl; lia]. Qed.

  Lemma read_pkt_bytes_of : forall p, wire_wf p = true -> forall fuel rest, (psize p <= fuel)%nat ->
    read_pkt prim_ok fuel (bytes_of p ++ rest) = Ok (p, rest).
  Proof.
    induction p as [i d ks IH] using pkt_ind'. intros Hwf fuel rest Hfuel.
    destruct fuel as [|f]; [simpl in Hfuel; lia|].
    cbn [wire_wf] in Hwf.
    repeat (apply andb_true_iff in Hwf; destruct Hwf as [Hwf ?]).
    rename H into Hkids, H0 into Hshape, H1 into Hneoc, H2 into Htag. rename Hwf into Hcls.
    apply N.ltb_lt in Htag.
    rewrite read_pkt_S. unfold bytes_of. cbn [p_id p_data]. rewrite <- !app_assoc.
    rewrite read_ident_enc_ident by assumption. cbn [bind].
    destruct (cons i) eqn:Ek.
    - apply andb_true_iff in Hshape. destruct Hshape as [Hd Hlen].
      apply beq_bytes_eq in Hd. apply N.ltb_lt in Hlen.
      rewrite read_len_enc_len by assumption. cbn [bind].
      replace (Z.of_N (N.of_nat (length d)) =? -1)%Z with false by (symmetry; apply Z.eqb_neq; lia).
      cbn [andb]. replace (Z.of_N (N.of_nat (length d)) <? -1)%Z with false by (symmetry; apply Z.ltb_ge; lia).
      rewrite N2Z.id.
      (* the child loop *)
      assert (Loop : forall todo done acc g,
                 ks = done ++ todo -> acc = rev done -> (kids_fuel todo <= g)%nat ->
                 read_kids prim_ok g (Some (N.of_nat (length (concat (map bytes_of todo)))))
                           (concat (map bytes_of todo) ++ rest) acc = Ok (ks, rest)).
      { induction todo as [|x todo IHt]; intros done acc g Hks Hacc Hg.
        - cbn [map concat length app N.of_nat]. rewrite read_kids_done.
          rewrite Hacc, rev_involutive; rewrite app_nil_r in Hks; subst; reflexivity.
        - assert (In x ks) as Hin by (rewrite Hks; apply in_or_app; right; left; reflexivity).
          cbn [kids_fuel fold_right] in Hg. destruct g as [|g]; [lia|].
          cbn [map concat]. rewrite <- app_assoc.
          pose proof (bytes_of_length_pos x) as Hpos.
          rewrite read_kids_S.
          destruct (N.of_nat (length (bytes_of x ++ concat (map bytes_of todo)))) eqn:En.
          { rewrite app_length in En. lia. }
          rewrite <- En. clear En.
          rewrite Forall_forall in IH.
          assert (wire_wf x = true) as Hx.
          { rewrite forallb_forall in Hkids. apply Hkids. exact Hin. }
          rewrite (IH x Hin Hx) by (fold (kids_fuel todo) in Hg; lia).
          cbn [bind].
          assert (is_eoc x = false) as Hne.
          { destruct x as [xi xd xks]. cbn [wire_wf] in Hx.
            repeat (apply andb_true_iff in Hx; destruct Hx as [Hx ?]).
            match goal with H : negb (is_eoc _) = true |- _ => apply negb_true_iff in H; exact H end. }
          rewrite Hne.
          rewrite !app_length.
          replace (length (bytes_of x) + (length (concat (map bytes_of todo)) + length rest) -
                   (length (concat (map bytes_of todo)) + length rest))%nat with (length (bytes_of x)) by lia.
          destruct (N.of_nat (length (bytes_of x) + length (concat (map bytes_of todo))) <? N.of_nat (length (bytes_of x))) eqn:?; [lia|].
          replace (N.of_nat (length (bytes_of x) + length (concat (map bytes_of todo))) - N.of_nat (length (bytes_of x)))
            with (N.of_nat (length (concat (map bytes_of todo)))) by lia.
          apply (IHt (done ++ [x]) (x :: acc) g).
          + rewrite <- app_assoc. exact Hks.
          + rewrite rev_app_distr. simpl. subst acc. reflexivity.
          + fold (kids_fuel todo) in Hg. lia. }
      subst d. cbv iota.
      rewrite (Loop ks [] [] f eq_refl eq_refl) by (cbn [psize] in Hfuel; fold (kids_fuel ks) in Hfuel; lia).
      cbn [bind]. reflexivity.
    - repeat (apply andb_true_iff in Hshape; destruct Hshape as [Hshape ?]).
      rename H into Hcontent, H0 into Hlen. apply N.leb_le in Hlen.
      destruct ks; [|discriminate].
      rewrite read_len_enc_len by lia. cbn [bind].
      replace (Z.of_N (N.of_nat (length d)) =? -1)%Z with false by (symmetry; apply Z.eqb_neq; lia).
      cbn [andb]. replace (Z.of_N (N.of_nat (length d)) <? -1)%Z with false by (symmetry; apply Z.ltb_ge; lia).
      unfold MaxPacketLengthBytes.
      replace (2147483647 <? Z.of_N (N.of_nat (length d)))%Z with false by (symmetry; apply Z.ltb_ge; lia).
      cbv zeta. replace (Z.to_nat (Z.of_N (N.of_nat (length d)))) with (length d) by lia. rewrite app_length.
      destruct (N.of_nat (length d + length rest) <? Z.to_N (Z.of_N (N.of_nat (length d)))) eqn:?; [lia|].
      rewrite firstn_app_exact, skipn_app_exact.
      destruct (cls i =? 0) eqn:Ec; cbn [negb orb andb] in *.
      + rewrite Hcontent. reflexivity.
      + reflexivity.
  Qed.

  Lemma psize_lt_bytes p : wire_wf p = true -> (S (psize p) <= length (bytes_of p))%nat.
  Proof.
    induction p as [i d ks IH] using pkt_ind'. intros Hwf.
    cbn [wire_wf] in Hwf.
    repeat (apply andb_true_iff in Hwf; destruct Hwf as [Hwf ?]).
    rename H into Hkids, H0 into Hshape.
    unfold bytes_of. cbn [p_id p_data psize]. rewrite !app_length.
    assert (1 <= length (enc_ident i))%nat.
    { unfold enc_ident. destruct (tag i <? 31); simpl; lia. }
    assert (1 <= length (enc_len (N.of_nat (length d))))%nat.
    { pose proof (enc_len_nonempty (N.of_nat (length d))). destruct (enc_len _); [congruence|simpl; lia]. }
    destruct (cons i).
    - apply andb_true_iff in Hshape. destruct Hshape as [Hd _]. apply beq_bytes_eq in Hd. subst d.
      assert (fold_right (fun k a => S (psize k) + a) 0 ks <= length (concat (map bytes_of ks)))%nat.
      { clear -IH Hkids. induction ks as [|x r IHr]; cbn [fold_right map concat length]; [lia|].
        inversion IH; subst. cbn [forallb] in Hkids. apply andb_true_iff in Hkids. destruct Hkids as [Hx Hr].
        specialize (IHr H2 Hr). specialize (H1 Hx). rewrite app_length. lia. }
      lia.
    - repeat (apply andb_true_iff in Hshape; destruct Hshape as [Hshape ?]).
      destruct ks; [|discriminate]. simpl. lia.
  Qed.

  Theorem read_packet_bytes_of p rest : wire_wf p = true ->
    read_packet prim_ok (bytes_of p ++ rest) = Ok (p, rest).
  Proof.
    intros Hwf. unfold read_packet. apply read_pkt_bytes_of; [exact Hwf|].
    pose proof (psize_lt_bytes p Hwf). rewrite app_length. lia.
  Qed.
End WireWf.
