(* Tls.v — C18: which clients reach a handler when Run is given a TLS
   configuration.  gldap's own part is small and is modelled: Run wraps the
   listener iff a configuration was given (server.go Run), the first read of
   the connection's loop drives the handshake, a failed handshake is an
   ordinary read error that ends only that connection, and the test directory
   turns WithMTLS into "client certificate required and verified"
   (testdirectory/testing.go GetTLSConfig, directory.go Start).  What crypto/tls
   does is an ORACLE: the function [hs_ok] with the contract [tls_contract];
   nothing here proves cryptography.  Model and proofs in one file. *)
From G Require Import Base Sys SysProofs SysProps.

Inductive tlscfg := NoTls | ServerAuth | RequireVerify.

Inductive behaviour :=
| PlainLdap        (* a plaintext LDAP request of any operation *)
| Garbage          (* arbitrary bytes *)
| ConnectIdle      (* TCP connect, no ClientHello *)
| AbandonMidway    (* handshake begun and abandoned *)
| TlsNoCert        (* complete TLS client without a certificate *)
| TlsOtherCA       (* certificate issued by a different CA *)
| TlsGoodCert.     (* certificate issued by the configured CA *)

Definition is_tls_client (b : behaviour) : bool :=
  match b with TlsNoCert | TlsOtherCA | TlsGoodCert => true | _ => false end.

(* the crypto/tls contract: a handshake completes only with a TLS client, and
   under "require and verify" only with a certificate of the configured CA;
   tls.Conn.Read returns application data only after a completed handshake *)
Record tls_contract (hs_ok : tlscfg -> behaviour -> bool) : Prop := {
  tc_needs_tls : forall cfg b, hs_ok cfg b = true -> is_tls_client b = true;
  tc_needs_cert : forall b, hs_ok RequireVerify b = true -> b = TlsGoodCert
}.

(* the instance the correspondence check expects of the real library *)
Definition std_hs_ok (cfg : tlscfg) (b : behaviour) : bool :=
  match cfg, b with
  | ServerAuth, (TlsNoCert | TlsOtherCA | TlsGoodCert) => true
  | RequireVerify, TlsGoodCert => true
  | _, _ => false
  end.

Lemma std_contract : tls_contract std_hs_ok.
Proof. constructor; intros; destruct cfg || idtac; destruct b; try discriminate; reflexivity. Qed.

(* server.go Run: WithTLSConfig given <-> the listener is wrapped with tls.NewListener *)
Definition run_tls_option (cfg : tlscfg) : option tlscfg := match cfg with NoTls => None | c => Some c end.
Definition listener_wrapped (opt : option tlscfg) : bool := match opt with Some _ => true | None => false end.

(* what the connection's first readRequest yields *)
Inductive first_read := Request | ReadError.

Section Gate.
  Variable hs_ok : tlscfg -> behaviour -> bool.

  Definition first_read_of (cfg : tlscfg) (b : behaviour) : first_read :=
    if listener_wrapped (run_tls_option cfg)
    then (if hs_ok cfg b then Request else ReadError)          (* tls.Conn.Read drives the handshake *)
    else match b with PlainLdap => Request | _ => ReadError end.

  (* a handler runs for the connection iff its first read produced a request *)
  Definition handler_ran (cfg : tlscfg) (b : behaviour) : bool :=
    match first_read_of cfg b with Request => true | ReadError => false end.

  Theorem gate : tls_contract hs_ok -> forall cfg b, cfg <> NoTls -> handler_ran cfg b = true ->
    hs_ok cfg b = true /\ is_tls_client b = true /\ (cfg = RequireVerify -> b = TlsGoodCert).
  Proof.
    intros [Htls Hcert] cfg b Hcfg H. unfold handler_ran, first_read_of in H.
    destruct cfg; [congruence| |]; cbn in H; destruct (hs_ok _ b) eqn:E; try discriminate;
      (split; [reflexivity|]); (split; [eapply Htls; eauto|]); intros Hc; try discriminate. apply Hcert. exact E.
  Qed.

  (* plaintext sent to a TLS port, garbage, an idle or abandoned handshake never reach a handler *)
  Corollary no_plaintext : tls_contract hs_ok -> forall cfg b, cfg <> NoTls -> is_tls_client b = false ->
    handler_ran cfg b = false.
  Proof.
    intros Hc cfg b Hcfg Hb. destruct (handler_ran cfg b) eqn:E; [|reflexivity].
    destruct (gate Hc cfg b Hcfg E) as (_ & H & _). congruence.
  Qed.
End Gate.

(* testdirectory: Start gives Run a TLS configuration unless WithNoTLS; WithMTLS
   sets ClientCAs and ClientAuth = RequireAndVerifyClientCert *)
Definition dir_tls_config (with_no_tls with_mtls : bool) : tlscfg :=
  if with_no_tls then NoTls else if with_mtls then RequireVerify else ServerAuth.

Theorem directory_mtls : dir_tls_config false true = RequireVerify /\ dir_tls_config false false = ServerAuth /\
                         forall m, dir_tls_config true m = NoTls.
Proof. repeat split. Qed.

(* a connection whose handshake fails is, for the rest of the server, a
   connection whose first frame cannot be read: its loop goes to the teardown
   and no other connection is touched (C07/C08 apply) *)
Theorem failed_handshake_is_local cfg s c rest : pc c = CRead -> input c = IBad :: rest ->
  exists c', conn_step cfg s c = Some (c', ENone) /\ pc c' = CTeardown (teardown_of cfg) /\ started c' = started c.
Proof. intros Hpc Hin. unfold conn_step. rewrite Hpc, Hin. eexists. split; [reflexivity|]. split; reflexivity. Qed.
