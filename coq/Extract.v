(* Extract.v — extraction of the executable model to OCaml for the
   correspondence driver.  Only ExtrOcamlBasic's directives are used
   (bool, option, unit, prod, list, sumbool, sumor to native OCaml types);
   N, Z, positive and nat stay the extracted inductive types. *)
From Coq Require Extraction.
From Coq Require Import ExtrOcamlBasic.
From G Require Import Base Ber Helpers Ldap Response Mux Directory Sys Writer Tls Addr.
Extraction Language OCaml.
Extraction "model.ml"
  Ber.bytes_of Ber.read_packet Ber.decode_packet Ber.value_of Ber.enc_int Ber.enc_len
  Helpers.convert_string Helpers.convert_string_pinned Helpers.wrap_octet Helpers.wrap_with
  Ldap.wire Ldap.msg_of_request Ldap.server_receive Ldap.serve_stream Ldap.encode_control Ldap.encode_controls
  Ldap.decode_control Ldap.norm_control Ldap.new_behera Ldap.print_filter Ldap.enc_filter Ldap.enc_request
  Response.new_response Response.run_setters Response.response_bytes Response.parse_response Response.parse_frames
  Response.raw_of_control Mux.build Mux.register Mux.serve Mux.run_events Mux.ascii_eqfold Mux.mux_empty
  Directory.drun Directory.dstep Directory.match_filter Directory.handle_bind
  Sys.step Sys.quiesce Sys.init Sys.fixed_cfg Sys.pinned_cfg Sys.run_labels Sys.do_op
  Writer.wrun Writer.winit Writer.wstep
  Tls.handler_ran Tls.std_hs_ok Tls.dir_tls_config
  Helpers.sid_bytes Helpers.sid_to_parts Helpers.new_entry Helpers.add_value
  Addr.validate_addr.
