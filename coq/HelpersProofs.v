(* HelpersProofs.v — lemmas behind C16 for ConvertString, the SID helpers and
   NewEntry. *)
From G Require Import Base Ber BerProofs Helpers.
From Coq Require Import Sorted Permutation.
Ltac Zify.zify_post_hook ::= Z.div_mod_to_equations.
Open Scope N_scope.

(* ---------------------------------------------------------------- *)
(* ConvertString                                                     *)

Lemma read_length_slice_no_panic bs : read_length_slice true bs <> Panic.
Proof.
  unfold read_length_slice. destruct bs as [|b r]; [discriminate|].
  destruct (b =? 255); [discriminate|]. destruct (b =? 128); [discriminate|].
  destruct (b <? 128); [discriminate|]. destruct (8 <? _)%nat; [discriminate|].
  destruct (_ <? _)%nat; discriminate.
Qed.

Lemma convert_one_no_panic s : convert_one true s <> Panic.
Proof.
  unfold convert_one. cbn [andb].
  destruct (length s <? 2)%nat eqn:E; [discriminate|].
  destruct s as [|t rest]; [simpl in E; discriminate|].
  destruct (_ || _); [|discriminate].
  apply bind_not_panic; [apply read_length_slice_no_panic|]. intros [z n] _. discriminate.
Qed.

Lemma mapM_no_panic {A B} (f : A -> outcome B) l : (forall x, f x <> Panic) -> mapM f l <> Panic.
Proof.
  intros Hf. induction l as [|x r IH]; simpl; [discriminate|].
  apply bind_not_panic; [apply Hf|]. intros y _.
  apply bind_not_panic; [exact IH|]. intros ys _. discriminate.
Qed.

Theorem convert_string_total ss : convert_string ss <> Panic.
Proof. apply mapM_no_panic. apply convert_one_no_panic. Qed.

(* the pinned code panics on the empty string, on a lone tag byte and on a
   truncated long-form length *)
Lemma convert_string_pinned_refuted :
  convert_string_pinned [[]] = Panic /\ convert_string_pinned [[4]] = Panic /\
  convert_string_pinned [[4; 130; 1]] = Panic.
Proof. repeat split; reflexivity. Qed.

Lemma read_length_slice_enc_len g n rest : n < 2 ^ 63 ->
  exists z, read_length_slice g (enc_len n ++ rest) = Ok (z, length (enc_len n)).
Proof.
  intros H. unfold enc_len.
  pose proof (be_digits_len 8 n) as HL.
  destruct (n <=? 127) eqn:E.
  - assert (be_digits 8 n = [n]) as ->. { cbn [be_digits]. destruct (n <? 256) eqn:E2; [reflexivity|lia]. }
    cbn [app read_length_slice length]. destruct (n =? 255) eqn:?; [lia|]. destruct (n =? 128) eqn:?; [lia|].
    destruct (n <? 128) eqn:?; [eexists; reflexivity|lia].
  - set (ds := be_digits 8 n) in *.
    cbn [app read_length_slice length].
    destruct (128 + N.of_nat (length ds) =? 255) eqn:?; [lia|].
    destruct (128 + N.of_nat (length ds) =? 128) eqn:?; [lia|].
    destruct (128 + N.of_nat (length ds) <? 128) eqn:?; [lia|].
    replace (128 + N.of_nat (length ds) - 128) with (N.of_nat (length ds)) by lia.
    rewrite Nat2N.id.
    assert (length ds <= 8)%nat as HL8 by (apply be_digits8_len; lia).
    destruct (8 <? length ds)%nat eqn:?; [lia|].
    rewrite app_length. destruct (length ds + length rest <? length ds)%nat eqn:?; [lia|].
    eexists; reflexivity.
Qed.

Theorem convert_one_wrap t s : t = 4 \/ t = 27 -> N.of_nat (length s) < 2 ^ 63 ->
  convert_one true (wrap_with t s) = Ok s.
Proof.
  intros Ht Hlen. unfold convert_one, wrap_with. cbn [andb].
  pose proof (enc_len_nonempty (N.of_nat (length s))) as Hne.
  destruct (length (t :: enc_len (N.of_nat (length s)) ++ s) <? 2)%nat eqn:E.
  { exfalso. cbn [length] in E. rewrite app_length in E.
    destruct (enc_len (N.of_nat (length s))); [congruence|]. simpl in E. apply Nat.ltb_lt in E. lia. }
  replace ((t =? 4) || (t =? 27)) with true by (destruct Ht; subst; reflexivity).
  destruct (read_length_slice_enc_len true (N.of_nat (length s)) s Hlen) as [z Hz].
  rewrite Hz. cbn [bind]. rewrite skipn_app_exact. reflexivity.
Qed.

Theorem convert_string_inverse t s : t = 4 \/ t = 27 -> N.of_nat (length s) < 2 ^ 63 ->
  convert_string [wrap_with t s] = Ok [s].
Proof.
  intros Ht Hlen. unfold convert_string, convert_string_g. cbn [mapM].
  rewrite convert_one_wrap by assumption. reflexivity.
Qed.

Theorem convert_string_many ss : Forall (fun s => N.of_nat (length s) < 2 ^ 63) ss ->
  convert_string (map wrap_octet ss) = Ok ss.
Proof.
  unfold convert_string, convert_string_g.
  induction 1 as [|s r Hs Hr IH]; [reflexivity|].
  cbn [map mapM]. change (wrap_octet s) with (wrap_with 4 s).
  rewrite convert_one_wrap by (auto). cbn [bind]. rewrite IH. reflexivity.
Qed.

Example convert_string_example :
  convert_string [wrap_octet [97; 64; 98]; wrap_with 27 []; wrap_octet (repeat 7 200)] =
  Ok [[97; 64; 98]; []; repeat 7 200].
Proof. vm_compute. reflexivity. Qed.

(* ---------------------------------------------------------------- *)
(* SID                                                               *)

Theorem sid_roundtrip r a : r < 256 -> a < 65536 -> sid_to_parts (sid_bytes r a) = Ok (r, a, []).
Proof.
  intros Hr Ha. unfold sid_bytes, sid_to_parts. cbn [N.to_nat le32s].
  f_equal. f_equal. f_equal; lia.
Qed.

Theorem sid_total bs : sid_to_parts bs <> Panic.
Proof.
  unfold sid_to_parts.
  repeat (destruct bs as [|? bs]; [discriminate|]).
  destruct (le32s _ _); discriminate.
Qed.

Lemma sid_bytes_are_bytes r a : Forall (fun b => b < 256) (sid_bytes r a).
Proof. unfold sid_bytes. repeat constructor; lia. Qed.

(* ---------------------------------------------------------------- *)
(* NewEntry                                                          *)

Definition bytes_le (a b : bytes) : Prop := bytes_leb a b = true.

Lemma insert_sorted_perm x l : Permutation (x :: l) (insert_sorted x l).
Proof.
  induction l as [|y r IH]; simpl; [reflexivity|].
  destruct (bytes_leb x y); [reflexivity|].
  rewrite perm_swap. constructor. exact IH.
Qed.

Lemma sort_strings_perm l : Permutation l (sort_strings l).
Proof.
  induction l as [|x r IH]; simpl; [constructor|].
  rewrite <- insert_sorted_perm. constructor. exact IH.
Qed.

Lemma insert_sorted_sorted x l : Sorted bytes_le l -> Sorted bytes_le (insert_sorted x l).
Proof.
  induction 1 as [|y r Hs IH Hhd]; simpl.
  - repeat constructor.
  - destruct (bytes_leb x y) eqn:E.
    + constructor; [constructor; assumption|constructor; exact E].
    + constructor; [exact IH|].
      assert (bytes_le y x) as Hyx by (destruct (bytes_leb_total x y); [congruence|assumption]).
      destruct r as [|z r']; simpl.
      * constructor; exact Hyx.
      * destruct (bytes_leb x z); constructor; [exact Hyx|].
        inversion Hhd; subst; assumption.
Qed.

Lemma sort_strings_sorted l : Sorted bytes_le (sort_strings l).
Proof. induction l as [|x r IH]; simpl; [constructor|]. apply insert_sorted_sorted. exact IH. Qed.

(* a sorted list is determined by its elements when the order is
   antisymmetric: sorting two permutations of one list gives the same list *)
Lemma sorted_strong l : Sorted bytes_le l -> StronglySorted bytes_le l.
Proof.
  apply Sorted_StronglySorted. intros a b c. apply bytes_leb_trans.
Qed.

Lemma sorted_perm_unique l1 l2 :
  StronglySorted bytes_le l1 -> StronglySorted bytes_le l2 -> Permutation l1 l2 -> l1 = l2.
Proof.
  revert l2; induction l1 as [|x r IH]; intros l2 H1 H2 HP.
  - apply Permutation_nil in HP. congruence.
  - destruct l2 as [|y r2]; [apply Permutation_sym, Permutation_nil in HP; discriminate|].
    inversion H1 as [|? ? Hs1 Hf1]; subst. inversion H2 as [|? ? Hs2 Hf2]; subst.
    assert (x = y).
    { assert (In x (y :: r2)) as Hx by (eapply Permutation_in; [exact HP|left; reflexivity]).
      assert (In y (x :: r)) as Hy by (eapply Permutation_in; [apply Permutation_sym; exact HP|left; reflexivity]).
      rewrite Forall_forall in Hf1, Hf2.
      destruct Hx as [->|Hx]; [reflexivity|]. destruct Hy as [->|Hy]; [reflexivity|].
      apply bytes_leb_antisym; [apply Hf1; exact Hy|apply Hf2; exact Hx]. }
    subst y. f_equal. apply IH; auto. eapply Permutation_cons_inv; eauto.
Qed.

Lemma sort_strings_perm_eq l1 l2 : Permutation l1 l2 -> sort_strings l1 = sort_strings l2.
Proof.
  intros HP. apply sorted_perm_unique; try (apply sorted_strong, sort_strings_sorted).
  rewrite <- (sort_strings_perm l1), <- (sort_strings_perm l2). exact HP.
Qed.

Lemma map_lookup_perm k m m' : NoDup (map fst m) -> Permutation m m' -> map_lookup k m = map_lookup k m'.
Proof.
  intros Hnd HP. induction HP as [|[k1 v1] l l' HP IH|[k1 v1] [k2 v2] l|l l' l'' HP1 IH1 HP2 IH2].
  - reflexivity.
  - simpl. destruct (beq_bytes k k1); [reflexivity|]. apply IH. inversion Hnd; assumption.
  - simpl. destruct (beq_bytes k k2) eqn:E2; destruct (beq_bytes k k1) eqn:E1; try reflexivity.
    apply beq_bytes_eq in E1, E2. subst. simpl in Hnd. inversion Hnd as [|? ? Hn _]; subst.
    exfalso. apply Hn. left. reflexivity.
  - rewrite IH1 by assumption. apply IH2.
    eapply Permutation_NoDup; [|exact Hnd]. apply Permutation_map. exact HP1.
Qed.

Theorem new_entry_sorted dn m :
  Sorted bytes_le (map ea_name (e_attrs (new_entry dn m))) /\
  Permutation (map fst m) (map ea_name (e_attrs (new_entry dn m))).
Proof.
  unfold new_entry. cbn [e_attrs]. rewrite map_map. cbn [new_entry_attribute ea_name].
  rewrite map_id. split; [apply sort_strings_sorted|apply sort_strings_perm].
Qed.

Theorem new_entry_deterministic dn m m' :
  NoDup (map fst m) -> Permutation m m' -> new_entry dn m = new_entry dn m'.
Proof.
  intros Hnd HP. unfold new_entry. f_equal.
  rewrite (sort_strings_perm_eq (map fst m) (map fst m')) by (apply Permutation_map; exact HP).
  apply map_ext. intros k. f_equal. apply map_lookup_perm; assumption.
Qed.

Lemma map_lookup_in k v m : NoDup (map fst m) -> In (k, v) m -> map_lookup k m = v.
Proof.
  induction m as [|[k1 v1] r IH]; simpl; intros Hnd Hin; [tauto|].
  inversion Hnd as [|? ? Hn Hr]; subst.
  destruct Hin as [E|Hin].
  - inversion E; subst. rewrite beq_bytes_refl. reflexivity.
  - destruct (beq_bytes k k1) eqn:E.
    + apply beq_bytes_eq in E. subst. exfalso. apply Hn. apply (in_map fst) in Hin. exact Hin.
    + apply IH; assumption.
Qed.

(* every attribute of the entry carries exactly the map's values for its name *)
Theorem new_entry_values dn m : NoDup (map fst m) ->
  forall k v, In (k, v) m -> In (new_entry_attribute k v) (e_attrs (new_entry dn m)).
Proof.
  intros Hnd k v Hin. unfold new_entry. cbn [e_attrs].
  rewrite <- (map_lookup_in k v m Hnd Hin).
  apply (in_map (fun k0 => new_entry_attribute k0 (map_lookup k0 m))).
  eapply Permutation_in; [apply sort_strings_perm|]. apply (in_map fst) in Hin. exact Hin.
Qed.

Theorem entry_values_equal_bytes name vs more :
  ea_values (new_entry_attribute name vs) = ea_bytevalues (new_entry_attribute name vs) /\
  ea_values (add_value (new_entry_attribute name vs) more) =
  ea_bytevalues (add_value (new_entry_attribute name vs) more).
Proof. split; reflexivity. Qed.

Theorem add_value_preserves a vs : ea_values a = ea_bytevalues a ->
  ea_values (add_value a vs) = ea_bytevalues (add_value a vs) /\
  ea_values (add_value a vs) = ea_values a ++ vs.
Proof. intros H. unfold add_value; simpl. rewrite H. split; reflexivity. Qed.

Example new_entry_example :
  map ea_name (e_attrs (new_entry [1] [([99], [[1]]); ([97; 98], []); ([97], [[2]; [3]])])) = [[97]; [97; 98]; [99]].
Proof. vm_compute. reflexivity. Qed.
