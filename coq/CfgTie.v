(* CfgTie.v - the configuration the lifecycle theorems are instantiated with is what the source
   does now: CfgGen.v is regenerated from server.go / conn.go on every run (harness/cfgflags.go
   reads the order of the teardown steps, the place of connWg.Add, what the cancelled-context
   branch closes, the retry after a failed Accept, Ready after a failed listen, the recover in
   per-request goroutines, Stop's interrupt pass).  The same reader applied to the pinned commit
   f883866 gives exactly pinned_cfg (all of these false, ready_on_error true). *)
From G Require Import Sys CfgGen.

Theorem fixed_cfg_is_the_source :
  handler_rec fixed_cfg = gen_handler_rec /\ wg_last fixed_cfg = gen_wg_last /\
  add_before_accept fixed_cfg = gen_add_before_accept /\ stop_interrupts fixed_cfg = gen_stop_interrupts /\
  ready_on_error fixed_cfg = gen_ready_on_error /\ close_on_cancel fixed_cfg = gen_close_on_cancel /\
  accept_retry fixed_cfg = gen_accept_retry /\ untrack_late fixed_cfg = gen_untrack_late.
Proof. repeat split; reflexivity. Qed.

(* The control-flow skeleton the LTS was written against.  Each line says which piece of
   Sys.v stands for it; `vh cfgflags` counts the same things in the source on every run.

   Stop (Sys.stop_step: SStart, SCancel, SInterrupt, SWait, SRet)
     2 ways out before connWg.Wait: "nothing to do" when Run was never called (SStart with
       lst = NotCreated goes on to SCancel and finds connwg = 0: the same observable), and the
       error of a listener Close that is not "already closed" (not modelled: TCP listeners do
       not fail to close; trusted base).  A third way out would be a Stop that returns without
       waiting - the LTS has none.
     3 returns in all (the last one after Wait = SRet), no goroutine started by Stop.
   Run (Sys.run_step: RListen, RLoop, RAccepted, RRet)
     6 returns outside the connection goroutine: invalid address / failed listen (RRet true),
       cancelled context at the top of the loop (RRet false), Accept on a closed listener
       (RRet false), a permanent Accept error (accept_failed, RRet true), newConn error (cannot
       happen with a non-nil conn and router; trusted), and the options error before listening.
     1 go statement: the connection goroutine (conn_step), whose body has 2 early returns
       (failed deadline setting: not modelled, trusted) and a deferred teardown without returns
       (teardown_of: wait for handlers, close, untrack, OnClose, Done - in the order the flags give).
   serveRequests (Sys.conn_step at CRead / CDispatch)
     7 returns: writer creation error, the two errors and the normal end of the shutdown notice
       (cancelled context between two reads), EOF, read error (IBad), Unbind; 1 go statement:
       the per-request goroutine (req_step); 3 dispatch cases: Unbind (KUnbind, inline, ends the
       loop), StartTLS (KStartTLS, inline), everything else (KNormal, its own goroutine).
   Deadlines: Run sets the configured read / write timeout once per connection, interrupt()
     expires both directions (interrupt_all), serveRequests shortens the read deadline after
     the notice of disconnection.  Nothing else touches a deadline: Stop's interrupt is final
     (an [interrupted] conn stays interrupted in every step of Sys.v).
   No package-level channels, pools, locks or atomics: connections share only what the LTS
     state holds (listener, wait group, connection table, mux). *)
Require Import Coq.Strings.String Coq.Lists.List.
Import ListNotations.
Open Scope string_scope.

Definition modelled_skeleton : list (string * nat) := [
  ("Stop.returns_before_wait", 2);
  ("Stop.returns", 3);
  ("Run.returns", 6);
  ("Run.conn_goroutine.returns", 2);
  ("Run.conn_goroutine.teardown.returns", 0);
  ("serveRequests.returns", 7);
  ("serveRequests.dispatch_cases", 3);
  ("Run.go_statements", 1);
  ("serveRequests.go_statements", 1);
  ("Stop.go_statements", 0);
  ("deadline:Run.SetReadDeadline", 1);
  ("deadline:Run.SetWriteDeadline", 1);
  ("deadline:interrupt.SetDeadline", 1);
  ("deadline:serveRequests.SetReadDeadline", 1);
  ("package_level_sync_state", 0)
].

Theorem skeleton_is_the_source : gen_skeleton = modelled_skeleton.
Proof. reflexivity. Qed.
