(* CfgTie.v - the configuration the lifecycle theorems are instantiated with is what the source
   does now: CfgGen.v is regenerated from server.go / conn.go on every run (harness/cfgflags.go
   reads the order of the teardown steps, the place of connWg.Add, what the cancelled-context
   branch closes, the retry after a failed Accept, Ready after a failed listen, the recover in
   per-request goroutines, Stop's interrupt pass).  The same reader applied to the pinned commit
   f883866 gives exactly pinned_cfg (all of these false, ready_on_error true). *)
From G Require Import Sys CfgGen.

Theorem fixed_cfg_is_the_source :
  handler_rec fixed_cfg = gen_handler_rec /\ wg_last fixed_cfg = gen_wg_last /\
  add_before_accept fixed_cfg = gen_add_before_accept /\ stop_interrupts fixed_cfg = gen_stop_interrupts /\
  ready_on_error fixed_cfg = gen_ready_on_error /\ close_on_cancel fixed_cfg = gen_close_on_cancel /\
  accept_retry fixed_cfg = gen_accept_retry /\ untrack_late fixed_cfg = gen_untrack_late.
Proof. repeat split; reflexivity. Qed.
