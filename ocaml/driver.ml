(* driver.ml — runs the extracted Coq model (model.ml) on the cases the Go
   harness generated.  One case per input line, one result per output line.
   Tokens are blank separated; byte strings are lowercase hex, the empty
   string is "-".  Nothing here interprets LDAP: it only converts between
   text and the extracted data types and prints results canonically. *)
module ZZ = Z
open Model

(* ---------- conversions ---------- *)
let rec pos_of_int (i : int) : positive =
  if i = 1 then XH else if i land 1 = 0 then XO (pos_of_int (i lsr 1)) else XI (pos_of_int (i lsr 1))
let n_of_int (i : int) : n = if i = 0 then N0 else Npos (pos_of_int i)
let rec int_of_pos = function XH -> 1 | XO p -> 2 * int_of_pos p | XI p -> 2 * int_of_pos p + 1
let int_of_n = function N0 -> 0 | Npos p -> int_of_pos p
let rec nat_of_int i = if i = 0 then O else S (nat_of_int (i - 1))

(* arbitrary precision through Zarith, for 2^63.. values *)
let rec zz_of_pos = function
  | XH -> ZZ.one
  | XO p -> ZZ.shift_left (zz_of_pos p) 1
  | XI p -> ZZ.succ (ZZ.shift_left (zz_of_pos p) 1)
let zz_of_n = function N0 -> ZZ.zero | Npos p -> zz_of_pos p
let zz_of_z = function Z0 -> ZZ.zero | Zpos p -> zz_of_pos p | Zneg p -> ZZ.neg (zz_of_pos p)
let rec pos_of_zz (v : ZZ.t) : positive =
  if ZZ.equal v ZZ.one then XH
  else if ZZ.is_even v then XO (pos_of_zz (ZZ.shift_right v 1))
  else XI (pos_of_zz (ZZ.shift_right v 1))
let n_of_zz v = if ZZ.sign v = 0 then N0 else Npos (pos_of_zz v)
let z_of_zz v = if ZZ.sign v = 0 then Z0 else if ZZ.sign v > 0 then Zpos (pos_of_zz v) else Zneg (pos_of_zz (ZZ.neg v))
let n_of_string s = n_of_zz (ZZ.of_string s)
let z_of_string s = z_of_zz (ZZ.of_string s)
let string_of_n v = ZZ.to_string (zz_of_n v)
let string_of_z v = ZZ.to_string (zz_of_z v)

let byte_tbl : n array = Array.init 256 n_of_int
let hexval c = match c with
  | '0'..'9' -> Char.code c - 48 | 'a'..'f' -> Char.code c - 87 | 'A'..'F' -> Char.code c - 55
  | _ -> failwith "bad hex"
let bytes_of_hex (s : string) : n list =
  if s = "-" then [] else begin
    let l = String.length s / 2 in
    let rec go i acc = if i < 0 then acc
      else go (i - 1) (byte_tbl.(hexval s.[2*i] * 16 + hexval s.[2*i+1]) :: acc) in
    go (l - 1) []
  end
let hex_of_bytes (bs : n list) : string =
  if bs = [] then "-" else begin
    let b = Buffer.create 64 in
    List.iter (fun x -> Buffer.add_string b (Printf.sprintf "%02x" ((int_of_n x) land 255))) bs;
    Buffer.contents b
  end

(* ---------- token stream ---------- *)
type toks = { mutable rest : string list }
let next t = match t.rest with [] -> failwith "missing token" | x :: r -> t.rest <- r; x
let next_int t = int_of_string (next t)
let next_hex t = bytes_of_hex (next t)
let next_list t (f : toks -> 'a) : 'a list =
  let k = next_int t in
  let rec go i acc = if i = 0 then List.rev acc else let x = f t in go (i - 1) (x :: acc) in
  go k []
let next_bool t = match next t with "1" | "true" -> true | _ -> false

let prim_reject _ _ = false   (* Real / UTF8String / GeneralizedTime content: see DESIGN 4.1 *)

let out_list (f : 'a -> string) (l : 'a list) : string =
  String.concat " " (string_of_int (List.length l) :: List.map f l)

(* ---------- C16 helpers ---------- *)
let do_convert t =
  let ss = next_list t next_hex in
  match convert_string ss with
  | Ok l -> "OK " ^ out_list hex_of_bytes l
  | Err -> "ERR" | Panic -> "PANIC"
let do_convert_pinned t =
  let ss = next_list t next_hex in
  match convert_string_pinned ss with
  | Ok l -> "OK " ^ out_list hex_of_bytes l
  | Err -> "ERR" | Panic -> "PANIC"
let do_sid2s t =
  match sid_to_parts (next_hex t) with
  | Ok ((r, a), subs) -> "OK " ^ string_of_n r ^ " " ^ string_of_n a ^ " " ^ out_list string_of_n subs
  | Err -> "ERR" | Panic -> "PANIC"
let do_sidb t =
  let r = n_of_string (next t) in let a = n_of_string (next t) in
  "OK " ^ hex_of_bytes (sid_bytes r a)
let do_sidrt t =
  let r = n_of_string (next t) in let a = n_of_string (next t) in
  match sid_to_parts (sid_bytes r a) with
  | Ok ((r, a), subs) -> "OK " ^ string_of_n r ^ " " ^ string_of_n a ^ " " ^ out_list string_of_n subs
  | Err -> "ERR" | Panic -> "PANIC"
let do_convertrt t =
  let tag = n_of_int (next_int t) in
  let ss = next_list t next_hex in
  match convert_string (List.map (wrap_with tag) ss) with
  | Ok l -> if l = ss then "OK" else "SPECFAIL"
  | Err -> "ERR" | Panic -> "PANIC"
let next_gomap t = next_list t (fun t -> let k = next_hex t in let vs = next_list t next_hex in (k, vs))
let out_attr a = hex_of_bytes a.ea_name ^ " " ^ out_list hex_of_bytes a.ea_values ^ " " ^ out_list hex_of_bytes a.ea_bytevalues
let do_entry t =
  let dn = next_hex t in
  let m = next_gomap t in
  let e = new_entry dn m in
  "OK " ^ hex_of_bytes e.e_dn ^ " " ^ out_list out_attr e.e_attrs
let do_addvalue t =
  let name = next_hex t in let vs = next_list t next_hex in let more = next_list t next_hex in
  "OK " ^ out_attr (add_value (new_entry_attribute name vs) more)

let dispatch kind t =
  match kind with
  | "convert" -> do_convert t
  | "convert_pinned" -> do_convert_pinned t
  | "sid2s" -> do_sid2s t
  | "sidb" -> do_sidb t
  | "sidrt" -> do_sidrt t
  | "convertrt" -> do_convertrt t
  | "entry" -> do_entry t
  | "addvalue" -> do_addvalue t
  | k -> failwith ("unknown kind " ^ k)

let () =
  try
    while true do
      let line = input_line stdin in
      if line <> "" then begin
        let toks = String.split_on_char ' ' line |> List.filter (fun s -> s <> "") in
        match toks with
        | kind :: id :: rest ->
          let t = { rest } in
          let res = (try dispatch kind t with Failure m -> "DRIVER-ERROR " ^ m | Not_found -> "DRIVER-ERROR notfound"
                                            | Stack_overflow -> "DRIVER-ERROR stack") in
          print_string kind; print_char ' '; print_string id; print_char ' '; print_endline res
        | _ -> ()
      end
    done
  with End_of_file -> ()
