(* driver.ml — runs the extracted Coq model (model.ml) on the cases the Go
   harness generated.  One case per input line, one result per output line.
   Tokens are blank separated; byte strings are lowercase hex, the empty
   string is "-".  Nothing here interprets LDAP: it only converts between
   text and the extracted data types and prints results canonically. *)
module ZZ = Z
open Model

(* ---------- conversions ---------- *)
let rec pos_of_int (i : int) : positive =
  if i = 1 then XH else if i land 1 = 0 then XO (pos_of_int (i lsr 1)) else XI (pos_of_int (i lsr 1))
let n_of_int (i : int) : n = if i = 0 then N0 else Npos (pos_of_int i)
let rec int_of_pos = function XH -> 1 | XO p -> 2 * int_of_pos p | XI p -> 2 * int_of_pos p + 1
let int_of_n = function N0 -> 0 | Npos p -> int_of_pos p
let rec nat_of_int i = if i = 0 then O else S (nat_of_int (i - 1))

(* arbitrary precision through Zarith, for 2^63.. values *)
let rec zz_of_pos = function
  | XH -> ZZ.one
  | XO p -> ZZ.shift_left (zz_of_pos p) 1
  | XI p -> ZZ.succ (ZZ.shift_left (zz_of_pos p) 1)
let zz_of_n = function N0 -> ZZ.zero | Npos p -> zz_of_pos p
let zz_of_z = function Z0 -> ZZ.zero | Zpos p -> zz_of_pos p | Zneg p -> ZZ.neg (zz_of_pos p)
let rec pos_of_zz (v : ZZ.t) : positive =
  if ZZ.equal v ZZ.one then XH
  else if ZZ.is_even v then XO (pos_of_zz (ZZ.shift_right v 1))
  else XI (pos_of_zz (ZZ.shift_right v 1))
let n_of_zz v = if ZZ.sign v = 0 then N0 else Npos (pos_of_zz v)
let z_of_zz v = if ZZ.sign v = 0 then Z0 else if ZZ.sign v > 0 then Zpos (pos_of_zz v) else Zneg (pos_of_zz (ZZ.neg v))
let n_of_string s = n_of_zz (ZZ.of_string s)
let z_of_string s = z_of_zz (ZZ.of_string s)
let string_of_n v = ZZ.to_string (zz_of_n v)
let string_of_z v = ZZ.to_string (zz_of_z v)

let byte_tbl : n array = Array.init 256 n_of_int
let hexval c = match c with
  | '0'..'9' -> Char.code c - 48 | 'a'..'f' -> Char.code c - 87 | 'A'..'F' -> Char.code c - 55
  | _ -> failwith "bad hex"
let bytes_of_hex (s : string) : n list =
  if s = "-" then [] else begin
    let l = String.length s / 2 in
    let rec go i acc = if i < 0 then acc
      else go (i - 1) (byte_tbl.(hexval s.[2*i] * 16 + hexval s.[2*i+1]) :: acc) in
    go (l - 1) []
  end
let hex_of_bytes (bs : n list) : string =
  if bs = [] then "-" else begin
    let b = Buffer.create 64 in
    List.iter (fun x -> Buffer.add_string b (Printf.sprintf "%02x" ((int_of_n x) land 255))) bs;
    Buffer.contents b
  end

(* ---------- token stream ---------- *)
type toks = { mutable rest : string list }
let next t = match t.rest with [] -> failwith "missing token" | x :: r -> t.rest <- r; x
let next_int t = int_of_string (next t)
let next_hex t = bytes_of_hex (next t)
let next_list t (f : toks -> 'a) : 'a list =
  let k = next_int t in
  let rec go i acc = if i = 0 then List.rev acc else let x = f t in go (i - 1) (x :: acc) in
  go k []
let next_bool t = match next t with "1" | "true" -> true | _ -> false

(* Oracle for the universal content checks the model leaves open (DESIGN 4.1):
   UTF8String (tag 12) is decided here by a plain UTF-8 validity check
   (= Go's utf8.Valid); Real (9) and GeneralizedTime (24) are rejected, and
   frames carrying them are compared on the no-panic bit only. *)
let utf8_valid (bs : n list) : bool =
  let rec go l = match l with
    | [] -> true
    | b :: r ->
      let b = int_of_n b in
      if b < 0x80 then go r
      else if b < 0xC2 then false
      else if b < 0xE0 then (match r with c :: r' when (int_of_n c) land 0xC0 = 0x80 -> go r' | _ -> false)
      else if b < 0xF0 then
        (match r with
         | c :: d :: r' ->
           let c = int_of_n c and d = int_of_n d in
           let lo = if b = 0xE0 then 0xA0 else 0x80 and hi = if b = 0xED then 0x9F else 0xBF in
           if c >= lo && c <= hi && d land 0xC0 = 0x80 then go r' else false
         | _ -> false)
      else if b < 0xF5 then
        (match r with
         | c :: d :: e :: r' ->
           let c = int_of_n c and d = int_of_n d and e = int_of_n e in
           let lo = if b = 0xF0 then 0x90 else 0x80 and hi = if b = 0xF4 then 0x8F else 0xBF in
           if c >= lo && c <= hi && d land 0xC0 = 0x80 && e land 0xC0 = 0x80 then go r' else false
         | _ -> false)
      else false in
  go bs
let prim_reject (tag : n) (content : n list) : bool = (int_of_n tag = 12) && utf8_valid content

let out_list (f : 'a -> string) (l : 'a list) : string =
  String.concat " " (string_of_int (List.length l) :: List.map f l)

(* ---------- C16 helpers ---------- *)
let do_convert t =
  let ss = next_list t next_hex in
  match convert_string ss with
  | Ok l -> "OK " ^ out_list hex_of_bytes l
  | Err -> "ERR" | Panic -> "PANIC"
let do_convert_pinned t =
  let ss = next_list t next_hex in
  match convert_string_pinned ss with
  | Ok l -> "OK " ^ out_list hex_of_bytes l
  | Err -> "ERR" | Panic -> "PANIC"
let do_sid2s t =
  match sid_to_parts (next_hex t) with
  | Ok ((r, a), subs) -> "OK " ^ string_of_n r ^ " " ^ string_of_n a ^ " " ^ out_list string_of_n subs
  | Err -> "ERR" | Panic -> "PANIC"
let do_sidb t =
  let r = n_of_string (next t) in let a = n_of_string (next t) in
  "OK " ^ hex_of_bytes (sid_bytes r a)
let do_sidrt t =
  let r = n_of_string (next t) in let a = n_of_string (next t) in
  match sid_to_parts (sid_bytes r a) with
  | Ok ((r, a), subs) -> "OK " ^ string_of_n r ^ " " ^ string_of_n a ^ " " ^ out_list string_of_n subs
  | Err -> "ERR" | Panic -> "PANIC"
let do_convertrt t =
  let tag = n_of_int (next_int t) in
  let ss = next_list t next_hex in
  match convert_string (List.map (wrap_with tag) ss) with
  | Ok l -> if l = ss then "OK" else "SPECFAIL"
  | Err -> "ERR" | Panic -> "PANIC"
let next_gomap t = next_list t (fun t -> let k = next_hex t in let vs = next_list t next_hex in (k, vs))
let out_attr a = hex_of_bytes a.ea_name ^ " " ^ out_list hex_of_bytes a.ea_values ^ " " ^ out_list hex_of_bytes a.ea_bytevalues
let do_entry t =
  let dn = next_hex t in
  let m = next_gomap t in
  let e = new_entry dn m in
  "OK " ^ hex_of_bytes e.e_dn ^ " " ^ out_list out_attr e.e_attrs
let do_addvalue t =
  let name = next_hex t in let vs = next_list t next_hex in let more = next_list t next_hex in
  "OK " ^ out_attr (add_value (new_entry_attribute name vs) more)


(* ---------- LDAP typed values: parsing (prefix notation) and printing ---------- *)
let next_z t = z_of_string (next t)
let next_n t = n_of_string (next t)
let next_opt_hex t = match next t with "~" -> None | s -> Some (bytes_of_hex s)

let next_control t : control =
  match next t with
  | "paging" -> let s = next_n t in let c = next_hex t in CPaging (s, c)
  | "behera" -> let e = next_z t in let g = next_z t in let c = next_z t in CBehera (e, g, c)
  | "vchuchange" -> CVChuChange
  | "vchuwarn" -> CVChuWarn (next_z t)
  | "managedsait" -> CManageDsaIT (next_bool t)
  | "msnotif" -> CMsNotif | "msshowdel" -> CMsShowDel | "mslinkttl" -> CMsLinkTTL
  | "str" -> let o = next_hex t in let c = next_bool t in let v = next_hex t in CString (o, c, v)
  | k -> failwith ("bad control " ^ k)
let next_controls t = next_list t next_control

let rec next_filter t : filter0 =
  match next t with
  | "and" -> FAnd (next_list t next_filter)
  | "or" -> FOr (next_list t next_filter)
  | "not" -> FNot (next_filter t)
  | "eq" -> let a = next_hex t in let v = next_hex t in FEq (a, v)
  | "ge" -> let a = next_hex t in let v = next_hex t in FGe (a, v)
  | "le" -> let a = next_hex t in let v = next_hex t in FLe (a, v)
  | "approx" -> let a = next_hex t in let v = next_hex t in FApprox (a, v)
  | "present" -> FPresent (next_hex t)
  | "sub" -> let a = next_hex t in let i = next_opt_hex t in let anys = next_list t next_hex in
             let f = next_opt_hex t in FSub (a, i, anys, f)
  | "ext" -> let r = next_opt_hex t in let ty = next_opt_hex t in let v = next_hex t in
             let dn = next_bool t in FExt (r, ty, v, dn)
  | k -> failwith ("bad filter " ^ k)

let next_request t : request =
  match next t with
  | "bind" -> let id = next_z t in let dn = next_hex t in let pw = next_hex t in RBind (id, dn, pw, next_controls t)
  | "search" ->
    let id = next_z t in let base = next_hex t in let sc = next_z t in let de = next_z t in
    let sz = next_z t in let tm = next_z t in let ty = next_bool t in let f = next_filter t in
    let attrs = next_list t next_hex in RSearch (id, base, sc, de, sz, tm, ty, f, attrs, next_controls t)
  | "modify" ->
    let id = next_z t in let dn = next_hex t in
    let chs = next_list t (fun t -> let op = next_z t in let ty = next_hex t in let vs = next_list t next_hex in ((op, ty), vs)) in
    RModify (id, dn, chs, next_controls t)
  | "add" ->
    let id = next_z t in let dn = next_hex t in
    let attrs = next_list t (fun t -> let ty = next_hex t in let vs = next_list t next_hex in (ty, vs)) in
    RAdd (id, dn, attrs, next_controls t)
  | "del" -> let id = next_z t in let dn = next_hex t in RDel (id, dn, next_controls t)
  | "ext" -> let id = next_z t in let name = next_hex t in RExt (id, name, next_opt_hex t)
  | "unbind" -> RUnbind (next_z t)
  | k -> failwith ("bad request " ^ k)

let b01 b = if b then "1" else "0"
let out_control (c : control) : string =
  match c with
  | CPaging (s, c) -> "paging " ^ string_of_n s ^ " " ^ hex_of_bytes c
  | CBehera (e, g, c) -> "behera " ^ string_of_z e ^ " " ^ string_of_z g ^ " " ^ string_of_z c
  | CVChuChange -> "vchuchange"
  | CVChuWarn e -> "vchuwarn " ^ string_of_z e
  | CManageDsaIT c -> "managedsait " ^ b01 c
  | CMsNotif -> "msnotif" | CMsShowDel -> "msshowdel" | CMsLinkTTL -> "mslinkttl"
  | CString (o, c, v) -> "str " ^ hex_of_bytes o ^ " " ^ b01 c ^ " " ^ hex_of_bytes v
let out_controls cs = out_list out_control cs

let out_message (m : message) : string =
  match m with
  | MBind (id, dn, pw, cs) -> String.concat " " ["bind"; string_of_z id; hex_of_bytes dn; hex_of_bytes pw; out_controls cs]
  | MSearch (id, base, sc, de, sz, tm, ty, f, attrs, cs) ->
    String.concat " " ["search"; string_of_z id; hex_of_bytes base; string_of_z sc; string_of_z de; string_of_z sz;
                       string_of_z tm; b01 ty; hex_of_bytes f; out_list hex_of_bytes attrs; out_controls cs]
  | MModify (id, dn, chs, cs) ->
    String.concat " " ["modify"; string_of_z id; hex_of_bytes dn;
                       out_list (fun ((op, ty), vs) -> string_of_z op ^ " " ^ hex_of_bytes ty ^ " " ^ out_list hex_of_bytes vs) chs;
                       out_controls cs]
  | MAdd (id, dn, attrs, cs) ->
    String.concat " " ["add"; string_of_z id; hex_of_bytes dn;
                       out_list (fun (ty, vs) -> hex_of_bytes ty ^ " " ^ out_list hex_of_bytes vs) attrs; out_controls cs]
  | MDel (id, dn, cs) -> String.concat " " ["del"; string_of_z id; hex_of_bytes dn; out_controls cs]
  | MExt (id, name) -> String.concat " " ["ext"; string_of_z id; hex_of_bytes name]
  | MUnbind id -> "unbind " ^ string_of_z id

let out_outcome f = function Ok x -> "OK " ^ f x | Err -> "ERR" | Panic -> "PANIC"

(* strict = current tree (checked assertions), modfix = one element per value *)
let receive bs = server_receive prim_reject true true bs

(* req: typed request -> wire bytes | what the property says the handler sees | what the model of gldap decodes *)
let do_req t =
  let r = next_request t in
  let w = wire r in
  hex_of_bytes w ^ " | OK " ^ out_message (msg_of_request r) ^ " | " ^ out_outcome out_message (receive w)
let do_decode t = out_outcome out_message (receive (next_hex t))
let do_decode_pinned t = out_outcome out_message (server_receive prim_reject false false (next_hex t))
(* stream of frames *)
let do_stream t =
  let bs = next_hex t in
  let rs = serve_stream prim_reject true true (nat_of_int (List.length bs + 1)) bs in
  out_list (fun o -> "[" ^ out_outcome out_message o ^ "]") rs
(* ctl: typed control -> encoding | normalised fields *)
let do_ctl t =
  let c = next_control t in
  hex_of_bytes (bytes_of (encode_control c)) ^ " | OK " ^ out_control (norm_control c)
let do_ctldecode t =
  match decode_packet prim_reject (next_hex t) with
  | Ok p -> out_outcome out_control (decode_control prim_reject true p)
  | Err -> "ERR" | Panic -> "PANIC"
let do_behera t =
  let opt t = match next t with "~" -> None | s -> Some (n_of_string s) in
  let g = opt t in let e = opt t in let c = opt t in
  out_outcome out_control (new_behera g e c)

(* ---------- responses (C04), mux (C03), constructors (C16) ---------- *)
let next_ropt t : ropt =
  match next t with
  | "diag" -> WDiag (next_hex t) | "matched" -> WMatched (next_hex t)
  | "code" -> WCode (next_z t) | "app" -> WApp (next_z t)
  | "attrs" -> WAttrs (next_gomap t)
  | "nil" | "other" -> OIgnored
  | k -> failwith ("bad ropt " ^ k)
let next_setter t : setter =
  match next t with
  | "code" -> SCode (next_z t) | "diag" -> SDiag (next_hex t) | "matched" -> SMatched (next_hex t)
  | "ctrls" -> SControls (next_controls t)
  | "mutctrls" -> SControls (next_controls t)   (* the control values the response refers to were changed in place: it shows their current fields *)
  | "addattr" -> let n = next_hex t in let vs = next_list t next_hex in SAddAttr (n, vs)
  | "name" -> SName (next_hex t)
  | k -> failwith ("bad setter " ^ k)
let next_rkind t = match next t with
  | "general" -> KGeneral | "bind" -> KBind | "ext" -> KExtended | "done" -> KSearchDone
  | "entry" -> KEntry | "modify" -> KModify | k -> failwith ("bad rkind " ^ k)

let out_raw_control (c : raw_control) =
  hex_of_bytes c.rc_oid ^ " " ^ b01 c.rc_crit ^ " " ^ (match c.rc_value with None -> "~" | Some v -> hex_of_bytes v)
let out_attrs (l : (n list * n list list) list) =
  out_list (fun (n, vs) -> hex_of_bytes n ^ " " ^ out_list hex_of_bytes vs) l
let sort_first k (l : (n list * n list list) list) =
  let rec split i l acc = if i = 0 then (List.rev acc, l) else match l with [] -> (List.rev acc, []) | x :: r -> split (i - 1) r (x :: acc) in
  let (a, b) = split k l [] in
  List.sort (fun (x, _) (y, _) -> compare (hex_of_bytes x) (hex_of_bytes y)) a @ b
let out_parsed mapkeys = function
  | None -> "UNPARSEABLE"
  | Some (PResult (id, tag, code, matched, diag, cs)) ->
    String.concat " " ["result"; string_of_z id; string_of_n tag; string_of_z code; hex_of_bytes matched; hex_of_bytes diag; out_list out_raw_control cs]
  | Some (PEntry (id, dn, attrs)) ->
    String.concat " " ["entry"; string_of_z id; hex_of_bytes dn; out_attrs (sort_first mapkeys attrs)]

(* a response may be written more than once, with setters in between: "write" among the setters *)
type sw = Set of setter | WriteNow
let next_sw t = match t.rest with "write" :: r -> t.rest <- r; WriteNow | _ -> Set (next_setter t)
let do_resp t =
  let id = next_z t in let k = next_rkind t in let dn = next_hex t in
  let opts = next_list t next_ropt in let sets = next_list t next_sw in
  let mapkeys = List.fold_left (fun acc o -> match o with WAttrs m -> List.length m | _ -> acc) 0 opts in
  match new_response true k id dn opts with
  | Ok r ->
    let render r =
      let bs = response_bytes r in
      (if mapkeys >= 2 then "-" else hex_of_bytes bs) ^ " | " ^ out_parsed mapkeys (parse_response prim_reject bs) in
    let (r, outs) = List.fold_left (fun (r, acc) x -> match x with
        | Set st -> (run_setters r [st], acc)
        | WriteNow -> (r, render r :: acc)) (r, []) sets in
    String.concat " || " (List.rev (render r :: outs))
  | Err -> "ERR" | Panic -> "PANIC"

let next_hopt t = match next t with "nil" -> None | s -> Some (nat_of_int (int_of_string s))
let rec int_of_nat = function O -> 0 | S n -> 1 + int_of_nat n
let next_reg t : reg =
  match next t with
  | "bind" -> RegRoute (RtBind, next_hopt t)
  | "search" -> let h = next_hopt t in let b = next_hex t in let f = next_hex t in let s = next_z t in RegRoute (RtSearch (b, f, s), h)
  | "ext" -> let h = next_hopt t in let n = next_hex t in RegRoute (RtExt n, h)
  | "modify" -> RegRoute (RtModify, next_hopt t)
  | "add" -> RegRoute (RtAdd, next_hopt t)
  | "del" -> RegRoute (RtDelete, next_hopt t)
  | "default" -> RegDefault (next_hopt t)
  | "unbind" -> RegUnbind (next_hopt t)
  | k -> failwith ("bad reg " ^ k)
let do_serve t =
  let regs = next_list t next_reg in
  let r = next_request t in
  let m = msg_of_request r in
  match serve ascii_eqfold true (build regs) m with
  | Run h -> "RUN " ^ string_of_int (int_of_nat h)
  | Refuse resp -> "REFUSE " ^ out_parsed 0 (parse_response prim_reject (response_bytes resp))
let out_action = function
  | Run h -> "RUN " ^ string_of_int (int_of_nat h)
  | Refuse resp -> "REFUSE " ^ out_parsed 0 (parse_response prim_reject (response_bytes resp))
(* registrations and served requests in any order on one mux *)
let do_serveseq t =
  let evs = next_list t (fun t -> match next t with
      | "reg" -> EvReg (next_reg t)
      | "req" -> EvServe (msg_of_request (next_request t))
      | k -> failwith ("bad event " ^ k)) in
  String.concat " ; " (List.map out_action (run_events ascii_eqfold true mux_empty evs))
let do_muxreg t =
  let regs = next_list t next_reg in
  let m = build regs in
  let errs = List.fold_left (fun (m, acc) g -> let (m', ok) = register m g in (m', acc ^ (if ok then "0" else "1"))) (mux_empty, "") regs |> snd in
  String.concat " " ["OK"; string_of_int (List.length m.routes); b01 (m.dflt <> None); b01 (m.unbind <> None); "e" ^ errs]

(* ---------- test directory (C19, C20) ---------- *)
let next_dattr t = let n = next_hex t in let vs = next_list t next_hex in (n, vs)
let next_dentry t : dentry = let dn = next_hex t in let attrs = next_list t next_dattr in { d_dn = dn; d_attrs = attrs }
let next_dop t : dop =
  match next t with
  | "bind" -> let dn = next_hex t in let pw = next_hex t in DBind (dn, pw)
  | "add" -> let dn = next_hex t in DAdd (dn, next_list t next_dattr)
  | "modify" -> let dn = next_hex t in
    DModify (dn, next_list t (fun t -> let op = next_z t in let ty = next_hex t in let vs = next_list t next_hex in ((op, ty), vs)))
  | "delete" -> DDelete (next_hex t)
  | "search" -> let b = next_hex t in let f = next_hex t in DSearch (b, f)
  | "setusers" -> DSetUsers (next_list t next_dentry)
  | "setgroups" -> DSetGroups (next_list t next_dentry)
  | "setanon" -> DSetAnon (next_bool t)
  | "users" -> DUsers
  | k -> failwith ("bad dop " ^ k)
let out_dentry (e : dentry) = hex_of_bytes e.d_dn ^ " " ^ out_list (fun (n, vs) -> hex_of_bytes n ^ " " ^ out_list hex_of_bytes vs) e.d_attrs
let do_dir t =
  let udn = next_hex t in let gdn = next_hex t in let an = next_bool t in
  let us = next_list t next_dentry in let gs = next_list t next_dentry in
  let ops = next_list t next_dop in
  let d = { users = us; groups = gs; anon = an; user_dn = udn; group_dn = gdn } in
  let (_, rs) = drun ascii_eqfold true d ops in
  out_list (fun r -> "R " ^ string_of_z r.res_code ^ " " ^ out_list out_dentry r.res_entries) rs

(* ---------- lifecycle scenarios on the LTS (Sys.v) ---------- *)
let next_hstep t : hstep =
  match next t with
  | "b" -> HBarrier (nat_of_int (next_int t))
  | "p" | "pw" -> HPanic | "w" | "W" -> HWrite | "hs" -> HHandshake
  | k -> failwith ("bad hstep " ^ k)
let next_item t : item =
  match next t with
  | "req" -> let k = (match next t with "normal" -> KNormal | "starttls" -> KStartTLS | "unbind" -> KUnbind | k -> failwith ("bad kind " ^ k)) in
             let _msgid = next t in
             IReq (k, next_list t next_hstep)
  | "bad" -> IBad
  | "hello" -> IHello
  | k -> failwith ("bad item " ^ k)
(* one scenario operation = one or several environment labels, then quiescence *)
type lop = L of label list | Park of bool
let next_life_labels t (k : string) : label list =
  match k with
  | "run" -> let v = next_bool t in let o = next_bool t in [ECallRun (v, o)]
  | "stop" -> [ECallStop]
  | "connect" -> [EConnect]
  | "send" -> let c = nat_of_int (next_int t) in List.map (fun it -> ESend (c, it)) (next_list t next_item)
  | "close" | "reset" -> [EClose (nat_of_int (next_int t))]
  | "sendclose" -> let c = nat_of_int (next_int t) in List.map (fun it -> ESend (c, it)) (next_list t next_item) @ [EClose c]
  | "stall" -> let c = nat_of_int (next_int t) in [EStall (c, next_bool t)]
  | "release" -> [ERelease (nat_of_int (next_int t))]
  | "holdonclose" -> [EHoldOnClose (next_bool t)]
  | "accepterr" -> [EAcceptErr; EConnect]
  | "sleep" | "stoptimer" -> let _ = next t in []
  | "stopwait" -> [ECallStop]
  | k -> failwith ("bad life op " ^ k)
let next_life_op t : lop =
  match next t with
  | "parkaccept" -> Park (next_bool t)
  | k -> L (next_life_labels t k)
let cfg_of_string (s : string) : config =
  let parts = String.split_on_char ':' s in
  let base = (match List.hd parts with "fixed" -> fixed_cfg | "pinned" -> pinned_cfg | k -> failwith ("bad cfg " ^ k)) in
  List.fold_left (fun c kv ->
      match String.split_on_char '=' kv with
      | [k; v] ->
        let b = (v = "1") in
        (match k with
         | "recovery" -> { c with recovery = b } | "handler_rec" -> { c with handler_rec = b }
         | "wg_last" -> { c with wg_last = b } | "add_before_accept" -> { c with add_before_accept = b }
         | "stop_interrupts" -> { c with stop_interrupts = b } | "ready_on_error" -> { c with ready_on_error = b }
         | "close_on_cancel" -> { c with close_on_cancel = b } | "unbind" -> { c with has_unbind_route = b }
         | "onclose" -> { c with has_onclose = b } | "accept_retry" -> { c with accept_retry = b } | "untrack_late" -> { c with untrack_late = b }
         | "addr" | "tls" | "readtimeout" | "race" | "dflt" | "stopdelay" | "nopark" | "loglevel" -> c     (* worker options, not model parameters *)
         | _ -> failwith ("bad cfg key " ^ k))
      | _ -> failwith "bad cfg kv") base (List.tl parts)
let kind_char = function KNormal -> "n" | KStartTLS -> "t" | KUnbind -> "u"
let snapshot (s : state) : string =
  let runs = (match s.run with RNot -> "none" | RRet e -> if e then "err" else "ok" | _ -> "running") in
  let nret = List.length (List.filter (fun p -> p = SRet) s.stops) in
  let conn_s i (c : conn) =
    Printf.sprintf "c%d:id=%d,started=[%s],ended=[%s],closed=%s,onclose=%d,rx=%d" i (int_of_nat c.cid)
      (String.concat ";" (List.map (fun (r, k) -> string_of_int r ^ kind_char k)
                            (List.sort compare (List.map (fun (r, k) -> (int_of_nat r, k)) c.started))))
      (String.concat ";" (List.map (fun r -> string_of_int (int_of_nat r)) (List.sort compare c.ended)))
      (b01 c.sock_closed) (int_of_nat c.onclose) (int_of_nat c.sent) in
  Printf.sprintf "alive=%s ready=%s run=%s stops=%d/%d port=%s %s" (b01 s.alive) (b01 s.ready) runs nret
    (List.length s.stops) (b01 s.port_bound) (String.concat " " (List.mapi conn_s s.conns))
(* parkaccept: the scenario holds the Run goroutine between Accept and newConn.  The scheduler
   used for the prediction then is the canonical one minus LRun in state RAccepted: still a run
   of the LTS (every step is the model's), only the choice among enabled steps differs. *)
let parked = ref false
let rec quiesce_parked cfg (fuel : int) (s : state) : state =
  if fuel = 0 then s else
  let labels = List.filter (fun l -> not (l = LRun && s.run = RAccepted)) (internal_labels s) in
  match first_enabled cfg s labels with
  | Some s' -> quiesce_parked cfg (fuel - 1) s'
  | None -> s
let do_life t =
  let cfg = cfg_of_string (next t) in
  parked := false;
  let ops = next_list t next_life_op in
  let fuel = nat_of_int 20000 in
  let rec go s ops acc =
    match ops with
    | [] -> List.rev acc
    | lop :: rest ->
      (match lop with
       | Park b -> parked := b; let s3 = if b then s else quiesce cfg fuel s in go s3 rest (snapshot s3 :: acc)
       | L labels ->
      let s' = List.fold_left (fun so l -> match so with None -> None | Some s -> step cfg s l) (Some s) labels in
      (match s' with
       | None -> List.rev ("DISABLED" :: acc)
       | Some s2 -> let s3 = if !parked then quiesce_parked cfg 20000 s2 else quiesce cfg fuel s2 in go s3 rest (snapshot s3 :: acc))) in
  String.concat " # " (go init ops [])

(* ---------- C05: sequential writes with an injected socket failure, on Writer.v ---------- *)
let do_wmodel t =
  let frames = next_list t next_hex in
  let fail_at = next_int t in let partial = next_int t in
  let labels = List.concat (List.mapi (fun j f ->
      let len = List.length f in
      if fail_at >= 0 && j > fail_at then [LAcquire O; LRelease O]
      else if j = fail_at then
        let k = min partial len in
        [LAcquire O] @ (if k > 0 then [LSock (O, nat_of_int k)] else []) @ [LFail O; LRelease O]
      else [LAcquire O] @ (if len > 0 then [LSock (O, nat_of_int len)] else []) @ [LRelease O]) frames) in
  match wrun (winit [frames]) labels with
  | None -> "MODEL-DISABLED"
  | Some s ->
    hex_of_bytes s.wire0 ^ " | " ^ String.concat "" (List.map (fun ((_, _), ok) -> if ok then "1" else "0") s.log)

(* ---------- C18: the TLS gate ---------- *)
let do_c18 t =
  let _target = next t in
  let starts p s = String.length s >= String.length p && String.sub s 0 (String.length p) = p in
  let cfg = (match next t with s when starts "mtls" s -> RequireVerify | s when starts "tls" s -> ServerAuth | _ -> NoTls) in
  let b = (match next t with
      | "plain" -> PlainLdap | "garbage" -> Garbage | "idle" -> ConnectIdle | "abandon" -> AbandonMidway
      | "tls-nocert" -> TlsNoCert | "tls-otherca" | "tls-otherca-chain" -> TlsOtherCA | "tls-goodcert" -> TlsGoodCert
      | k -> failwith ("bad behaviour " ^ k)) in
  "handler_ran=" ^ b01 (handler_ran std_hs_ok cfg b) ^ " bystanders=111 alive=1"

(* ---------- C17: validateAddrPort with the library's answers as oracle bits ---------- *)
let do_addrv t =
  let a = next_hex t in
  let b1 = next_bool t in let b2 = next_bool t in let b3 = next_bool t in let b4 = next_bool t in
  match validate_addr { o_trim_ip = b1; o_resolves = b2; o_host_addr = b3; o_host_ip = b4 } a with
  | Ok out -> "OK " ^ hex_of_bytes out
  | Err -> "ERR" | Panic -> "PANIC"

let dispatch kind t =
  match kind with
  | "convert" -> do_convert t
  | "convert_pinned" -> do_convert_pinned t
  | "sid2s" -> do_sid2s t
  | "sidb" -> do_sidb t
  | "sidrt" -> do_sidrt t
  | "convertrt" -> do_convertrt t
  | "entry" -> do_entry t
  | "addvalue" -> do_addvalue t
  | "req" -> do_req t
  | "decode" -> do_decode t
  | "decode_pinned" -> do_decode_pinned t
  | "stream" -> do_stream t
  | "ctl" -> do_ctl t
  | "ctldecode" -> do_ctldecode t
  | "behera" -> do_behera t
  | "resp" -> do_resp t
  | "serve" -> do_serve t
  | "serveseq" -> do_serveseq t
  | "muxreg" -> do_muxreg t
  | "dir" -> do_dir t
  | "life" -> do_life t
  | "wmodel" -> do_wmodel t
  | "c18run" -> do_c18 t
  | "addrv" -> do_addrv t
  | k -> failwith ("unknown kind " ^ k)

let () =
  try
    while true do
      let line = input_line stdin in
      if line <> "" then begin
        let toks = String.split_on_char ' ' line |> List.filter (fun s -> s <> "") in
        match toks with
        | kind :: id :: rest ->
          let t = { rest } in
          let res = (try dispatch kind t with Failure m -> "DRIVER-ERROR " ^ m | Not_found -> "DRIVER-ERROR notfound"
                                            | Stack_overflow -> "DRIVER-ERROR stack") in
          print_string kind; print_char ' '; print_string id; print_char ' '; print_endline res
        | _ -> ()
      end
    done
  with End_of_file -> ()
