#!/usr/bin/env python3
"""check.py — one entry point for every property check.

  python3 tools/check.py <ID> --tier quick|thorough [--replay FILE]
  python3 tools/check.py --setup

A run: (1) proof obligations: full .vo build of coq/ (make), constants
regenerated from /repo, forbidden-construct scan, Print Assumptions of
Props/<ID>.v; (2) build the OCaml driver of the extracted model and the Go
harness from /repo's working tree with -tags verif; (3) correspondence:
cases -> model (driver) and implementation (vh) -> compare projected
observables, evaluate the property's spec predicate on the implementation's
observations; (4) evidence/<ID>.json, KNOWN-FINDING / VIOLATION lines, exit.
See DESIGN.md sections 2, 5, 6.
"""
import fcntl
import hashlib
import json
import os
import re
import subprocess
import sys
import time

ROOT = os.path.dirname(os.path.dirname(os.path.abspath(__file__)))
COQ = os.path.join(ROOT, "coq")
OCAML = os.path.join(ROOT, "ocaml")
HARNESS = os.path.join(ROOT, "harness")
WORK = os.path.join(ROOT, "work")
REPO = "/repo"
VH = os.path.join(HARNESS, "bin", "vh")
DRIVER = os.path.join(OCAML, "driver")

GOENV = dict(os.environ, GOFLAGS="-mod=mod", GOPROXY="off", GOSUMDB="off", GOTOOLCHAIN="local")

FORBIDDEN = re.compile(r"\b(Admitted|admit|Axiom|Axioms|Parameter|Parameters|Conjecture|Admit Obligations)\b|Unset Guard|bypass_check|type-in-type|impredicative-set|Unset Universe Checking|Unset Positivity")


def sh(cmd, cwd=None, env=None, timeout=None, inp=None):
    p = subprocess.run(cmd, cwd=cwd, env=env, timeout=timeout, input=inp, shell=isinstance(cmd, str),
                       stdout=subprocess.PIPE, stderr=subprocess.STDOUT, text=True, errors="replace")
    return p.returncode, p.stdout


class Lock:
    def __enter__(self):
        os.makedirs(WORK, exist_ok=True)
        self.f = open(os.path.join(WORK, ".lock"), "w")
        fcntl.flock(self.f, fcntl.LOCK_EX)
        return self

    def __exit__(self, *a):
        fcntl.flock(self.f, fcntl.LOCK_UN)
        self.f.close()


# --------------------------------------------------------------------------
# build steps

CONSTS = dict(ok=True, detail="")
CONSTS_PROPS = ("C01", "C03", "C04", "C14", "C19", "C20")


def regen_consts():
    """ConstsGen.v (result codes, application tags, control OIDs) is regenerated from the gldap
    package on every run; Consts.v proves the model's constants equal to them.  As for the
    access table, a generated file that breaks Consts.v is not installed: the properties that
    depend on the constants read CONSTS and report it."""
    path = os.path.join(COQ, "ConstsGen.v")
    rc, out = sh([VH, "consts"], timeout=60)
    if rc != 0 or "gen_ResultSuccess" not in out:
        CONSTS.update(ok=False, detail="vh consts failed: " + out[-500:])
        return True, "failed"
    old = open(path).read() if os.path.exists(path) else None
    if old == out:
        CONSTS.update(ok=True, detail="constants unchanged; Consts.v is part of the build")
        return True, "ok"
    trial = os.path.join(WORK, "consts_try")
    sh("rm -rf %s && mkdir -p %s" % (trial, trial))
    sh("cp %s %s/" % (os.path.join(COQ, "Consts.v"), trial))
    open(os.path.join(trial, "ConstsGen.v"), "w").write(out)
    # Consts.v needs the model files: compile against the installed library
    rc, o = sh("timeout 300 coqc -Q %s G -Q . G ConstsGen.v && timeout 300 coqc -Q %s G -Q . G Consts.v" % (COQ, COQ), cwd=trial, timeout=700)
    if rc == 0 or old is None:
        open(path, "w").write(out)
        CONSTS.update(ok=True, detail="constants regenerated and installed")
    else:
        CONSTS.update(ok=False, detail="Consts.v fails with the constants regenerated from /repo: " + o[-800:])
    sh("rm -rf %s" % trial)
    return True, "ok"


CFG = dict(ok=True, detail="")
CFG_PROPS = ("C06", "C07", "C08", "C09", "C10", "C11", "C12", "C13", "C17")


def regen_cfg():
    """CfgGen.v: the source-level facts behind the LTS configuration (order of the teardown steps,
    place of connWg.Add, ...) are read off server.go / conn.go on every run; CfgTie.v proves
    fixed_cfg equal to them.  Same installation rule as for the access table."""
    path = os.path.join(COQ, "CfgGen.v")
    rc, out = sh([VH, "cfgflags", "/repo"], timeout=60)
    if rc != 0 or "gen_wg_last" not in out:
        CFG.update(ok=False, detail="vh cfgflags failed: " + out[-500:])
        return
    old = open(path).read() if os.path.exists(path) else None
    if old == out:
        CFG.update(ok=True, detail="flags unchanged; CfgTie.v is part of the build")
        return
    trial = os.path.join(WORK, "cfg_try")
    sh("rm -rf %s && mkdir -p %s" % (trial, trial))
    sh("cp %s %s/" % (os.path.join(COQ, "CfgTie.v"), trial))
    open(os.path.join(trial, "CfgGen.v"), "w").write(out)
    rc, o = sh("timeout 300 coqc -Q %s G -Q . G CfgGen.v && timeout 300 coqc -Q %s G -Q . G CfgTie.v" % (COQ, COQ), cwd=trial, timeout=700)
    if rc == 0 or old is None:
        open(path, "w").write(out)
        CFG.update(ok=True, detail="flags regenerated and installed")
    else:
        diff = [l.strip() for l in out.splitlines() if (l.startswith("Definition gen_") and "gen_skeleton" not in l or l.startswith("  (\"")) and l not in (old or "")]
        CFG.update(ok=False, detail="theorem fixed_cfg_is_the_source / skeleton_is_the_source (coq/CfgTie.v) fails: the source no longer has the shape the lifecycle model (coq/Sys.v) was written against; "
                   "facts read off server.go / conn.go that differ (flags: order of teardown steps etc.; skeleton: return paths of Stop / Run / serveRequests, goroutines started, "
                   "deadline-setting sites, package-level synchronisation state): " + "; ".join(diff) + " | " + o[-300:])
    sh("rm -rf %s" % trial)


ACCESS = dict(ok=True, detail="")


def regen_access():
    """AccessGen.v (C15's access table) is regenerated from /repo on every run.  A table
    that no longer satisfies the discipline is NOT installed (the shared build must
    stay usable for the other properties); C15 reads ACCESS and reports it."""
    rc, out = sh([VH, "accesses", "/repo"], timeout=120)
    if rc != 0 or "gen_sites" not in out:
        ACCESS.update(ok=False, detail="vh accesses failed: " + out[-800:])
        return
    cur_path = os.path.join(COQ, "AccessGen.v")
    cur = open(cur_path).read() if os.path.exists(cur_path) else None
    if cur == out:
        ACCESS.update(ok=True, detail="table unchanged; discipline_holds is part of the build")
        return
    trial = os.path.join(WORK, "access_try")
    sh("rm -rf %s && mkdir -p %s" % (trial, trial))
    for fn in ("Access.v", "AccessProofs.v"):
        sh("cp %s %s/" % (os.path.join(COQ, fn), trial))
    open(os.path.join(trial, "AccessGen.v"), "w").write(out)
    open(os.path.join(trial, "Why.v"), "w").write(
        "From Coq Require Import String List Bool.\nFrom G Require Import AccessGen Access.\n"
        "Eval vm_compute in (map (fun a => (g_fn a, g_field a, g_line a)) (unknown_sites gen_sites)).\n"
        "Eval vm_compute in (map (fun p => (g_fn (fst p), g_field (fst p), g_write (fst p), g_line (fst p), g_fn (snd p), g_write (snd p), g_line (snd p))) (failing_pairs gen_sites gen_calls)).\n")
    rc, o = sh("timeout 600 coqc -Q . G AccessGen.v && timeout 600 coqc -Q . G Access.v && timeout 600 coqc -Q . G AccessProofs.v", cwd=trial, timeout=2000)
    if rc == 0:
        open(cur_path, "w").write(out)
        ACCESS.update(ok=True, detail="table regenerated and installed")
    else:
        rc2, why = sh("timeout 600 coqc -Q . G Why.v", cwd=trial, timeout=700)
        ACCESS.update(ok=False, detail="AccessProofs.v (discipline_holds) fails on the table regenerated from /repo: " + o[-600:] +
                      "\nunclassified functions / unjustified conflicting pairs (fn, field, write, line, fn, write, line):\n" + why[-3000:])
    sh("rm -rf %s" % trial)


def build_coq(clean=False):
    """Full .vo build (never -vos).  Returns (ok, log)."""
    log = []
    if clean:
        sh("make clean >/dev/null 2>&1; rm -f *.vo *.glob *.vok *.vos .*.aux Props/*.vo Props/*.glob Props/*.vok Props/*.vos Props/.*.aux", cwd=COQ)
    mk = os.path.join(COQ, "Makefile")
    cp = os.path.join(COQ, "_CoqProject")
    if not os.path.exists(mk) or os.path.getmtime(mk) < os.path.getmtime(cp):
        rc, out = sh("coq_makefile -f _CoqProject -o Makefile", cwd=COQ)
        log.append(out)
    rc, out = sh("timeout 1500 make -j16", cwd=COQ, timeout=1600)
    log.append(out)
    return rc == 0, "\n".join(log)


def forbidden_scan():
    hits = []
    for d, _, fs in os.walk(COQ):
        for fn in fs:
            if fn.endswith(".v"):
                p = os.path.join(d, fn)
                txt = open(p).read()
                # strip comments (nested)
                out, depth, i = [], 0, 0
                while i < len(txt):
                    if txt.startswith("(*", i):
                        depth += 1
                        i += 2
                    elif txt.startswith("*)", i) and depth > 0:
                        depth -= 1
                        i += 2
                    else:
                        if depth == 0:
                            out.append(txt[i])
                        i += 1
                code = "".join(out)
                for m in FORBIDDEN.finditer(code):
                    hits.append("%s: %s" % (os.path.relpath(p, ROOT), m.group(0)))
                # Variable/Hypothesis outside a section
                depth = 0
                for line in code.splitlines():
                    s = line.strip()
                    if re.match(r"^Section\b", s):
                        depth += 1
                    elif re.match(r"^End\b", s) and depth > 0:
                        depth -= 1
                    elif depth == 0 and re.match(r"^(Variable|Variables|Hypothesis|Hypotheses|Context)\b", s):
                        hits.append("%s: top-level %s" % (os.path.relpath(p, ROOT), s[:40]))
    return hits


def props_obligations(pid):
    """Compile Props/<pid>.v alone and read its Print Assumptions output."""
    f = os.path.join(COQ, "Props", pid + ".v")
    if not os.path.exists(f):
        return dict(theorems=0, closed=0, axioms=["Props/%s.v missing" % pid], names=[], ok=False, log="missing")
    src = open(f).read()
    names = re.findall(r"^\s*(?:Theorem|Corollary)\s+(\w+)", src, re.M)
    nprints = len(re.findall(r"^\s*Print Assumptions\s+\w+", src, re.M))
    rc, out = sh("timeout 600 coqc -Q . G Props/%s.v" % pid, cwd=COQ, timeout=700)
    closed = out.count("Closed under the global context")
    axioms = []
    for m in re.finditer(r"Axioms:\n((?:.+\n?)+?)(?=\n\S|\Z)", out):
        for l in m.group(1).splitlines():
            l = l.strip()
            if l and not l.startswith(":") and ":" in l:
                axioms.append(l.split(":")[0].strip())
    axioms = sorted(set(axioms))
    ok = rc == 0 and nprints == len(names) and (closed + out.count("Axioms:")) == len(names)
    return dict(theorems=len(names), closed=closed, axioms=axioms, names=names, ok=ok, log=out[-3000:], rc=rc)


def build_driver():
    src = [os.path.join(COQ, "model.ml"), os.path.join(COQ, "model.mli"), os.path.join(OCAML, "driver.ml")]
    for s in src:
        if not os.path.exists(s):
            return False, "missing " + s
    h = hashlib.sha256()
    for s in src:
        h.update(open(s, "rb").read())
    stamp = os.path.join(OCAML, ".stamp")
    if os.path.exists(DRIVER) and os.path.exists(stamp) and open(stamp).read() == h.hexdigest():
        return True, "cached"
    sh("cp ../coq/model.ml ../coq/model.mli .", cwd=OCAML)
    rc, out = sh("timeout 600 ocamlfind ocamlopt -w -a -package zarith -linkpkg model.mli model.ml driver.ml -o driver", cwd=OCAML, timeout=700)
    if rc == 0:
        open(stamp, "w").write(h.hexdigest())
    return rc == 0, out


def build_harness():
    sh("cp /repo/go.sum go.sum", cwd=HARNESS)
    os.makedirs(os.path.join(HARNESS, "bin"), exist_ok=True)
    rc, out = sh(["go", "build", "-tags", "verif", "-o", "bin/vh", "."], cwd=HARNESS, env=GOENV, timeout=900)
    if rc == 0 and os.environ.get("VERIF_BUILD_RACE") == "1":
        rc, out2 = sh(["go", "build", "-race", "-tags", "verif", "-o", "bin/vh-race", "."], cwd=HARNESS, env=GOENV, timeout=900)
        out += out2
    return rc == 0, out


def build_all(clean=False):
    """Returns dict(ok, stage, log). Harness first (consts need it), then coq, driver."""
    with Lock():
        ok, log = build_harness()
        if not ok:
            return dict(ok=False, stage="go-build", log=log)
        ok, log = regen_consts()
        if not ok:
            return dict(ok=False, stage="consts", log=log)
        regen_access()
        regen_cfg()
        ok, log = build_coq(clean)
        if not ok:
            return dict(ok=False, stage="coq", log=log)
        ok, log2 = build_driver()
        if not ok:
            return dict(ok=False, stage="ocaml", log=log2)
        return dict(ok=True, stage="", log=log)


# --------------------------------------------------------------------------
# running cases

def run_lines(binary_cmd, text, timeout=3000, shards=16):
    """Feed case lines to a line-oriented binary; large inputs are split over parallel processes."""
    lines = text.splitlines()
    if len(lines) < 2000 or shards <= 1:
        p = subprocess.run(binary_cmd, input=text, stdout=subprocess.PIPE, stderr=subprocess.PIPE, text=True, errors="replace",
                           timeout=timeout, env=GOENV)
        return p.returncode, p.stdout, p.stderr
    import tempfile
    k = shards
    procs = []
    for j in range(k):
        chunk = lines[j::k]
        fin = tempfile.TemporaryFile(mode="w+")
        fin.write("\n".join(chunk) + "\n")
        fin.seek(0)
        fout = tempfile.TemporaryFile(mode="w+")
        ferr = tempfile.TemporaryFile(mode="w+")
        procs.append((subprocess.Popen(binary_cmd, stdin=fin, stdout=fout, stderr=ferr, env=GOENV), fin, fout, ferr))
    rc, outs, errs = 0, [], []
    for p, fin, fout, ferr in procs:
        try:
            p.wait(timeout=timeout)
        except subprocess.TimeoutExpired:
            p.kill()
            rc = rc or 124
        rc = rc or p.returncode
        fout.seek(0); ferr.seek(0)
        outs.append(fout.read()); errs.append(ferr.read())
        fin.close(); fout.close(); ferr.close()
    return rc, "".join(outs), "".join(errs)


def parse_results(out):
    res = {}
    for l in out.splitlines():
        parts = l.split(" ", 2)
        if len(parts) >= 2:
            res[(parts[0], parts[1])] = parts[2] if len(parts) > 2 else ""
    return res


def gen_cases(prop, seed, n, tier):
    rc, out = sh([VH, "gen", prop, str(seed), str(n), tier], timeout=600, env=GOENV)
    if rc != 0:
        raise RuntimeError("vh gen failed: " + out[-2000:])
    return out


def differential(cases_text, workdir, tag):
    """Run model and implementation on the same case lines."""
    os.makedirs(workdir, exist_ok=True)
    open(os.path.join(workdir, tag + ".cases"), "w").write(cases_text)
    rc1, mout, merr = run_lines([DRIVER], cases_text)
    rc2, iout, ierr = run_lines([VH, "run"], cases_text)
    open(os.path.join(workdir, tag + ".model"), "w").write(mout)
    open(os.path.join(workdir, tag + ".impl"), "w").write(iout)
    if rc1 != 0:
        raise RuntimeError("driver failed rc=%d: %s" % (rc1, merr[-2000:]))
    if rc2 != 0:
        raise RuntimeError("vh run failed rc=%d: %s" % (rc2, ierr[-2000:]))
    return parse_results(mout), parse_results(iout)


def case_map(cases_text):
    m = {}
    for l in cases_text.splitlines():
        parts = l.split(" ", 2)
        if len(parts) >= 2:
            m[(parts[0], parts[1])] = l
    return m


# --------------------------------------------------------------------------
# known findings

def load_known(pid):
    path = os.path.join(ROOT, "KNOWN_FINDINGS.txt")
    out = []
    if os.path.exists(path):
        for l in open(path):
            l = l.strip()
            m = re.match(r"finding:\s+property=(\S+)\s+key=(\S+)\s+(.*)", l)
            if m and m.group(1) == pid:
                out.append((m.group(2), m.group(3)))
    return out


# --------------------------------------------------------------------------
# result container

class Result:
    def __init__(self, pid):
        self.pid = pid
        self.evaluations = 0
        self.nontrivial = set()
        self.samples = []
        self.violations = []      # dicts: {key, case, impl, expect, why}
        self.mismatches = []      # dicts: {case, impl, model}
        self.extra = {}
        self.rule = ""
        self.exhaustive = False
        self.traces = 0
        self.assumptions = []

    def sample(self, s):
        if len(self.samples) < 8:
            self.samples.append(s if len(s) < 400 else s[:400] + "...")

    def violation(self, key, case, impl, expect, why):
        self.violations.append(dict(key=key, case=case, impl=impl, expect=expect, why=why))

    def mismatch(self, case, impl, model):
        self.mismatches.append(dict(case=case, impl=impl, model=model))


def generic_compare(res, cases_text, model, impl, spec=None, nontrivial=None):
    """Line-by-line comparison; spec(case_line, impl_res) -> (key, why) or None."""
    cm = case_map(cases_text)
    for k, line in cm.items():
        res.evaluations += 1
        i = impl.get(k)
        m = model.get(k)
        if i is None or m is None or i.startswith("HARNESS-ERROR") or m.startswith("DRIVER-ERROR"):
            res.mismatch(line, str(i), str(m))
            continue
        if nontrivial is None or nontrivial(line, i):
            res.nontrivial.add(hashlib.md5((k[0] + " " + line.split(" ", 2)[2] if len(line.split(" ", 2)) > 2 else line).encode()).hexdigest())
        if spec is not None:
            v = spec(line, i)
            if v is not None:
                res.violation(v[0], line, i, m, v[1])
                continue
        if i != m:
            res.mismatch(line, i, m)
        elif res.evaluations % 97 == 1:
            res.sample(line + "  =>  " + i)


# --------------------------------------------------------------------------
# property checks (registered below)

def coq_bytes(hexs):
    if hexs in ("-", ""):
        return "[]"
    b = bytes.fromhex(hexs)
    return "[" + ";".join(str(x) for x in b) + "]"


def vm_crosscheck(res, name, header, fn, rows):
    """Thorough tier: evaluate the model INSIDE Coq (vm_compute) on a sample and compare with what the
    extracted OCaml binary printed for the same inputs - a check of extraction + driver, not of gldap.
    rows: list of (coq_input_term, coq_expected_term)."""
    d = os.path.join(WORK, "vmx")
    os.makedirs(d, exist_ok=True)
    path = os.path.join(d, "Vmx_%s.v" % name)
    with open(path, "w") as f:
        f.write(header + "\n")
        f.write("Definition rows := [\n" + ";\n".join("  (%s, %s)" % r for r in rows) + "\n].\n")
        f.write("Definition bad := length (List.filter (fun r => negb (%s (fst r) (snd r))) rows).\n" % fn)
        f.write("Eval vm_compute in bad.\n")
    rc, out = sh("timeout 900 coqc -Q %s G %s" % (COQ, path), cwd=d, timeout=1000)
    ok = rc == 0 and re.search(r"=\s*0(%nat)?\s*:\s*nat", out) is not None
    res.extra.setdefault("in_coq_vm_compute_crosscheck", {})[name] = dict(cases=len(rows), agrees=ok)
    if not ok:
        res.broken = getattr(res, "broken", []) + ["extraction cross-check %s: vm_compute inside Coq and the extracted binary disagree: %s" % (name, out[-600:])]


CHECKS = {}


def check(pid):
    def deco(fn):
        CHECKS[pid] = fn
        return fn
    return deco


def wd(pid):
    return os.path.join(WORK, pid)


@check("C16")
def check_c16(tier, seed, res):
    n = 400 if tier == "quick" else 20000
    cases = gen_cases("c16", seed, n, tier)
    cases += "\n".join(l.replace(" ", " b", 1).replace(" b", " ", 1) if False else l for l in gen_cases("c16b", seed, n, tier).splitlines()) + "\n"
    cases = renumber(cases)
    model, impl = differential(cases, wd("C16"), "main")

    def spec(line, i):
        kind = line.split(" ", 1)[0]
        if i == "PANIC":
            return ("panic:" + kind, "exported helper/constructor panicked")
        if i.startswith("SPECFAIL") or i.startswith("NONDET") or i.startswith("BADFORMAT"):
            return (i.split(" ")[0].lower() + ":" + kind, "result contradicts the property statement")
        if i.startswith("OPTIONS-SLICE-MODIFIED"):
            return ("options-slice-modified:" + kind, "a constructor wrote into the caller's option slice beyond the options it was given: the next constructor call with the longer list does not get the documented defaults / the option the caller put there")
        if kind == "entry" and i.startswith("OK "):
            names = entry_names(i)
            if names != sorted(names):
                return ("unsorted:entry", "NewEntry attributes not ordered by name")
        return None

    def nontriv(line, i):
        return len(line.split(" ")) > 3

    generic_compare(res, cases, model, impl, spec, nontriv)
    if tier == "thorough":
        rows = []
        for k, line in case_map(cases).items():
            if k[0] != "convert" or k not in model:
                continue
            t = line.split(" ")[2:]
            nin = int(t[0]); ins = t[1:1 + nin]
            m = model[k].split(" ")
            if m[0] == "OK":
                exp = "(0, [%s])" % "; ".join(coq_bytes(x) for x in m[2:2 + int(m[1])])
            else:
                exp = "(%d, [])" % (1 if m[0] == "ERR" else 2)
            rows.append(("[%s]" % "; ".join(coq_bytes(x) for x in ins), exp))
            if len(rows) >= 1500:
                break
        vm_crosscheck(res, "C16_convert",
                      "From Coq Require Import NArith List Bool.\nFrom G Require Import Base Helpers.\nImport ListNotations.\nOpen Scope N_scope.\n"
                      "Fixpoint lbeq (a b : list (list N)) : bool := match a, b with [], [] => true | x :: r, y :: q => beq_bytes x y && lbeq r q | _, _ => false end.\n"
                      "Definition agree (i : list (list N)) (e : N * list (list N)) : bool := match convert_string i, fst e with Ok l, 0 => lbeq l (snd e) | Err, 1 => true | Panic, 2 => true | _, _ => false end.",
                      "agree", rows)
    res.rule = ("exhaustive short strings over a 12-byte tag/length alphabet (len<=%d) for ConvertString, "
                "exhaustive short slices over a 5-byte alphabet for SIDBytesToString, boundary grid for SIDBytes, "
                "seeded random wraps/maps/option programs; non-trivial = case with at least one non-empty argument; "
                "distinct = distinct case text") % (2 if tier == "quick" else 3)
    res.extra["constructors"] = "see sub-kinds ctor/ctlctor/muxreg"


# --------------------------------------------------------------------------
# codec properties: C01, C02, C14

def run_driver(text):
    rc, out, err = run_lines([DRIVER], text)
    if rc != 0:
        raise RuntimeError("driver failed: " + err[-1000:])
    return out


def run_vh(text):
    rc, out, err = run_lines([VH, "run"], text)
    if rc != 0:
        raise RuntimeError("vh run failed: " + err[-1000:])
    return out


def stage_requests(cases_text, workdir, tag):
    """typed `req` cases -> (wire, spec, model) via the driver, then the real decoder on the wire."""
    os.makedirs(workdir, exist_ok=True)
    open(os.path.join(workdir, tag + ".cases"), "w").write(cases_text)
    mout = run_driver(cases_text)
    open(os.path.join(workdir, tag + ".model"), "w").write(mout)
    table = {}
    dec = []
    for l in mout.splitlines():
        parts = l.split(" | ")
        head = parts[0].split(" ")
        if len(parts) != 3 or len(head) != 3:
            table[head[1]] = dict(error=l)
            continue
        table[head[1]] = dict(wire=head[2], spec=parts[1], model=parts[2])
        dec.append("decode %s %s" % (head[1], head[2]))
    iout = run_vh("\n".join(dec) + "\n")
    open(os.path.join(workdir, tag + ".impl"), "w").write(iout)
    for (k, i), r in parse_results(iout).items():
        table[i]["impl"] = r
    return table


def c01_key(case_line):
    t = case_line.split(" ")
    kind = t[2]
    if kind == "search":
        # an extensible-match filter with dnAttributes set: "... ext <rule> <type> <v> 1"
        for j, tok in enumerate(t):
            if tok == "ext" and j + 4 < len(t) and t[j + 4] == "1" and j > 9:
                return "filter=extensibleMatch+dnAttributes"
    return "decode:" + kind


@check("C01")
def check_c01(tier, seed, res):
    n = 3000 if tier == "quick" else 120000
    cases = gen_cases("c01", seed, n, tier)
    cases += gen_cases("c01dn", seed, 40, tier).replace("req ", "req dn")
    table = stage_requests(cases, wd("C01"), "main")
    cm = {l.split(" ", 2)[1]: l for l in cases.splitlines() if l}
    dist = {}
    for i, line in cm.items():
        res.evaluations += 1
        e = table.get(i, {})
        if "impl" not in e:
            res.mismatch(line, str(e.get("impl")), str(e.get("error", e.get("model"))))
            continue
        kind = line.split(" ")[2]
        dist[kind] = dist.get(kind, 0) + 1
        if len(line) > 40:
            res.nontrivial.add(hashlib.md5(line.split(" ", 2)[2].encode()).hexdigest())
        if e["impl"] != e["spec"]:
            res.violation(c01_key(line), line, e["impl"], e["spec"], "handler-visible request differs from what the client encoded")
        elif e["impl"] != e["model"]:
            res.mismatch(line, e["impl"], e["model"])
        elif res.evaluations % 211 == 1:
            res.sample(line[:300] + "  =>  " + e["impl"][:200])
    # end to end: the same frames, forty at a time in ONE TCP segment to a real Server (Run,
    # serveRequests, a goroutine per request, the Mux's default route).  Every request must reach
    # a handler exactly once, carrying what its own frame said, whatever else is in flight
    good = [i for i, line in cm.items() if table.get(i, {}).get("impl", "").startswith("OK ") and table[i]["impl"] == table[i]["spec"]
            and line.split(" ")[2] not in ("unbind", "ext")]
    good = good[:2400 if tier == "quick" else 24000]
    batches = [good[j:j + 40] for j in range(0, len(good), 40)]
    ptext = "".join("pipe p%d %d %s\n" % (b, len(ids), " ".join(table[i]["wire"] for i in ids)) for b, ids in enumerate(batches))
    if ptext:
        pout = parse_results(run_vh(ptext))
        for b, ids in enumerate(batches):
            res.evaluations += 1
            want = sorted(table[i]["spec"][3:] for i in ids)
            got = pout.get(("pipe", "p%d" % b), "")
            wants = "%d %s" % (len(want), " ; ".join(want))
            if got.startswith("HARNESS"):
                res.mismatch("pipe p%d" % b, got, wants); continue
            if got != wants:
                gl = got.split(" ", 1)[1].split(" ; ") if " " in got else []
                lost = [w for w in want if w not in gl]
                extra = [g_ for g_ in gl if g_ not in want]
                res.violation("pipelined-delivery", "pipe p%d %d %s" % (b, len(ids), " ".join(table[i]["wire"] for i in ids)), got[:1500], wants[:1500],
                              "requests pipelined on one connection did not each reach a handler exactly once with their own content: %d delivered of %d sent; not delivered e.g. %s; delivered but never sent (or twice) e.g. %s" % (
                                  len(gl), len(want), lost[:1], extra[:1]))
        dist["pipelined-batches"] = len(batches)
    # one frame arriving in two pieces around a read timeout, with a handler of the connection in
    # flight: the bytes behind the cut are the INSIDE of the client's request (here: an attribute
    # value that happens to hold a well-formed Delete request) - no handler may ever be given them
    inner = "300f0201034a0a636e3d61646d696e2c6f"   # Delete(id 3, "cn=admin,o")
    model_add = run_driver("req s1 add 2 %s 1 %s 1 %s 0\n" % ("636e3d782c6f3d79", "64657363", inner))
    parts = model_add.strip().split(" | ")
    if len(parts) == 3:
        wire = parts[0].split(" ")[2]
        cut = wire.index(inner)
        firstw = "300c02010163070a01000a010000"  # placeholder replaced below
        m1 = run_driver("req s0 del 1 636e3d66697273742c6f3d79 0\n").strip().split(" | ")
        case = "pipesplit sp 250 %s %s %s" % (m1[0].split(" ")[2], wire[:cut], wire[cut:])
        r = parse_results(run_vh(case + "\n")).get(("pipesplit", "sp"), "HARNESS no result")
        res.evaluations += 1
        res.nontrivial.add(case)
        sent = {m1[1][3:], parts[1][3:]}
        if r.startswith("HARNESS"):
            res.mismatch(case, r, "-")
        else:
            gotl = r.split(" ", 1)[1].split(" ; ") if " " in r else []
            alien = [g_ for g_ in gotl if g_ and g_ not in sent]
            if alien:
                res.violation("split-frame-desync", case, r, " ; ".join(sorted(sent)),
                              "a handler was given a request the client never sent: %s (the inside of a frame that arrived in two pieces around a read timeout was decoded as a frame)" % alien[0])
            else:
                res.sample(case[:120] + "  =>  " + r[:120])
    # requests that must never be delivered: unsupported protocolOps, bind versions != 3
    neg = gen_cases("c01neg", seed, 0, tier)
    model, impl = differential(neg, wd("C01"), "neg")
    for k, line in case_map(neg).items():
        res.evaluations += 1
        i = impl.get(k); m = model.get(k)
        if i is None or m is None:
            res.mismatch(line, str(i), str(m)); continue
        res.nontrivial.add(hashlib.md5(line.encode()).hexdigest())
        if i.startswith("OK"):
            res.violation("delivered-unsupported", line, i, m, "unsupported operation or non-v3 bind delivered to a handler")
        elif i != m and not (i == "PANIC"):
            res.mismatch(line, i, m)
    dist["unsupported-or-bad-version"] = len(case_map(neg))
    res.extra["distribution"] = dist
    res.rule = ("seeded typed requests of the 7 operations (size-biased strings incl. 127/128/255/256-byte, boundary integers, "
                "filters to depth 3 over all 10 constructors, 0..6 controls of all kinds), encoded by the model's RFC 4511 client "
                "encoder, decoded by the real (*conn).readRequest; plus every unsupported protocolOp tag 0..30 (prim+cons) and bind "
                "versions != 3; non-trivial = request with at least one non-empty field beyond the id; distinct = distinct case text")


@check("C02")
def check_c02(tier, seed, res):
    canon = gen_cases("c02canon", seed, 0, tier)
    mout = run_driver(canon)
    wires = []
    for l in mout.splitlines():
        parts = l.split(" | ")
        head = parts[0].split(" ")
        if len(parts) == 3 and len(head) == 3:
            wires.append("w %s %s" % (head[1], head[2]))
    rc, muts, err = run_lines([VH, "mutate", str(seed), tier], "\n".join(wires) + "\n")
    if rc != 0:
        raise RuntimeError("vh mutate failed: " + err[-1000:])
    corpus = corpus_cases("C02")
    allcases = corpus + muts + gen_cases("c02deep", seed, 0, tier).replace("decode ", "decode deep")
    model, impl = differential(allcases, wd("C02"), "main")
    oracle_skipped = 0
    classes = {"OK": 0, "ERR": 0, "PANIC": 0}
    for k, line in case_map(allcases).items():
        res.evaluations += 1
        i = impl.get(k); m = model.get(k)
        if i is None or m is None or i.startswith("HARNESS") or m.startswith("DRIVER"):
            res.mismatch(line, str(i), str(m)); continue
        cls = i.split(" ")[0]
        classes[cls] = classes.get(cls, 0) + 1
        if cls != "ERR" or len(line) > 30:
            res.nontrivial.add(line.split(" ", 2)[2])
        if i == "PANIC":
            res.violation("panic:decode", line, i, m, "request decoding panicked")
            continue
        if i != m:
            hexs = line.split(" ")[2]
            bs = set(hexs[j:j + 2] for j in range(0, len(hexs), 2))
            if bs & {"09", "18"}:
                oracle_skipped += 1
            else:
                res.mismatch(line, i, m)
        elif res.evaluations % 3001 == 1:
            res.sample(line[:200] + "  =>  " + i[:120])
    if tier == "thorough":
        rows = []
        for k, line in list(case_map(allcases).items())[::97]:
            m = model.get(k)
            hexs = line.split(" ")[2]
            if m is None or m.startswith("DRIVER") or "0c" in [hexs[j:j + 2] for j in range(0, len(hexs), 2)]:
                continue        # tag 12 contents are judged by the driver's UTF-8 oracle
            rows.append((coq_bytes(hexs), {"OK": "0", "ERR": "1", "PANIC": "2"}.get(m.split(" ")[0], "9")))
            if len(rows) >= 1200:
                break
        vm_crosscheck(res, "C02_decode_class",
                      "From Coq Require Import NArith List Bool.\nFrom G Require Import Base Ber Ldap.\nImport ListNotations.\nOpen Scope N_scope.\n"
                      "Definition agree (i : list N) (e : N) : bool := match server_receive (fun _ _ => false) true true i, e with Ok _, 0 => true | Err, 1 => true | Panic, 2 => true | _, _ => false end.",
                      "agree", rows)
    # frame after frame on one connection
    streams = gen_cases("c02stream", seed, 200 if tier == "quick" else 5000, tier)
    streams += gen_cases("c02short", seed, 0, tier).replace("stream ", "stream s")
    model, impl = differential(streams, wd("C02"), "stream")
    for k, line in case_map(streams).items():
        res.evaluations += 1
        i = impl.get(k); m = model.get(k)
        if i is None or m is None:
            res.mismatch(line, str(i), str(m)); continue
        if "PANIC" in i:
            res.violation("panic:decode", line, i, m, "request decoding panicked inside a stream")
        elif i != m:
            hexs = line.split(" ")[2]
            if {"09", "18"} & set(hexs[j:j + 2] for j in range(0, len(hexs), 2)):
                oracle_skipped += 1     # Real / GeneralizedTime contents: ber's acceptance is an oracle of the model
            else:
                res.mismatch(line, i, m)
    # K1: nesting depth.  The model's reader has no stack; Go's has 1 GB.  Depths the
    # generators reach (<= 10^4) are in the differential above; the known-finding
    # witness (3*10^6 nested indefinite-length headers, 6 MB) is replayed in a
    # process of its own, with the address space capped so a regression cannot
    # take the machine down.
    for depth, expect_ok in ((10000, True), (3000000, False)):
        try:
            p = subprocess.run("ulimit -v 8000000; exec %s k1 %d" % (VH, depth), shell=True, stdout=subprocess.PIPE, stderr=subprocess.PIPE, text=True, errors="replace", timeout=300, env=GOENV)
            out, err, rc = p.stdout, p.stderr, p.returncode
        except subprocess.TimeoutExpired:
            out, err, rc = "", "timeout", -1
        res.evaluations += 1
        case = "k1 depth-%d %d" % (depth, depth)
        if rc == 0 and "returned" in out:
            res.nontrivial.add(case)
            res.sample(case + "  =>  " + out.strip())
        elif "stack overflow" in err or "goroutine stack exceeds" in err:
            res.nontrivial.add(case)
            res.violation("frame=nesting-depth>2.5e6" if not expect_ok else "frame=nesting-depth<=1e4", case,
                          "process died: " + " / ".join(l for l in err.splitlines()[:3]), "ordinary error return",
                          "a frame of %d nested constructed headers (30 80 ...) overflows the goroutine stack in go-asn1-ber's recursive reader: fatal error, the whole process dies, no recover possible" % depth)
        else:
            res.mismatch(case, "rc=%d %s %s" % (rc, out[-200:], err[-300:]), "-")
    # K4: declared length.  The model's reader compares the declared length with what follows and
    # returns an error; go-asn1-ber allocates the declared length first.  Replayed in a process of
    # its own with the address space capped at 2 GB (what a container's memory limit does), next to a
    # control frame of the same shape under the same cap.
    for mode, expect_ok in (("benign", True), ("huge", False)):
        try:
            p = subprocess.run("ulimit -v 2000000; exec %s k4 %s" % (VH, mode), shell=True, stdout=subprocess.PIPE, stderr=subprocess.PIPE, text=True, errors="replace", timeout=300, env=GOENV)
            out, err, rc = p.stdout, p.stderr, p.returncode
        except subprocess.TimeoutExpired:
            out, err, rc = "", "timeout", -1
        res.evaluations += 1
        case = "k4 %s %s" % (mode, mode)
        if rc == 0 and "returned" in out:
            res.nontrivial.add(case)
            res.sample(case + "  =>  " + out.strip())
        elif "out of memory" in err or "cannot allocate" in err:
            res.nontrivial.add(case)
            res.violation("frame=declared-length-2GiB" if not expect_ok else "frame=benign-under-memory-cap", case,
                          "process died: " + " / ".join(l for l in err.splitlines()[:3]), "ordinary error return",
                          "the 14-byte frame 30 09 86 86 00 00 7f ff 00 00 7f ff 86 86 (an element declaring 2^31-65536 bytes) makes go-asn1-ber allocate 2 GiB before reading: "
                          "with the address space capped at 2 GB the runtime aborts the whole process (fatal error: out of memory), no recover possible; without a cap each such frame costs 2 GiB of resident memory")
        else:
            res.mismatch(case, "rc=%d %s %s" % (rc, out[-200:], err[-300:]), "-")
    res.extra["outcome_classes"] = classes
    res.extra["oracle_dependent_frames_compared_on_panic_bit_only"] = oracle_skipped
    res.extra["canonical_requests"] = len(wires)
    res.exhaustive = True
    res.rule = ("every single-point mutation of %d canonical requests (each operation x each control kind): node replaced by 15 node kinds, "
                "10 length-octet corruptions, class/tag/constructed-bit changes, child deleted/duplicated/swapped, child lists truncated/extended, "
                "content emptied/over-long; double-point mutations exhaustive inside the controls subtree (thorough) or sampled; raw random "
                "frames; all through the real readRequest under recover; single-point set is enumerated completely (exhaustive=true refers to it); "
                "non-trivial = frame that is accepted or longer than a header; distinct = distinct frame bytes") % len(wires)


def corpus_cases(pid):
    out = []
    d = os.path.join(ROOT, "corpus")
    for fn in sorted(os.listdir(d)) if os.path.isdir(d) else []:
        if fn.startswith(pid + "-") and fn.endswith(".json"):
            try:
                c = json.load(open(os.path.join(d, fn))).get("case")
            except Exception:
                c = None
            if c:
                parts = c.split(" ", 2)
                out.append("%s corpus-%s %s" % (parts[0], fn[:-5].replace(" ", "_"), parts[2] if len(parts) > 2 else ""))
    return "\n".join(out) + ("\n" if out else "")


@check("C14")
def check_c14(tier, seed, res):
    n = 3000 if tier == "quick" else 200000
    cases = gen_cases("c14", seed, n, tier)
    model, impl = differential(cases, wd("C14"), "main")
    dist = {}
    for k, line in case_map(cases).items():
        res.evaluations += 1
        i = impl.get(k); m = model.get(k)
        if i is None or m is None or i.startswith("HARNESS") or m.startswith("DRIVER"):
            res.mismatch(line, str(i), str(m)); continue
        t = line.split(" ")
        res.nontrivial.add(line.split(" ", 2)[2])
        if t[0] == "ctl":
            dist[t[2]] = dist.get(t[2], 0) + 1
            # model: "<enc> | OK <norm fields>"; impl: "<enc> | OK <decoded by real decodeControl>"
            mp = m.split(" | "); ip = i.split(" | ")
            if i == "PANIC" or len(ip) != 2:
                res.violation("ctl:" + t[2], line, i, m, "control constructor/encode/decode failed"); continue
            if ip[1] != mp[1]:
                res.violation("ctl-roundtrip:" + t[2], line, i, m, "control fields changed by Encode -> decodeControl"); continue
            if ip[0] != mp[0]:
                res.mismatch(line, i, m)
            elif res.evaluations % 301 == 1:
                res.sample(line + "  =>  " + i[:200])
        else:  # behera g e c
            g, e, c = t[2], t[3], t[4]
            dist["behera-ctor"] = dist.get("behera-ctor", 0) + 1
            if i == "PANIC":
                res.violation("behera-ctor-panic", line, i, m, "constructor panicked"); continue
            if i.startswith("OK"):
                f = i.split(" ")
                fields = [int(f[2]), int(f[3]), int(f[4])]
                nset = sum(1 for x in fields if x != -1)
                if c != "~" and int(c) > 8:
                    key = "behera-error-code-wraps" if int(c) >= 2 ** 63 else "behera-error>8-accepted"
                    res.violation(key, line, i, m, "error code above 8 accepted"); continue
                if nset > 1:
                    res.violation("behera-more-than-one", line, i, m, "more than one of grace/expire/error set"); continue
            if i != m:
                res.mismatch(line, i, m)
    # response direction: controls handed to a Bind / SearchDone response, some changed in place
    # afterwards (paging cookie, criticality, value), written once or twice
    pcases = gen_cases("c14resp", seed, 300 if tier == "quick" else 20000, tier)
    pmodel, pimpl = differential(pcases, wd("C14"), "resp")
    resp_compare(res, pcases, pmodel, pimpl, dist, "ctl-response:")
    # request direction: two or more controls on one message, every order
    rcases = gen_cases("c14req", seed, 300 if tier == "quick" else 20000, tier)
    table = stage_requests(rcases, wd("C14"), "req")
    for i, line in {l.split(" ", 2)[1]: l for l in rcases.splitlines() if l}.items():
        res.evaluations += 1
        e = table.get(i, {})
        kind = line.split(" ")[2]
        dist["req-" + kind] = dist.get("req-" + kind, 0) + 1
        res.nontrivial.add(line.split(" ", 2)[2])
        if "impl" not in e:
            res.mismatch(line, str(e.get("impl")), str(e.get("error", e.get("model")))); continue
        if e["impl"] != e["spec"]:
            res.violation("ctl-list:" + kind, line, e["impl"], e["spec"], "the controls the handler sees differ from the controls the client put on the message")
        elif e["impl"] != e["model"]:
            res.mismatch(line, e["impl"], e["model"])
    res.extra["distribution"] = dist
    res.rule = ("seeded typed controls of all 9 kinds (page sizes 0..2^32-1 boundaries, cookies of any length, int64 boundary expiry/grace, "
                "errors 0..8, arbitrary OIDs/values/criticality) through the real constructors, Encode and decodeControl, compared byte-exact "
                "with the model's encoding and with the typed fields; Behera constructor over the product of 12 boundary values per option; "
                "requests of the five control-carrying operations with 2..6 controls in every order (a control without criticality or value "
                "behind one that has them, and the reverse) through the real request decoder, compared with what the client encoded; "
                "distinct = distinct case text, all non-trivial")


# --------------------------------------------------------------------------
# C04 responses, C03 mux: independent spec evaluators over the case text

class TokS:
    def __init__(self, toks):
        self.t = toks; self.i = 0
    def next(self):
        x = self.t[self.i]; self.i += 1; return x
    def int(self):
        return int(self.next())
    def lst(self, f):
        return [f() for _ in range(self.int())]
    def hexlist(self):
        return self.lst(self.next)
    def control(self):
        k = self.next()
        if k == "paging": return (k, self.next(), self.next())
        if k == "behera": return (k, self.next(), self.next(), self.next())
        if k == "vchuwarn": return (k, self.next())
        if k == "managedsait": return (k, self.next())
        if k == "str": return (k, self.next(), self.next(), self.next())
        return (k,)
    def controls(self):
        return self.lst(self.control)
    def gomap(self):
        return self.lst(lambda: (self.next(), self.hexlist()))

OIDS = {"paging": "1.2.840.113556.1.4.319", "behera": "1.3.6.1.4.1.42.2.27.8.5.1", "vchuchange": "2.16.840.1.113730.3.4.4",
        "vchuwarn": "2.16.840.1.113730.3.4.5", "managedsait": "2.16.840.1.113730.3.4.2", "msnotif": "1.2.840.113556.1.4.528",
        "msshowdel": "1.2.840.113556.1.4.417", "mslinkttl": "1.2.840.113556.1.4.2309"}


def hx(s):
    return s.encode().hex() if s else "-"


def int16(z):
    m = z % 65536
    return m - 65536 if m >= 32768 else m


def c04_expect(line):
    """What the property says must arrive, computed from the case alone.
    Returns a dict of the fields checked against the implementation's parse."""
    t = TokS(line.split(" ")[2:])
    msgid = t.int(); kind = t.next(); dn = t.next()
    o = dict(diag=hx("Unused"), matched=hx("Unused"), code=None, app=None, attrs=[])
    for _ in range(t.int()):
        k = t.next()
        if k == "diag": o["diag"] = t.next()
        elif k == "matched": o["matched"] = t.next()
        elif k == "code": o["code"] = t.int()
        elif k == "app": o["app"] = t.int()
        elif k == "attrs": o["attrs"] = t.gomap()
    if kind in ("general", "modify"):
        code = int16(o["code"] if o["code"] is not None else 53)
        diag, matched = o["diag"], o["matched"]
    else:
        code = int16(o["code"] if o["code"] is not None else 0)
        diag, matched = "-", "-"
    tag = dict(general=o["app"] if o["app"] is not None else 24, bind=1, ext=24, done=5, entry=4, modify=7)[kind]
    ctrls = []
    added = []

    def snapshot():
        if kind == "entry":
            attrs = sorted(o["attrs"], key=lambda a: a[0]) + list(added)
            parts = ["%s %s" % (n, " ".join([str(len(vs))] + vs)) for n, vs in attrs]
            return "entry %d %s %s" % (msgid, dn, " ".join([str(len(parts))] + parts)), None
        oids = []
        for c in ctrls:
            if c[0] == "str":
                oids.append((c[1], c[2]))
            elif c[0] == "managedsait":
                oids.append((hx(OIDS[c[0]]), c[1]))
            else:
                oids.append((hx(OIDS[c[0]]), "0"))
        return "result %d %d %d %s %s" % (msgid, tag, code, matched, diag), oids

    writes = []
    for _ in range(t.int()):
        k = t.next()
        if k == "code": code = int16(t.int())
        elif k == "diag": diag = t.next()
        elif k == "matched": matched = t.next()
        elif k in ("ctrls", "mutctrls"): ctrls = t.controls()
        elif k == "addattr": added.append((t.next(), t.hexlist()))
        elif k == "name": t.next()
        elif k == "write": writes.append(snapshot())     # written now, modified further afterwards
    writes.append(snapshot())
    return writes


@check("C04")
def check_c04(tier, seed, res):
    n = 3000 if tier == "quick" else 150000
    cases = gen_cases("c04", seed, n, tier)
    model, impl = differential(cases, wd("C04"), "main")
    dist = {}
    resp_compare(res, cases, model, impl, dist, "resp-fields:")
    # on the wire, from a real server whose logger is at Debug / Trace level: what arrives is the
    # response the handler wrote (c05run parses every frame: message id, kind, payload)
    env = dict(GOENV, VERIF_CERTDIR=os.path.join(WORK, "certs"))
    os.makedirs(env["VERIF_CERTDIR"], exist_ok=True)
    for lvl in ("debug", "trace"):
        case = "c05run %s %s 0 3 F2x100 E2x300 X3x4097" % (lvl, lvl)
        p = subprocess.run([VH, "run"], input=case + "\n", stdout=subprocess.PIPE, stderr=subprocess.PIPE, text=True, errors="replace", env=env, timeout=300)
        r = parse_results(p.stdout).get(("c05run", lvl), "HARNESS no result")
        res.evaluations += 1
        res.nontrivial.add(case)
        if r.startswith("SPECFAIL"):
            res.violation("resp-on-the-wire:loglevel-" + lvl, case, r, "the frames the handlers wrote", "with the server's logger at %s level a response does not arrive as the LDAPMessage the handler wrote: %s" % (lvl, r[9:]))
        elif not r.startswith("OK"):
            res.mismatch(case, r, "-")
    res.extra["distribution"] = dist
    res.rule = C04_RULE


def resp_compare(res, cases, model, impl, dist, keyprefix):
    for k, line in case_map(cases).items():
        res.evaluations += 1
        i = impl.get(k); m = model.get(k)
        if i is None or m is None or i.startswith("HARNESS") or m.startswith("DRIVER"):
            res.mismatch(line, str(i), str(m)); continue
        kind = line.split(" ")[3]
        dist[kind] = dist.get(kind, 0) + 1
        res.nontrivial.add(line.split(" ", 2)[2])
        if " | " not in i:
            res.violation("resp:" + i.split(" ")[0].lower() + ":" + kind, line, i, m,
                          "the constructor wrote into the caller's option slice (a later constructor call with the longer list gets a different option)" if i.startswith("OPTIONS-SLICE") else "response could not be built or written"); continue
        wants = c04_expect(line)
        segs = i.split(" || ")
        bad = len(segs) != len(wants)
        iparsed = ""
        for seg, (want, oids) in zip(segs, wants):
            if bad:
                break
            ibytes, iparsed = seg.split(" | ")
            ok = iparsed.startswith(want + " ") or iparsed == want
            if ok and oids is not None:
                tail = iparsed[len(want):].strip().split(" ")
                got = [(tail[1 + 3 * j], tail[2 + 3 * j]) for j in range(int(tail[0]))] if tail and tail[0] else []
                ok = got == oids
            bad = not ok
        if bad:
            res.violation(keyprefix + kind, line, i, " || ".join(w for w, _ in wants), "the LDAPMessage on the wire does not carry the request's id / the constructor's tag / the values (controls included) set at the time of the Write"); continue
        if i != m:
            res.mismatch(line, i, m)
        elif res.evaluations % 307 == 1:
            res.sample(line[:200] + "  =>  " + iparsed[:160])


C04_RULE = ("seeded (constructor, options, setters) programs for the six New*Response constructors: ids 0..2^31-1 with boundaries, codes 0..32767, "
                "application codes 0..30, size-biased strings (empty, binary, 127/128, 255/256, 300+), 0..3 map attributes x 0..2 values plus AddAttribute, "
                "controls of every kind on Bind/SearchDone, also changed in place (exported fields, SetCookie) between SetControls and the Write; "
                "real ResponseWriter.Write output parsed by the harness's strict parser, compared (a) with the "
                "expectation computed from the case text by check.py, (b) byte-exact with the model; the request the response is made from varies; "
                "distinct = distinct program text, all non-trivial")


def ascii_fold_eq(a, b):
    return bytes.fromhex(a if a != "-" else "").lower() == bytes.fromhex(b if b != "-" else "").lower()


def c03_expect(line):
    t = TokS(line.split(" ")[2:])
    regs = []
    for _ in range(t.int()):
        k = t.next(); h = t.next()
        r = dict(kind=k, h=h)
        if k == "search":
            r["base"] = t.next(); r["filter"] = t.next(); r["scope"] = t.int()
        elif k == "ext":
            r["name"] = t.next()
        regs.append(r)
    kind = t.next(); msgid = t.int()
    req = dict(kind=kind, id=msgid)
    if kind == "search":
        req["base"] = t.next(); req["scope"] = t.int()
        t.int(); t.int(); t.int(); t.next()
        fk = t.next()
        if fk == "eq":
            a = bytes.fromhex(t.next()); v = bytes.fromhex(t.next())
            req["filter"] = (b"(" + a + b"=" + v + b")").hex()
        elif fk == "present":
            a = bytes.fromhex(t.next())
            req["filter"] = (b"(" + a + b"=*)").hex()
        else:
            return None
    elif kind == "ext":
        req["name"] = t.next()
    default = None
    for r in regs:
        if r["h"] == "nil":
            continue
        if r["kind"] == "default":
            default = r["h"]
    for r in regs:
        if r["h"] == "nil" or r["kind"] in ("default", "unbind"):
            continue
        if r["kind"] != kind:
            continue
        if kind == "search":
            if r["base"] != "-" and not ascii_fold_eq(req["base"], r["base"]): continue
            if r["filter"] != "-" and not ascii_fold_eq(req["filter"], r["filter"]): continue
            if r["scope"] != 0 and r["scope"] != req["scope"]: continue
        if kind == "ext" and r["name"] != req["name"]:
            continue
        return "RUN " + r["h"]
    if default is not None:
        return "RUN " + default
    tag = dict(bind=1, search=5, modify=7, add=9, **{"del": 11}, ext=24)[kind]
    return "REFUSE result %d %d 53 " % (msgid, tag)


@check("C03")
def check_c03(tier, seed, res):
    n = 2000 if tier == "quick" else 200000
    cases = gen_cases("c03", seed, n, tier)
    model, impl = differential(cases, wd("C03"), "main")
    dist = {"RUN": 0, "REFUSE": 0}
    for k, line in case_map(cases).items():
        res.evaluations += 1
        i = impl.get(k); m = model.get(k)
        if i is None or m is None or i.startswith("HARNESS") or m.startswith("DRIVER"):
            res.mismatch(line, str(i), str(m)); continue
        res.nontrivial.add(line.split(" ", 2)[2])
        want = c03_expect(line)
        head = i.split(" ")[0]
        dist[head] = dist.get(head, 0) + 1
        reqkind = None
        if want is not None:
            ok = (i == want) if want.startswith("RUN") else i.startswith(want)
            if not ok:
                key = "refusal-tag" if (want.startswith("REFUSE") and i.startswith("REFUSE")) else "dispatch"
                res.violation(key, line, i, want, "not exactly the first matching route / default route / refusal with the operation's response type"); continue
        if i != m:
            res.mismatch(line, i, m)
        elif res.evaluations % 9001 == 1:
            res.sample(line[:220] + "  =>  " + i[:100])
    # histories: registrations and served requests in any order on one Mux
    seqs = gen_cases("c03seq", seed, 300 if tier == "quick" else 20000, tier)
    model, impl = differential(seqs, wd("C03"), "seq")
    for k, line in case_map(seqs).items():
        res.evaluations += 1
        i = impl.get(k); m = model.get(k)
        if i is None or m is None or i.startswith("HARNESS") or m.startswith("DRIVER"):
            res.mismatch(line, str(i), str(m)); continue
        res.nontrivial.add(line.split(" ", 2)[2])
        toks = line.split(" ")[3:]
        events = []
        for tk in toks:
            if tk in ("reg", "req"):
                events.append([tk])
            else:
                events[-1].append(tk)
        regs = []; wants = []
        for ev in events:
            if ev[0] == "reg":
                regs.append(ev[1:])
            else:
                wants.append(c03_expect(" ".join(["serve", "x", str(len(regs))] + [x for r in regs for x in r] + ev[1:])))
        got = i.split(" ; ") if i else []
        bad = len(got) != len(wants)
        for w, g_ in zip(wants, got):
            if w is not None and not ((g_ == w) if w.startswith("RUN") else g_.startswith(w)):
                bad = True
        dist["history"] = dist.get("history", 0) + 1
        if bad:
            res.violation("dispatch-history", line, i, " ; ".join(str(w) for w in wants),
                          "a request served after a registration call is not answered by the routes registered before it (first match / default / refusal)")
        elif i != m:
            res.mismatch(line, i, m)
    # end to end: 300 requests pipelined on one connection with every handler waiting - each is
    # handed to exactly one handler (none is answered by gldap in the handlers' place)
    life_check("C03", ["pipe300"], 0, tier, seed, res)
    # a connection accepted by a TLS listener: extended requests (StartTLS among them) are requests
    # like any other for the Mux - own route or default route, one handler each
    envt = dict(GOENV, VERIF_CERTDIR=os.path.join(WORK, "certs"))
    os.makedirs(envt["VERIF_CERTDIR"], exist_ok=True)
    subprocess.run([VH, "gencerts"], env=envt, timeout=60)
    for routes in ("route", "default"):
        case = "c03tls %s %s" % (routes, routes)
        p = subprocess.run([VH, "run"], input=case + "\n", stdout=subprocess.PIPE, stderr=subprocess.PIPE, text=True, errors="replace", env=envt, timeout=120)
        r = parse_results(p.stdout).get(("c03tls", routes), "HARNESS no result")
        res.evaluations += 1
        res.nontrivial.add(case)
        if r.startswith("SPECFAIL"):
            res.violation("dispatch-tls-listener", case, r, "one handler per request", r[9:])
        elif not r.startswith("OK"):
            res.mismatch(case, r, "-")
    res.extra["distribution"] = dist
    res.exhaustive = True
    res.rule = ("route tables over the 43-route alphabet (bind, modify, add, delete, 3 extended names, search with base in {none,dc=a,DC=A,dc=b} x filter in "
                "{none,(cn=x),(CN=X)} x scope in {0,1,2}) x default in {none, set, set twice} x 53 requests: exhaustive for tables of length <= 1, for length 2 "
                "exhaustive over routes of the request's own kind (all kinds in the thorough tier), random tables up to length 8 (32 thorough) with nil handlers "
                "and unbind routes; histories on ONE Mux that serve a request, register a route or default that changes its answer and serve it again "
                "(systematic over request x route of its kind, and random histories of 4..13 events); "
                "real Mux registration methods and (*Mux).serve; expectation computed from the case text by check.py; distinct = distinct case text; "
                "end to end: 300 requests pipelined on one connection of a real server, all handlers waiting: each reaches a handler, gldap answers none itself")


# --------------------------------------------------------------------------
# C19 / C20: test directory — reference evaluators over the case text

def parse_dir_case(line):
    t = TokS(line.split(" ")[2:])
    udn = t.next(); gdn = t.next(); anon = t.next() == "1"
    def entry():
        dn = t.next()
        return (dn, t.lst(lambda: (t.next(), t.hexlist())))
    users = t.lst(entry); groups = t.lst(entry)
    ops = []
    for _ in range(t.int()):
        k = t.next()
        if k == "bind": ops.append((k, t.next(), t.next()))
        elif k == "add": ops.append((k, t.next(), t.lst(lambda: (t.next(), t.hexlist()))))
        elif k == "modify": ops.append((k, t.next(), t.lst(lambda: (t.int(), t.next(), t.hexlist()))))
        elif k == "delete": ops.append((k, t.next()))
        elif k == "search": ops.append((k, t.next(), t.next()))
        elif k in ("setusers", "setgroups"): ops.append((k, t.lst(entry)))
        elif k == "setanon": ops.append((k, t.next() == "1"))
        elif k == "users": ops.append((k,))
    return udn, gdn, anon, users, groups, ops


def parse_dir_results(res):
    t = TokS(res.split(" "))
    out = []
    for _ in range(t.int()):
        assert t.next() == "R"
        code = t.int()
        es = t.lst(lambda: (t.next(), t.lst(lambda: (t.next(), t.hexlist()))))
        out.append((code, es))
    return out


def ber_wrap_hex(vhex):
    b = bytes.fromhex(vhex) if vhex != "-" else b""
    n = len(b)
    if n <= 127:
        hdr = bytes([4, n])
    else:
        ds = n.to_bytes((n.bit_length() + 7) // 8, "big")
        hdr = bytes([4, 0x80 | len(ds)]) + ds
    return (hdr + b).hex()


def value_ok(want, got):
    return got == want or got == ber_wrap_hex(want)


def c19_violations(line, results):
    udn, gdn, anon, users, groups, ops = parse_dir_case(line)
    bad = []
    for j, (op, r) in enumerate(zip(ops, results)):
        if op[0] == "setanon":
            anon = op[1]
        elif op[0] == "setusers":
            users = op[1]
        elif op[0] in ("add", "delete", "modify"):
            users = None        # whatever the operation did: the next Users() probe says what the entries are
        elif op[0] == "users":
            users = r[1]
        elif op[0] == "bind":
            if users is None:
                continue
            dn, pw = op[1], op[2]
            ok = (pw == "-" and anon)
            for (udn_, attrs) in users:
                if udn_ == dn:
                    pv = None
                    for (n, vs) in attrs:
                        if n == "password".encode().hex():
                            pv = vs
                            break
                    if pv and pv[0] == pw:
                        ok = True
            want = 0 if ok else 49
            if r[0] != want:
                bad.append("op %d bind dn=%s pw=%s: got %d want %d" % (j, dn, pw, r[0], want))
    return bad


def c20_violations(line, results):
    """Reference store of the property: DN -> attributes, users then groups."""
    udn, gdn, anon, users0, groups0, ops = parse_dir_case(line)
    users = [(dn, [[n, list(vs)] for n, vs in attrs]) for dn, attrs in users0]
    groups = [dn for dn, _ in groups0]
    bad = []
    def find(dn):
        for i, (d, _) in enumerate(users):
            if d == dn:
                return i
        return -1
    for j, (op, r) in enumerate(zip(ops, results)):
        k = op[0]
        if k == "setusers":
            users = [(dn, [[n, list(vs)] for n, vs in attrs]) for dn, attrs in op[1]]
        elif k == "setgroups":
            groups = [dn for dn, _ in op[1]]
        elif k == "add":
            i = find(op[1])
            if i >= 0:
                if r[0] != 68:
                    bad.append("op %d add of existing DN: got %d want 68" % (j, r[0]))
            else:
                if r[0] != 0:
                    bad.append("op %d add: got %d want 0" % (j, r[0]))
                m = {}
                order = []
                for n, vs in op[2]:
                    if n not in m:
                        order.append(n)
                    m[n] = vs
                users.append((op[1], [[n, list(m[n])] for n in sorted(order, key=lambda h: bytes.fromhex(h))]))
        elif k == "delete":
            i = find(op[1])
            if i >= 0:
                users.pop(i)
                want = 0
            elif op[1] in groups:
                groups.remove(op[1])
                want = 0
            else:
                want = 32
            if r[0] != want:
                bad.append("op %d delete: got %d want %d" % (j, r[0], want))
        elif k == "modify":
            i = find(op[1])
            if i < 0:
                if r[0] != 32:
                    bad.append("op %d modify of missing entry: got %d want 32" % (j, r[0]))
                continue
            if r[0] != 0:
                bad.append("op %d modify: got %d want 0" % (j, r[0]))
            attrs = users[i][1]
            for (cop, ty, vals) in op[2]:
                idx = -1
                for q, a in enumerate(attrs):
                    if a[0] == ty:
                        idx = q
                if cop == 0:
                    if idx >= 0:
                        attrs[idx][1].extend(vals)
                    else:
                        attrs.append([ty, list(vals)])
                elif cop == 1:
                    if idx >= 0:
                        attrs.pop(idx)
                elif cop == 2:
                    if idx >= 0:
                        attrs[idx] = [ty, list(vals)]
        elif k == "search":
            base = op[1]
            i = find(base)
            if i >= 0 and op[2] == "(objectClass=*)".encode().hex():
                want = users[i]
                if r[0] != 0 or len(r[1]) != 1:
                    bad.append("op %d search of existing entry %s: code %d, %d entries" % (j, base, r[0], len(r[1])))
                    continue
                got = r[1][0]
                ok = got[0] == want[0] and len(got[1]) == len(want[1])
                if ok:
                    for (gn, gv), (wn, wv) in zip(got[1], want[1]):
                        if gn != wn or len(gv) != len(wv) or not all(value_ok(w, g) for w, g in zip(wv, gv)):
                            ok = False
                if not ok:
                    bad.append("op %d search %s: entry differs from the reference store: got %r want %r" % (j, base, got, want))
            elif i < 0 and base.endswith(udn) and base != udn and base not in groups:
                if r[0] != 32 or r[1]:
                    bad.append("op %d search of missing entry %s: code %d, %d entries" % (j, base, r[0], len(r[1])))
            elif bytes.fromhex(base).lower() == bytes.fromhex(udn).lower():
                # users base with (cn=X) or (|(cn=X)(cn=Y)): the user entries with those names, in store order
                import re as _re
                names = _re.findall(rb"\(cn=([A-Za-z0-9]+)\)", bytes.fromhex(op[2]))
                if names:
                    want = [u for u in users if any(bytes.fromhex(u[0]).startswith(b"cn=" + nm + b",") for nm in names)]
                    if not want:
                        if r[0] != 32 or r[1]:
                            bad.append("op %d search users base: nothing stored matches, got code %d, %d entries" % (j, r[0], len(r[1])))
                        continue
                    ok = r[0] == 0 and len(r[1]) == len(want)
                    if ok:
                        for got, w in zip(r[1], want):
                            if got[0] != w[0] or len(got[1]) != len(w[1]):
                                ok = False; break
                            for (gn, gv), (wn, wv) in zip(got[1], w[1]):
                                if gn != wn or len(gv) != len(wv) or not all(value_ok(x, y) for x, y in zip(wv, gv)):
                                    ok = False
                    if not ok:
                        bad.append("op %d search users base %s: result differs from the reference store: got %r want %r" % (j, op[2], r, want))
    return bad


def metachar_dn(line):
    try:
        _, _, _, _, _, ops = parse_dir_case(line)
    except Exception:
        return False
    for o in ops:
        if o[0] == "add":
            dn = bytes.fromhex(o[1]) if o[1] != "-" else b""
            if any(c in dn for c in b"()*|") or dn != dn.strip():
                return True
    return False


def dir_check(pid, gen, n, tier, seed, res, spec, tag="main"):
    cases = gen_cases(gen, seed, n, tier)
    if pid == "C20" and tag == "main":
        cases += gen_cases("c20k3", seed, 0, tier).replace("dir ", "dir k")
    if tag != "main":
        cases = cases.replace("dir ", "dir " + tag[0])
    model, impl = differential(cases, wd(pid), tag)
    opcount = res.extra.get("operations", {})
    for k, line in case_map(cases).items():
        res.evaluations += 1
        i = impl.get(k); m = model.get(k)
        if i is None or m is None or i.startswith("HARNESS") or m.startswith("DRIVER"):
            res.mismatch(line, str(i), str(m)); continue
        res.nontrivial.add(line.split(" ", 2)[2])
        res.traces += 1
        try:
            results = parse_dir_results(i)
            _, _, _, _, _, ops = parse_dir_case(line)
            for o in ops:
                opcount[o[0]] = opcount.get(o[0], 0) + 1
            bad = spec(line, results)
        except Exception as e:  # noqa
            res.mismatch(line, i, "unparseable result: %r" % (e,)); continue
        if bad:
            key = "directory:" + bad[0].split(" ")[2].rstrip(":")
            # K3 is the NOT-FOUND symptom on an entry whose DN holds a filter metacharacter; anything
            # else that goes wrong with such DNs (two entries found, "more than one match", a
            # deleted entry still there) is a different violation
            if metachar_dn(line) and all(re.search(r"(search of existing entry \S+ code 32, 0 entries|(modify|delete): got 32 want 0)", b.replace(": code", " code")) for b in bad[:3]):
                key = "dn=filter-metacharacter"
            res.violation(key, line, i, m, "; ".join(bad[:3])); continue
        if i != m:
            res.mismatch(line, i, m)
        elif res.evaluations % 17 == 1:
            res.sample(line[:260] + "  =>  " + i[:160])
    res.extra["operations"] = opcount


@check("C19")
def check_c19(tier, seed, res):
    dir_check("C19", "c19", 40 if tier == "quick" else 1500, tier, seed, res, c19_violations)
    dir_check("C19", "c19hist", 40 if tier == "quick" else 1500, tier, seed, res, c19_violations, tag="hist")
    res.rule = ("user sets of 0..4 entries over a 5-DN x 4-password alphabet (prefix DNs, differently-cased DNs, duplicate DNs, no / empty / two-valued / "
                "repeated / mis-cased password attributes), AllowAnonymousBind both ways and toggled, then every bind of 7 DNs x 4 passwords, issued by a real "
                "go-ldap client (UnauthenticatedBind for empty passwords) against a real testdirectory.Directory on TCP; each result compared with the "
                "property's iff computed from the case text and with the model; one evaluation = one history (28..36 binds); "
                "histories that change the user set between binds (Add, Delete by the exact DN, by the RDN alone and by a re-cased DN, Modify of the "
                "password, SetUsers), each change followed by the Users() getter and by binds as every user: the iff is evaluated over the entries "
                "the getter returns")


@check("C20")
def check_c20(tier, seed, res):
    dir_check("C20", "c20", 60 if tier == "quick" else 3000, tier, seed, res, c20_violations)
    dir_check("C20", "c20shared", 25 if tier == "quick" else 1000, tier, seed, res, c20_violations, tag="shared")
    dir_check("C20", "c20paren", 12 if tier == "quick" else 300, tier, seed, res, c20_violations, tag="paren")
    dir_check("C20", "c20multi", 12 if tier == "quick" else 300, tier, seed, res, c20_violations, tag="multi")
    res.rule = ("histories of 5..24 (thorough 5..40) operations (Add with sorted/duplicate attribute types, Modify add/delete/replace/increment with 0..3 values, "
                "Delete of users and groups, Search by entry DN / users base / groups base / member filter / case-folded base, SetUsers, binds) over a pool of 6 "
                "users and 3 groups whose DNs are not substrings of one another, issued one at a time by a real go-ldap client against a real directory; after "
                "every step the result is compared with a reference store computed from the case text (check.py) and with the model; entries of one pool "
                "that carry equal values for an attribute share the []string (as NewUsers does with WithMembersOf), and pools where every user has the "
                "same memberOf / description values are modified one user at a time with a search of every user after each step")


# --------------------------------------------------------------------------
# lifecycle properties: scenarios predicted by the LTS, forced on a worker

def parse_snapshot(s):
    d = dict(conns=[])
    for tok in s.split(" "):
        if not tok:
            continue
        if tok[0] == "c" and ":id=" in tok:
            head, rest = tok.split(":", 1)
            c = {}
            for kv in re.findall(r"(\w+)=(\[[^\]]*\]|[^,]*)", rest):
                c[kv[0]] = kv[1]
            c["started"] = [x for x in c.get("started", "[]").strip("[]").split(";") if x]
            c["ended"] = [x for x in c.get("ended", "[]").strip("[]").split(";") if x]
            d["conns"].append(c)
        elif "=" in tok:
            k, v = tok.split("=", 1)
            d[k] = v
    return d


def life_ops(line):
    """split the operations of a life case (for reporting)"""
    return line.split(" ", 4)[4] if len(line.split(" ", 4)) > 4 else ""


def parse_life_ops(line):
    """the operations of a life case line: list of (op, args); send items are dicts"""
    toks = line.split(" ")
    t = TokS(toks[3:])
    def step():
        x = t.next()
        return x + t.next() if x == "b" else x
    def item():
        k = t.next()
        if k == "req":
            kind = t.next(); msgid = t.int(); steps = t.lst(step)
            return dict(kind=kind, msgid=msgid, steps=steps)
        return dict(kind=k, msgid=None, steps=[])
    ops = []
    n = t.int()
    for _ in range(n):
        op = t.next()
        if op in ("send", "sendclose"):
            c = t.int(); items = t.lst(item)
            ops.append((op, c, items))
        elif op == "run":
            ops.append((op, t.next(), t.next()))
        elif op in ("stop", "connect", "accepterr"):
            ops.append((op,))
        elif op == "stall":
            ops.append((op, t.int(), t.next()))
        else:
            ops.append((op, t.next()))
    return ops


def rx_bounds(ops, upto, nconn):
    """per connection: (requests in arrival order, clean?) after the first `upto` operations"""
    reqs = {c: [] for c in range(nconn)}
    dirty = {c: False for c in range(nconn)}
    ci = 0
    stopped = False
    for op in ops[:upto]:
        if op[0] in ("connect", "accepterr"):
            ci += 1
        elif op[0] in ("send", "sendclose"):
            upgraded = False
            for it in op[2]:
                if upgraded and it["kind"] in ("normal", "starttls", "unbind"):
                    continue    # written in the clear behind a StartTLS request in the same segment: never served
                if it["kind"] == "starttls":
                    upgraded = True
                if it["kind"] in ("normal", "starttls", "unbind"):
                    reqs.setdefault(op[1], []).append(it)
                    if "W" in it["steps"] or "p" in it["steps"]:
                        dirty[op[1]] = True
                elif it["kind"] != "hello":
                    dirty[op[1]] = True
            if op[0] == "sendclose":
                dirty[op[1]] = True
        elif op[0] in ("stall", "close", "reset"):
            dirty[int(op[1])] = True
        elif op[0] == "stop":
            stopped = True
    return reqs, dirty, stopped


def life_spec(pid, line, snaps, div=None):
    """Property-specific predicate on the snapshots observed on the real server.
    Returns (key, why) or None."""
    P = [parse_snapshot(x) for x in snaps if not x.startswith(("OPFAILED", "DISABLED", "ENABLED"))]
    ops_text = life_ops(line)
    try:
        OPS = parse_life_ops(line)
    except Exception:
        OPS = []
    cfgs = line.split(" ")[2]

    def settled(k):
        """is snapshot k one the runner waited for (the last one, the one it diverged at, the last before a Stop)?"""
        return k == len(P) - 1 or (div is not None and k == div) or (OPS and k + 1 < len(OPS) and OPS[k + 1][0] == "stop")
    def inflight_across_upgrade(ci):
        """connection ci: a request whose handler waits on a barrier was sent before a StartTLS request, and the
        barrier is released only after the client's ClientHello: that handler is in flight across the upgrade"""
        waiting = set(); seen_starttls = False; hello_at = None
        for idx, op in enumerate(OPS):
            if op[0] in ("send", "sendclose") and op[1] == ci:
                for it in op[2]:
                    if it["kind"] == "normal" and not seen_starttls:
                        waiting |= set(st[1:] for st in it["steps"] if st.startswith("b"))
                    if it["kind"] == "starttls":
                        seen_starttls = True
                    if it["kind"] == "hello" and seen_starttls and hello_at is None:
                        hello_at = idx
        if hello_at is None or not waiting:
            return False
        return any(op[0] == "release" and op[1] in waiting for op in OPS[hello_at:]) and not any(op[0] == "release" and op[1] in waiting for op in OPS[:hello_at])
    for k, p in enumerate(P):
        for ci, c in enumerate(p["conns"]):
            if c.get("wire"):
                if OPS and inflight_across_upgrade(ci):
                    return ("plaintext-after-upgrade:handler-in-flight-across-starttls",
                            "connection %d: a handler that was already running when the StartTLS upgrade happened wrote its response afterwards, and it went out in the clear (not inside a TLS record) (operation %d)" % (ci, k))
                return ("plaintext-after-upgrade", "connection %d: after the StartTLS upgrade the server sent bytes that are not TLS records (operation %d)" % (ci, k))
    if pid == "C09":
        for k, p in enumerate(P):
            for ci, c in enumerate(p["conns"]):
                if c.get("ids"):
                    return ("connection-id-changed", "the requests of connection %d reported different ConnectionIDs: %s (operation %d)" % (ci, c["ids"], k))
    # responses: a client receives one frame per handler write, and nothing else (no answer to an
    # Unbind, no frame of another connection); a request with a plain script on an undisturbed
    # connection is served.  Judged before any Stop (Stop adds its notice of disconnection).
    if OPS and pid in ("C03", "C05", "C06", "C07", "C08", "C09", "C10", "C13", "C17"):
        for k, p in enumerate(P):
            reqs, dirty, stopped = rx_bounds(OPS, k + 1, len(p["conns"]))
            if stopped:
                break
            for ci, c in enumerate(p["conns"]):
                if dirty.get(ci) or "rx" not in c:
                    continue
                ended = set(c["ended"]); started = set(x.rstrip("ntu") for x in c["started"])
                lo = hi = 0
                unserved = None
                after_unbind = False
                for rid, it in enumerate(reqs.get(ci, []), start=1):
                    w = sum(1 for st in it["steps"] if st == "w")
                    if after_unbind:
                        continue
                    if str(rid) in ended:
                        lo += w; hi += w
                    elif str(rid) in started or it["kind"] == "unbind":
                        hi += w
                    if it["kind"] == "unbind":
                        after_unbind = True
                        continue
                    if str(rid) not in ended and not any(st.startswith("b") or st in ("hs", "p", "pw") for st in it["steps"]) and settled(k):
                        unserved = rid
                rx = int(c["rx"])
                if rx > hi:
                    return ("unexpected-frame", "connection %d received %d frames although its handlers wrote at most %d (operation %d): gldap answered something no handler wrote" % (ci, rx, hi, k))
                if settled(k) and rx < lo:
                    return ("lost-frame", "connection %d received %d frames although handlers that returned wrote %d (operation %d)" % (ci, rx, lo, k))
                if unserved is not None and pid in ("C07", "C13", "C17"):
                    return ({"C07": "bystander-unserved", "C13": "unserved-in-tunnel", "C17": "accepted-not-served"}[pid],
                            "request %d on undisturbed connection %d was not served (operation %d)%s" % (unserved, ci, k, " although Ready() is true and Stop was not called" if pid == "C17" else ""))
    for k, p in enumerate(P):
        for ci, c in enumerate(p["conns"]):
            if c.get("wire"):
                return ("plaintext-after-upgrade", "connection %d: after the StartTLS upgrade the server sent bytes that are not TLS records (operation %d)" % (ci, k))
        if pid == "C07" and p.get("alive") == "0":
            return ("process-died", "the server process died at operation %d" % k)
        if pid == "C07" and p.get("run") in ("err", "ok") and p.get("stops", "0/0").endswith("/0") and "addr=" not in line.split(" ")[2]:
            return ("run-returned", "Run returned (%s) at operation %d although Stop was never called: the server no longer accepts connections%s" % (
                p.get("run"), k, " (after a failed accept: descriptor exhaustion)" if "accepterr" in ops_text else ""))
        if pid == "C17" and ("addr=busy" in cfgs or "addr=dup" in cfgs):
            # the address is in use (by a plain listener / by another gldap server): Run fails, Ready is never true
            if p.get("ready") == "1":
                return ("ready-on-busy-port", "Ready() is true for a server whose address was already in use%s (operation %d)" % (" by another gldap server" if "addr=dup" in cfgs else "", k))
            if settled(k) and p.get("run") == "running":
                return ("run-on-busy-port", "Run did not return an error although its address was already in use%s (operation %d)" % (" by another gldap server" if "addr=dup" in cfgs else "", k))
        if pid == "C17":
            if p.get("ready") == "1" and p.get("run") in ("err", "none"):
                return ("ready-without-listener", "Ready() is true although Run %s" % ("returned an error" if p.get("run") == "err" else "was not called"))
        if pid in ("C08", "C12", "C09", "C10", "C06", "C13"):
            for ci, c in enumerate(p["conns"]):
                if int(c.get("onclose", "0")) > 1:
                    return ("onclose-twice", "OnClose called %s times for connection %d" % (c["onclose"], ci))
        if pid == "C08":
            for ci, c in enumerate(p["conns"]):
                running = [x for x in c["started"] if x.rstrip("ntu") not in c["ended"]]
                if c.get("onclose") == "1" and running and not panics_in(ops_text):
                    return ("onclose-before-handlers", "OnClose for connection %d while handlers %s have not returned" % (ci, running))
                if c.get("closed") == "1" and running and not panics_in(ops_text):
                    return ("closed-before-handlers", "connection %d closed while handlers %s have not returned" % (ci, running))
        if pid == "C08":
            st = p.get("stops", "0/0").split("/")
            if st[1] != "0" and st[0] == st[1] and p.get("run") in ("ok", "err") and "onclose=0" not in cfgs:
                for ci, c in enumerate(p["conns"]):
                    if c.get("onclose") == "0":
                        return ("onclose-missing", "Stop and Run have returned and OnClose was never called for connection %d" % ci)
        if pid == "C09":
            for ci, c in enumerate(p["conns"]):
                if c.get("ids"):
                    return ("connection-id-changed", "the requests of connection %d reported different ConnectionIDs: %s (operation %d)" % (ci, c["ids"], k))
            ids = [c.get("id") for c in p["conns"]]
            if len(set(ids)) != len(ids) or any(int(i) <= 0 for i in ids):
                return ("connection-ids", "connection ids not unique/positive: %r" % (ids,))
        if pid == "C12" and OPS:
            # a connection Accept had handed over before Stop was called (Run held before newConn)
            pending = 0; parkedf = False
            for op in OPS[:k + 1]:
                if op[0] == "parkaccept":
                    parkedf = op[1] == "1"
                    if not parkedf:
                        pending = 0
                elif op[0] == "connect" and parkedf:
                    pending += 1
            st0 = p.get("stops", "0/0").split("/")
            if pending and st0[1] != "0" and st0[0] == st0[1]:
                return ("conn-open-after-stop", "Stop has returned although %d connection(s) accepted before it was called are still being set up (not closed, OnClose not called) (operation %d)" % (pending, k))
        if pid == "C12":
            st = p.get("stops", "0/0").split("/")
            # "once Stop and Run have both returned": ANY call of Stop that has returned counts, also
            # while another call is still waiting
            if st[0] != "0" and p.get("run") in ("ok", "err"):
                if p.get("port") == "1":
                    return ("port-still-bound", "Stop and Run have returned and the port is still bound")
                for ci, c in enumerate(p["conns"]):
                    running = [x for x in c["started"] if x.rstrip("ntu") not in c["ended"]]
                    if panics_in(ops_text) and OPS:
                        # a handler whose script panics never reports its end
                        allreqs, _, _ = rx_bounds(OPS, len(OPS), len(p["conns"]))
                        def _panics(x):
                            try:
                                return any(st in ("p", "pw") for st in allreqs.get(ci, [])[int(x.rstrip("ntu")) - 1]["steps"])
                            except Exception:
                                return True
                        running = [x for x in running if not _panics(x)]
                    if running:
                        return ("handler-running-after-stop", "Stop and Run have returned and handlers %s of connection %d are still running" % (running, ci))
                    if c.get("closed") == "0":
                        return ("conn-open-after-stop", "Stop and Run have returned and connection %d is still open" % ci)
                    if c.get("onclose") == "0" and "onclose=0" not in line.split(" ")[2]:
                        return ("onclose-pending-after-stop", "Stop and Run have returned and OnClose has not completed for connection %d" % ci)
    if pid == "C08" and P and OPS and "onclose=0" not in cfgs:
        # "however it ends (... server Stop)": once Stop was called and everything the scenario
        # held back (handler barriers, the OnClose hold) is released, every accepted connection
        # is closed and reported, whatever its client does
        last = P[-1]
        used = set(re.findall(r"\bb (\d+)", ops_text)); released = set(o[1] for o in OPS if o[0] == "release")
        held = False
        for o in OPS:
            if o[0] == "holdonclose":
                held = o[1] == "1"
        if last.get("stops", "0/0").split("/")[1] != "0" and used <= released and not held and "parkaccept" not in ops_text:
            for ci, c in enumerate(last["conns"]):
                if c.get("onclose") == "0":
                    running = [x for x in c["started"] if x.rstrip("ntu") not in c["ended"]]
                    return ("never-closed", "Stop was called and every handler was released, yet connection %d was never closed and reported to OnClose (handlers that have not returned: %s)" % (ci, running))
    if pid == "C11" and P:
        last = P[-1]
        st = last.get("stops", "0/0").split("/")
        used11 = set(re.findall(r"\bb (\d+)", ops_text)); released11 = set(o[1] for o in OPS if o[0] == "release")
        held11 = False
        for o in OPS:
            if o[0] == "holdonclose":
                held11 = o[1] == "1"
        # handlers the scenario holds back are no client's doing: judged once they are all released
        if st[1] != "0" and (st[0] != st[1] or last.get("run") not in ("ok", "err")) and used11 <= released11 and not held11:
            return ("stop-hangs", "Stop (or Run) did not return within the limit: stops=%s run=%s" % (last.get("stops"), last.get("run")))
    if pid in ("C06", "C03") and P and OPS:
        for k, p in enumerate(P):
            reqs, dirty, stopped = rx_bounds(OPS, k + 1, len(p["conns"]))
            if not settled(k):
                continue
            for ci, c in enumerate(p["conns"]):
                if dirty.get(ci) or stopped:
                    continue
                want = 0
                for it in reqs.get(ci, []):
                    if it["kind"] == "unbind":
                        if "unbind=0" not in cfgs:
                            want += 1       # the unbind route's handler (inline); without a route nothing runs
                        break
                    want += 1
                if len(c["started"]) < want:
                    return ("not-dispatched", "connection %d: %d requests were pipelined and only %d were handed to a handler while the earlier ones block (operation %d)" % (ci, want, len(c["started"]), k))
    if pid == "C06" and P:
        # after the pipeline was sent every request must have a started handler numbered 1..N
        for p in P:
            for ci, c in enumerate(p["conns"]):
                rids = [int(x.rstrip("ntu")) for x in c["started"]]
                if (rids != list(range(1, len(rids) + 1)) and sorted(rids) != rids) or len(set(rids)) != len(rids):
                    return ("numbering", "request ids on connection %d are not 1,2,3,... once each: %r" % (ci, rids))
    if pid == "C10":
        for p in P:
            for ci, c in enumerate(p["conns"]):
                us = [x for x in c["started"] if x.endswith("u")]
                if len(us) > 1:
                    return ("unbind-handler-twice", "unbind handler ran %d times" % len(us))
                if us:
                    later = [x for x in c["started"] if int(x.rstrip("ntu")) > int(us[0].rstrip("u"))]
                    if later:
                        return ("served-after-unbind", "connection %d: requests %r were handed to a handler after the Unbind (request %s)" % (ci, later, us[0]))
        if OPS:
            # without an unbind route nothing at all is dispatched for the Unbind or after it
            for p in P:
                reqs, dirty, stopped = rx_bounds(OPS, len(OPS), len(p["conns"]))
                for ci, c in enumerate(p["conns"]):
                    rs = reqs.get(ci, [])
                    ub = [i for i, it in enumerate(rs, start=1) if it["kind"] == "unbind"]
                    if ub:
                        bad = [x for x in c["started"] if int(x.rstrip("ntu")) > ub[0] or (int(x.rstrip("ntu")) == ub[0] and "unbind=0" in cfgs)]
                        if bad:
                            return ("served-after-unbind", "connection %d: %r dispatched although the Unbind was request %d%s" % (ci, bad, ub[0], " and no unbind route is registered" if "unbind=0" in cfgs else ""))
    return None


def panics_in(ops_text):
    return " p" in ops_text


def life_check(pid, gens, n, tier, seed, res):
    cases = ""
    for gname in gens:
        cases += gen_cases(gname, seed, n, tier)
    if pid != "C17":
        # random histories over the whole operation alphabet (a few on every run, many in the thorough tier);
        # a different stream per property
        cases += gen_cases("liferand", seed * 100 + int(pid[1:]), 4 if tier == "quick" else 150, tier)
    cases = renumber(cases)
    os.makedirs(wd(pid), exist_ok=True)
    open(os.path.join(wd(pid), "life.cases"), "w").write(cases)
    mout = run_driver(cases)
    open(os.path.join(wd(pid), "life.model"), "w").write(mout)
    pred = parse_results(mout)
    cm = case_map(cases)
    runlines = []
    for k, line in cm.items():
        p = pred.get(k)
        if p is None or p.startswith("DRIVER-ERROR"):
            res.mismatch(line, "-", str(p))
            continue
        body = line.split(" ", 2)[2]
        runlines.append("liferun %s %s @@ %s" % (k[1], body, p))
    env = dict(GOENV, VERIF_CERTDIR=os.path.join(WORK, "certs"))
    os.makedirs(env["VERIF_CERTDIR"], exist_ok=True)
    subprocess.run([VH, "gencerts"], env=env, timeout=60)
    text = "\n".join(runlines) + "\n"
    # scenarios are independent: run them on parallel harness processes
    k = min(12, max(1, len(runlines)))
    procs = []
    for j in range(k):
        chunk = runlines[j::k]
        if not chunk:
            continue
        procs.append(subprocess.Popen([VH, "run"], stdin=subprocess.PIPE, stdout=subprocess.PIPE, stderr=subprocess.PIPE, text=True, errors="replace", env=env))
        procs[-1]._chunk = "\n".join(chunk) + "\n"
    outs = []
    import threading
    def feed(p):
        o, e = p.communicate(p._chunk, timeout=3000)
        outs.append(o)
    ths = [threading.Thread(target=feed, args=(p,)) for p in procs]
    [t.start() for t in ths]
    [t.join() for t in ths]
    iout = "".join(outs)
    open(os.path.join(wd(pid), "life.impl"), "w").write(iout)
    impl = {}
    for l in iout.splitlines():
        parts = l.split(" ", 2)
        if len(parts) >= 3:
            impl[parts[1]] = parts[2]
    opkinds = {}
    for k, line in cm.items():
        res.evaluations += 1
        i = impl.get(k[1])
        if i is None or i.startswith("HARNESS"):
            res.mismatch(line, str(i), pred.get(k, ""))
            continue
        res.nontrivial.add(line.split(" ", 2)[2])
        res.traces += 1
        for o in re.findall(r"\b(run|stop|connect|send|close|stall|release|holdonclose)\b", line):
            opkinds[o] = opkinds.get(o, 0) + 1
        head, _, rest = i.partition(" ")
        div = None
        if head == "OK":
            snaps = rest.split(" # ")
        else:
            dk, _, rest2 = rest.partition(" ")
            snaps = rest2.split(" # ")
            div = int(dk) if dk.isdigit() else None
        v = life_spec(pid, line, snaps, div)
        if v is not None:
            res.violation(v[0], line, i[:1500], pred.get(k, "")[:1500], v[1])
        elif head != "OK":
            res.mismatch(line, i[:1500], pred.get(k, "")[:1500])
        elif res.evaluations % 7 == 1:
            res.sample(line[:300] + "  =>  " + snaps[-1][:300])
    res.extra["operations"] = opkinds
    res.assumptions.append("scheduler fairness and kernel timing: a predicted snapshot must be reached within 5 s and stay for 120 ms")


@check("C17")
def check_c17(tier, seed, res):
    life_check("C17", ["c17", "c07stale"], 0, tier, seed, res)
    # address forms: Run on each, judged against Go's own net.Listen and a connection attempt
    cases = gen_cases("c17addr", seed, 0, tier)
    iout = run_vh(cases)
    impl = parse_results(iout)
    forms = {}
    for k, line in case_map(cases).items():
        res.evaluations += 1
        i = impl.get(k)
        if i is None or i.startswith("HARNESS"):
            res.mismatch(line, str(i), "-"); continue
        res.nontrivial.add(line)
        cls = re.search(r"class=(\w+)", i).group(1) if "class=" in i else "?"
        forms[cls] = forms.get(cls, 0) + 1
        if i.startswith("SPECFAIL"):
            res.violation("address:" + ("malformed-accepted" if "did not return an error" in i else "ready-not-serving"), line, i, "Run fails on a malformed address and Ready stays false; Ready implies the address is served", i[9:120])
        elif res.evaluations % 9 == 0:
            res.sample(bytes.fromhex(line.split(" ")[2]).decode("latin1") + "  =>  " + i[:90])
    res.extra["address_forms"] = forms
    # validateAddrPort against its model (coq/Addr.v): exhaustive short strings over the alphabet that
    # decides its branches, named forms, random edits
    acases = gen_cases("addrv", seed, 300 if tier == "quick" else 20000, tier)
    am, ai = differential(acases, wd("C17"), "addrv")
    acc = {"OK": 0, "ERR": 0}
    for k, line in case_map(acases).items():
        res.evaluations += 1
        i = ai.get(k); m = am.get(k)
        if i is None or m is None:
            res.mismatch(line, str(i), str(m)); continue
        res.nontrivial.add(line.split(" ")[2])
        acc[i.split(" ")[0]] = acc.get(i.split(" ")[0], 0) + 1
        if i == "PANIC":
            res.violation("panic:validateAddrPort", line, i, m, "validateAddrPort panicked")
        elif i != m:
            res.mismatch(line, i, m)
    res.extra["validateAddrPort_outcomes"] = acc
    # the test directory on a port in use: Ready never becomes true, Start must not wait for it for ever
    out = run_vh("c17dirstart busy -\n")
    r = parse_results(out).get(("c17dirstart", "busy"), "HARNESS no result")
    res.evaluations += 1
    res.nontrivial.add("c17dirstart busy")
    if r.startswith("SPECFAIL"):
        res.violation("directory-start-on-busy-port", "c17dirstart busy -", r, "Start reports the failure and returns", r[9:])
    elif not r.startswith("OK"):
        res.mismatch("c17dirstart busy -", r, "-")
    else:
        res.sample("c17dirstart busy  =>  " + r)
    res.rule = ("scenarios: Run on a free port then connect/serve/Stop; Run on a port that is already bound; Run on a malformed address; each alone and "
                "followed by Stop; after every operation the worker's Ready(), Run's return and the port are sampled and compared with the LTS prediction; "
                "one evaluation = one scenario")


LIFE_RULES = {
    "C06": "pipelines of N = 1,2,3,8,32 (thorough +100,256) requests whose handlers all block on one barrier (every handler must have started, none ended, before the release) and random mixes on 1..3 connections with blocking / writing handlers; Request.ID per connection must be 1,2,3,... ",
    "C07": "7 fault kinds (panic in a concurrently dispatched handler - plain, after writing, with others in flight -, in the inline StartTLS handler, in the unbind handler, malformed frame, abrupt disconnect with a handler in flight) x bystander idle/busy; the bystander and a connection opened after the fault must still be served and the worker process must stay alive",
    "C08": "5 endings (client close, Unbind, malformed frame, recovered panic on the connection goroutine, server Stop) x 3 in-flight states (none, handlers blocked, handler between two writes) x {1,3} connections; OnClose at most once, only after handlers returned and the socket was closed, exactly once at the end",
    "C09": "random connect / request / close / reconnect histories, and StartTLS upgrades requested as the 1st, 2nd and 3rd request of three connections with requests before and after; ConnectionID seen by handlers (matched to the client through message ids) and by OnClose must be the accept order 1,2,3,...",
    "C10": "k requests, Unbind, m requests (k,m in 0..3) written in ONE TCP segment, with and without an unbind route, earlier handlers held or not: nothing after the Unbind is dispatched, the unbind handler runs once, the socket closes after the held handlers are released",
    "C11": "Stop (single and concurrent double) with {no, idle, pipelining, handler blocked writing 16 MiB to a client that does not read, StartTLS handshake pending} x {1,4} connections: Stop and Run must return within the limit without any client action",
    "C12": "Stop before Run (then Run must return with the port free), repeated Stop, OnClose held / handlers held / teardown in progress when Stop arrives x {1,3} connections: Stop must not return before OnClose completed and handlers ended; afterwards the port is free and every socket closed",
    "C13": "StartTLS sessions {1,3} in parallel, handler replies then handshakes, client handshakes only after the reply, then requests (blocking and plain) inside the tunnel, Unbind; plus a request pipelined right behind StartTLS while its handler is held",
}


def k1_live(res):
    """K1 against a running server with a bystander connection (process of its own, address space capped)."""
    try:
        p = subprocess.run("ulimit -v 8000000; exec %s k1 3000000 live" % VH, shell=True, stdout=subprocess.PIPE, stderr=subprocess.PIPE, text=True, errors="replace", timeout=300, env=GOENV)
        out, err, rc = p.stdout, p.stderr, p.returncode
    except subprocess.TimeoutExpired:
        out, err, rc = "", "timeout", -1
    res.evaluations += 1
    case = "k1 live-3000000 3000000 live"
    res.nontrivial.add(case)
    if rc == 0 and "bystander_served_after=true" in out:
        res.sample(case + "  =>  " + out.strip())
    elif "stack overflow" in err or "goroutine stack exceeds" in err:
        res.violation("frame=nesting-depth>2.5e6", case, "process died: " + " / ".join(err.splitlines()[:3]), "only the offending connection ends",
                      "one client sending 3*10^6 nested constructed headers kills the server process (fatal stack overflow in go-asn1-ber's reader), bystander connections included")
    elif rc == 0 and "bystander_served_after=false" in out:
        res.violation("bystander-unserved-after-deep-frame", case, out.strip(), "bystander served", "after a deeply nested frame on another connection the bystander is no longer served")
    else:
        res.mismatch(case, "rc=%d %s %s" % (rc, out[-200:], err[-300:]), "-")


def k4_live(res):
    """K4 against a running server with a bystander connection (process of its own, address space capped at 2 GB)."""
    for mode in ("benign", "huge"):
        try:
            p = subprocess.run("ulimit -v 2000000; exec %s k4 %s live" % (VH, mode), shell=True, stdout=subprocess.PIPE, stderr=subprocess.PIPE, text=True, errors="replace", timeout=300, env=GOENV)
            out, err, rc = p.stdout, p.stderr, p.returncode
        except subprocess.TimeoutExpired:
            out, err, rc = "", "timeout", -1
        res.evaluations += 1
        case = "k4 live-%s %s live" % (mode, mode)
        res.nontrivial.add(case)
        if rc == 0 and "bystander_served_after=true" in out:
            res.sample(case + "  =>  " + out.strip())
        elif "out of memory" in err or "cannot allocate" in err:
            res.violation("frame=declared-length-2GiB" if mode == "huge" else "frame=benign-under-memory-cap", case, "process died: " + " / ".join(err.splitlines()[:3]), "only the offending connection ends",
                          "one client sending the 14-byte frame 30 09 86 86 00 00 7f ff 00 00 7f ff 86 86 to a server whose memory is limited to 2 GB kills the process (fatal error: out of memory in go-asn1-ber's reader, which allocates the declared 2 GiB first), bystander connections included")
        elif rc == 0 and "bystander_served_after=false" in out:
            res.violation("bystander-unserved-after-huge-length", case, out.strip(), "bystander served", "after a frame declaring a huge length on another connection the bystander is no longer served")
        else:
            res.mismatch(case, "rc=%d %s %s" % (rc, out[-200:], err[-300:]), "-")


def make_life_check(pid, gens):
    def fn(tier, seed, res):
        n = 6 if tier == "quick" else 60
        life_check(pid, gens, n, tier, seed, res)
        if pid == "C07":
            k1_live(res)
            k4_live(res)
            # hundreds of connections ending in the same instant
            envw = dict(GOENV, VERIF_CERTDIR=os.path.join(WORK, "certs"))
            case = "c07waves w 128 %d" % (4 if tier == "quick" else 40)
            p = subprocess.run([VH, "run"], input=case + "\n", stdout=subprocess.PIPE, stderr=subprocess.PIPE, text=True, errors="replace", env=envw, timeout=600)
            r = parse_results(p.stdout).get(("c07waves", "w"), "HARNESS no result")
            res.evaluations += 1
            res.nontrivial.add(case)
            if r.startswith("SPECFAIL"):
                res.violation("many-connections-ending-at-once", case, r, "process alive, bystanders served", r[9:])
            elif not r.startswith("OK"):
                res.mismatch(case, r, "-")
            else:
                res.sample(case + "  =>  " + r)
            # a client that stalls in its TLS handshake on a TLS listener, with bystanders before and after
            env = dict(GOENV, VERIF_CERTDIR=os.path.join(WORK, "certs"))
            for how in ("idle", "partial"):
                p = subprocess.run([VH, "run"], input="c07tlsstall %s %s\n" % (how, how), stdout=subprocess.PIPE, stderr=subprocess.PIPE, text=True, errors="replace", env=env, timeout=120)
                r = parse_results(p.stdout).get(("c07tlsstall", how), "HARNESS no result")
                res.evaluations += 1
                res.nontrivial.add("c07tlsstall " + how)
                if r.startswith("SPECFAIL"):
                    res.violation("tls-handshake-stall", "c07tlsstall %s %s" % (how, how), r, "bystanders served", r[9:])
                elif not r.startswith("OK"):
                    res.mismatch("c07tlsstall " + how, r, "-")
                else:
                    res.sample("c07tlsstall %s  =>  %s" % (how, r))
        if pid == "C09":
            # Run again on a stopped server: ids never come back
            envr = dict(GOENV, VERIF_CERTDIR=os.path.join(WORK, "certs"))
            p = subprocess.run([VH, "run"], input="c09rerun r\n", stdout=subprocess.PIPE, stderr=subprocess.PIPE, text=True, errors="replace", env=envr, timeout=120)
            r = parse_results(p.stdout).get(("c09rerun", "r"), "HARNESS no result")
            res.evaluations += 1
            res.nontrivial.add("c09rerun r")
            if r.startswith("SPECFAIL"):
                res.violation("connection-ids-second-run", "c09rerun r", r, "ids never reused by one server", r[9:])
            elif not r.startswith("OK"):
                res.mismatch("c09rerun r", r, "-")
            else:
                res.sample("c09rerun r  =>  " + r)
            # ids on a TLS listener while some clients never complete their handshake
            env = dict(GOENV, VERIF_CERTDIR=os.path.join(WORK, "certs"))
            for how in ("silent", "garbage", "three"):
                p = subprocess.run([VH, "run"], input="c09tlsids %s %s\n" % (how, how), stdout=subprocess.PIPE, stderr=subprocess.PIPE, text=True, errors="replace", env=env, timeout=120)
                r = parse_results(p.stdout).get(("c09tlsids", how), "HARNESS no result")
                res.evaluations += 1
                res.nontrivial.add("c09tlsids " + how)
                if r.startswith("SPECFAIL"):
                    res.violation("connection-ids-tls", "c09tlsids %s %s" % (how, how), r, "distinct positive ids", r[9:])
                elif not r.startswith("OK"):
                    res.mismatch("c09tlsids " + how, r, "-")
                else:
                    res.sample("c09tlsids %s  =>  %s" % (how, r))
        res.rule = LIFE_RULES[pid] + "; every scenario is predicted by the LTS (Sys.v, canonical scheduler to quiescence) and forced on a real server in a worker process; after each operation the observed snapshot (ready, Run/Stop returns, port, per connection: id, handlers started/ended, closed, OnClose count) must become and stay the predicted one; one evaluation = one scenario"
    CHECKS[pid] = fn

for _pid, _g in [("C06", ["c06", "upgradeids", "pipe300", "debugblocked"]), ("C07", ["c07", "c07accept", "c07stall", "c07stale", "panicinwrite", "debugblocked"]), ("C08", ["c08", "c08edges", "stopbulk", "pipe300", "panicinwrite"]), ("C09", ["c09", "upgradeids", "c07accept"]), ("C10", ["c10", "c10busy", "c10panic"]), ("C11", ["c11", "c11accept", "stopbulk", "c11readtimeout"]), ("C12", ["c12", "c12accept", "c12slowstop"]), ("C13", ["c13", "upgradestale"])]:
    make_life_check(_pid, _g)


@check("C05")
def check_c05(tier, seed, res):
    # the writer's users and their locks come from the access table regenerated from the source
    res.broken = []
    if not ACCESS["ok"] and "writer*" in ACCESS["detail"]:
        res.broken.append("theorem writer_only_under_mutex / discipline_holds (coq/AccessProofs.v, used by Props/C05.v): " + ACCESS["detail"])
    n = 40 if tier == "quick" else 2000
    cases = gen_cases("c05", seed, n, tier)
    os.makedirs(wd("C05"), exist_ok=True)
    env = dict(GOENV, VERIF_CERTDIR=os.path.join(WORK, "certs"))
    os.makedirs(env["VERIF_CERTDIR"], exist_ok=True)
    subprocess.run([VH, "gencerts"], env=env, timeout=60)
    p = subprocess.run([VH, "run"], input=cases, stdout=subprocess.PIPE, stderr=subprocess.PIPE, text=True, errors="replace", env=env, timeout=3000)
    open(os.path.join(wd("C05"), "main.cases"), "w").write(cases)
    open(os.path.join(wd("C05"), "main.impl"), "w").write(p.stdout)
    impl = parse_results(p.stdout)
    cm = case_map(cases)
    stage2 = []
    tot_frames = 0
    for k, line in cm.items():
        res.evaluations += 1
        i = impl.get(k)
        if i is None or i.startswith("HARNESS"):
            res.mismatch(line, str(i), "-"); continue
        res.nontrivial.add(line.split(" ", 2)[2])
        if k[0] == "c05run":
            res.traces += 1
            if i.startswith("SPECFAIL") or not i.startswith("OK"):
                res.violation("stream:" + line.split(" ")[2], line, i, "whole frames, exactly once, per-writer order", i)
            else:
                tot_frames += int(re.search(r"frames=(\d+)", i).group(1))
                if res.evaluations % 3 == 1:
                    res.sample(line + "  =>  " + i)
        else:
            frames, wire, results = i.split(" | ")
            t = line.split(" ")
            stage2.append((k, line, "wmodel %s %s %s %s" % (k[1], frames, t[-2], t[-1]), wire + " | " + results))
    mout = run_driver("\n".join(x[2] for x in stage2) + "\n") if stage2 else ""
    model = parse_results(mout)
    for k, line, _, got in stage2:
        m = model.get(("wmodel", k[1]))
        if m is None or m.startswith(("DRIVER", "MODEL")):
            res.mismatch(line, got[:300], str(m)); continue
        # spec: what reached the socket is whole frames of the successful Writes plus a proper prefix of at most one failed frame
        if got != m:
            res.mismatch(line, got[:300], m[:300])
        elif res.evaluations % 5 == 2:
            res.sample(line + "  =>  results " + got.split(" | ")[1])
    res.extra["frames_received_and_checked"] = tot_frames
    res.rule = ("(a) N in {2,16,64} (thorough +300) handlers on ONE real connection write 1..6 identifiable frames each of sizes 7..70000 bytes (below, at and "
                "above the 4096-byte buffer) at the same moment (common barrier), with and without a client that delays reading, over plain (thorough: + TLS "
                "listener and StartTLS-upgraded) connections; the client parses the stream strictly and incrementally: only whole LDAPMessages, exactly the "
                "frames written, each once, each writer's in order; (b) sequential Writes through real ResponseWriters over a writer that short-writes and fails "
                "at a chosen call, bytes that reached the writer and per-Write results compared with Writer.v; distinct = distinct case text")
    # frames of OTHER connections: clients that go away while their handlers still run, new clients
    # right behind them, then the late handlers write - every client receives exactly what the
    # handlers of its own connection wrote (predicate unexpected-frame / lost-frame)
    life_check("C05", ["c07stale"], 0, tier, seed, res)
    res.assumptions.append("net.Conn.Write / tls.Conn.Write are atomic with respect to other writes on the same connection (one writer at a time is what the mutex guarantees)")


@check("C18")
def check_c18(tier, seed, res):
    cases = gen_cases("c18", seed, 0, tier)
    os.makedirs(wd("C18"), exist_ok=True)
    env = dict(GOENV, VERIF_CERTDIR=os.path.join(WORK, "certs"))
    os.makedirs(env["VERIF_CERTDIR"], exist_ok=True)
    subprocess.run([VH, "gencerts"], env=env, timeout=60)
    p = subprocess.run([VH, "run"], input=cases, stdout=subprocess.PIPE, stderr=subprocess.PIPE, text=True, errors="replace", env=env, timeout=3000)
    open(os.path.join(wd("C18"), "main.cases"), "w").write(cases)
    open(os.path.join(wd("C18"), "main.impl"), "w").write(p.stdout)
    impl = parse_results(p.stdout)
    model = parse_results(run_driver(cases))
    for k, line in case_map(cases).items():
        res.evaluations += 1
        i = impl.get(k); m = model.get(k)
        if i is None or m is None or i.startswith("HARNESS"):
            res.mismatch(line, str(i), str(m)); continue
        res.nontrivial.add(line.split(" ", 2)[2])
        res.traces += 1
        t = line.split(" ")
        target, cfg, beh = t[2], t[3], t[4]
        tls_client = beh.startswith("tls-")
        if "handler_ran=1" in i and (not tls_client or (cfg == "mtls" and beh != "tls-goodcert")):
            res.violation("handler-reached:%s:%s" % (cfg, beh), line, i, m, "a handler ran for a client that does not satisfy the TLS configuration"); continue
        if "bystanders=111" not in i or "alive=1" not in i:
            res.violation("bystander-affected:%s:%s" % (cfg, beh), line, i, m, "a conforming client was affected by the offending connection"); continue
        if i != m:
            res.mismatch(line, i, m)
        elif res.evaluations % 9 == 1:
            res.sample(line + "  =>  " + i)
    # many refused clients one after another, then conforming ones
    for cfgb in (("tls", "garbage"), ("tls", "plain"), ("mtls", "tls-nocert")):
        p = subprocess.run([VH, "run"], input="c18many %s-%s %s %s\n" % (cfgb[0], cfgb[1], cfgb[0], cfgb[1]), stdout=subprocess.PIPE, stderr=subprocess.PIPE, text=True, errors="replace", env=env, timeout=300)
        r = parse_results(p.stdout).get(("c18many", "%s-%s" % cfgb), "HARNESS no result")
        res.evaluations += 1
        case = "c18many %s-%s %s %s" % (cfgb[0], cfgb[1], cfgb[0], cfgb[1])
        res.nontrivial.add(case)
        if r.startswith("SPECFAIL"):
            res.violation("bystander-affected:%s:many-%s" % cfgb, case, r, "served", r[9:])
        elif not r.startswith("OK"):
            res.mismatch(case, r, "-")
        else:
            res.sample(case + "  =>  " + r)
    res.exhaustive = True
    res.rule = ("the complete product {real gldap server, real test directory} x {server auth only, client certificate required and verified} x "
                "{plaintext LDAP request (7 operations), arbitrary bytes, TCP connect without ClientHello, abandoned handshake, TLS without certificate, "
                "certificate of a different CA, valid certificate}, each with a conforming bystander before, WHILE the offender is still connected, and after; observed: whether a handler ran "
                "(worker events; for the directory: whether an LDAP response arrived), bystander results, process alive; exhaustive over this finite space; "
                "and 140 refused clients one after another (garbage, plaintext bind, TLS without certificate under mTLS) followed by a new and an old conforming client")
    res.assumptions.append("crypto/tls enforces the handshake (oracle hs_ok with contract tls_contract); the run confirms the expected table on the installed Go")


@check("C15")
def check_c15(tier, seed, res):
    # proof side: the lock / happens-before discipline over the access table regenerated from the source
    res.broken = []
    if not ACCESS["ok"]:
        res.broken.append("theorem discipline_holds (coq/AccessProofs.v, used by Props/C15.v): " + ACCESS["detail"])
    gen = open(os.path.join(COQ, "AccessGen.v")).read()
    res.extra["access_table"] = dict(sites=gen.count("mkSite \""), calls=gen.count("mkCall \""), regenerated_from="/repo/*.go, /repo/testdirectory/*.go (non-test, hook file excluded)",
                                     status=ACCESS["detail"][:300])
    # the workloads of C05-C13 and the directory workload, in a worker built with -race
    rc, out = sh(["go", "build", "-race", "-tags", "verif", "-o", "bin/vh-race", "."], cwd=HARNESS, env=GOENV, timeout=900)
    if rc != 0:
        raise RuntimeError("race build failed: " + out[-1500:])
    env = dict(GOENV, VERIF_CERTDIR=os.path.join(WORK, "certs"), VERIF_VH_RACE=os.path.join(HARNESS, "bin", "vh-race"),
               VERIF_RACE_DUMP=os.path.join(wd("C15"), "race.dump"))
    os.makedirs(wd("C15"), exist_ok=True)
    if os.path.exists(env["VERIF_RACE_DUMP"]):
        os.remove(env["VERIF_RACE_DUMP"])
    os.makedirs(env["VERIF_CERTDIR"], exist_ok=True)
    subprocess.run([VH, "gencerts"], env=env, timeout=60)
    n = 2 if tier == "quick" else 20
    cases = ""
    for gname in (["c06", "c07", "c08", "c10", "c11", "c12", "c13"] if tier == "quick" else ["c06", "c07", "c08", "c09", "c10", "c11", "c12", "c13", "c17"]):
        cases += gen_cases(gname, seed, n, tier)
    # the forced interleavings and fault scenarios are always all in
    forced = ""
    for gname in ["c12accept", "c12slowstop", "c15timer", "c11accept", "c07accept", "c07stall", "c08edges", "c07stale"]:
        forced += gen_cases(gname, seed, n, tier)
    lines = [l for l in cases.splitlines() if l]
    if tier == "quick":
        lines = lines[::3]      # a third of the scenarios of every family
    lines = [l for l in renumber("\n".join(lines + [l for l in forced.splitlines() if l]) + "\n").splitlines() if l]
    # add race=1 to the configuration of every scenario
    cases = "\n".join(re.sub(r"^(life \S+ )(\S+)", lambda m: m.group(1) + m.group(2) + ":race=1", l) for l in lines) + "\n"
    mout = run_driver(cases)
    pred = parse_results(mout)
    cm = case_map(cases)
    runlines = ["liferun %s %s @@ %s" % (k[1], line.split(" ", 2)[2], pred[k]) for k, line in cm.items() if k in pred and not pred[k].startswith("DRIVER")]
    dircases = gen_cases("c15dir", seed, 0, tier)
    alltext = runlines + [l for l in dircases.splitlines() if l]
    kk = min(8, len(alltext))
    procs = []
    outs = []
    import threading
    for j in range(kk):
        chunk = alltext[j::kk]
        p = subprocess.Popen([VH, "run"], stdin=subprocess.PIPE, stdout=subprocess.PIPE, stderr=subprocess.PIPE, text=True, errors="replace", env=env)
        p._chunk = "\n".join(chunk) + "\n"
        procs.append(p)
    def feed(p):
        o, e = p.communicate(p._chunk, timeout=3000)
        outs.append(o)
    ths = [threading.Thread(target=feed, args=(p,)) for p in procs]
    [t.start() for t in ths]
    [t.join() for t in ths]
    iout = "".join(outs)
    open(os.path.join(wd("C15"), "main.impl"), "w").write(iout)
    fam = {}
    for l in iout.splitlines():
        parts = l.split(" ", 2)
        if len(parts) < 3:
            continue
        res.evaluations += 1
        res.traces += 1
        kind = parts[0]
        caseline = cm.get(("life", parts[1])) if kind == "liferun" else l
        res.nontrivial.add(kind + parts[1])
        fam[kind] = fam.get(kind, 0) + 1
        if parts[2].startswith("RACE"):
            digest = parts[2].split(" @ ")[0]
            res.violation("race:" + digest[5:], caseline or l, parts[2][:600], "no data race", "the race detector reported a data race with a frame in gldap: " + digest)
        elif parts[2].startswith("HARNESS"):
            res.mismatch(caseline or l, parts[2][:300], "-")
        elif res.evaluations % 5 == 1:
            res.sample((caseline or l)[:200] + "  =>  " + parts[2][:80])
    res.extra["workloads"] = fam
    res.rule = ("the scenario families of C06-C13 (quick: a third of each; thorough: all plus C09/C17) and the directory workload (go-ldap clients binding, searching, "
                "adding, modifying, deleting while the worker calls SetUsers/SetGroups/SetControls/SetAllowAnonymousBind and the getters) executed against a worker "
                "built with -race; a report with a frame in github.com/jimlambrt/gldap is a failing history (replay = scenario + the two conflicting frames); "
                "scenario snapshots are not compared here (timing under the detector differs), only races")
    res.assumptions.append("DRF-SC: for Go, absence of co-enabled conflicting accesses in the interleaving semantics = data-race freedom; the detector sees only executed schedules")


def renumber(text):
    out = []
    for j, l in enumerate(text.splitlines()):
        p = l.split(" ", 2)
        if len(p) >= 2:
            out.append("%s %d %s" % (p[0], j + 1, p[2] if len(p) > 2 else ""))
    return "\n".join(out) + "\n"


def entry_names(i):
    t = i.split(" ")
    # OK dn n (name k vals... k bvals...)...
    pos = 2
    n = int(t[pos]); pos += 1
    names = []
    for _ in range(n):
        names.append(bytes.fromhex(t[pos]) if t[pos] != "-" else b""); pos += 1
        k = int(t[pos]); pos += 1 + k
        k = int(t[pos]); pos += 1 + k
    return names


# --------------------------------------------------------------------------
# main

LEVELS = {}


def write_evidence(pid, tier, seed, res, ob, wall, build, nviol):
    lvl = "proof"
    trusted = ["Coq 8.16.1 kernel (coqc, vm_compute used in reflexivity-style obligations; no native_compute)",
               "axioms reported by Print Assumptions: " + (", ".join(ob["axioms"]) if ob["axioms"] else "none (Closed under the global context)"),
               "extraction: ExtrOcamlBasic only (bool/option/unit/prod/list/sumbool/sumor); N, Z, positive, nat kept inductive; no Extract Constant",
               "OCaml driver (ocaml/driver.ml), ocamlfind/ocamlopt 4.13.1, zarith for decimal I/O",
               "Go harness (harness/, built from /repo with -tags verif) and the add-only hook file /repo/verif_export.go",
               "tools/check.py comparison and spec predicates"] + res.assumptions
    cov = dict(
        obligations=ob["theorems"], discharged=ob["closed"] + (ob["theorems"] - ob["closed"] if ob["ok"] else 0),
        checker_cmd="make -C coq (full .vo build via coq_makefile) && coqc -Q . G Props/%s.v" % pid,
        trusted_base=trusted,
        theorems=ob["names"],
        evaluations=res.evaluations,
        distinct_nontrivial=len(res.nontrivial),
        rule=res.rule,
        samples=res.samples if res.samples else ["(no sample recorded)"],
        exhaustive=res.exhaustive,
        correspondence_mismatches=len(res.mismatches),
        traces_validated_against_impl=res.traces,
        proof_build_ok=bool(build.get("ok")) and ob["ok"],
    )
    cov.update(res.extra)
    ev = dict(property_id=pid, tier=tier, seed=seed, level=lvl, coverage=cov,
              assumptions=res.assumptions, wall_s=round(wall, 2), violations=nviol)
    os.makedirs(os.path.join(ROOT, "evidence"), exist_ok=True)
    with open(os.path.join(ROOT, "evidence", pid + ".json"), "w") as f:
        json.dump(ev, f, indent=1)


def write_replay(pid, seed, n, payload):
    os.makedirs(os.path.join(ROOT, "replays"), exist_ok=True)
    p = os.path.join(ROOT, "replays", "%s-%d-%d.json" % (pid, seed, n))
    with open(p, "w") as f:
        json.dump(payload, f, indent=1)
    return p


def run_check(pid, tier, seed):
    t0 = time.time()
    res = Result(pid)
    build = build_all(clean=(tier == "thorough" and os.environ.get("VERIF_NO_CLEAN") != "1"))
    ob = dict(theorems=0, closed=0, axioms=[], names=[], ok=False, log="")
    broken = []   # proof-side reasons
    if not build["ok"]:
        broken.append("build stage %s failed: %s" % (build["stage"], build["log"][-1500:]))
    if build["ok"] or build["stage"] in ("coq",):
        hits = forbidden_scan()
        if hits:
            broken.append("forbidden constructs: " + "; ".join(hits[:10]))
    if build["ok"]:
        ob = props_obligations(pid)
        if not ob["ok"]:
            broken.append("Props/%s.v does not check: %s" % (pid, ob["log"][-1500:]))
    # correspondence needs harness+driver; if only coq failed we can still try with a stale driver
    can_run = os.path.exists(VH) and os.path.exists(DRIVER) and build.get("stage") in ("", "coq")
    if can_run:
        try:
            CHECKS[pid](tier, seed, res)
        except Exception as e:  # noqa
            broken.append("correspondence run failed: %r" % (e,))
        broken.extend(getattr(res, "broken", []))
    if pid in CFG_PROPS and not CFG["ok"]:
        broken.append(CFG["detail"])
    if pid in CONSTS_PROPS and not CONSTS["ok"]:
        broken.append("theorems of coq/Consts.v (the model's constants equal gldap's): " + CONSTS["detail"])
    known = load_known(pid)
    unknown_viol = []
    seen_known = {}
    for v in res.violations:
        hit = [k for k in known if k[0] == v["key"]]
        if hit:
            seen_known.setdefault(hit[0][0], (hit[0][1], v))
        else:
            unknown_viol.append(v)
    for k, (text, v) in seen_known.items():
        print("KNOWN-FINDING: property=%s %s [key=%s]" % (pid, text, k))
    rc = 0
    if unknown_viol:
        v = sorted(unknown_viol, key=lambda x: len(x["case"]))[0]
        p = write_replay(pid, seed, 1, dict(property=pid, kind="spec-violation", key=v["key"], why=v["why"],
                                            case=v["case"], implementation=v["impl"], model=v["expect"],
                                            total_violations=len(unknown_viol),
                                            replay="printf '%s\\n' | harness/bin/vh run" % v["case"].replace("'", "")))
        print("VIOLATION property=%s replay=%s" % (pid, p))
        rc = 1
    elif broken or res.mismatches:
        payload = dict(property=pid, kind="no-failing-input-found",
                       broken_obligations=broken,
                       correspondence=("first diverging case: " + json.dumps(res.mismatches[0])) if res.mismatches else "agrees on all cases run",
                       mismatches=len(res.mismatches),
                       note="the proof obligations or the model/implementation correspondence no longer check; the search over the generated cases found no input on which the property's spec predicate fails")
        p = write_replay(pid, seed, 0, payload)
        print("VIOLATION property=%s replay=%s no-failing-input-found" % (pid, p))
        rc = 1
    wall = time.time() - t0
    write_evidence(pid, tier, seed, res, ob, wall, build, len(unknown_viol))
    print("%s tier=%s seed=%d evaluations=%d nontrivial=%d mismatches=%d violations=%d known=%d theorems=%d closed=%d wall=%.1fs" % (
        pid, tier, seed, res.evaluations, len(res.nontrivial), len(res.mismatches), len(unknown_viol), len(seen_known),
        ob["theorems"], ob["closed"], wall))
    return rc


def main():
    args = sys.argv[1:]
    if not args:
        print(__doc__)
        return 2
    if args[0] == "--setup":
        b = build_all(clean=False)
        if not b["ok"]:
            print("setup failed at stage", b["stage"])
            print(b["log"][-4000:])
            return 1
        print("setup ok")
        return 0
    pid = args[0]
    tier = os.environ.get("VERIF_TIER", "quick")
    replay = None
    i = 1
    while i < len(args):
        if args[i] == "--tier":
            tier = args[i + 1]; i += 2
        elif args[i] == "--replay":
            replay = args[i + 1]; i += 2
        else:
            i += 1
    seed = int(os.environ.get("VERIF_SEED", "1") or "1")
    if replay:
        b = build_all()
        d = json.load(open(replay))
        case = d.get("case")
        if not case:
            print(json.dumps(d, indent=1))
            return 0
        rc, mout, _ = run_lines([DRIVER], case + "\n")
        if case.startswith("req "):
            # typed request: the model supplies the wire bytes, the real decoder reads them
            parts = mout.strip().split(" | ")
            head = parts[0].split(" ")
            dec = "decode %s %s\n" % (head[1], head[2])
            rc, iout, _ = run_lines([VH, "run"], dec)
            print("wire:  ", head[2])
            print("spec:  ", parts[1] if len(parts) > 1 else "")
            mout = parts[2] if len(parts) > 2 else mout
        else:
            rc, iout, _ = run_lines([VH, "run"], case + "\n")
        print("case:  ", case)
        print("impl:  ", iout.strip())
        print("model: ", mout.strip())
        return 0
    if pid not in CHECKS:
        print("no check registered for", pid)
        return 2
    return run_check(pid, tier, seed)


if __name__ == "__main__":
    sys.exit(main())
