#!/usr/bin/env python3
"""Run the checks against the seeded changes kept under /verif/seeded/<name>/.

usage: tools/seeded.py [name ...]     (default: all)
Each directory holds patch.diff (applies to /repo's HEAD), meta.json
(property, optional "checks": list of property ids expected to alarm) and the
demonstration.  For every seeded change: git -C /repo apply, run the quick
check of the target property (and of every property listed in meta.checks),
git -C /repo checkout -- . ; results are written to seeded/RESULTS.json.
/repo must be clean when this starts; it is left clean.
"""
import json, os, subprocess, sys, time

ROOT = os.path.dirname(os.path.dirname(os.path.abspath(__file__)))
SEEDED = os.path.join(ROOT, "seeded")
ENV = dict(os.environ, GOFLAGS="-mod=mod", GOPROXY="off", GOSUMDB="off", GOTOOLCHAIN="local", VERIF_NO_CLEAN="1")


def sh(cmd, **kw):
    p = subprocess.run(cmd, shell=True, stdout=subprocess.PIPE, stderr=subprocess.STDOUT, text=True, errors="replace", **kw)
    return p.returncode, p.stdout


def main():
    names = sys.argv[1:] or sorted(d for d in os.listdir(SEEDED) if os.path.isdir(os.path.join(SEEDED, d)))
    rc, out = sh("git -C /repo status --porcelain")
    if out.strip():
        print("refusing: /repo is not clean:\n" + out)
        return 2
    respath = os.path.join(SEEDED, "RESULTS.json")
    results = json.load(open(respath)) if os.path.exists(respath) else {}
    tier = os.environ.get("SEEDED_TIER", "quick")
    try:
        for name in names:
            d = os.path.join(SEEDED, name)
            meta = json.load(open(os.path.join(d, "meta.json")))
            rc, out = sh("git -C /repo apply %s" % os.path.join(d, "patch.diff"))
            if rc != 0:
                print("%s: patch does not apply: %s" % (name, out))
                results[name] = dict(applied=False)
                continue
            entry = dict(applied=True, property=meta["property"], checks={})
            for pid in [meta["property"]] + [c for c in meta.get("also", []) if c != meta["property"]]:
                t0 = time.time()
                rc, out = sh("python3 tools/check.py %s --tier %s" % (pid, tier), cwd=ROOT, env=ENV)
                viol = [l for l in out.splitlines() if l.startswith("VIOLATION")]
                replay = ""
                if viol:
                    rp = viol[0].split("replay=")[1].split()[0]
                    try:
                        r = json.load(open(rp))
                        replay = (r.get("key") or r.get("kind") or "") + " | " + str(r.get("why") or r.get("broken_obligations") or r.get("correspondence"))[:300]
                    except Exception as e:
                        replay = "unreadable replay %r" % (e,)
                entry["checks"][pid] = dict(exit=rc, violation=viol[0] if viol else "", detail=replay, wall=round(time.time() - t0, 1))
                print("%s  %s  exit=%d  %s  %s" % (name, pid, rc, viol[0] if viol else "no alarm", replay[:160]))
            # (a change may add files: take the patch back first, then restore whatever is left)
            sh("git -C /repo apply -R %s" % os.path.join(d, "patch.diff"))
            sh("git -C /repo checkout -- .")
            entry["caught"] = any(c["exit"] != 0 for c in entry["checks"].values())
            results[name] = entry
            json.dump(results, open(respath, "w"), indent=1, sort_keys=True)
    finally:
        sh("git -C /repo checkout -- .")
    # restore the access table / build products for the clean tree
    sh("python3 tools/check.py --setup", cwd=ROOT, env=ENV)
    missed = [n for n in names if results.get(n, {}).get("applied") and not results[n]["caught"]]
    print("seeded changes run: %d, missed: %s" % (len(names), missed))
    return 0


if __name__ == "__main__":
    sys.exit(main())
