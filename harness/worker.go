package main

// vh worker: hosts a real gldap.Server in its own process, with handlers whose
// behaviour is scripted per message id (barriers, panics, writes, StartTLS), an
// OnClose callback that can be held, and an event log on stdout stamped by one
// atomic counter.  Commands arrive on stdin.  The parent (life.go) plays the
// clients and can abandon a hung or dead worker.

import (
	"io"
	"bufio"
	"crypto/tls"
	"fmt"
	"net"
	"os"
	"runtime"
	"strconv"
	"strings"
	"sync"
	"sync/atomic"
	"syscall"
	"time"

	"github.com/hashicorp/go-hclog"
	"github.com/jimlambrt/gldap"
	"github.com/jimlambrt/gldap/testdirectory"
)

func init() { commands["worker"] = cmdWorker }

type worker struct {
	mu       sync.Mutex
	out      *bufio.Writer
	seq      int64
	srv      *gldap.Server
	addr     string
	scripts  map[int64][]string
	barriers map[string]chan struct{}
	holdMu   sync.Mutex
	holdCh   chan struct{} // non-nil while OnClose is held
	tlsConf  *tls.Config
	busy     net.Listener
	busyServer *gldap.Server // addr=dup: the gldap server that already listens on the address
	stops    int64
	runOpts  []gldap.Option
	dir      *testdirectory.Directory
	oldLimit syscall.Rlimit
	autoAddr bool
	parkMu   sync.Mutex
	parkPat  string
	parkCh   chan struct{}
}

// parkLogger is the logger handed to the server: silent, except that a log line containing
// the armed pattern blocks its goroutine until released.  It lets a scenario hold gldap's own
// goroutines at a chosen program point without touching gldap.
type parkLogger struct {
	hclog.Logger
	w         *worker
	stopDelay time.Duration // fixed before the server starts: read without any synchronisation
	noPark    bool          // fixed before the server starts: the logger never takes a lock
}

func (p *parkLogger) maybePark(msg string) {
	if p.noPark {
		return
	}
	if p.stopDelay > 0 && strings.Contains(msg, "waiting on connections to close") {
		// Stop dawdles between its interrupt pass and connWg.Wait.  A delay, not a rendez-vous,
		// and no lock on this path: nothing here may order Stop after another goroutine, or
		// the race detector would take the two for synchronised.
		time.Sleep(p.stopDelay)
		return
	}
	p.w.parkMu.Lock()
	pat, ch := p.w.parkPat, p.w.parkCh
	p.w.parkMu.Unlock()
	if pat != "" && strings.Contains(msg, pat) {
		p.w.ev("parked %s", strings.ReplaceAll(msg, " ", "_"))
		<-ch
	}
}
func (p *parkLogger) Debug(msg string, args ...interface{}) { p.maybePark(msg) }
func (p *parkLogger) Info(msg string, args ...interface{})  { p.maybePark(msg) }
func (p *parkLogger) Warn(msg string, args ...interface{})  { p.maybePark(msg) }
func (p *parkLogger) Error(msg string, args ...interface{}) { p.maybePark(msg) }
func (p *parkLogger) Trace(msg string, args ...interface{}) { p.maybePark(msg) }

func (w *worker) ev(format string, args ...interface{}) {
	n := atomic.AddInt64(&w.seq, 1)
	w.mu.Lock()
	fmt.Fprintf(w.out, "EV %d %s\n", n, fmt.Sprintf(format, args...))
	w.out.Flush()
	w.mu.Unlock()
}

func (w *worker) barrier(name string) chan struct{} {
	w.mu.Lock()
	defer w.mu.Unlock()
	ch, ok := w.barriers[name]
	if !ok {
		ch = make(chan struct{})
		w.barriers[name] = ch
	}
	return ch
}

func (w *worker) scriptFor(msgid int64) []string {
	w.mu.Lock()
	defer w.mu.Unlock()
	return w.scripts[msgid]
}

// runScript executes the scripted steps of one handler invocation
func (w *worker) runScript(kind string, rw *gldap.ResponseWriter, r *gldap.Request) {
	msgid := gldap.VerifMessageID(r)
	w.ev("h-start %d %d %s %d", r.ConnectionID(), r.ID, kind, msgid)
	for _, st := range w.scriptFor(msgid) {
		switch {
		case st == "p":
			panic(fmt.Sprintf("scripted panic in handler for message %d", msgid))
		case st == "w" || st == "W":
			n, size := 1, 16
			if st == "W" {
				n, size = 256, 65536
			}
			for i := 0; i < n; i++ {
				var resp gldap.Response
				diag := strings.Repeat("x", size)
				switch kind {
				case "n":
					d := r.NewSearchDoneResponse(gldap.WithResponseCode(gldap.ResultSuccess))
					d.SetDiagnosticMessage(diag)
					resp = d
				default:
					e := r.NewExtendedResponse(gldap.WithResponseCode(gldap.ResultSuccess))
					e.SetDiagnosticMessage(diag)
					resp = e
				}
				if err := rw.Write(resp); err != nil {
					w.ev("h-write-err %d %d", r.ConnectionID(), r.ID)
					break
				}
			}
		case strings.HasPrefix(st, "F") || strings.HasPrefix(st, "E") || strings.HasPrefix(st, "X") || strings.HasPrefix(st, "S"):
			// F<n>x<size>: n identifiable frames "<msgid>:<i>:" padded to size, as SearchResultDone;
			// E: as SearchResultEntry (identity in the DN); X: entry, done, general response in turn
			var n, size int
			fmt.Sscanf(st[1:], "%dx%d", &n, &size)
			for i := 0; i < n; i++ {
				diag := fmt.Sprintf("%d:%d:", msgid, i)
				want := size
				if st[0] == 'S' {
					want = size + i // S<n>x<size>: sizes size, size+1, ..., size+n-1 (a sweep across a length boundary)
				}
				if len(diag) < want {
					diag += strings.Repeat("p", want-len(diag))
				}
				var resp gldap.Response
				kindOf := 1
				switch st[0] {
				case 'E':
					kindOf = 0
				case 'X':
					kindOf = i % 3
				}
				switch kindOf {
				case 0:
					resp = r.NewSearchResponseEntry(diag)
				case 1:
					d := r.NewSearchDoneResponse(gldap.WithResponseCode(gldap.ResultSuccess))
					d.SetDiagnosticMessage(diag)
					resp = d
				default:
					g := r.NewResponse(gldap.WithResponseCode(gldap.ResultSuccess), gldap.WithApplicationCode(gldap.ApplicationSearchResultDone))
					g.SetDiagnosticMessage(diag)
					resp = g
				}
				if err := rw.Write(resp); err != nil {
					w.ev("h-write-err %d %d %d", r.ConnectionID(), r.ID, i)
					break
				}
				w.ev("h-wrote %d %d", msgid, i)
			}
		case st == "pw":
			// a panic INSIDE ResponseWriter.Write: the response's encoding panics (a nil control)
			d := r.NewBindResponse(gldap.WithResponseCode(gldap.ResultSuccess))
			d.SetControls(nil)
			_ = rw.Write(d)
		case st == "hs":
			if err := r.StartTLS(w.tlsConf); err != nil {
				w.ev("h-starttls-err %d %d", r.ConnectionID(), r.ID)
			} else {
				w.ev("h-starttls-ok %d %d", r.ConnectionID(), r.ID)
			}
		case strings.HasPrefix(st, "b"):
			<-w.barrier(st[1:])
		case strings.HasPrefix(st, "s"): // sleep milliseconds (timing scripts; not a model step)
			ms, _ := strconv.Atoi(st[1:])
			time.Sleep(time.Duration(ms) * time.Millisecond)
		}
	}
	w.ev("h-end %d %d", r.ConnectionID(), r.ID)
}

func cmdWorker(args []string) int {
	w := &worker{out: bufio.NewWriter(os.Stdout), scripts: map[int64][]string{}, barriers: map[string]chan struct{}{}}
	sc := bufio.NewScanner(os.Stdin)
	sc.Buffer(make([]byte, 1<<16), 1<<24)
	for sc.Scan() {
		f := strings.Fields(sc.Text())
		if len(f) == 0 {
			continue
		}
		switch f[0] {
		case "start":
			w.start(f[1:])
		case "script":
			id, _ := strconv.ParseInt(f[1], 10, 64)
			w.mu.Lock()
			w.scripts[id] = f[2:]
			w.mu.Unlock()
			w.ev("script-ok %d", id)
		case "release":
			ch := w.barrier(f[1])
			select {
			case <-ch:
			default:
				close(ch)
			}
			w.ev("released %s", f[1])
		case "holdonclose":
			w.holdMu.Lock()
			if f[1] == "1" {
				if w.holdCh == nil {
					w.holdCh = make(chan struct{})
				}
			} else if w.holdCh != nil {
				close(w.holdCh)
				w.holdCh = nil
			}
			w.holdMu.Unlock()
			w.ev("hold %s", f[1])
		case "stop":
			k := atomic.AddInt64(&w.stops, 1)
			w.ev("stop-call %d", k)
			go func() {
				err := w.srv.Stop()
				w.ev("stop-return %d %v", k, err == nil)
			}()
		case "stopafter":
			// Stop from a goroutine that is started now and sleeps: nothing the server's goroutines
			// do in the meantime is ordered before its Stop (it reports only after Stop returned)
			ms, _ := strconv.Atoi(f[1])
			k := atomic.AddInt64(&w.stops, 1)
			go func() {
				time.Sleep(time.Duration(ms) * time.Millisecond)
				err := w.srv.Stop()
				w.ev("stop-call %d", k)
				w.ev("stop-return %d %v", k, err == nil)
			}()
			w.ev("stopafter armed")
		case "run":
			w.callRun()
		case "ready":
			if w.srv == nil {
				w.ev("ready %v", w.dir != nil)
			} else {
				w.ev("ready %v", w.srv.Ready())
			}
		case "portprobe":
			if w.busy != nil || w.busyServer != nil || !strings.Contains(w.addr, ":") {
				// the port is held by the harness itself (or there is no port): the
				// server never had a listener of its own
				w.ev("port free")
				continue
			}
			l, err := net.Listen("tcp", w.addr)
			if err != nil {
				w.ev("port bound")
			} else {
				l.Close()
				w.ev("port free")
			}
		case "stats":
			fds := 0
			if ents, err := os.ReadDir("/proc/self/fd"); err == nil {
				fds = len(ents)
			}
			w.ev("stats goroutines=%d fds=%d", runtime.NumGoroutine(), fds)
		case "logpark":
			w.parkMu.Lock()
			w.parkPat = strings.Join(f[1:], " ")
			w.parkCh = make(chan struct{})
			w.parkMu.Unlock()
			w.ev("logpark armed")
		case "logrelease":
			w.parkMu.Lock()
			if w.parkCh != nil {
				close(w.parkCh)
			}
			w.parkPat, w.parkCh = "", nil
			w.parkMu.Unlock()
			w.ev("logpark released")
		case "fdlimit":
			// descriptor exhaustion: lower RLIMIT_NOFILE to the lowest free descriptor
			// number, so that the next accept(2) fails with EMFILE; "fdlimit 0" restores it
			if f[1] == "1" {
				var cur syscall.Rlimit
				_ = syscall.Getrlimit(syscall.RLIMIT_NOFILE, &cur)
				w.oldLimit = cur
				probe, err := os.Open("/dev/null")
				if err != nil {
					w.ev("fdlimit error %v", err)
					continue
				}
				n := probe.Fd()
				probe.Close()
				lim := syscall.Rlimit{Cur: uint64(n), Max: cur.Max}
				if err := syscall.Setrlimit(syscall.RLIMIT_NOFILE, &lim); err != nil {
					w.ev("fdlimit error %v", err)
				} else {
					w.ev("fdlimit set %d", n)
				}
			} else {
				if err := syscall.Setrlimit(syscall.RLIMIT_NOFILE, &w.oldLimit); err != nil {
					w.ev("fdlimit error %v", err)
				} else {
					w.ev("fdlimit restored")
				}
			}
		case "mutate":
			ms, _ := strconv.Atoi(f[1])
			w.mutateDirectory(time.Duration(ms) * time.Millisecond)
		case "quit":
			return 0
		}
	}
	return 0
}

func (w *worker) start(opts []string) {
	o := map[string]string{"recovery": "1", "onclose": "1", "unbind": "1", "tls": "none", "addr": "auto", "default": "0", "readtimeout": "0"}
	for _, kv := range opts {
		p := strings.SplitN(kv, "=", 2)
		if len(p) == 2 {
			o[p[0]] = p[1]
		}
	}
	if o["dir"] == "1" {
		w.startDirectory(o)
		return
	}
	var sopts []gldap.Option
	sd, _ := strconv.Atoi(o["stopdelay"])
	// loglevel=debug|trace: everything gldap does only when its logger is at that level (packet
	// dumps of requests and responses, hex dumps) runs; the output is thrown away
	lvl := hclog.Off
	switch o["loglevel"] {
	case "debug":
		lvl = hclog.Debug
	case "trace":
		lvl = hclog.Trace
	}
	sopts = append(sopts, gldap.WithLogger(&parkLogger{Logger: hclog.New(&hclog.LoggerOptions{Level: lvl, Output: io.Discard}), w: w, stopDelay: time.Duration(sd) * time.Millisecond, noPark: o["nopark"] == "1"}))
	if o["recovery"] == "0" {
		sopts = append(sopts, gldap.WithDisablePanicRecovery())
	}
	if o["onclose"] == "1" {
		sopts = append(sopts, gldap.WithOnClose(func(id int) {
			w.ev("onclose-enter %d", id)
			w.holdMu.Lock()
			ch := w.holdCh
			w.holdMu.Unlock()
			if ch != nil {
				<-ch
			}
			w.ev("onclose-leave %d", id)
		}))
	}
	if ms, _ := strconv.Atoi(o["readtimeout"]); ms > 0 {
		sopts = append(sopts, gldap.WithReadTimeout(time.Duration(ms)*time.Millisecond))
	}
	if ms, _ := strconv.Atoi(o["writetimeout"]); ms > 0 {
		sopts = append(sopts, gldap.WithWriteTimeout(time.Duration(ms)*time.Millisecond))
	}
	srv, err := gldap.NewServer(sopts...)
	if err != nil {
		w.ev("start-err %v", err)
		return
	}
	w.srv = srv
	mux, _ := gldap.NewMux()
	h := func(kind string) gldap.HandlerFunc {
		return func(rw *gldap.ResponseWriter, r *gldap.Request) { w.runScript(kind, rw, r) }
	}
	if o["dflt"] != "1" && o["dflt"] != "2" {
		_ = mux.Search(h("n"))
		_ = mux.Bind(h("n"))
		_ = mux.Modify(h("n"))
		_ = mux.Add(h("n"))
		_ = mux.Delete(h("n"))
	} else if o["dflt"] == "1" {
		// the ordinary operations reach their handler through the mux's fall-back path
		_ = mux.DefaultRoute(h("n"))
	}
	if o["dflt"] != "2" {
		_ = mux.ExtendedOperation(h("t"), gldap.ExtendedOperationStartTLS)
	} else {
		// dflt=2: the default route is the only route there is - also for StartTLS requests
		// (an extended request is what is left when it is none of the other operations)
		_ = mux.DefaultRoute(func(rw *gldap.ResponseWriter, r *gldap.Request) {
			kind := "t"
			if _, err := r.GetSimpleBindMessage(); err == nil {
				kind = "n"
			} else if _, err := r.GetSearchMessage(); err == nil {
				kind = "n"
			} else if _, err := r.GetModifyMessage(); err == nil {
				kind = "n"
			} else if _, err := r.GetAddMessage(); err == nil {
				kind = "n"
			} else if _, err := r.GetDeleteMessage(); err == nil {
				kind = "n"
			}
			w.runScript(kind, rw, r)
		})
	}
	if o["unbind"] == "1" {
		_ = mux.Unbind(h("u"))
	}
	if o["default"] == "1" {
		_ = mux.DefaultRoute(h("n"))
	}
	_ = srv.Router(mux)
	// certificates for StartTLS and TLS listeners
	srvConf, _ := harnessTLS()
	w.tlsConf = srvConf
	var runOpts []gldap.Option
	switch o["tls"] {
	case "tls":
		runOpts = append(runOpts, gldap.WithTLSConfig(srvConf))
	case "mtls":
		m := srvConf.Clone()
		m.ClientAuth = tls.RequireAndVerifyClientCert
		runOpts = append(runOpts, gldap.WithTLSConfig(m))
	case "tls-getcert", "mtls-getcert":
		// the certificate is supplied through GetCertificate instead of Certificates
		m := srvConf.Clone()
		cert := m.Certificates[0]
		m.Certificates = nil
		m.GetCertificate = func(*tls.ClientHelloInfo) (*tls.Certificate, error) { return &cert, nil }
		if o["tls"] == "mtls-getcert" {
			m.ClientAuth = tls.RequireAndVerifyClientCert
		}
		runOpts = append(runOpts, gldap.WithTLSConfig(m))
	case "tls-getconfig", "mtls-getconfig":
		// everything, the certificate included, comes from GetConfigForClient
		inner := srvConf.Clone()
		if o["tls"] == "mtls-getconfig" {
			inner.ClientAuth = tls.RequireAndVerifyClientCert
		}
		outer := &tls.Config{MinVersion: tls.VersionTLS12,
			GetConfigForClient: func(*tls.ClientHelloInfo) (*tls.Config, error) { return inner, nil }}
		runOpts = append(runOpts, gldap.WithTLSConfig(outer))
	}
	addr := o["addr"]
	switch addr {
	case "auto", "busy":
		l, err := net.Listen("tcp", "127.0.0.1:0")
		if err != nil {
			w.ev("start-err %v", err)
			return
		}
		addr = l.Addr().String()
		if o["addr"] == "busy" {
			w.busy = l // keep the port occupied
		} else {
			l.Close()
			w.autoAddr = true
		}
	case "dup":
		// the address is in use by ANOTHER gldap server (same process, same options): the second
		// Run on it must fail like on any other busy port
		first, err := gldap.NewServer(gldap.WithLogger(hclog.New(&hclog.LoggerOptions{Level: hclog.Off})))
		if err != nil {
			w.ev("start-err %v", err)
			return
		}
		m0, _ := gldap.NewMux()
		_ = m0.DefaultRoute(func(rw *gldap.ResponseWriter, r *gldap.Request) {})
		_ = first.Router(m0)
		l, err := net.Listen("tcp", "127.0.0.1:0")
		if err != nil {
			w.ev("start-err %v", err)
			return
		}
		addr = l.Addr().String()
		l.Close()
		go func() { _ = first.Run(addr, runOpts...) }()
		for i := 0; i < 2000 && !first.Ready(); i++ {
			time.Sleep(time.Millisecond)
		}
		w.busyServer = first
	case "bad":
		addr = "127.0.0.1"
	}
	w.addr = addr
	w.runOpts = runOpts
	w.ev("addr %s", addr)
	if o["norun"] == "1" {
		return
	}
	w.callRun()
}

func (w *worker) callRun() {
	w.ev("run-call")
	go func() {
		err := w.srv.Run(w.addr, w.runOpts...)
		// the free port the worker picked can be taken by another process before Run binds it
		// (many workers run in parallel): that is the harness's collision, not the scenario's -
		// pick another port and call Run again
		for attempt := 0; attempt < 5 && err != nil && w.autoAddr && strings.Contains(err.Error(), "address already in use"); attempt++ {
			l, lerr := net.Listen("tcp", "127.0.0.1:0")
			if lerr != nil {
				break
			}
			w.addr = l.Addr().String()
			l.Close()
			w.ev("addr %s", w.addr)
			err = w.srv.Run(w.addr, w.runOpts...)
		}
		if err != nil {
			w.ev("run-return err")
		} else {
			w.ev("run-return ok")
		}
	}()
}

// startDirectory hosts the real test directory (TLS by default, mTLS with
// tls=mtls) and leaves its CA / client certificate in the cert directory
func (w *worker) startDirectory(o map[string]string) {
	qt := &quietT{}
	logger := hclog.New(&hclog.LoggerOptions{Level: hclog.Off})
	opts := []testdirectory.Option{testdirectory.WithLogger(qt, logger),
		testdirectory.WithDefaults(qt, &testdirectory.Defaults{AllowAnonymousBind: true,
			Users: testdirectory.NewUsers(qt, []string{"alice", "bob"})})}
	if o["tls"] == "mtls" {
		opts = append(opts, testdirectory.WithMTLS(qt))
	}
	if o["tls"] == "none" {
		opts = append(opts, testdirectory.WithNoTLS(qt))
	}
	td := testdirectory.Start(qt, opts...)
	for attempt := 0; attempt < 5 && qt.failed; attempt++ {
		// the free port was taken by another process before the directory bound it
		td.Stop()
		qt.mu.Lock()
		qt.failed, qt.msgs = false, nil
		qt.mu.Unlock()
		td = testdirectory.Start(qt, opts...)
	}
	w.dir = td
	if o["tls"] == "none" {
		w.addr = fmt.Sprintf("%s:%d", td.Host(), td.Port())
		w.ev("addr %s", w.addr)
		return
	}
	d := certDir()
	_ = os.MkdirAll(d, 0o700)
	_ = os.WriteFile(d+"/dirca.pem", []byte(td.Cert()), 0o600)
	if o["tls"] == "mtls" {
		_ = os.WriteFile(d+"/dirclient.pem", []byte(td.ClientCert()), 0o600)
		_ = os.WriteFile(d+"/dirclient.key", []byte(td.ClientKey()), 0o600)
	} else {
		_ = os.Remove(d + "/dirclient.pem")
		_ = os.Remove(d + "/dirclient.key")
	}
	w.addr = fmt.Sprintf("%s:%d", td.Host(), td.Port())
	w.ev("addr %s", w.addr)
}

// mutateDirectory calls the directory's Set* methods and getters in a loop for
// the given time, while clients are being served (C15)
func (w *worker) mutateDirectory(d time.Duration) {
	qt := &quietT{}
	td := w.dir
	go func() {
		deadline := time.Now().Add(d)
		i := 0
		for time.Now().Before(deadline) {
			i++
			td.SetUsers(testdirectory.NewUsers(qt, []string{"alice", "bob", fmt.Sprintf("u%d", i%5)})...)
			td.SetGroups(testdirectory.NewGroup(qt, "admin", []string{"alice"}))
			td.SetAllowAnonymousBind(i%2 == 0)
			c, _ := gldap.NewControlString("1.2.3", gldap.WithControlValue("v"))
			td.SetControls(c)
			_ = len(td.Users()) + len(td.Groups()) + len(td.Controls())
			_ = td.AllowAnonymousBind()
			time.Sleep(200 * time.Microsecond)
		}
		w.ev("mutate-done")
	}()
}
