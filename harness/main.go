// Command vh is the Go side of the correspondence check: it generates cases,
// runs the real gldap code (built from /repo with -tags verif) on them and
// prints one canonical line per case, in the same format as the OCaml driver
// of the extracted Coq model.
package main

import (
	"bufio"
	"fmt"
	"os"
	"strconv"
	"strings"
)

func usage() {
	fmt.Fprintln(os.Stderr, "usage: vh gen <prop> <seed> <n> <tier> | vh run  (cases on stdin) | vh life ...")
	os.Exit(2)
}

func main() {
	if len(os.Args) < 2 {
		usage()
	}
	out := bufio.NewWriterSize(os.Stdout, 1<<20)
	defer out.Flush()
	switch os.Args[1] {
	case "gen":
		if len(os.Args) < 6 {
			usage()
		}
		seed, _ := strconv.ParseUint(os.Args[3], 10, 64)
		n, _ := strconv.Atoi(os.Args[4])
		g := &Gen{rng: NewRNG(seed), out: out, tier: os.Args[5], n: n}
		fn, ok := generators[os.Args[2]]
		if !ok {
			fmt.Fprintln(os.Stderr, "no generator for", os.Args[2])
			os.Exit(2)
		}
		fn(g)
	case "run":
		sc := bufio.NewScanner(os.Stdin)
		sc.Buffer(make([]byte, 1<<20), 1<<28)
		for sc.Scan() {
			line := sc.Text()
			if line == "" {
				continue
			}
			toks := strings.Fields(line)
			if len(toks) < 2 {
				continue
			}
			kind, id := toks[0], toks[1]
			t := &Toks{rest: toks[2:]}
			fn, ok := runners[kind]
			var res string
			if !ok {
				res = "HARNESS-ERROR unknown kind"
			} else {
				res = safeRun(fn, t)
			}
			fmt.Fprintf(out, "%s %s %s\n", kind, id, res)
		}
	default:
		if fn, ok := commands[os.Args[1]]; ok {
			out.Flush()
			os.Exit(fn(os.Args[2:]))
		}
		usage()
	}
}

// safeRun turns a Go panic inside the code under test into the observation PANIC.
func safeRun(fn func(*Toks) string, t *Toks) (res string) {
	defer func() {
		if r := recover(); r != nil {
			if he, ok := r.(harnessError); ok {
				res = "HARNESS-ERROR " + string(he)
				return
			}
			res = "PANIC"
		}
	}()
	return fn(t)
}

type harnessError string

var generators = map[string]func(*Gen){}
var runners = map[string]func(*Toks) string{}
var commands = map[string]func([]string) int{}
