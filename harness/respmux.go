package main

// C04 (responses), C03 (mux) and the constructor/registration part of C16:
// runners over the public API + real ResponseWriter.Write / (*Mux).serve, a
// strict response parser independent of gldap, and the generators.

import (
	"bufio"
	"bytes"
	"fmt"
	"io"
	"sort"
	"strconv"
	"strings"
	"sync"

	"github.com/jimlambrt/gldap"
)

func init() {
	generators["c04"] = genC04
	generators["c03"] = genC03
	generators["c03seq"] = genC03Seq
	generators["c14resp"] = genC14Resp
	generators["c16b"] = genC16b
	runners["resp"] = runResp
	runners["serve"] = runServe
	runners["serveseq"] = runServeSeq
	runners["muxreg"] = runMuxReg
}

// requestWithID decodes a real Delete request carrying the message id, through
// the real read path, so that New*Response has a genuine *Request to copy from.
func requestFromTyped(q *TReq, router *gldap.Mux, w io.Writer) (*gldap.VerifConn, *gldap.Request) {
	frame := encodeReq(q).encode()
	c := gldap.VerifNewConn(bytes.NewReader(frame), w, router, 7)
	r, err := c.ReadRequest(3)
	if err != nil {
		panic(harnessError("cannot decode the carrier request: " + err.Error()))
	}
	return c, r
}

type respSetter func(interface{})

func parseGoMap(t *Toks) map[string][]string {
	k := t.Int()
	m := map[string][]string{}
	for i := 0; i < k; i++ {
		name := t.Str()
		m[name] = t.StrList()
	}
	return m
}

func runResp(t *Toks) string {
	id := int64T(t)
	kind := t.Next()
	dn := t.Str()
	nopt := t.Int()
	var opts []gldap.Option
	mapKeys := 0
	for i := 0; i < nopt; i++ {
		switch t.Next() {
		case "diag":
			opts = append(opts, gldap.WithDiagnosticMessage(t.Str()))
		case "matched":
			opts = append(opts, gldap.WithMatchedDN(t.Str()))
		case "code":
			opts = append(opts, gldap.WithResponseCode(int(int64T(t))))
		case "app":
			opts = append(opts, gldap.WithApplicationCode(int(int64T(t))))
		case "attrs":
			m := parseGoMap(t)
			mapKeys = len(m)
			opts = append(opts, gldap.WithAttributes(m))
		case "nil":
			opts = append(opts, nil)
		case "other":
			opts = append(opts, gldap.WithCriticality(true))
		}
	}
	var buf bytes.Buffer
	// the request the response is made from: nothing of it but its message id
	// may show in the response, so the carrier varies with the case (for an
	// entry: mostly a search, with and without typesOnly)
	one := []byte("v")
	carriers := []*TReq{
		{Kind: "del", DN: []byte("cn=carrier")},
		{Kind: "search", DN: []byte("dc=carrier"), Scope: 2, TypesOnly: true, Filter: &TFilter{Kind: "present", A: []byte("cn")}, Attrs: [][]byte{[]byte("cn")}},
		{Kind: "search", DN: []byte("dc=carrier"), Scope: 1, Size: 1, Time: 1, Filter: &TFilter{Kind: "eq", A: []byte("cn"), V: one}},
		{Kind: "bind", DN: []byte("cn=carrier"), PW: []byte("pw"), Ctrls: []TControl{{Kind: "managedsait", Crit: true}}},
		{Kind: "modify", DN: []byte("cn=carrier"), Changes: []TChange{{Op: 2, Type: []byte("mail"), Vals: [][]byte{one}}}},
		{Kind: "add", DN: []byte("cn=carrier"), AddAttrs: []TAttr{{Type: []byte("cn"), Vals: [][]byte{one}}}},
		{Kind: "ext", Name: []byte("1.3.6.1.4.1.1466.20037")},
		{Kind: "search", DN: nil, Scope: 0, TypesOnly: true, Filter: &TFilter{Kind: "present", A: []byte("objectClass")}, Ctrls: []TControl{{Kind: "paging", Size: 2}}},
	}
	h := uint64(id) + uint64(len(dn))*3 + uint64(nopt)
	pick := int(h % uint64(len(carriers)))
	if kind == "entry" && h%4 != 0 {
		pick = []int{1, 2, 7}[h%3]
	}
	carrier := *carriers[pick]
	carrier.ID = id
	c, req := requestFromTyped(&carrier, nil, &buf)
	// the options are passed as a slice with one spare slot behind them, as a caller does who hands
	// a prefix of a longer option list to a constructor: that slot is the caller's, not the callee's
	full := make([]gldap.Option, len(opts)+1)
	copy(full, opts)
	full[len(opts)] = gldap.WithDiagnosticMessage("sentinel-of-the-caller")
	opts = full[:len(opts)]
	var resp gldap.Response
	type coded interface {
		SetResultCode(int)
		SetDiagnosticMessage(string)
		SetMatchedDN(string)
	}
	var base coded
	var bind *gldap.BindResponse
	var done *gldap.SearchResponseDone
	var entry *gldap.SearchResponseEntry
	var ext *gldap.ExtendedResponse
	switch kind {
	case "general":
		r := req.NewResponse(opts...)
		resp, base = r, r
	case "bind":
		bind = req.NewBindResponse(opts...)
		resp, base = bind, bind
	case "ext":
		ext = req.NewExtendedResponse(opts...)
		resp, base = ext, ext
	case "done":
		done = req.NewSearchDoneResponse(opts...)
		resp, base = done, done
	case "entry":
		entry = req.NewSearchResponseEntry(dn, opts...)
		resp, base = entry, entry
	case "modify":
		r := req.NewModifyResponse(opts...)
		resp, base = r, r
	}
	w, err := c.NewResponseWriter(3)
	if err != nil {
		return "HARNESS-ERROR writer"
	}
	{
		// the caller's spare slot after the constructor call: a general response made from the
		// whole list must show the sentinel (the last option wins)
		before := buf.Len()
		if err := w.Write(req.NewResponse(full...)); err != nil {
			return "WRITEERR"
		}
		probe := parseResponseCanon(buf.Bytes()[before:], 0)
		buf.Truncate(before)
		if !strings.Contains(probe, hxs("sentinel-of-the-caller")) {
			return "OPTIONS-SLICE-MODIFIED " + kind + " constructor changed the caller's option slice beyond the options it was given"
		}
	}
	var segs []string
	var lastCtrls []gldap.Control
	writeNow := func() bool {
		before := buf.Len()
		if err := w.Write(resp); err != nil {
			return false
		}
		out := buf.Bytes()[before:]
		h := hx(out)
		if mapKeys >= 2 {
			h = "-"
		}
		segs = append(segs, h+" | "+parseResponseCanon(out, mapKeys))
		return true
	}
	nset := t.Int()
	for i := 0; i < nset; i++ {
		switch t.Next() {
		case "write":
			// the handler writes the response now and goes on modifying it
			if !writeNow() {
				return "WRITEERR"
			}
		case "code":
			base.SetResultCode(int(int64T(t)))
		case "diag":
			base.SetDiagnosticMessage(t.Str())
		case "matched":
			base.SetMatchedDN(t.Str())
		case "ctrls":
			tcs := parseControls(t)
			var cs []gldap.Control
			for _, tc := range tcs {
				rc, err := realControl(tc)
				if err != nil {
					panic(harnessError("control ctor"))
				}
				cs = append(cs, rc)
			}
			if bind != nil {
				bind.SetControls(cs...)
			} else if done != nil {
				done.SetControls(cs...)
			}
			lastCtrls = cs
		case "mutctrls":
			// the control values handed over by the last "ctrls" are changed in place (exported
			// fields, SetCookie); SetControls is NOT called again
			tcs := parseControls(t)
			for k, tc := range tcs {
				if k >= len(lastCtrls) {
					break
				}
				switch c := lastCtrls[k].(type) {
				case *gldap.ControlPaging:
					c.PagingSize = tc.Size
					c.SetCookie(tc.Cookie)
				case *gldap.ControlString:
					c.Criticality = tc.Crit
					c.ControlValue = tc.Val
				case *gldap.ControlManageDsaIT:
					c.Criticality = tc.Crit
				}
			}
		case "addattr":
			name := t.Str()
			vals := t.StrList()
			if entry != nil {
				entry.AddAttribute(name, vals)
			}
		case "name":
			n := t.Str()
			if ext != nil {
				ext.SetResponseName(gldap.ExtendedOperationName(n))
			}
		}
	}
	if !writeNow() {
		return "WRITEERR"
	}
	return strings.Join(segs, " || ")
}

// ---------------------------------------------------------------------------
// strict response parser (independent of gldap and of go-ldap)

func parseResponseCanon(b []byte, mapKeys int) string {
	root, rest, ok := parseNode(b)
	if !ok || len(rest) != 0 {
		return "UNPARSEABLE"
	}
	return canonParsed(root, mapKeys)
}

func isUP(n *Node, tag int) bool { return n.Cls == 0 && !n.Cons && n.Tag == tag }
func isUC(n *Node, tag int) bool { return n.Cls == 0 && n.Cons && n.Tag == tag }

func intOf(b []byte) (int64, bool) {
	if len(b) == 0 || len(b) > 8 {
		return 0, false
	}
	var v int64
	if b[0]&0x80 != 0 {
		v = -1
	}
	for _, x := range b {
		v = v<<8 | int64(x)
	}
	return v, true
}

func canonParsed(root *Node, mapKeys int) string {
	if !isUC(root, 16) || len(root.Kids) < 2 || len(root.Kids) > 3 {
		return "UNPARSEABLE"
	}
	idn, op := root.Kids[0], root.Kids[1]
	if !isUP(idn, 2) {
		return "UNPARSEABLE"
	}
	id, ok := intOf(idn.Data)
	if !ok || op.Cls != 64 || !op.Cons {
		return "UNPARSEABLE"
	}
	var ctrls []string
	if len(root.Kids) == 3 {
		cp := root.Kids[2]
		if cp.Cls != 128 || !cp.Cons || cp.Tag != 0 {
			return "UNPARSEABLE"
		}
		for _, c := range cp.Kids {
			s, ok := canonRawControl(c)
			if !ok {
				return "UNPARSEABLE"
			}
			ctrls = append(ctrls, s)
		}
	}
	if op.Tag == 4 && len(op.Kids) == 2 {
		if len(ctrls) != 0 || !isUP(op.Kids[0], 4) || !isUC(op.Kids[1], 16) {
			return "UNPARSEABLE"
		}
		type attr struct {
			name string
			s    string
		}
		var as []attr
		for _, a := range op.Kids[1].Kids {
			if !isUC(a, 16) || len(a.Kids) != 2 || !isUP(a.Kids[0], 4) || !isUC(a.Kids[1], 17) {
				return "UNPARSEABLE"
			}
			var vs []string
			for _, v := range a.Kids[1].Kids {
				if !isUP(v, 4) {
					return "UNPARSEABLE"
				}
				vs = append(vs, hx(v.Data))
			}
			as = append(as, attr{hx(a.Kids[0].Data), hx(a.Kids[0].Data) + " " + listStr(vs)})
		}
		k := mapKeys
		if k > len(as) {
			k = len(as)
		}
		sort.SliceStable(as[:k], func(i, j int) bool { return as[i].name < as[j].name })
		parts := make([]string, len(as))
		for i, a := range as {
			parts[i] = a.s
		}
		return strings.Join([]string{"entry", fmt.Sprint(id), hx(op.Kids[0].Data), listStr(parts)}, " ")
	}
	if len(op.Kids) != 3 || !isUP(op.Kids[0], 10) || !isUP(op.Kids[1], 4) || !isUP(op.Kids[2], 4) {
		return "UNPARSEABLE"
	}
	code, ok := intOf(op.Kids[0].Data)
	if !ok {
		return "UNPARSEABLE"
	}
	return strings.Join([]string{"result", fmt.Sprint(id), strconv.Itoa(op.Tag), fmt.Sprint(code), hx(op.Kids[1].Data),
		hx(op.Kids[2].Data), listStr(ctrls)}, " ")
}

func canonRawControl(c *Node) (string, bool) {
	if !isUC(c, 16) || len(c.Kids) < 1 || len(c.Kids) > 3 || !isUP(c.Kids[0], 4) {
		return "", false
	}
	oid := hx(c.Kids[0].Data)
	crit, val := "0", "~"
	boolOf := func(n *Node) (string, bool) {
		if len(n.Data) != 1 {
			return "", false
		}
		if n.Data[0] != 0 {
			return "1", true
		}
		return "0", true
	}
	switch len(c.Kids) {
	case 2:
		x := c.Kids[1]
		if isUP(x, 1) {
			b, ok := boolOf(x)
			if !ok {
				return "", false
			}
			crit = b
		} else if isUP(x, 4) {
			val = hx(x.Data)
		} else {
			return "", false
		}
	case 3:
		if !isUP(c.Kids[1], 1) || !isUP(c.Kids[2], 4) {
			return "", false
		}
		b, ok := boolOf(c.Kids[1])
		if !ok {
			return "", false
		}
		crit, val = b, hx(c.Kids[2].Data)
	}
	return oid + " " + crit + " " + val, true
}

// ---------------------------------------------------------------------------
// mux

type regSpec struct {
	kind               string
	h                  int // -1 = nil handler
	base, filter, name string
	scope              int64
}

func parseRegs(t *Toks) []regSpec {
	n := t.Int()
	out := make([]regSpec, 0, n)
	for i := 0; i < n; i++ {
		r := regSpec{kind: t.Next()}
		hs := t.Next()
		if hs == "nil" {
			r.h = -1
		} else {
			r.h, _ = strconv.Atoi(hs)
		}
		switch r.kind {
		case "search":
			r.base, r.filter = t.Str(), t.Str()
			r.scope = int64T(t)
		case "ext":
			r.name = t.Str()
		}
		out = append(out, r)
	}
	return out
}

// buildMux registers the routes through the public Mux methods; handlers
// record their index.  Returns the per-registration error bits.
func buildMux(regs []regSpec, ran *[]int, mu *sync.Mutex) (*gldap.Mux, string) {
	m, _ := gldap.NewMux()
	return m, registerOn(m, regs, ran, mu)
}

func registerOn(m *gldap.Mux, regs []regSpec, ran *[]int, mu *sync.Mutex) string {
	errs := ""
	for _, r := range regs {
		var h gldap.HandlerFunc
		if r.h >= 0 {
			idx := r.h
			h = func(w *gldap.ResponseWriter, req *gldap.Request) {
				mu.Lock()
				*ran = append(*ran, idx)
				mu.Unlock()
			}
		}
		var err error
		switch r.kind {
		case "bind":
			err = m.Bind(h)
		case "search":
			var opts []gldap.Option
			if r.base != "" {
				opts = append(opts, gldap.WithBaseDN(r.base))
			}
			if r.filter != "" {
				opts = append(opts, gldap.WithFilter(r.filter))
			}
			if r.scope != 0 {
				opts = append(opts, gldap.WithScope(gldap.Scope(r.scope)))
			}
			err = m.Search(h, opts...)
		case "ext":
			err = m.ExtendedOperation(h, gldap.ExtendedOperationName(r.name))
		case "modify":
			err = m.Modify(h)
		case "add":
			err = m.Add(h)
		case "del":
			err = m.Delete(h)
		case "default":
			err = m.DefaultRoute(h)
		case "unbind":
			err = m.Unbind(h)
		}
		if err != nil {
			errs += "1"
		} else {
			errs += "0"
		}
	}
	return errs
}

func runServe(t *Toks) string {
	regs := parseRegs(t)
	q := parseReq(t)
	var ran []int
	var mu sync.Mutex
	m, _ := buildMux(regs, &ran, &mu)
	var buf bytes.Buffer
	c, req := requestFromTyped(q, m, &buf)
	w, err := c.NewResponseWriter(3)
	if err != nil {
		return "HARNESS-ERROR writer"
	}
	c.Serve(w, req)
	switch {
	case len(ran) == 1 && buf.Len() == 0:
		return "RUN " + strconv.Itoa(ran[0])
	case len(ran) > 1:
		return "MULTI " + fmt.Sprint(ran)
	case len(ran) == 1:
		return "RUN-AND-WROTE " + strconv.Itoa(ran[0])
	case buf.Len() == 0:
		return "NONE"
	}
	return "REFUSE " + parseResponseCanon(buf.Bytes(), 0)
}

// serveseq: registration calls and served requests in any order on ONE Mux
// (Mux methods may be called while the server is serving)
func runServeSeq(t *Toks) string {
	n := t.Int()
	var ran []int
	var mu sync.Mutex
	m, _ := gldap.NewMux()
	var outs []string
	for e := 0; e < n; e++ {
		switch t.Next() {
		case "reg":
			// parseRegs reads a counted list: one registration at a time here
			t.unread("1")
			regs := parseRegs(t)
			registerOn(m, regs, &ran, &mu)
		case "req":
			q := parseReq(t)
			ran = nil
			var buf bytes.Buffer
			c, req := requestFromTyped(q, m, &buf)
			w, err := c.NewResponseWriter(3)
			if err != nil {
				return "HARNESS-ERROR writer"
			}
			c.Serve(w, req)
			switch {
			case len(ran) == 1 && buf.Len() == 0:
				outs = append(outs, "RUN "+strconv.Itoa(ran[0]))
			case len(ran) > 1:
				outs = append(outs, "MULTI "+fmt.Sprint(ran))
			case len(ran) == 1:
				outs = append(outs, "RUN-AND-WROTE "+strconv.Itoa(ran[0]))
			case buf.Len() == 0:
				outs = append(outs, "NONE")
			default:
				outs = append(outs, "REFUSE "+parseResponseCanon(buf.Bytes(), 0))
			}
		default:
			return "HARNESS-ERROR event"
		}
	}
	return strings.Join(outs, " ; ")
}

func runMuxReg(t *Toks) string {
	regs := parseRegs(t)
	var ran []int
	var mu sync.Mutex
	m, errs := buildMux(regs, &ran, &mu)
	n, d, u := gldap.VerifMuxCounts(m)
	return strings.Join([]string{"OK", strconv.Itoa(n), b01(d), b01(u), "e" + errs}, " ")
}

// ---------------------------------------------------------------------------
// generators

func (g *Gen) ropt(kind string) string {
	r := g.rng
	switch r.Intn(9) {
	case 0, 1:
		return "diag " + hx(g.str())
	case 2:
		return "matched " + hx(g.str())
	case 3, 4:
		codes := []int64{0, 1, 49, 53, 32, 68, 80, 127, 128, 255, 256, 32767}
		return "code " + fmt.Sprint(codes[r.Intn(len(codes))])
	case 5:
		return "app " + strconv.Itoa(r.Intn(31))
	case 6:
		return "attrs " + g.gomapStr()
	case 7:
		return "nil"
	default:
		return "other"
	}
}

func (g *Gen) gomapStr() string {
	r := g.rng
	k := r.Intn(4)
	seen := map[string]bool{}
	var parts []string
	for j := 0; j < k; j++ {
		name := g.attrDesc()
		if seen[string(name)] {
			continue
		}
		seen[string(name)] = true
		var vs []string
		for v := r.Intn(3); v > 0; v-- {
			vs = append(vs, hx(g.str()))
		}
		parts = append(parts, hx(name)+" "+listStr(vs))
	}
	return listStr(parts)
}

func (g *Gen) setterStr(kind string) string {
	r := g.rng
	for {
		switch r.Intn(6) {
		case 0:
			codes := []int64{0, 1, 49, 53, 32, 68, 127, 128, 255, 256, 32767}
			return "code " + fmt.Sprint(codes[r.Intn(len(codes))])
		case 1:
			return "diag " + hx(g.str())
		case 2:
			return "matched " + hx(g.str())
		case 3:
			if kind == "bind" || kind == "done" {
				return "ctrls " + ctrlsStr(g.controls())
			}
		case 4:
			if kind == "entry" {
				var vs []string
				for v := r.Intn(4); v > 0; v-- {
					vs = append(vs, hx(g.str()))
				}
				return "addattr " + hx(g.attrDesc()) + " " + listStr(vs)
			}
		default:
			if kind == "ext" {
				return "name " + hxs("1.3.6.1.4.1.1466.20037")
			}
		}
	}
}

var respKinds = []string{"general", "bind", "ext", "done", "entry", "modify"}

// mutatedControls: the same controls after the handler has filled them in
func mutatedControls(cs []TControl) []TControl {
	ms := make([]TControl, len(cs))
	for k, c := range cs {
		switch c.Kind {
		case "paging":
			c.Cookie = append(append([]byte{}, c.Cookie...), 'm')
			c.Size = c.Size/2 + 1
		case "str":
			c.Crit = !c.Crit
			c.Val += "m"
		case "managedsait":
			c.Crit = !c.Crit
		}
		ms[k] = c
	}
	return ms
}

// C14, response direction: Bind and SearchDone responses with 1..6 controls of every kind, written
// as set, or after the handler changed the control values in place
func genC14Resp(g *Gen) {
	r := g.rng
	for i := 0; i < g.n; i++ {
		kind := []string{"bind", "done"}[i%2]
		cs := g.controls()
		for len(cs) == 0 {
			cs = g.controls()
		}
		sets := []string{"ctrls " + ctrlsStr(cs)}
		if r.Intn(3) == 0 {
			sets = append(sets, "write")
		}
		if r.Bool() {
			sets = append(sets, "mutctrls "+ctrlsStr(mutatedControls(cs)))
		}
		g.emit("resp", fmt.Sprint(g.msgID()), kind, hx(g.str()), "0", listStr(sets))
	}
}

func genC04(g *Gen) {
	r := g.rng
	for i := 0; i < g.n; i++ {
		kind := respKinds[i%len(respKinds)]
		var opts, sets []string
		for j := r.Intn(5); j > 0; j-- {
			opts = append(opts, g.ropt(kind))
		}
		for j := r.Intn(5); j > 0; j-- {
			sets = append(sets, g.setterStr(kind))
			if r.Intn(4) == 0 {
				sets = append(sets, "write") // written, then modified further and written again
			}
		}
		if (kind == "bind" || kind == "done") && r.Intn(4) == 0 {
			// the handler hands its controls to the response and fills them in afterwards (a paging
			// cookie is known only once the page is produced): what is written is what the
			// controls hold at the time of the Write
			cs := g.controls()
			if len(cs) == 0 {
				cs = []TControl{{Kind: "paging", Size: 2, Cookie: []byte("c")}, {Kind: "str", OID: "1.2.3.9", Val: "v"}}
			}
			sets = append(sets, "ctrls "+ctrlsStr(cs))
			if r.Bool() {
				sets = append(sets, "write")
			}
			ms := mutatedControls(cs)
			sets = append(sets, "mutctrls "+ctrlsStr(ms))
		}
		g.emit("resp", fmt.Sprint(g.msgID()), kind, hx(g.str()), listStr(opts), listStr(sets))
	}
}

// every subset and order of each constructor's options (k <= 3 distinct kinds
// out of 7, all permutations), no setters: constructor totality for C16
func genC16b(g *Gen) {
	optPool := []string{"diag 6461", "matched 636e3d78", "code 49", "app 9", "attrs 1 636e 1 76", "nil", "other"}
	var rec func(chosen []int)
	emitPerms := func(chosen []int) {
		var perm func(a []int, k int)
		perm = func(a []int, k int) {
			if k == len(a) {
				var opts []string
				for _, i := range a {
					opts = append(opts, optPool[i])
				}
				for _, kind := range respKinds {
					g.emit("resp", "5", kind, hxs("cn=e"), listStr(opts), "0")
				}
				return
			}
			for i := k; i < len(a); i++ {
				a[k], a[i] = a[i], a[k]
				perm(a, k+1)
				a[k], a[i] = a[i], a[k]
			}
		}
		perm(append([]int{}, chosen...), 0)
	}
	maxk := 3
	if g.tier == "thorough" {
		maxk = 5
	}
	rec = func(chosen []int) {
		emitPerms(chosen)
		if len(chosen) == maxk {
			return
		}
		start := 0
		if len(chosen) > 0 {
			start = chosen[len(chosen)-1] + 1
		}
		for i := start; i < len(optPool); i++ {
			rec(append(append([]int{}, chosen...), i))
		}
	}
	rec(nil)
	// Mux registration with nil and non-nil handlers
	kinds := []string{"bind", "search", "ext", "modify", "add", "del", "default", "unbind"}
	for i := 0; i < 200; i++ {
		n := g.rng.Intn(6)
		var regs []string
		for j := 0; j < n; j++ {
			regs = append(regs, g.regStr(kinds[g.rng.Intn(len(kinds))], j, g.rng.Chance(30)))
		}
		g.emit("muxreg", listStr(regs))
	}
}

func (g *Gen) regStr(kind string, h int, nilH bool) string {
	r := g.rng
	hs := strconv.Itoa(h)
	if nilH {
		hs = "nil"
	}
	switch kind {
	case "search":
		bases := []string{"", "dc=a", "DC=A", "dc=b"}
		filters := []string{"", "(cn=x)", "(CN=X)"}
		return fmt.Sprintf("search %s %s %s %d", hs, hxs(r.Pick(bases)), hxs(r.Pick(filters)), r.Intn(3))
	case "ext":
		names := []string{"1.3.6.1.4.1.1466.20037", "1.3.6.1.4.1.4203.1.11.3", "9.9"}
		return fmt.Sprintf("ext %s %s", hs, hxs(r.Pick(names)))
	default:
		return kind + " " + hs
	}
}

// route alphabet of the design: 42 route kinds x default x requests
func c03Routes() []string {
	var rs []string
	for _, k := range []string{"bind", "modify", "add", "del"} {
		rs = append(rs, k)
	}
	for _, n := range []string{"1.3.6.1.4.1.1466.20037", "1.3.6.1.4.1.4203.1.11.3", "9.9"} {
		rs = append(rs, "ext "+hxs(n))
	}
	for _, b := range []string{"", "dc=a", "DC=A", "dc=b"} {
		for _, f := range []string{"", "(cn=x)", "(CN=X)"} {
			for s := 0; s < 3; s++ {
				rs = append(rs, fmt.Sprintf("search %s %s %d", hxs(b), hxs(f), s))
			}
		}
	}
	return rs
}

func c03Requests() []string {
	var qs []string
	one := []byte("v")
	qs = append(qs, (&TReq{Kind: "bind", ID: 11, DN: []byte("cn=a"), PW: []byte("p")}).String())
	qs = append(qs, (&TReq{Kind: "modify", ID: 12, DN: []byte("cn=a"), Changes: []TChange{{Op: 0, Type: []byte("cn"), Vals: [][]byte{one}}}}).String())
	qs = append(qs, (&TReq{Kind: "add", ID: 13, DN: []byte("cn=a"), AddAttrs: []TAttr{{Type: []byte("cn"), Vals: [][]byte{one}}}}).String())
	qs = append(qs, (&TReq{Kind: "del", ID: 14, DN: []byte("cn=a")}).String())
	for _, n := range []string{"1.3.6.1.4.1.1466.20037", "1.3.6.1.4.1.4203.1.11.3", "9.9", "8.8"} {
		qs = append(qs, (&TReq{Kind: "ext", ID: 15, Name: []byte(n)}).String())
	}
	for _, b := range []string{"", "dc=a", "DC=a", "dc=b", "dc=c"} {
		for _, f := range []*TFilter{{Kind: "eq", A: []byte("cn"), V: []byte("x")}, {Kind: "eq", A: []byte("CN"), V: []byte("X")}, {Kind: "present", A: []byte("cn")}} {
			for s := int64(0); s < 3; s++ {
				qs = append(qs, (&TReq{Kind: "search", ID: 16 + s, DN: []byte(b), Scope: s, Filter: f}).String())
			}
		}
	}
	return qs
}

func insertHandler(route string, h int) string {
	f := strings.SplitN(route, " ", 2)
	if len(f) == 1 {
		return f[0] + " " + strconv.Itoa(h)
	}
	return f[0] + " " + strconv.Itoa(h) + " " + f[1]
}

func genC03(g *Gen) {
	routes := c03Routes()
	reqs := c03Requests()
	defaults := [][]string{nil, {"default 90"}, {"default 90", "default 91"}}
	emit := func(regs []string, q string) { g.emit("serve", listStr(regs), q) }
	// exhaustive: tables of length <= 1 x defaults x all requests; length 2 in thorough
	// (quick: length 2 restricted to pairs where both routes are of the request's kind)
	for _, d := range defaults {
		for _, q := range reqs {
			emit(append([]string{}, d...), q)
			for i, r1 := range routes {
				_ = i
				emit(append([]string{insertHandler(r1, 0)}, d...), q)
			}
		}
	}
	kindOf := func(s string) string { return strings.SplitN(s, " ", 2)[0] }
	reqKind := func(q string) string {
		k := kindOf(q)
		if k == "del" {
			return "del"
		}
		return k
	}
	for _, q := range reqs {
		for _, r1 := range routes {
			for _, r2 := range routes {
				if g.tier != "thorough" && !(kindOf(r1) == reqKind(q) && kindOf(r2) == reqKind(q)) {
					continue
				}
				for di, d := range defaults {
					if g.tier != "thorough" && di == 2 {
						continue
					}
					// default registered before, between or after: order must not matter
					regs := []string{insertHandler(r1, 0), insertHandler(r2, 1)}
					switch di {
					case 1:
						regs = append([]string{d[0]}, regs...)
					case 2:
						regs = []string{d[0], regs[0], d[1], regs[1]}
					}
					emit(regs, q)
				}
			}
		}
	}
	// random longer tables
	n := g.n
	for i := 0; i < n; i++ {
		l := 3 + g.rng.Intn(6)
		if g.tier == "thorough" {
			l = 3 + g.rng.Intn(30)
		}
		var regs []string
		for j := 0; j < l; j++ {
			switch g.rng.Intn(12) {
			case 0:
				regs = append(regs, "default "+strconv.Itoa(100+j))
			case 1:
				regs = append(regs, "unbind "+strconv.Itoa(200+j))
			case 2:
				regs = append(regs, insertHandler(routes[g.rng.Intn(len(routes))], 0)[:0]+strings.Replace(insertHandler(routes[g.rng.Intn(len(routes))], j), " "+strconv.Itoa(j), " nil", 1))
			default:
				regs = append(regs, insertHandler(routes[g.rng.Intn(len(routes))], j))
			}
		}
		emit(regs, reqs[g.rng.Intn(len(reqs))])
	}
}

// histories: serve, register, serve again on one Mux.  The same request is
// served before and after a registration that changes its answer (an earlier
// miss that a new route now catches, a default installed or replaced later)
func genC03Seq(g *Gen) {
	routes := c03Routes()
	reqs := c03Requests()
	kindOf := func(s string) string { return strings.SplitN(s, " ", 2)[0] }
	emit := func(evs []string) { g.emit("serveseq", listStr(evs)) }
	// systematic: [serve q; register r; serve q] and with a default before / after
	for _, q := range reqs {
		for _, r1 := range routes {
			if kindOf(r1) != kindOf(q) && g.tier != "thorough" {
				continue
			}
			emit([]string{"req " + q, "reg " + insertHandler(r1, 1), "req " + q})
			emit([]string{"reg default 90", "req " + q, "reg " + insertHandler(r1, 1), "req " + q, "reg default 91", "req " + q})
			emit([]string{"req " + q, "reg default 90", "req " + q, "reg " + insertHandler(r1, 1), "req " + q})
		}
	}
	n := g.n
	for i := 0; i < n; i++ {
		l := 4 + g.rng.Intn(10)
		q := reqs[g.rng.Intn(len(reqs))]
		var evs []string
		for j := 0; j < l; j++ {
			switch g.rng.Intn(10) {
			case 0:
				evs = append(evs, "reg default "+strconv.Itoa(100+j))
			case 1, 2, 3:
				// mostly routes of the request's own kind, so that answers change
				var r string
				for k := 0; k < 20; k++ {
					r = routes[g.rng.Intn(len(routes))]
					if kindOf(r) == kindOf(q) {
						break
					}
				}
				evs = append(evs, "reg "+insertHandler(r, j))
			case 4:
				evs = append(evs, "req "+reqs[g.rng.Intn(len(reqs))])
			default:
				evs = append(evs, "req "+q)
			}
		}
		emit(evs)
	}
}

var _ = bufio.NewReader
