package main

// vh cfgflags: the boolean fields of the LTS configuration (coq/Sys.v `config`) that stand for
// what the SOURCE does - the order of the teardown steps, where connWg.Add sits, what the
// cancelled-context branch closes, whether a failed Accept is retried, what Ready reports after
// a failed listen, whether per-request goroutines recover, whether Stop interrupts - read off
// /repo's server.go and conn.go (go/parser, no execution) and printed as coq/CfgGen.v.
// CfgTie.v proves fixed_cfg's fields equal to them.  A change that moves one of these pieces
// of code flips a flag and breaks that theorem, whatever the scenarios do.

import (
	"fmt"
	"go/ast"
	"go/parser"
	"go/token"
	"os"
	"path/filepath"
	"strings"
)

func init() { commands["cfgflags"] = cmdCfgFlags }

type srcFacts struct {
	fset *token.FileSet
	src  map[string][]byte
}

func (sf *srcFacts) text(n ast.Node) string {
	p := sf.fset.Position(n.Pos())
	e := sf.fset.Position(n.End())
	return string(sf.src[p.Filename][p.Offset:e.Offset])
}

func findMethod(files []*ast.File, recv, name string) *ast.FuncDecl {
	for _, f := range files {
		for _, d := range f.Decls {
			fd, ok := d.(*ast.FuncDecl)
			if !ok || fd.Name.Name != name || fd.Body == nil {
				continue
			}
			r := ""
			if fd.Recv != nil && len(fd.Recv.List) == 1 {
				t := fd.Recv.List[0].Type
				if s, ok := t.(*ast.StarExpr); ok {
					t = s.X
				}
				if id, ok := t.(*ast.Ident); ok {
					r = id.Name
				}
			}
			if r == recv {
				return fd
			}
		}
	}
	return nil
}

// firstPos: source offset of the first call whose text contains pat, inside n; -1 if none
func (sf *srcFacts) firstCall(n ast.Node, pat string) int {
	pos := -1
	ast.Inspect(n, func(x ast.Node) bool {
		if c, ok := x.(*ast.CallExpr); ok && pos < 0 {
			if strings.Contains(sf.text(c.Fun), pat) {
				pos = sf.fset.Position(c.Pos()).Offset
			}
		}
		return true
	})
	return pos
}

func cmdCfgFlags(args []string) int {
	root := "/repo"
	if len(args) > 0 {
		root = args[0]
	}
	sf := &srcFacts{fset: token.NewFileSet(), src: map[string][]byte{}}
	var files []*ast.File
	for _, n := range []string{"server.go", "conn.go"} {
		p := filepath.Join(root, n)
		b, err := os.ReadFile(p)
		if err != nil {
			fmt.Fprintln(os.Stderr, "cfgflags:", err)
			return 1
		}
		sf.src[p] = b
		f, err := parser.ParseFile(sf.fset, p, b, 0)
		if err != nil {
			fmt.Fprintln(os.Stderr, "cfgflags:", err)
			return 1
		}
		files = append(files, f)
	}
	run := findMethod(files, "Server", "Run")
	stop := findMethod(files, "Server", "Stop")
	serve := findMethod(files, "conn", "serveRequests")
	if run == nil || stop == nil || serve == nil {
		fmt.Fprintln(os.Stderr, "cfgflags: Run / Stop / serveRequests not found")
		return 1
	}
	flags := map[string]bool{}
	notes := map[string]string{}

	// the connection goroutine: `go func() { defer func() { <teardown> }() ... }()` inside Run
	var goLit *ast.FuncLit
	ast.Inspect(run, func(x ast.Node) bool {
		if g, ok := x.(*ast.GoStmt); ok && goLit == nil {
			if fl, ok := g.Call.Fun.(*ast.FuncLit); ok {
				goLit = fl
			}
		}
		return true
	})
	var teardown *ast.FuncLit
	if goLit != nil {
		for _, st := range goLit.Body.List {
			if d, ok := st.(*ast.DeferStmt); ok {
				if fl, ok := d.Call.Fun.(*ast.FuncLit); ok && strings.Contains(sf.text(fl), ".close()") {
					teardown = fl
					break
				}
			}
		}
	}
	if teardown == nil {
		fmt.Fprintln(os.Stderr, "cfgflags: the connection goroutine's deferred teardown was not found")
		return 1
	}
	closeAt := sf.firstCall(teardown, ".close")
	untrackAt := sf.firstCall(teardown, "untrackConn")
	oncloseAt := sf.firstCall(teardown, "onCloseHandler")
	// connWg.Done: last if it sits in a defer nested in the teardown, or textually after OnClose
	doneNested := false
	doneAt := -1
	for _, st := range teardown.Body.List {
		if d, ok := st.(*ast.DeferStmt); ok && strings.Contains(sf.text(d), "connWg.Done") {
			doneNested = true
		}
	}
	doneAt = sf.firstCall(teardown, "connWg.Done")
	if untrackAt < 0 {
		// the table may be maintained elsewhere (e.g. with the wait group): then the order is decided there
		notes["untrack_late"] = "untrackConn not called in the teardown closure"
	}
	flags["wg_last"] = doneAt >= 0 && (doneNested || (oncloseAt >= 0 && doneAt > oncloseAt && doneAt > closeAt))
	flags["untrack_late"] = untrackAt >= 0 && closeAt >= 0 && untrackAt > closeAt
	// Run's accept loop
	addAt := sf.firstCall(run, "connWg.Add")
	acceptAt := sf.firstCall(run, ".Accept")
	flags["add_before_accept"] = addAt >= 0 && acceptAt >= 0 && addAt < acceptAt
	// the cancelled-context branch at the top of the loop closes the listener
	flags["close_on_cancel"] = false
	ast.Inspect(run, func(x ast.Node) bool {
		if cc, ok := x.(*ast.CommClause); ok && cc.Comm != nil && strings.Contains(sf.text(cc.Comm), "shutdownCtx.Done()") {
			for _, st := range cc.Body {
				if strings.Contains(sf.text(st), "listener.Close()") {
					flags["close_on_cancel"] = true
				}
			}
		}
		return true
	})
	// a failed Accept: is there a `continue` in the error branch that follows it?
	flags["accept_retry"] = false
	ast.Inspect(run, func(x ast.Node) bool {
		if is, ok := x.(*ast.IfStmt); ok && sf.fset.Position(is.Pos()).Offset > acceptAt && acceptAt >= 0 &&
			sf.fset.Position(is.Pos()).Offset < acceptAt+120 && strings.Contains(sf.text(is.Cond), "err != nil") {
			ast.Inspect(is.Body, func(y ast.Node) bool {
				if b, ok := y.(*ast.BranchStmt); ok && b.Tok == token.CONTINUE {
					flags["accept_retry"] = true
				}
				return true
			})
		}
		return true
	})
	// Ready after a failed listen: listenerReady assigned `true` unconditionally next to net.Listen?
	flags["ready_on_error"] = false
	ast.Inspect(run, func(x ast.Node) bool {
		if as, ok := x.(*ast.AssignStmt); ok && len(as.Lhs) == 1 && strings.Contains(sf.text(as.Lhs[0]), "listenerReady") {
			if strings.TrimSpace(sf.text(as.Rhs[0])) == "true" {
				flags["ready_on_error"] = true
			}
		}
		return true
	})
	// per-request goroutines recover (a deferred function with recover() in the `go func` of serveRequests)
	flags["handler_rec"] = false
	ast.Inspect(serve, func(x ast.Node) bool {
		if g, ok := x.(*ast.GoStmt); ok {
			if fl, ok := g.Call.Fun.(*ast.FuncLit); ok {
				ast.Inspect(fl.Body, func(y ast.Node) bool {
					if d, ok := y.(*ast.DeferStmt); ok && strings.Contains(sf.text(d), "recover()") {
						flags["handler_rec"] = true
					}
					return true
				})
			}
		}
		return true
	})
	// Stop interrupts the connections between cancelling and waiting
	cancelAt := sf.firstCall(stop, "shutdownCancel")
	intrAt := sf.firstCall(stop, "interruptConns")
	waitAt := sf.firstCall(stop, "connWg.Wait")
	flags["stop_interrupts"] = intrAt >= 0 && cancelAt >= 0 && waitAt >= 0 && cancelAt < intrAt && intrAt < waitAt

	// ---- the control-flow skeleton the LTS is a model of ------------------------------------
	// Beyond the flags: how many ways out Stop has before it waits, how many return paths Run's
	// accept loop and the read loop have, and every place that sets a deadline on a connection
	// (Stop's interrupt relies on being the last word on deadlines).  CfgTie.v states what the
	// model was written against; a new early return, a new return path of the read loop or a new
	// deadline site breaks that theorem even if every scenario still passes.
	type kv struct {
		k string
		v int
	}
	var skel []kv
	countReturns := func(body ast.Node, before int, skipLits bool) int {
		n := 0
		var walk func(x ast.Node) bool
		walk = func(x ast.Node) bool {
			if _, ok := x.(*ast.FuncLit); ok && skipLits && x != body {
				return false
			}
			if r, ok := x.(*ast.ReturnStmt); ok {
				if before < 0 || sf.fset.Position(r.Pos()).Offset < before {
					n++
				}
			}
			return true
		}
		ast.Inspect(body, walk)
		return n
	}
	skel = append(skel, kv{"Stop.returns_before_wait", countReturns(stop.Body, waitAt, true)})
	skel = append(skel, kv{"Stop.returns", countReturns(stop.Body, -1, true)})
	skel = append(skel, kv{"Run.returns", countReturns(run.Body, -1, true)})
	if goLit != nil {
		skel = append(skel, kv{"Run.conn_goroutine.returns", countReturns(goLit.Body, -1, false) - countReturns(teardown.Body, -1, false)})
		skel = append(skel, kv{"Run.conn_goroutine.teardown.returns", countReturns(teardown.Body, -1, false)})
	}
	skel = append(skel, kv{"serveRequests.returns", countReturns(serve.Body, -1, true)})
	goStmts := func(n ast.Node) int {
		k := 0
		ast.Inspect(n, func(x ast.Node) bool {
			if _, ok := x.(*ast.GoStmt); ok {
				k++
			}
			return true
		})
		return k
	}
	// the dispatch switch of the read loop: Unbind (inline, ends the loop), StartTLS (inline),
	// everything else (its own goroutine).  A further case is a class of requests the LTS does not have
	dispatchCases := 0
	ast.Inspect(serve, func(x ast.Node) bool {
		if sw, ok := x.(*ast.SwitchStmt); ok && dispatchCases == 0 && strings.Contains(sf.text(sw), "unbindRouteOperation") {
			dispatchCases = len(sw.Body.List)
		}
		return true
	})
	skel = append(skel, kv{"serveRequests.dispatch_cases", dispatchCases})
	skel = append(skel, kv{"Run.go_statements", goStmts(run)})
	skel = append(skel, kv{"serveRequests.go_statements", goStmts(serve)})
	skel = append(skel, kv{"Stop.go_statements", goStmts(stop)})
	// deadline sites in every non-test file of the package (hook file excluded), per function
	entries, _ := os.ReadDir(root)
	dl := map[string]int{}
	chans := 0
	for _, e := range entries {
		n := e.Name()
		if !strings.HasSuffix(n, ".go") || strings.HasSuffix(n, "_test.go") || n == "verif_export.go" {
			continue
		}
		p := filepath.Join(root, n)
		b, err := os.ReadFile(p)
		if err != nil {
			continue
		}
		fs := token.NewFileSet()
		f, err := parser.ParseFile(fs, p, b, 0)
		if err != nil {
			fmt.Fprintln(os.Stderr, "cfgflags:", err)
			return 1
		}
		for _, d := range f.Decls {
			fd, ok := d.(*ast.FuncDecl)
			if !ok || fd.Body == nil {
				continue
			}
			ast.Inspect(fd.Body, func(x ast.Node) bool {
				if c, ok := x.(*ast.CallExpr); ok {
					if se, ok := c.Fun.(*ast.SelectorExpr); ok {
						switch se.Sel.Name {
						case "SetDeadline", "SetReadDeadline", "SetWriteDeadline":
							dl[fd.Name.Name+"."+se.Sel.Name]++
						}
					}
				}
				return true
			})
		}
		// package-level channels, pools and semaphores: state shared between connections that the
		// LTS does not have (its connections share the listener, the wait group, the table, the mux)
		for _, d := range f.Decls {
			gd, ok := d.(*ast.GenDecl)
			if !ok || gd.Tok != token.VAR {
				continue
			}
			for _, sp := range gd.Specs {
				vs := sp.(*ast.ValueSpec)
				txt := string(b[fs.Position(vs.Pos()).Offset:fs.Position(vs.End()).Offset])
				if strings.Contains(txt, "chan ") || strings.Contains(txt, "sync.") || strings.Contains(txt, "atomic.") {
					chans++
				}
			}
		}
	}
	var dk []string
	for k := range dl {
		dk = append(dk, k)
	}
	sortStrings(dk)
	for _, k := range dk {
		skel = append(skel, kv{"deadline:" + k, dl[k]})
	}
	skel = append(skel, kv{"package_level_sync_state", chans})

	fmt.Println("(* CfgGen.v - REGENERATED from /repo's server.go and conn.go on every run by `vh cfgflags` (harness/cfgflags.go). Do not edit. *)")
	for _, k := range []string{"handler_rec", "wg_last", "add_before_accept", "stop_interrupts", "ready_on_error", "close_on_cancel", "accept_retry", "untrack_late"} {
		fmt.Printf("Definition gen_%s : bool := %v.\n", k, flags[k])
	}
	for k, v := range notes {
		fmt.Printf("(* %s: %s *)\n", k, v)
	}
	fmt.Println("Require Import Coq.Strings.String Coq.Lists.List.\nImport ListNotations.\nOpen Scope string_scope.")
	fmt.Println("Definition gen_skeleton : list (string * nat) := [")
	for i, e := range skel {
		sep := ";"
		if i == len(skel)-1 {
			sep = ""
		}
		fmt.Printf("  (%q, %d)%s\n", e.k, e.v, sep)
	}
	fmt.Println("].")
	return 0
}

func sortStrings(a []string) {
	for i := 1; i < len(a); i++ {
		for j := i; j > 0 && a[j] < a[j-1]; j-- {
			a[j], a[j-1] = a[j-1], a[j]
		}
	}
}
