package main

// vh cfgflags: the boolean fields of the LTS configuration (coq/Sys.v `config`) that stand for
// what the SOURCE does - the order of the teardown steps, where connWg.Add sits, what the
// cancelled-context branch closes, whether a failed Accept is retried, what Ready reports after
// a failed listen, whether per-request goroutines recover, whether Stop interrupts - read off
// /repo's server.go and conn.go (go/parser, no execution) and printed as coq/CfgGen.v.
// CfgTie.v proves fixed_cfg's fields equal to them.  A change that moves one of these pieces
// of code flips a flag and breaks that theorem, whatever the scenarios do.

import (
	"fmt"
	"go/ast"
	"go/parser"
	"go/token"
	"os"
	"path/filepath"
	"strings"
)

func init() { commands["cfgflags"] = cmdCfgFlags }

type srcFacts struct {
	fset *token.FileSet
	src  map[string][]byte
}

func (sf *srcFacts) text(n ast.Node) string {
	p := sf.fset.Position(n.Pos())
	e := sf.fset.Position(n.End())
	return string(sf.src[p.Filename][p.Offset:e.Offset])
}

func findMethod(files []*ast.File, recv, name string) *ast.FuncDecl {
	for _, f := range files {
		for _, d := range f.Decls {
			fd, ok := d.(*ast.FuncDecl)
			if !ok || fd.Name.Name != name || fd.Body == nil {
				continue
			}
			r := ""
			if fd.Recv != nil && len(fd.Recv.List) == 1 {
				t := fd.Recv.List[0].Type
				if s, ok := t.(*ast.StarExpr); ok {
					t = s.X
				}
				if id, ok := t.(*ast.Ident); ok {
					r = id.Name
				}
			}
			if r == recv {
				return fd
			}
		}
	}
	return nil
}

// firstPos: source offset of the first call whose text contains pat, inside n; -1 if none
func (sf *srcFacts) firstCall(n ast.Node, pat string) int {
	pos := -1
	ast.Inspect(n, func(x ast.Node) bool {
		if c, ok := x.(*ast.CallExpr); ok && pos < 0 {
			if strings.Contains(sf.text(c.Fun), pat) {
				pos = sf.fset.Position(c.Pos()).Offset
			}
		}
		return true
	})
	return pos
}

func cmdCfgFlags(args []string) int {
	root := "/repo"
	if len(args) > 0 {
		root = args[0]
	}
	sf := &srcFacts{fset: token.NewFileSet(), src: map[string][]byte{}}
	var files []*ast.File
	for _, n := range []string{"server.go", "conn.go"} {
		p := filepath.Join(root, n)
		b, err := os.ReadFile(p)
		if err != nil {
			fmt.Fprintln(os.Stderr, "cfgflags:", err)
			return 1
		}
		sf.src[p] = b
		f, err := parser.ParseFile(sf.fset, p, b, 0)
		if err != nil {
			fmt.Fprintln(os.Stderr, "cfgflags:", err)
			return 1
		}
		files = append(files, f)
	}
	run := findMethod(files, "Server", "Run")
	stop := findMethod(files, "Server", "Stop")
	serve := findMethod(files, "conn", "serveRequests")
	if run == nil || stop == nil || serve == nil {
		fmt.Fprintln(os.Stderr, "cfgflags: Run / Stop / serveRequests not found")
		return 1
	}
	flags := map[string]bool{}
	notes := map[string]string{}

	// the connection goroutine: `go func() { defer func() { <teardown> }() ... }()` inside Run
	var goLit *ast.FuncLit
	ast.Inspect(run, func(x ast.Node) bool {
		if g, ok := x.(*ast.GoStmt); ok && goLit == nil {
			if fl, ok := g.Call.Fun.(*ast.FuncLit); ok {
				goLit = fl
			}
		}
		return true
	})
	var teardown *ast.FuncLit
	if goLit != nil {
		for _, st := range goLit.Body.List {
			if d, ok := st.(*ast.DeferStmt); ok {
				if fl, ok := d.Call.Fun.(*ast.FuncLit); ok && strings.Contains(sf.text(fl), ".close()") {
					teardown = fl
					break
				}
			}
		}
	}
	if teardown == nil {
		fmt.Fprintln(os.Stderr, "cfgflags: the connection goroutine's deferred teardown was not found")
		return 1
	}
	closeAt := sf.firstCall(teardown, ".close")
	untrackAt := sf.firstCall(teardown, "untrackConn")
	oncloseAt := sf.firstCall(teardown, "onCloseHandler")
	// connWg.Done: last if it sits in a defer nested in the teardown, or textually after OnClose
	doneNested := false
	doneAt := -1
	for _, st := range teardown.Body.List {
		if d, ok := st.(*ast.DeferStmt); ok && strings.Contains(sf.text(d), "connWg.Done") {
			doneNested = true
		}
	}
	doneAt = sf.firstCall(teardown, "connWg.Done")
	if untrackAt < 0 {
		// the table may be maintained elsewhere (e.g. with the wait group): then the order is decided there
		notes["untrack_late"] = "untrackConn not called in the teardown closure"
	}
	flags["wg_last"] = doneAt >= 0 && (doneNested || (oncloseAt >= 0 && doneAt > oncloseAt && doneAt > closeAt))
	flags["untrack_late"] = untrackAt >= 0 && closeAt >= 0 && untrackAt > closeAt
	// Run's accept loop
	addAt := sf.firstCall(run, "connWg.Add")
	acceptAt := sf.firstCall(run, ".Accept")
	flags["add_before_accept"] = addAt >= 0 && acceptAt >= 0 && addAt < acceptAt
	// the cancelled-context branch at the top of the loop closes the listener
	flags["close_on_cancel"] = false
	ast.Inspect(run, func(x ast.Node) bool {
		if cc, ok := x.(*ast.CommClause); ok && cc.Comm != nil && strings.Contains(sf.text(cc.Comm), "shutdownCtx.Done()") {
			for _, st := range cc.Body {
				if strings.Contains(sf.text(st), "listener.Close()") {
					flags["close_on_cancel"] = true
				}
			}
		}
		return true
	})
	// a failed Accept: is there a `continue` in the error branch that follows it?
	flags["accept_retry"] = false
	ast.Inspect(run, func(x ast.Node) bool {
		if is, ok := x.(*ast.IfStmt); ok && sf.fset.Position(is.Pos()).Offset > acceptAt && acceptAt >= 0 &&
			sf.fset.Position(is.Pos()).Offset < acceptAt+120 && strings.Contains(sf.text(is.Cond), "err != nil") {
			ast.Inspect(is.Body, func(y ast.Node) bool {
				if b, ok := y.(*ast.BranchStmt); ok && b.Tok == token.CONTINUE {
					flags["accept_retry"] = true
				}
				return true
			})
		}
		return true
	})
	// Ready after a failed listen: listenerReady assigned `true` unconditionally next to net.Listen?
	flags["ready_on_error"] = false
	ast.Inspect(run, func(x ast.Node) bool {
		if as, ok := x.(*ast.AssignStmt); ok && len(as.Lhs) == 1 && strings.Contains(sf.text(as.Lhs[0]), "listenerReady") {
			if strings.TrimSpace(sf.text(as.Rhs[0])) == "true" {
				flags["ready_on_error"] = true
			}
		}
		return true
	})
	// per-request goroutines recover (a deferred function with recover() in the `go func` of serveRequests)
	flags["handler_rec"] = false
	ast.Inspect(serve, func(x ast.Node) bool {
		if g, ok := x.(*ast.GoStmt); ok {
			if fl, ok := g.Call.Fun.(*ast.FuncLit); ok {
				ast.Inspect(fl.Body, func(y ast.Node) bool {
					if d, ok := y.(*ast.DeferStmt); ok && strings.Contains(sf.text(d), "recover()") {
						flags["handler_rec"] = true
					}
					return true
				})
			}
		}
		return true
	})
	// Stop interrupts the connections between cancelling and waiting
	cancelAt := sf.firstCall(stop, "shutdownCancel")
	intrAt := sf.firstCall(stop, "interruptConns")
	waitAt := sf.firstCall(stop, "connWg.Wait")
	flags["stop_interrupts"] = intrAt >= 0 && cancelAt >= 0 && waitAt >= 0 && cancelAt < intrAt && intrAt < waitAt

	fmt.Println("(* CfgGen.v - REGENERATED from /repo's server.go and conn.go on every run by `vh cfgflags` (harness/cfgflags.go). Do not edit. *)")
	for _, k := range []string{"handler_rec", "wg_last", "add_before_accept", "stop_interrupts", "ready_on_error", "close_on_cancel", "accept_retry", "untrack_late"} {
		fmt.Printf("Definition gen_%s : bool := %v.\n", k, flags[k])
	}
	for k, v := range notes {
		fmt.Printf("(* %s: %s *)\n", k, v)
	}
	return 0
}
