package main

// Typed LDAP values (requests, filters, controls) shared by the generators,
// the in-process runners and the end-to-end clients.  Serialised in the same
// prefix notation the OCaml driver parses.

import (
	"fmt"
	"strconv"
	"strings"

	"github.com/jimlambrt/gldap"
)

type TControl struct {
	Kind    string // paging behera vchuchange vchuwarn managedsait msnotif msshowdel mslinkttl str
	Size    uint32
	Cookie  []byte
	E, G, C int64
	Crit    bool
	OID     string
	Val     string
}

func (c TControl) String() string {
	switch c.Kind {
	case "paging":
		return fmt.Sprintf("paging %d %s", c.Size, hx(c.Cookie))
	case "behera":
		return fmt.Sprintf("behera %d %d %d", c.E, c.G, c.C)
	case "vchuwarn":
		return fmt.Sprintf("vchuwarn %d", c.E)
	case "managedsait":
		return "managedsait " + b01(c.Crit)
	case "str":
		return fmt.Sprintf("str %s %s %s", hxs(c.OID), b01(c.Crit), hxs(c.Val))
	default:
		return c.Kind
	}
}

func b01(b bool) string {
	if b {
		return "1"
	}
	return "0"
}

func ctrlsStr(cs []TControl) string {
	parts := make([]string, len(cs))
	for i, c := range cs {
		parts[i] = c.String()
	}
	return listStr(parts)
}

type TFilter struct {
	Kind      string // and or not eq ge le approx present sub ext
	Subs      []*TFilter
	A, V      []byte
	Init, Fin *[]byte
	Anys      [][]byte
	Rule, Typ *[]byte
	DN        bool
}

func optHex(p *[]byte) string {
	if p == nil {
		return "~"
	}
	return hx(*p)
}

func (f *TFilter) String() string {
	switch f.Kind {
	case "and", "or":
		parts := make([]string, len(f.Subs))
		for i, s := range f.Subs {
			parts[i] = s.String()
		}
		return f.Kind + " " + listStr(parts)
	case "not":
		return "not " + f.Subs[0].String()
	case "present":
		return "present " + hx(f.A)
	case "sub":
		return fmt.Sprintf("sub %s %s %s %s", hx(f.A), optHex(f.Init), hexListB(f.Anys), optHex(f.Fin))
	case "ext":
		return fmt.Sprintf("ext %s %s %s %s", optHex(f.Rule), optHex(f.Typ), hx(f.V), b01(f.DN))
	default:
		return fmt.Sprintf("%s %s %s", f.Kind, hx(f.A), hx(f.V))
	}
}

type TChange struct {
	Op   int64
	Type []byte
	Vals [][]byte
}
type TAttr struct {
	Type []byte
	Vals [][]byte
}

type TReq struct {
	Kind                     string // bind search modify add del ext unbind
	ID                       int64
	DN, PW                   []byte
	Scope, Deref, Size, Time int64
	TypesOnly                bool
	Filter                   *TFilter
	Attrs                    [][]byte
	Changes                  []TChange
	AddAttrs                 []TAttr
	Name                     []byte
	Value                    *[]byte
	Ctrls                    []TControl
}

func (r *TReq) String() string {
	id := strconv.FormatInt(r.ID, 10)
	switch r.Kind {
	case "bind":
		return strings.Join([]string{"bind", id, hx(r.DN), hx(r.PW), ctrlsStr(r.Ctrls)}, " ")
	case "search":
		return strings.Join([]string{"search", id, hx(r.DN), fmt.Sprint(r.Scope), fmt.Sprint(r.Deref), fmt.Sprint(r.Size),
			fmt.Sprint(r.Time), b01(r.TypesOnly), r.Filter.String(), hexListB(r.Attrs), ctrlsStr(r.Ctrls)}, " ")
	case "modify":
		parts := make([]string, len(r.Changes))
		for i, c := range r.Changes {
			parts[i] = fmt.Sprintf("%d %s %s", c.Op, hx(c.Type), hexListB(c.Vals))
		}
		return strings.Join([]string{"modify", id, hx(r.DN), listStr(parts), ctrlsStr(r.Ctrls)}, " ")
	case "add":
		parts := make([]string, len(r.AddAttrs))
		for i, a := range r.AddAttrs {
			parts[i] = fmt.Sprintf("%s %s", hx(a.Type), hexListB(a.Vals))
		}
		return strings.Join([]string{"add", id, hx(r.DN), listStr(parts), ctrlsStr(r.Ctrls)}, " ")
	case "del":
		return strings.Join([]string{"del", id, hx(r.DN), ctrlsStr(r.Ctrls)}, " ")
	case "ext":
		return strings.Join([]string{"ext", id, hx(r.Name), optHex(r.Value)}, " ")
	default:
		return "unbind " + id
	}
}

// ---------------------------------------------------------------------------
// canonical printing of what the real code produced

func canonControl(c gldap.Control) string {
	switch v := c.(type) {
	case *gldap.ControlPaging:
		return fmt.Sprintf("paging %d %s", v.PagingSize, hx(v.Cookie))
	case *gldap.ControlBeheraPasswordPolicy:
		code, _ := v.ErrorCode()
		return fmt.Sprintf("behera %d %d %d", v.Expire(), v.Grace(), code)
	case *gldap.ControlVChuPasswordMustChange:
		return "vchuchange"
	case *gldap.ControlVChuPasswordWarning:
		return fmt.Sprintf("vchuwarn %d", v.Expire)
	case *gldap.ControlManageDsaIT:
		return "managedsait " + b01(v.Criticality)
	case *gldap.ControlMicrosoftNotification:
		return "msnotif"
	case *gldap.ControlMicrosoftShowDeleted:
		return "msshowdel"
	case *gldap.ControlMicrosoftServerLinkTTL:
		return "mslinkttl"
	case *gldap.ControlString:
		return fmt.Sprintf("str %s %s %s", hxs(v.ControlType), b01(v.Criticality), hxs(v.ControlValue))
	default:
		return fmt.Sprintf("unknown-%T", c)
	}
}

func canonControls(cs []gldap.Control) string {
	parts := make([]string, len(cs))
	for i, c := range cs {
		parts[i] = canonControl(c)
	}
	return listStr(parts)
}

// canonRequest prints the handler-visible content of a decoded request.
func canonRequest(r *gldap.Request) string {
	if m, err := r.GetSimpleBindMessage(); err == nil {
		return strings.Join([]string{"bind", fmt.Sprint(m.GetID()), hxs(m.UserName), hxs(string(m.Password)), canonControls(m.Controls)}, " ")
	}
	if m, err := r.GetSearchMessage(); err == nil {
		return strings.Join([]string{"search", fmt.Sprint(m.GetID()), hxs(m.BaseDN), fmt.Sprint(int64(m.Scope)), fmt.Sprint(m.DerefAliases),
			fmt.Sprint(m.SizeLimit), fmt.Sprint(m.TimeLimit), b01(m.TypesOnly), hxs(m.Filter), hexList(m.Attributes), canonControls(m.Controls)}, " ")
	}
	if m, err := r.GetModifyMessage(); err == nil {
		parts := make([]string, len(m.Changes))
		for i, c := range m.Changes {
			parts[i] = fmt.Sprintf("%d %s %s", c.Operation, hxs(c.Modification.Type), hexList(c.Modification.Vals))
		}
		return strings.Join([]string{"modify", fmt.Sprint(m.GetID()), hxs(m.DN), listStr(parts), canonControls(m.Controls)}, " ")
	}
	if m, err := r.GetAddMessage(); err == nil {
		parts := make([]string, len(m.Attributes))
		for i, a := range m.Attributes {
			parts[i] = fmt.Sprintf("%s %s", hxs(a.Type), hexList(a.Vals))
		}
		return strings.Join([]string{"add", fmt.Sprint(m.GetID()), hxs(m.DN), listStr(parts), canonControls(m.Controls)}, " ")
	}
	if m, err := r.GetDeleteMessage(); err == nil {
		return strings.Join([]string{"del", fmt.Sprint(m.GetID()), hxs(m.DN), canonControls(m.Controls)}, " ")
	}
	if m, err := r.GetUnbindMessage(); err == nil {
		return "unbind " + fmt.Sprint(m.GetID())
	}
	if gldap.VerifIsExtended(r) {
		return strings.Join([]string{"ext", fmt.Sprint(gldap.VerifMessageID(r)), hxs(string(gldap.VerifExtendedName(r)))}, " ")
	}
	return "unknown-message"
}
