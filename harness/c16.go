package main

// C16: exported helpers — ConvertString, SIDBytes, SIDBytesToString, NewEntry,
// NewEntryAttribute/AddValue.  (Constructors and Mux registration: c16b.go.)

import (
	"fmt"
	"reflect"
	"strconv"
	"strings"

	"github.com/jimlambrt/gldap"
)

func init() {
	generators["c16"] = genC16
	runners["convert"] = runConvert
	runners["convertrt"] = runConvertRT
	runners["sid2s"] = runSid2s
	runners["sidb"] = runSidb
	runners["sidrt"] = runSidrt
	runners["entry"] = runEntry
	runners["addvalue"] = runAddValue
}

var convAlphabet = []byte{0x00, 0x01, 0x04, 0x1b, 0x7f, 0x80, 0x81, 0x82, 0x88, 0x89, 0xff, 0x61}

func berWrap(tag byte, s []byte) []byte {
	n := len(s)
	out := []byte{tag}
	switch {
	case n <= 127:
		out = append(out, byte(n))
	default:
		var ds []byte
		for v := n; v > 0; v >>= 8 {
			ds = append([]byte{byte(v)}, ds...)
		}
		out = append(out, 0x80|byte(len(ds)))
		out = append(out, ds...)
	}
	return append(out, s...)
}

func genC16(g *Gen) {
	r := g.rng
	// --- ConvertString: exhaustive short strings over the tag/length alphabet
	maxLen := 2
	if g.tier == "thorough" {
		maxLen = 3
	}
	var rec func(prefix []byte)
	rec = func(prefix []byte) {
		g.emit("convert", "1", hx(prefix))
		if len(prefix) == maxLen {
			return
		}
		for _, b := range convAlphabet {
			rec(append(append([]byte{}, prefix...), b))
		}
	}
	rec(nil)
	// valid wraps, both tags, boundary lengths, several per call
	for i := 0; i < g.n; i++ {
		k := r.Intn(4)
		var xs []string
		for j := 0; j < k; j++ {
			s := g.str()
			tag := byte(0x04)
			if r.Chance(30) {
				tag = 0x1b
			}
			w := berWrap(tag, s)
			switch r.Intn(12) {
			case 0: // truncated somewhere in the header
				cut := 1 + r.Intn(3)
				if cut < len(w) {
					w = w[:cut]
				}
			case 1: // long-form length announcing more octets than present
				w = []byte{tag, 0x80 | byte(1+r.Intn(9))}
				w = append(w, r.Bytes(r.Intn(4))...)
			case 2:
				w[0] = byte(r.Next())
			}
			xs = append(xs, hx(w))
		}
		g.emit("convert", listStr(xs))
	}
	for i := 0; i < g.n; i++ {
		var xs []string
		for j := r.Intn(4); j > 0; j-- {
			xs = append(xs, hx(g.str()))
		}
		tag := "4"
		if r.Chance(30) {
			tag = "27"
		}
		g.emit("convertrt", tag, listStr(xs))
	}
	// --- SID
	sidAl := []byte{0x00, 0x01, 0x02, 0x05, 0xff}
	var rec2 func(prefix []byte, max int)
	rec2 = func(prefix []byte, max int) {
		g.emit("sid2s", hx(prefix))
		if len(prefix) == max {
			return
		}
		for _, b := range sidAl {
			rec2(append(append([]byte{}, prefix...), b), max)
		}
	}
	rec2(nil, 3)
	for i := 0; i < g.n/2; i++ {
		cnt := r.Intn(6)
		b := []byte{byte(r.Next()), byte(cnt)}
		b = append(b, r.Bytes(6)...)
		b = append(b, r.Bytes(4*cnt)...)
		switch r.Intn(6) {
		case 0:
			if len(b) > 0 {
				b = b[:r.Intn(len(b))]
			}
		case 1:
			b = append(b, r.Bytes(1+r.Intn(5))...)
		case 2:
			b[1] = byte(r.Next())
		}
		g.emit("sid2s", hx(b))
	}
	revs := []int{0, 1, 2, 127, 128, 255}
	auths := []int{0, 1, 5, 255, 256, 257, 32767, 32768, 65535}
	for _, rv := range revs {
		for _, a := range auths {
			g.emit("sidb", strconv.Itoa(rv), strconv.Itoa(a))
			g.emit("sidrt", strconv.Itoa(rv), strconv.Itoa(a))
		}
	}
	for i := 0; i < g.n/4; i++ {
		g.emit("sidrt", strconv.Itoa(r.Intn(256)), strconv.Itoa(r.Intn(65536)))
	}
	// --- NewEntry: maps with 0..6 distinct keys
	for i := 0; i < g.n/2; i++ {
		k := r.Intn(7)
		seen := map[string]bool{}
		var parts []string
		cnt := 0
		for j := 0; j < k; j++ {
			var name []byte
			switch r.Intn(4) {
			case 0:
				name = []byte{byte('a' + r.Intn(3))}
			case 1:
				name = []byte{byte('a' + r.Intn(2)), byte('a' + r.Intn(2))}
			default:
				name = g.str()
				if len(name) > 20 {
					name = name[:20]
				}
			}
			if seen[string(name)] {
				continue
			}
			seen[string(name)] = true
			nv := r.Intn(4)
			var vs []string
			for v := 0; v < nv; v++ {
				vs = append(vs, hx(g.str()))
			}
			parts = append(parts, hx(name)+" "+listStr(vs))
			cnt++
		}
		g.emit("entry", hx(g.str()), strings.TrimSpace(strconv.Itoa(cnt)+" "+strings.Join(parts, " ")))
	}
	for i := 0; i < g.n/4; i++ {
		var vs, more []string
		for v := r.Intn(3); v > 0; v-- {
			vs = append(vs, hx(g.str()))
		}
		for v := r.Intn(3); v > 0; v-- {
			more = append(more, hx(g.str()))
		}
		g.emit("addvalue", hx(g.str()), listStr(vs), listStr(more))
	}
}

func runConvert(t *Toks) string {
	ss := t.StrList()
	res, err := gldap.ConvertString(ss...)
	if err != nil {
		return "ERR"
	}
	return "OK " + hexList(res)
}

// convertrt: the harness wraps each plain string itself (BER octet string or
// general string header + content) and ConvertString must give the plain
// strings back: the property's "inverts BER octet-string wrapping".
func runConvertRT(t *Toks) string {
	tag := byte(t.Int())
	plain := t.StrList()
	wrapped := make([]string, len(plain))
	for i, p := range plain {
		wrapped[i] = string(berWrap(tag, []byte(p)))
	}
	res, err := gldap.ConvertString(wrapped...)
	if err != nil {
		return "ERR"
	}
	if len(res) != len(plain) {
		return "SPECFAIL"
	}
	for i := range res {
		if res[i] != plain[i] {
			return "SPECFAIL"
		}
	}
	return "OK"
}

func parseSidString(s string) (string, bool) {
	parts := strings.Split(s, "-")
	if len(parts) < 3 || parts[0] != "S" {
		return "", false
	}
	return parts[1] + " " + parts[2] + " " + listStr(parts[3:]), true
}

func runSid2s(t *Toks) string {
	s, err := gldap.SIDBytesToString(t.Hex())
	if err != nil {
		return "ERR"
	}
	p, ok := parseSidString(s)
	if !ok {
		return "BADFORMAT " + s
	}
	return "OK " + p
}

func runSidb(t *Toks) string {
	rv, a := t.Int(), t.Int()
	b, err := gldap.SIDBytes(uint8(rv), uint16(a))
	if err != nil {
		return "ERR"
	}
	return "OK " + hx(b)
}

func runSidrt(t *Toks) string {
	rv, a := t.Int(), t.Int()
	b, err := gldap.SIDBytes(uint8(rv), uint16(a))
	if err != nil {
		return "ERR"
	}
	s, err := gldap.SIDBytesToString(b)
	if err != nil {
		return "ERR"
	}
	// the property's own words: the result is "S-r-a"
	if s != fmt.Sprintf("S-%d-%d", rv, a) {
		return "SPECFAIL " + s
	}
	p, _ := parseSidString(s)
	return "OK " + p
}

func attrStr(a *gldap.EntryAttribute) string {
	return hxs(a.Name) + " " + hexList(a.Values) + " " + hexListB(a.ByteValues)
}

func entryStr(e *gldap.Entry) string {
	parts := make([]string, 0, len(e.Attributes))
	for _, a := range e.Attributes {
		parts = append(parts, attrStr(a))
	}
	return hxs(e.DN) + " " + listStr(parts)
}

func runEntry(t *Toks) string {
	dn := t.Str()
	k := t.Int()
	m := map[string][]string{}
	for i := 0; i < k; i++ {
		name := t.Str()
		m[name] = t.StrList()
	}
	first := gldap.NewEntry(dn, m)
	// determinism: map iteration order differs between calls; results must not
	for i := 0; i < 8; i++ {
		m2 := map[string][]string{}
		for kk, v := range m {
			m2[kk] = v
		}
		again := gldap.NewEntry(dn, m2)
		if !reflect.DeepEqual(first, again) {
			return "NONDET"
		}
	}
	return "OK " + entryStr(first)
}

func runAddValue(t *Toks) string {
	name := t.Str()
	vs := t.StrList()
	more := t.StrList()
	a := gldap.NewEntryAttribute(name, vs)
	a.AddValue(more...)
	return "OK " + attrStr(a)
}
