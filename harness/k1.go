package main

// vh k1 <depth>: known finding K1.  A frame of <depth> nested constructed
// headers with indefinite length (30 80 30 80 ...) is handed to the real
// (*conn).readRequest.  go-asn1-ber's reader recurses once per level; beyond
// roughly 2.5 million levels the goroutine stack passes Go's 1 GB limit and the
// runtime kills the whole process ("fatal error: stack overflow") - no recover
// can catch that.  Run in a process of its own: exit 0 = the frame was rejected
// (or delivered) through an ordinary return.

import (
	"bytes"
	"fmt"
	"io"
	"net"
	"os"
	"strconv"
	"time"

	"github.com/jimlambrt/gldap"
)

func init() { commands["k1"] = cmdK1; commands["k4"] = cmdK4 }

// vh k4 [benign] [live]: known finding K4.  A 14-byte frame whose inner element declares a
// length of 2^31-65536 bytes (30 09 86 86 00 00 7f ff 00 00 ...): go-asn1-ber allocates the
// declared length before it reads (its only limit, MaxPacketLengthBytes, is 2^31-1 and gldap
// does not lower it).  With less than 2 GiB to spare (a container's memory limit; here: the
// address space capped by the caller with ulimit -v) the Go runtime aborts the whole process:
// "fatal error: out of memory" - not a panic, no recover can catch it.  "benign": a frame of
// the same shape declaring 3 bytes, under the same cap, as the control.
func cmdK4(args []string) int {
	frame := []byte{0x30, 0x09, 0x86, 0x86, 0x00, 0x00, 0x7f, 0xff, 0x00, 0x00, 0x7f, 0xff, 0x86, 0x86}
	label := "huge"
	live := false
	for _, a := range args {
		switch a {
		case "benign":
			frame = []byte{0x30, 0x09, 0x86, 0x86, 0x00, 0x00, 0x00, 0x00, 0x00, 0x03, 0x7f, 0xff, 0x86, 0x86}
			label = "benign"
		case "live":
			live = true
		}
	}
	if live {
		return kLive("K4", frame, label)
	}
	c := gldap.VerifNewConn(bytes.NewReader(frame), io.Discard, nil, 1)
	_, err := c.ReadRequest(1)
	fmt.Printf("K4 %s returned err=%v\n", label, err != nil)
	return 0
}

func cmdK1(args []string) int {
	depth := 3000000
	if len(args) > 0 {
		if n, err := strconv.Atoi(args[0]); err == nil {
			depth = n
		}
	}
	frame := bytes.Repeat([]byte{0x30, 0x80}, depth)
	if len(args) > 1 && args[1] == "live" {
		return kLive("K1", frame, "depth="+strconv.Itoa(depth))
	}
	c := gldap.VerifNewConn(bytes.NewReader(frame), io.Discard, nil, 1)
	_, err := c.ReadRequest(1)
	fmt.Printf("K1 depth=%d returned err=%v\n", depth, err != nil)
	return 0
}

// k1Live: the same frame sent over TCP to a running server that also serves a
// bystander connection; with the finding present the whole process (this one) dies.
func kLive(tag string, frame []byte, label string) int {
	l, err := net.Listen("tcp", "127.0.0.1:0")
	if err != nil {
		fmt.Println(tag+" setup", err)
		return 3
	}
	addr := l.Addr().String()
	l.Close()
	srv, err := gldap.NewServer()
	if err != nil {
		fmt.Println(tag+" setup", err)
		return 3
	}
	mux, _ := gldap.NewMux()
	_ = mux.DefaultRoute(func(w *gldap.ResponseWriter, r *gldap.Request) {
		_ = w.Write(r.NewResponse(gldap.WithResponseCode(gldap.ResultSuccess)))
	})
	_ = srv.Router(mux)
	go func() { _ = srv.Run(addr) }()
	for i := 0; i < 500 && !srv.Ready(); i++ {
		time.Sleep(10 * time.Millisecond)
	}
	by, err := net.Dial("tcp", addr)
	if err != nil {
		fmt.Println(tag+" setup", err)
		return 3
	}
	del := []byte{0x30, 0x08, 0x02, 0x01, 0x01, 0x4a, 0x03, 'd', 'c', '='}
	ask := func() bool {
		_ = by.SetDeadline(time.Now().Add(3 * time.Second))
		if _, err := by.Write(del); err != nil {
			return false
		}
		buf := make([]byte, 64)
		n, err := by.Read(buf)
		return err == nil && n > 0
	}
	if !ask() {
		fmt.Println(tag + " setup: bystander not served")
		return 3
	}
	at, err := net.Dial("tcp", addr)
	if err != nil {
		fmt.Println(tag+" setup", err)
		return 3
	}
	_, _ = at.Write(frame)
	_ = at.Close()
	time.Sleep(2 * time.Second)
	fmt.Printf("%s live %s bystander_served_after=%v\n", tag, label, ask())
	return 0
}

var _ = os.Exit
