package main

// C15: the directory workload under the race detector: go-ldap clients bind,
// search, add, modify and delete while the worker calls Set* and the getters.

import (
	"fmt"
	"sync"
	"time"

	"github.com/go-ldap/ldap/v3"
)

func init() {
	runners["dirrace"] = runDirRace
	generators["c15dir"] = func(g *Gen) {
		g.emit("dirrace", "400", "3")
		if g.tier == "thorough" {
			for i := 0; i < 10; i++ {
				g.emit("dirrace", "1500", "8")
			}
		}
	}
}

func runDirRace(t *Toks) string {
	ms := t.Int()
	nclients := t.Int()
	wp, err := startWorker("dir=1 tls=none", true)
	if err != nil {
		return "HARNESS-ERROR " + err.Error()
	}
	defer wp.kill()
	for dl := time.Now().Add(5 * time.Second); time.Now().Before(dl); time.Sleep(2 * time.Millisecond) {
		if a, ok := wp.ask("ready", "ready", time.Second); ok && a[0] == "true" {
			break
		}
	}
	wp.send(fmt.Sprintf("mutate %d", ms))
	var wg sync.WaitGroup
	ops := 0
	var mu sync.Mutex
	for c := 0; c < nclients; c++ {
		wg.Add(1)
		go func(c int) {
			defer wg.Done()
			conn, err := ldap.DialURL("ldap://" + wp.addr)
			if err != nil {
				return
			}
			defer conn.Close()
			deadline := time.Now().Add(time.Duration(ms) * time.Millisecond)
			for i := 0; time.Now().Before(deadline); i++ {
				dn := fmt.Sprintf("cn=r%d-%d,ou=people,dc=example,dc=org", c, i%3)
				_ = conn.Bind("cn=alice,ou=people,dc=example,dc=org", "password")
				_, _ = conn.Search(ldap.NewSearchRequest("ou=people,dc=example,dc=org", ldap.ScopeWholeSubtree, ldap.NeverDerefAliases, 0, 0, false, "(cn=alice)", nil, nil))
				_, _ = conn.Search(ldap.NewSearchRequest("ou=groups,dc=example,dc=org", ldap.ScopeWholeSubtree, ldap.NeverDerefAliases, 0, 0, false, "(cn=admin)", nil, nil))
				ar := ldap.NewAddRequest(dn, nil)
				ar.Attribute("name", []string{"x"})
				_ = conn.Add(ar)
				mr := ldap.NewModifyRequest(dn, nil)
				mr.Replace("name", []string{"y"})
				mr.Add("mail", []string{"m"})
				_ = conn.Modify(mr)
				_ = conn.Del(ldap.NewDelRequest(dn, nil))
				mu.Lock()
				ops += 6
				mu.Unlock()
			}
		}(c)
	}
	wg.Wait()
	time.Sleep(50 * time.Millisecond)
	d := raceDigest(wp.finish())
	if d != "" {
		return fmt.Sprintf("%s @ ops=%d", d, ops)
	}
	return fmt.Sprintf("OK ops=%d", ops)
}
