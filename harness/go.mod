module verifharness

go 1.20

require (
	github.com/go-asn1-ber/asn1-ber v1.5.5
	github.com/go-ldap/ldap/v3 v3.4.6
	github.com/hashicorp/go-hclog v1.6.2
	github.com/jimlambrt/gldap v0.0.0
)

require (
	github.com/Azure/go-ntlmssp v0.0.0-20221128193559-754e69321358 // indirect
	github.com/cenkalti/backoff v2.2.1+incompatible // indirect
	github.com/davecgh/go-spew v1.1.1 // indirect
	github.com/fatih/color v1.16.0 // indirect
	github.com/google/uuid v1.6.0 // indirect
	github.com/mattn/go-colorable v0.1.13 // indirect
	github.com/mattn/go-isatty v0.0.20 // indirect
	github.com/pmezard/go-difflib v1.0.0 // indirect
	github.com/stretchr/testify v1.9.0 // indirect
	golang.org/x/crypto v0.21.0 // indirect
	golang.org/x/exp v0.0.0-20240222234643-814bf88cf225 // indirect
	golang.org/x/sys v0.18.0 // indirect
	gopkg.in/yaml.v3 v3.0.1 // indirect
)

replace github.com/jimlambrt/gldap => /repo
