package main

// Certificates for the TLS / StartTLS scenarios: one CA, a server certificate
// for 127.0.0.1/localhost, a client certificate issued by the CA and a second
// CA with its own client certificate ("different CA").  Generated once per
// check run into $VERIF_CERTDIR and shared by the worker and the parent.

import (
	"crypto/ecdsa"
	"crypto/elliptic"
	"crypto/rand"
	"crypto/tls"
	"crypto/x509"
	"crypto/x509/pkix"
	"encoding/pem"
	"math/big"
	"net"
	"os"
	"path/filepath"
	"time"
)

func init() { commands["gencerts"] = func(args []string) int { _, _ = harnessTLS(); return 0 } }

func certDir() string {
	d := os.Getenv("VERIF_CERTDIR")
	if d == "" {
		d = filepath.Join(os.TempDir(), "verif-certs")
	}
	return d
}

func writePEM(path, typ string, der []byte) {
	_ = os.WriteFile(path, pem.EncodeToMemory(&pem.Block{Type: typ, Bytes: der}), 0o600)
}

func newCA(name string) (*x509.Certificate, *ecdsa.PrivateKey, []byte) {
	key, _ := ecdsa.GenerateKey(elliptic.P256(), rand.Reader)
	tmpl := &x509.Certificate{SerialNumber: big.NewInt(time.Now().UnixNano()), Subject: pkix.Name{CommonName: name},
		NotBefore: time.Now().Add(-time.Hour), NotAfter: time.Now().Add(48 * time.Hour), IsCA: true,
		KeyUsage: x509.KeyUsageCertSign | x509.KeyUsageDigitalSignature, BasicConstraintsValid: true}
	der, _ := x509.CreateCertificate(rand.Reader, tmpl, tmpl, &key.PublicKey, key)
	c, _ := x509.ParseCertificate(der)
	return c, key, der
}

func issue(ca *x509.Certificate, caKey *ecdsa.PrivateKey, name string, server bool) ([]byte, []byte) {
	key, _ := ecdsa.GenerateKey(elliptic.P256(), rand.Reader)
	tmpl := &x509.Certificate{SerialNumber: big.NewInt(time.Now().UnixNano()), Subject: pkix.Name{CommonName: name},
		NotBefore: time.Now().Add(-time.Hour), NotAfter: time.Now().Add(48 * time.Hour),
		KeyUsage: x509.KeyUsageDigitalSignature}
	if server {
		tmpl.ExtKeyUsage = []x509.ExtKeyUsage{x509.ExtKeyUsageServerAuth}
		tmpl.IPAddresses = []net.IP{net.ParseIP("127.0.0.1")}
		tmpl.DNSNames = []string{"localhost"}
	} else {
		tmpl.ExtKeyUsage = []x509.ExtKeyUsage{x509.ExtKeyUsageClientAuth}
	}
	der, _ := x509.CreateCertificate(rand.Reader, tmpl, ca, &key.PublicKey, caKey)
	kder, _ := x509.MarshalECPrivateKey(key)
	return der, kder
}

func ensureCerts() {
	d := certDir()
	if _, err := os.Stat(filepath.Join(d, "server.pem")); err == nil {
		return
	}
	_ = os.MkdirAll(d, 0o700)
	ca, caKey, caDer := newCA("verif CA")
	writePEM(filepath.Join(d, "ca.pem"), "CERTIFICATE", caDer)
	sc, sk := issue(ca, caKey, "server", true)
	writePEM(filepath.Join(d, "server.pem"), "CERTIFICATE", sc)
	writePEM(filepath.Join(d, "server.key"), "EC PRIVATE KEY", sk)
	cc, ck := issue(ca, caKey, "client", false)
	writePEM(filepath.Join(d, "client.pem"), "CERTIFICATE", cc)
	writePEM(filepath.Join(d, "client.key"), "EC PRIVATE KEY", ck)
	ca2, ca2Key, ca2Der := newCA("other CA")
	writePEM(filepath.Join(d, "ca2.pem"), "CERTIFICATE", ca2Der)
	oc, ok := issue(ca2, ca2Key, "stranger", false)
	writePEM(filepath.Join(d, "other.pem"), "CERTIFICATE", oc)
	writePEM(filepath.Join(d, "other.key"), "EC PRIVATE KEY", ok)
}

// harnessTLS returns (server config with ClientCAs set but no client auth
// demanded, client config trusting the CA without a client certificate)
func harnessTLS() (*tls.Config, *tls.Config) {
	ensureCerts()
	d := certDir()
	cert, err := tls.LoadX509KeyPair(filepath.Join(d, "server.pem"), filepath.Join(d, "server.key"))
	if err != nil {
		panic(harnessError("certs: " + err.Error()))
	}
	pool := x509.NewCertPool()
	caPEM, _ := os.ReadFile(filepath.Join(d, "ca.pem"))
	pool.AppendCertsFromPEM(caPEM)
	srv := &tls.Config{Certificates: []tls.Certificate{cert}, ClientCAs: pool, MinVersion: tls.VersionTLS12}
	cli := &tls.Config{RootCAs: pool, ServerName: "localhost", MinVersion: tls.VersionTLS12}
	return srv, cli
}

func clientCert(name string) tls.Certificate {
	d := certDir()
	c, err := tls.LoadX509KeyPair(filepath.Join(d, name+".pem"), filepath.Join(d, name+".key"))
	if err != nil {
		panic(harnessError("client cert: " + err.Error()))
	}
	return c
}
