package main

// vh consts: the values of gldap's exported constants the model relies on,
// printed as a Coq file (coq/ConstsGen.v, regenerated on every run).  Consts.v
// proves that the model's own constants are equal to them.

import (
	"fmt"
	"strings"

	"github.com/jimlambrt/gldap"
)

func init() { commands["consts"] = cmdConsts }

func coqBytes(s string) string {
	parts := make([]string, len(s))
	for i := 0; i < len(s); i++ {
		parts[i] = fmt.Sprintf("%d", s[i])
	}
	return "[" + strings.Join(parts, "; ") + "]%N"
}

func cmdConsts(args []string) int {
	fmt.Println("(* ConstsGen.v - REGENERATED from /repo's gldap package on every run by `vh consts` (harness/consts.go). Do not edit. *)")
	fmt.Println("From Coq Require Import NArith ZArith List.")
	fmt.Println("Import ListNotations.")
	z := func(name string, v int64) { fmt.Printf("Definition gen_%s : Z := %d%%Z.\n", name, v) }
	n := func(name string, v int64) { fmt.Printf("Definition gen_%s : N := %d%%N.\n", name, v) }
	b := func(name string, v string) { fmt.Printf("Definition gen_%s : list N := %s.\n", name, coqBytes(v)) }
	z("ResultSuccess", int64(gldap.ResultSuccess))
	z("ResultOperationsError", int64(gldap.ResultOperationsError))
	z("ResultProtocolError", int64(gldap.ResultProtocolError))
	z("ResultInappropriateMatching", int64(gldap.ResultInappropriateMatching))
	z("ResultNoSuchObject", int64(gldap.ResultNoSuchObject))
	z("ResultInvalidCredentials", int64(gldap.ResultInvalidCredentials))
	z("ResultUnwillingToPerform", int64(gldap.ResultUnwillingToPerform))
	z("ResultEntryAlreadyExists", int64(gldap.ResultEntryAlreadyExists))
	n("ApplicationBindRequest", int64(gldap.ApplicationBindRequest))
	n("ApplicationBindResponse", int64(gldap.ApplicationBindResponse))
	n("ApplicationUnbindRequest", int64(gldap.ApplicationUnbindRequest))
	n("ApplicationSearchRequest", int64(gldap.ApplicationSearchRequest))
	n("ApplicationSearchResultEntry", int64(gldap.ApplicationSearchResultEntry))
	n("ApplicationSearchResultDone", int64(gldap.ApplicationSearchResultDone))
	n("ApplicationModifyRequest", int64(gldap.ApplicationModifyRequest))
	n("ApplicationModifyResponse", int64(gldap.ApplicationModifyResponse))
	n("ApplicationAddRequest", int64(gldap.ApplicationAddRequest))
	n("ApplicationAddResponse", int64(gldap.ApplicationAddResponse))
	n("ApplicationDelRequest", int64(gldap.ApplicationDelRequest))
	n("ApplicationDelResponse", int64(gldap.ApplicationDelResponse))
	n("ApplicationExtendedRequest", int64(gldap.ApplicationExtendedRequest))
	n("ApplicationExtendedResponse", int64(gldap.ApplicationExtendedResponse))
	b("oid_paging", gldap.ControlTypePaging)
	b("oid_behera", gldap.ControlTypeBeheraPasswordPolicy)
	b("oid_vchu_change", gldap.ControlTypeVChuPasswordMustChange)
	b("oid_vchu_warn", gldap.ControlTypeVChuPasswordWarning)
	b("oid_managedsait", gldap.ControlTypeManageDsaIT)
	b("oid_ms_notif", gldap.ControlTypeMicrosoftNotification)
	b("oid_ms_showdel", gldap.ControlTypeMicrosoftShowDeleted)
	b("oid_ms_linkttl", gldap.ControlTypeMicrosoftServerLinkTTL)
	b("oid_starttls", string(gldap.ExtendedOperationStartTLS))
	return 0
}
