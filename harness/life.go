package main

// liferun: plays one lifecycle scenario against a worker process and checks,
// after every controllable operation, that the observable snapshot becomes the
// one the model predicted (waiting up to a limit) and stays it (a short grace
// period catches events that must NOT happen, e.g. Stop returning early).
//
//   liferun <id> <cfg> <nops> <ops...> @@ <snapshot> # <snapshot> ...

import (
	"path/filepath"
	"bufio"
	"crypto/tls"
	"fmt"
	"io"
	"net"
	"os"
	"os/exec"
	"sort"
	"strconv"
	"strings"
	"sync"
	"time"
)

func init() {
	runners["liferun"] = runLife
}

type wevent struct {
	seq  int64
	kind string
	args []string
}

type workerProc struct {
	cmd    *exec.Cmd
	stdin  io.WriteCloser
	mu     sync.Mutex
	events []wevent
	dead   bool
	addr   string
	stderr string
	errBuf *lockedWriter
	cond   *sync.Cond
}

func startWorker(opts string, race bool) (*workerProc, error) {
	bin := os.Args[0]
	if race {
		if rb := os.Getenv("VERIF_VH_RACE"); rb != "" {
			bin = rb
		}
	}
	cmd := exec.Command(bin, "worker")
	cmd.Env = os.Environ()
	// the worker's SYSTEM trust store holds the foreign CA (the one the "other" client certificates
	// chain to) and nothing else: being trusted by the system must not make a client certificate
	// acceptable to a server whose configuration names its own CA
	if ca2 := filepath.Join(certDir(), "ca2.pem"); fileExists(ca2) {
		cmd.Env = append(cmd.Env, "SSL_CERT_FILE="+ca2, "SSL_CERT_DIR=/nonexistent")
	}
	stdin, _ := cmd.StdinPipe()
	stdout, _ := cmd.StdoutPipe()
	var errBuf strings.Builder
	lw := &lockedWriter{w: &errBuf}
	cmd.Stderr = lw
	if err := cmd.Start(); err != nil {
		return nil, err
	}
	wp := &workerProc{cmd: cmd, stdin: stdin, errBuf: lw}
	wp.cond = sync.NewCond(&wp.mu)
	go func() {
		sc := bufio.NewScanner(stdout)
		sc.Buffer(make([]byte, 1<<16), 1<<24)
		for sc.Scan() {
			f := strings.Fields(sc.Text())
			if len(f) >= 3 && f[0] == "EV" {
				n, _ := strconv.ParseInt(f[1], 10, 64)
				wp.mu.Lock()
				wp.events = append(wp.events, wevent{n, f[2], f[3:]})
				if f[2] == "addr" && len(f) > 3 {
					wp.addr = f[3]
				}
				wp.cond.Broadcast()
				wp.mu.Unlock()
			}
		}
		_ = cmd.Wait()
		wp.mu.Lock()
		wp.dead = true
		wp.stderr = lw.String()
		wp.cond.Broadcast()
		wp.mu.Unlock()
	}()
	wp.send("start " + opts)
	deadline := time.Now().Add(10 * time.Second)
	for {
		wp.mu.Lock()
		a, d := wp.addr, wp.dead
		wp.mu.Unlock()
		if a != "" {
			return wp, nil
		}
		if d || time.Now().After(deadline) {
			wp.kill()
			return nil, fmt.Errorf("worker did not start")
		}
		time.Sleep(2 * time.Millisecond)
	}
}

type lockedWriter struct {
	mu sync.Mutex
	w  *strings.Builder
}

func (l *lockedWriter) String() string {
	l.mu.Lock()
	defer l.mu.Unlock()
	return l.w.String()
}

func (l *lockedWriter) Write(p []byte) (int, error) {
	l.mu.Lock()
	defer l.mu.Unlock()
	if l.w.Len() < 1<<20 {
		l.w.Write(p)
	}
	return len(p), nil
}

func (wp *workerProc) send(cmd string) {
	wp.mu.Lock()
	dead := wp.dead
	wp.mu.Unlock()
	if dead {
		return
	}
	_, _ = io.WriteString(wp.stdin, cmd+"\n")
}

func (wp *workerProc) kill() {
	_ = wp.stdin.Close()
	if wp.cmd.Process != nil {
		_ = wp.cmd.Process.Kill()
	}
}

// finish asks the worker to exit by itself (so the race detector can print its
// summary), waits briefly and returns what it wrote to stderr
func (wp *workerProc) finish() string {
	wp.send("quit")
	deadline := time.Now().Add(3 * time.Second)
	for {
		wp.mu.Lock()
		dead := wp.dead
		wp.mu.Unlock()
		if dead || time.Now().After(deadline) {
			break
		}
		time.Sleep(5 * time.Millisecond)
	}
	wp.kill()
	time.Sleep(20 * time.Millisecond)
	wp.mu.Lock()
	defer wp.mu.Unlock()
	if wp.stderr != "" {
		return wp.stderr
	}
	return wp.errBuf.String()
}

// raceDigest extracts the gldap frames of the first data race report
func raceDigest(stderr string) string {
	if p := os.Getenv("VERIF_RACE_DUMP"); p != "" && strings.Contains(stderr, "DATA RACE") {
		if f, err := os.OpenFile(p, os.O_APPEND|os.O_CREATE|os.O_WRONLY, 0o644); err == nil {
			_, _ = f.WriteString(stderr + "\n")
			f.Close()
		}
	}
	i := strings.Index(stderr, "WARNING: DATA RACE")
	if i < 0 {
		return ""
	}
	rep := stderr[i:]
	if j := strings.Index(rep, "=================="); j > 0 {
		rep = rep[:j]
	}
	var frames []string
	// the first two stacks of the report (the two conflicting accesses): their innermost gldap frame
	for si, sec := range strings.Split(rep, "\n\n") {
		if si >= 2 {
			break
		}
		for _, l := range strings.Split(sec, "\n") {
			l = strings.TrimSpace(l)
			if strings.HasPrefix(l, "github.com/jimlambrt/gldap") {
				f := l
				if k := strings.LastIndex(f, "("); k > 0 {
					f = f[:k]
				}
				frames = append(frames, strings.TrimPrefix(f, "github.com/jimlambrt/"))
				break
			}
		}
	}
	if len(frames) == 0 {
		return "RACE outside-gldap"
	}
	return "RACE " + strings.Join(frames, "|")
}

func (wp *workerProc) snapshotEvents() ([]wevent, bool) {
	wp.mu.Lock()
	defer wp.mu.Unlock()
	return append([]wevent{}, wp.events...), wp.dead
}

// ask sends a query command and waits for the next event of the given kind
func (wp *workerProc) ask(cmd, kind string, timeout time.Duration) ([]string, bool) {
	wp.mu.Lock()
	start := len(wp.events)
	wp.mu.Unlock()
	wp.send(cmd)
	deadline := time.Now().Add(timeout)
	for {
		wp.mu.Lock()
		for i := start; i < len(wp.events); i++ {
			if wp.events[i].kind == kind {
				a := wp.events[i].args
				wp.mu.Unlock()
				return a, true
			}
		}
		dead := wp.dead
		wp.mu.Unlock()
		if dead || time.Now().After(deadline) {
			return nil, false
		}
		time.Sleep(time.Millisecond)
	}
}

// ---------------------------------------------------------------------------
// clients

// tapConn records every byte the client reads from the socket once switched on
// (at the start of a StartTLS handshake): the wiretap of C13.
type tapConn struct {
	net.Conn
	mu  sync.Mutex
	on  bool
	rec []byte
}

func (t *tapConn) Read(p []byte) (int, error) {
	n, err := t.Conn.Read(p)
	t.mu.Lock()
	if t.on {
		t.rec = append(t.rec, p[:n]...)
	}
	t.mu.Unlock()
	return n, err
}

// tlsOnly: is everything recorded a sequence of TLS records (a trailing partial record is fine)?
func (t *tapConn) tlsOnly() bool {
	t.mu.Lock()
	defer t.mu.Unlock()
	b := t.rec
	for len(b) >= 5 {
		if b[0] < 20 || b[0] > 23 || b[1] != 3 || b[2] > 4 {
			return false
		}
		l := int(b[3])<<8 | int(b[4])
		if l > 16384+2048 {
			return false
		}
		if len(b) < 5+l {
			return true
		}
		b = b[5+l:]
	}
	return len(b) == 0 || (b[0] >= 20 && b[0] <= 23)
}

type lifeClient struct {
	tap           *tapConn
	mu            sync.Mutex
	raw           net.Conn
	rw            io.ReadWriter // raw or the TLS connection after an upgrade
	tlsConn       *tls.Conn
	eof           bool
	stalled       bool
	upgrading     bool // a TLS handshake owns the socket: the reader must stay away
	parked        bool
	closedBy      bool // the scenario closed it from the client side
	recv          int
	stream        []byte // bytes read and not yet parsed into whole LDAPMessages
	frames        int    // whole LDAPMessages received
	everStalled   bool
	pendingAccept bool // connected while Run is parked after Accept: the server has no record of it yet
	bulk          bool // a handler on this connection writes until it blocks: the count is not predicted
	cond          *sync.Cond
}

func (c *lifeClient) reader() {
	buf := make([]byte, 1<<16)
	for {
		c.mu.Lock()
		for (c.stalled || c.upgrading) && !c.closedBy {
			c.parked = true
			c.cond.Broadcast()
			c.cond.Wait()
		}
		c.parked = false
		r := c.rw
		c.mu.Unlock()
		n, err := r.Read(buf)
		c.mu.Lock()
		c.recv += n
		c.stream = append(c.stream, buf[:n]...)
		for {
			_, rest, ok := parseNode(c.stream)
			if !ok {
				break
			}
			c.frames++
			c.stream = append([]byte{}, rest...)
		}
		if err != nil {
			if ne, ok := err.(net.Error); ok && ne.Timeout() && !c.closedBy {
				// kicked out of the read to make room for a handshake (or a stall)
				c.mu.Unlock()
				continue
			}
			c.eof = true
			c.mu.Unlock()
			return
		}
		c.mu.Unlock()
	}
}

// park makes the reader leave the socket alone and waits until it has
func (c *lifeClient) park() {
	c.mu.Lock()
	c.upgrading = true
	c.mu.Unlock()
	_ = c.raw.SetReadDeadline(time.Now())
	c.mu.Lock()
	deadline := time.Now().Add(2 * time.Second)
	for !c.parked && !c.eof && time.Now().Before(deadline) {
		c.mu.Unlock()
		time.Sleep(time.Millisecond)
		c.mu.Lock()
	}
	c.mu.Unlock()
	_ = c.raw.SetReadDeadline(time.Time{})
}

type lifeRun struct {
	wp         *workerProc
	clients    []*lifeClient
	msgConn    map[int64]int // message id -> client index
	nextMsg    int64
	runState   string
	cliTLS     *tls.Config
	stopCalled bool
	parked     bool
}

func (lr *lifeRun) execOp(t *Toks) error {
	op := t.Next()
	switch op {
	case "run":
		t.Bool()
		t.Bool()
		lr.wp.send("run")
	case "stop":
		lr.stopCalled = true
		lr.wp.send("stop")
	case "connect":
		c, err := net.DialTimeout("tcp", lr.wp.addr, 3*time.Second)
		if err != nil {
			return fmt.Errorf("connect refused: %v", err)
		}
		tap := &tapConn{Conn: c}
		lc := &lifeClient{raw: tap, rw: tap, tap: tap, pendingAccept: lr.parked}
		lc.cond = sync.NewCond(&lc.mu)
		lr.clients = append(lr.clients, lc)
		go lc.reader()
	case "sendclose":
		// the client writes its requests and closes at once: request and EOF are both
		// in the server's receive buffer before the read loop has looked at either
		ci, _ := strconv.Atoi(t.rest[0])
		t.rest = append([]string{"send"}, t.rest...)
		if err := lr.execOp(t); err != nil {
			return err
		}
		if ci < len(lr.clients) {
			lc := lr.clients[ci]
			lc.mu.Lock()
			lc.closedBy = true
			lc.cond.Broadcast()
			lc.mu.Unlock()
			_ = lc.raw.Close()
		}
	case "reset":
		// abrupt disconnect: RST instead of FIN
		ci := t.Int()
		if ci < len(lr.clients) {
			lc := lr.clients[ci]
			lc.mu.Lock()
			lc.closedBy = true
			lc.cond.Broadcast()
			lc.mu.Unlock()
			if tc, ok := lc.tap.Conn.(*net.TCPConn); ok {
				_ = tc.SetLinger(0)
			}
			_ = lc.raw.Close()
		}
	case "accepterr":
		// descriptor exhaustion at accept time: with the limit lowered, a client connects
		// (the kernel completes the handshake, accept(2) fails with EMFILE); the limit is
		// restored a moment later.  The client becomes the next connection of the scenario.
		if _, ok := lr.wp.ask("fdlimit 1", "fdlimit", 3*time.Second); !ok {
			return fmt.Errorf("fdlimit not acknowledged")
		}
		c, err := net.DialTimeout("tcp", lr.wp.addr, 3*time.Second)
		time.Sleep(150 * time.Millisecond)
		lr.wp.ask("fdlimit 0", "fdlimit", 3*time.Second)
		if err != nil {
			return fmt.Errorf("connect refused: %v", err)
		}
		tap := &tapConn{Conn: c}
		lc := &lifeClient{raw: tap, rw: tap, tap: tap, pendingAccept: lr.parked}
		lc.cond = sync.NewCond(&lc.mu)
		lr.clients = append(lr.clients, lc)
		go lc.reader()
	case "send":
		ci := t.Int()
		n := t.Int()
		var buf []byte
		hello := false
		for i := 0; i < n; i++ {
			switch t.Next() {
			case "req":
				kind := t.Next()
				msgid := int64T(t)
				ns := t.Int()
				var steps []string
				for j := 0; j < ns; j++ {
					s := t.Next()
					if s == "b" {
						s += t.Next()
					}
					steps = append(steps, s)
				}
				if _, ok := lr.wp.ask("script "+strconv.FormatInt(msgid, 10)+" "+strings.Join(steps, " "), "script-ok", 3*time.Second); !ok {
					return fmt.Errorf("worker not answering")
				}
				lr.msgConn[msgid] = ci
				for _, st := range steps {
					if st == "W" && ci < len(lr.clients) {
						lr.clients[ci].mu.Lock()
						lr.clients[ci].bulk = true
						lr.clients[ci].mu.Unlock()
					}
				}
				var q *TReq
				switch kind {
				case "normal":
					q = &TReq{Kind: "search", ID: msgid, DN: []byte("dc=x"), Scope: 2, Filter: &TFilter{Kind: "present", A: []byte("cn")}}
				case "starttls":
					q = &TReq{Kind: "ext", ID: msgid, Name: []byte("1.3.6.1.4.1.1466.20037")}
				default:
					q = &TReq{Kind: "unbind", ID: msgid}
					// an Unbind may carry controls like any other request; whatever they are (a
					// critical one of a type gldap does not know, a non-critical one, none) it is an Unbind
					var cs []TControl
					switch msgid % 3 {
					case 0:
						cs = []TControl{{Kind: "str", OID: "1.3.6.1.4.1.55555.1.1", Crit: true}}
					case 1:
						cs = []TControl{{Kind: "str", OID: "1.3.6.1.4.1.55555.1.2", Val: "v"}}
					}
					if cs != nil {
						root := encodeReq(q)
						root.Kids = append(root.Kids, encControls(cs))
						buf = append(buf, root.encode()...)
						continue
					}
				}
				buf = append(buf, encodeReq(q).encode()...)
			case "bad":
				buf = append(buf, 0x30, 0x03, 0x02, 0x01, 0x05)
				if ci < len(lr.clients) {
					// (when these bytes run into a TLS handshake the server answers with an alert
					// record: what follows on this connection cannot be counted as LDAP frames)
					lr.clients[ci].mu.Lock()
					lr.clients[ci].bulk = true
					lr.clients[ci].mu.Unlock()
				}
			case "hello":
				hello = true
			}
		}
		if ci >= len(lr.clients) {
			return fmt.Errorf("no such client")
		}
		lc := lr.clients[ci]
		if len(buf) > 0 {
			lc.mu.Lock()
			w := lc.rw
			lc.mu.Unlock()
			if _, err := w.Write(buf); err != nil {
				return nil // the server may have closed already; the snapshot decides
			}
		}
		if hello {
			lc.park()
			lc.tap.mu.Lock()
			lc.tap.on = true // from here on every byte from the server must be inside a TLS record
			lc.tap.mu.Unlock()
			// a StartTLS inside an established tunnel: the new session runs on top of the old one
			var under net.Conn = lc.raw
			lc.mu.Lock()
			if lc.tlsConn != nil {
				under = lc.tlsConn
			}
			lc.mu.Unlock()
			tc := tls.Client(under, lr.cliTLS)
			go func() {
				err := tc.Handshake()
				lc.mu.Lock()
				if err == nil {
					lc.tlsConn = tc
					lc.rw = tc
				}
				lc.upgrading = false
				lc.cond.Broadcast()
				lc.mu.Unlock()
			}()
		}
	case "close":
		ci := t.Int()
		lc := lr.clients[ci]
		lc.mu.Lock()
		lc.closedBy = true
		lc.cond.Broadcast()
		lc.mu.Unlock()
		_ = lc.raw.Close()
	case "stall":
		ci := t.Int()
		b := t.Bool()
		lc := lr.clients[ci]
		lc.mu.Lock()
		lc.stalled = b
		if b {
			lc.everStalled = true
		}
		lc.cond.Broadcast()
		lc.mu.Unlock()
	case "parkaccept":
		// hold the Run goroutine between Accept and newConn (the worker's logger blocks on the
		// "new connection accepted" line), or let it go on
		if t.Bool() {
			lr.parked = true
			if _, ok := lr.wp.ask("logpark new connection accepted", "logpark", 3*time.Second); !ok {
				return fmt.Errorf("logpark not acknowledged")
			}
		} else {
			lr.parked = false
			for _, lc := range lr.clients {
				lc.mu.Lock()
				lc.pendingAccept = false
				lc.mu.Unlock()
			}
			lr.wp.ask("logrelease", "logpark", 3*time.Second)
		}
	case "stoptimer":
		if _, ok := lr.wp.ask("stopafter "+t.Next(), "stopafter", 3*time.Second); !ok {
			return fmt.Errorf("stopafter not acknowledged")
		}
	case "stopwait":
		lr.stopCalled = true // the timer armed earlier calls Stop
	case "sleep":
		ms, _ := strconv.Atoi(t.Next())
		time.Sleep(time.Duration(ms) * time.Millisecond)
	case "release":
		lr.wp.send("release " + t.Next())
	case "holdonclose":
		lr.wp.send("holdonclose " + t.Next())
	}
	return nil
}

// realSnapshot assembles the observable state in the model's snapshot format
func (lr *lifeRun) realSnapshot(probePort bool, modelPort string) string {
	evs, dead := lr.wp.snapshotEvents()
	alive := "1"
	if dead {
		alive = "0"
	}
	run := "none"
	stopsCalled, stopsRet := 0, 0
	type cstate struct {
		started []string
		ended   []int
		onclose int
	}
	byConn := map[int]*cstate{}
	connOfClient := map[int]int{}
	idsOfClient := map[int][]int{} // every ConnectionID the handlers of one client connection reported
	get := func(id int) *cstate {
		if byConn[id] == nil {
			byConn[id] = &cstate{}
		}
		return byConn[id]
	}
	for _, e := range evs {
		switch e.kind {
		case "run-call":
			run = "running"
		case "run-return":
			run = e.args[0]
		case "stop-call":
			stopsCalled++
		case "stop-return":
			stopsRet++
		case "h-start":
			cid, _ := strconv.Atoi(e.args[0])
			msgid, _ := strconv.ParseInt(e.args[3], 10, 64)
			get(cid).started = append(get(cid).started, e.args[1]+e.args[2])
			if ci, ok := lr.msgConn[msgid]; ok {
				connOfClient[ci] = cid
				seen := false
				for _, x := range idsOfClient[ci] {
					seen = seen || x == cid
				}
				if !seen {
					idsOfClient[ci] = append(idsOfClient[ci], cid)
				}
			}
		case "h-end":
			cid, _ := strconv.Atoi(e.args[0])
			rid, _ := strconv.Atoi(e.args[1])
			get(cid).ended = append(get(cid).ended, rid)
		case "onclose-leave":
			cid, _ := strconv.Atoi(e.args[0])
			get(cid).onclose++
		}
	}
	ready := "0"
	if !dead {
		if a, ok := lr.wp.ask("ready", "ready", 2*time.Second); ok && a[0] == "true" {
			ready = "1"
		}
	}
	port := modelPort
	if probePort && !dead {
		if a, ok := lr.wp.ask("portprobe", "port", 2*time.Second); ok {
			if a[0] == "free" {
				port = "0"
			} else {
				port = "1"
			}
		}
	}
	var parts []string
	for i, lc := range lr.clients {
		lc.mu.Lock()
		pend := lc.pendingAccept
		lc.mu.Unlock()
		if pend {
			continue
		}
		cid, known := connOfClient[i]
		if !known {
			cid = i + 1 // accept order; confirmed by message ids whenever a handler ran
		}
		st := get(cid)
		sort.Ints(st.ended)
		sort.SliceStable(st.started, func(a, b int) bool {
			x, _ := strconv.Atoi(strings.TrimRight(st.started[a], "ntu"))
			y, _ := strconv.Atoi(strings.TrimRight(st.started[b], "ntu"))
			return x < y
		})
		es := make([]string, len(st.ended))
		for j, r := range st.ended {
			es[j] = strconv.Itoa(r)
		}
		lc.mu.Lock()
		closed := "0"
		if lc.eof {
			closed = "1"
		}
		if lc.closedBy || lc.stalled {
			closed = "x"
		}
		rx := lc.frames
		lc.mu.Unlock()
		if lc.tap != nil && !lc.tap.tlsOnly() {
			closed += ",wire=plaintext-after-upgrade"
		}
		if ids := idsOfClient[i]; len(ids) > 1 {
			// the requests of ONE connection reported different ConnectionIDs
			ss := make([]string, len(ids))
			for j, x := range ids {
				ss[j] = strconv.Itoa(x)
			}
			closed += ",ids=" + strings.Join(ss, "/")
		}
		parts = append(parts, fmt.Sprintf("c%d:id=%d,started=[%s],ended=[%s],closed=%s,onclose=%d,rx=%d", i, cid,
			strings.Join(st.started, ";"), strings.Join(es, ";"), closed, st.onclose, rx))
	}
	return strings.TrimSpace(fmt.Sprintf("alive=%s ready=%s run=%s stops=%d/%d port=%s %s", alive, ready, run, stopsRet,
		stopsCalled, port, strings.Join(parts, " ")))
}

// normalise: a connection the client closed itself cannot observe the server's close
func normaliseSnap(s string, lr *lifeRun) string {
	f := strings.Fields(s)
	for i, p := range f {
		if strings.HasPrefix(p, "c") && strings.Contains(p, ":id=") {
			// what the wiretap saw is judged by the property's predicate, not by the comparison
			// with the model (which has stale writes, but no field that says one has happened)
			p = strings.Replace(p, ",wire=plaintext-after-upgrade", "", 1)
			f[i] = p
			// frames received: compared with the model's count of frames sent, except where
			// the count is not determined (client not reading or gone, bulk writer, after Stop:
			// whether the notice of disconnection still gets out is a race)
			if j := strings.Index(p, ",rx="); j >= 0 {
				idx, _ := strconv.Atoi(p[1:strings.Index(p, ":")])
				wild := lr.stopCalled
				if idx < len(lr.clients) {
					lr.clients[idx].mu.Lock()
					wild = wild || lr.clients[idx].closedBy || lr.clients[idx].stalled || lr.clients[idx].bulk || lr.clients[idx].everStalled
					lr.clients[idx].mu.Unlock()
				}
				if wild {
					p = p[:j] + ",rx=x"
					f[i] = p
				}
			}
			idx, _ := strconv.Atoi(p[1:strings.Index(p, ":")])
			if idx < len(lr.clients) {
				lr.clients[idx].mu.Lock()
				cb := lr.clients[idx].closedBy || lr.clients[idx].stalled
				lr.clients[idx].mu.Unlock()
				if cb {
					p = strings.Replace(p, "closed=1", "closed=x", 1)
					p = strings.Replace(p, "closed=0", "closed=x", 1)
					f[i] = p
				}
			}
		}
	}
	return strings.Join(f, " ")
}

func runLife(t *Toks) string {
	cfg := t.Next()
	nops := t.Int()
	// split ops from predictions
	at := -1
	for i, x := range t.rest {
		if x == "@@" {
			at = i
			break
		}
	}
	if at < 0 {
		return "HARNESS-ERROR no predictions"
	}
	opToks := &Toks{rest: t.rest[:at]}
	want := strings.Split(strings.Join(t.rest[at+1:], " "), " # ")
	// worker options from the configuration string
	opts := []string{"recovery=1", "onclose=1", "unbind=1"}
	norun := true
	race := false
	for _, kv := range strings.Split(cfg, ":")[1:] {
		p := strings.SplitN(kv, "=", 2)
		switch p[0] {
		case "recovery", "onclose", "unbind":
			opts = append(opts, kv)
		case "tls", "addr", "readtimeout", "dflt", "stopdelay", "nopark", "loglevel":
			opts = append(opts, kv)
		case "race":
			race = p[1] == "1"
		}
	}
	if norun {
		opts = append(opts, "norun=1")
	}
	limit := 5 * time.Second
	if v := os.Getenv("VERIF_LIFE_LIMIT_MS"); v != "" {
		ms, _ := strconv.Atoi(v)
		limit = time.Duration(ms) * time.Millisecond
	}
	grace := 120 * time.Millisecond
	divergedAt := -1
	wp, err := startWorker(strings.Join(opts, " "), race)
	if err != nil {
		return "HARNESS-ERROR " + err.Error()
	}
	defer wp.kill()
	_, cli := harnessTLS()
	cli = cli.Clone()
	cli.InsecureSkipVerify = true
	lr := &lifeRun{wp: wp, msgConn: map[int64]int{}, cliTLS: cli}
	var got []string
	for k := 0; k < nops; k++ {
		if k >= len(want) {
			return "HARNESS-ERROR fewer predictions than operations"
		}
		w := strings.TrimSpace(want[k])
		if w == "DISABLED" {
			// the model says this operation cannot happen here (e.g. connect after the listener closed)
			if err := lr.execOp(opToks); err != nil {
				got = append(got, "DISABLED")
				continue
			}
			got = append(got, "ENABLED-BUT-MODEL-DISABLED")
			return "DIVERGE " + strconv.Itoa(k) + " " + strings.Join(got, " # ")
		}
		if err := lr.execOp(opToks); err != nil {
			got = append(got, "OPFAILED "+err.Error())
			return "DIVERGE " + strconv.Itoa(k) + " " + strings.Join(got, " # ")
		}
		modelPort := "0"
		if strings.Contains(w, "port=1") {
			modelPort = "1"
		}
		// (in the race build the port is not probed: opening and closing descriptors in the worker
		// synchronises goroutines through the runtime's poller annotations and hides races)
		probe := !race && (strings.Contains(w, "run=ok") || strings.Contains(w, "run=err") || strings.Contains(w, "run=none"))
		deadline := time.Now().Add(limit)
		var real string
		matched := false
		for {
			real = lr.realSnapshot(probe, modelPort)
			if normaliseSnap(real, lr) == normaliseSnap(w, lr) {
				matched = true
				break
			}
			if time.Now().After(deadline) {
				break
			}
			time.Sleep(4 * time.Millisecond)
		}
		if matched {
			time.Sleep(grace)
			real = lr.realSnapshot(probe, modelPort)
			if normaliseSnap(real, lr) != normaliseSnap(w, lr) {
				matched = false
			}
		}
		got = append(got, real)
		if !matched {
			if divergedAt < 0 {
				divergedAt = k
			}
			// keep going, with a short wait per operation: the spec predicates judge what the
			// real server does later in the scenario as well
			limit = 700 * time.Millisecond
		}
	}
	if divergedAt >= 0 {
		return "DIVERGE " + strconv.Itoa(divergedAt) + " " + strings.Join(got, " # ")
	}
	if race {
		if d := raceDigest(wp.finish()); d != "" {
			return d + " @ OK " + strings.Join(got, " # ")
		}
	}
	return "OK " + strings.Join(got, " # ")
}

func fileExists(p string) bool {
	_, err := os.Stat(p)
	return err == nil
}
