package main

// Runners added for the fifth seeded round: situations no LTS scenario expresses
// (hundreds of connections ending in the same instant, Run called again on a stopped server,
// a StartTLS request on a connection accepted by a TLS listener, one frame arriving in two
// pieces around a read timeout).

import (
	"crypto/tls"
	"fmt"
	"net"
	"sort"
	"strings"
	"sync"
	"time"

	"github.com/hashicorp/go-hclog"
	"github.com/jimlambrt/gldap"
)

func init() {
	runners["c07waves"] = runC07Waves
	runners["c03tls"] = runC03TLS
	runners["c09rerun"] = runC09Rerun
	runners["pipesplit"] = runPipeSplit
}

func waitReady(wp *workerProc) {
	for dl := time.Now().Add(5 * time.Second); time.Now().Before(dl); time.Sleep(2 * time.Millisecond) {
		if a, ok := wp.ask("ready", "ready", time.Second); ok && a[0] == "true" {
			return
		}
	}
}

// c07waves <n> <waves>: n clients connect, each sends half a frame, and all of them are reset in
// the same instant - wave after wave.  The server process survives, a bystander that was there
// all along and a new client are served.
func runC07Waves(t *Toks) string {
	n, waves := t.Int(), t.Int()
	wp, err := startWorker("recovery=1 onclose=1 unbind=1", false)
	if err != nil {
		return "HARNESS-ERROR " + err.Error()
	}
	defer wp.kill()
	waitReady(wp)
	ask := func(c net.Conn, id int64) bool {
		wp.ask(fmt.Sprintf("script %d w", id), "script-ok", 2*time.Second)
		if _, err := c.Write(plainFrame("search", id)); err != nil {
			return false
		}
		return gotResponse(c, 3*time.Second)
	}
	by, err := net.DialTimeout("tcp", wp.addr, 3*time.Second)
	if err != nil {
		return "HARNESS-ERROR dial"
	}
	defer by.Close()
	if !ask(by, 8400) {
		return "HARNESS-ERROR bystander not served"
	}
	for w := 0; w < waves; w++ {
		conns := make([]net.Conn, 0, n)
		for i := 0; i < n; i++ {
			c, err := net.DialTimeout("tcp", wp.addr, 3*time.Second)
			if err != nil {
				break
			}
			_, _ = c.Write([]byte{0x30, 0x0c, 0x02, 0x01}) // a frame that never completes
			conns = append(conns, c)
		}
		time.Sleep(30 * time.Millisecond)
		var wg sync.WaitGroup
		start := make(chan struct{})
		for _, c := range conns {
			wg.Add(1)
			go func(c net.Conn) {
				defer wg.Done()
				<-start
				if tc, ok := c.(*net.TCPConn); ok {
					_ = tc.SetLinger(0)
				}
				_ = c.Close()
			}(c)
		}
		close(start)
		wg.Wait()
		time.Sleep(20 * time.Millisecond)
		if _, dead := wp.snapshotEvents(); dead {
			return fmt.Sprintf("SPECFAIL the server process died when %d connections ended at once (wave %d)", n, w+1)
		}
		if !ask(by, int64(8401+w)) {
			if _, dead := wp.snapshotEvents(); dead {
				return fmt.Sprintf("SPECFAIL the server process died when %d connections ended at once (wave %d)", n, w+1)
			}
			return fmt.Sprintf("SPECFAIL the bystander is no longer served after %d connections ended at once (wave %d)", n, w+1)
		}
	}
	fresh, err := net.DialTimeout("tcp", wp.addr, 3*time.Second)
	if err != nil {
		return "SPECFAIL a new client cannot connect after the waves"
	}
	defer fresh.Close()
	if !ask(fresh, 8499) {
		return "SPECFAIL a new client is not served after the waves"
	}
	return fmt.Sprintf("OK waves=%d each=%d", waves, n)
}

// c03tls: a connection accepted by a TLS listener sends an extended request that has a route of
// its own (StartTLS - unusual there, and a request like any other for the Mux) and one that has
// none (served by the default route): each reaches exactly one handler, gldap answers neither itself.
func runC03TLS(t *Toks) string {
	routes := t.Next() // "route" or "default"
	opts := "recovery=1 onclose=1 unbind=1 tls=tls"
	if routes == "default" {
		opts += " dflt=2"
	}
	wp, err := startWorker(opts, false)
	if err != nil {
		return "HARNESS-ERROR " + err.Error()
	}
	defer wp.kill()
	waitReady(wp)
	_, cli := c18ClientConfig("server", "client")
	c, err := tls.DialWithDialer(&net.Dialer{Timeout: 3 * time.Second}, "tcp", wp.addr, cli)
	if err != nil {
		return "HARNESS-ERROR dial: " + err.Error()
	}
	defer c.Close()
	wp.ask("script 8501 w", "script-ok", 2*time.Second)
	wp.ask("script 8502 w", "script-ok", 2*time.Second) // answers, does not call Request.StartTLS
	wp.ask("script 8503 w", "script-ok", 2*time.Second)
	_, _ = c.Write(plainFrame("search", 8501))
	_ = gotResponse(c, 2*time.Second)
	_, _ = c.Write(encodeReq(&TReq{Kind: "ext", ID: 8502, Name: []byte("1.3.6.1.4.1.1466.20037")}).encode())
	_ = gotResponse(c, 2*time.Second)
	_, _ = c.Write(plainFrame("search", 8503))
	_ = gotResponse(c, 2*time.Second)
	time.Sleep(50 * time.Millisecond)
	evs, _ := wp.snapshotEvents()
	ran := map[string]int{}
	for _, e := range evs {
		if e.kind == "h-start" && len(e.args) >= 4 {
			ran[e.args[3]]++
		}
	}
	for _, id := range []string{"8501", "8502", "8503"} {
		if ran[id] != 1 {
			what := "the search"
			if id == "8502" {
				what = "the StartTLS extended request"
			}
			return fmt.Sprintf("SPECFAIL on a connection accepted by a TLS listener %s (message id %s) was handed to %d handlers (routes: %s)", what, id, ran[id], routes)
		}
	}
	return "OK handlers=3"
}

// c09rerun: Run, two connections, Stop, Run again on the same server value, one more connection.
// Whether the second Run serves at all is not C09's business; if it does, the new connection's id
// is none of the ids the server has handed out before, and OnClose never names an id twice.
func runC09Rerun(t *Toks) string {
	wp, err := startWorker("recovery=1 onclose=1 unbind=1", false)
	if err != nil {
		return "HARNESS-ERROR " + err.Error()
	}
	defer wp.kill()
	waitReady(wp)
	ask := func(c net.Conn, id int64) bool {
		wp.ask(fmt.Sprintf("script %d w", id), "script-ok", 2*time.Second)
		if _, err := c.Write(plainFrame("search", id)); err != nil {
			return false
		}
		return gotResponse(c, 2*time.Second)
	}
	for i := 0; i < 2; i++ {
		c, err := net.DialTimeout("tcp", wp.addr, 3*time.Second)
		if err != nil {
			return "HARNESS-ERROR dial"
		}
		if !ask(c, int64(8601+i)) {
			return "HARNESS-ERROR not served in the first run"
		}
		c.Close()
	}
	wp.send("stop")
	for dl := time.Now().Add(5 * time.Second); time.Now().Before(dl); time.Sleep(5 * time.Millisecond) {
		evs, _ := wp.snapshotEvents()
		done := false
		for _, e := range evs {
			if e.kind == "run-return" {
				done = true
			}
		}
		if done {
			break
		}
	}
	wp.send("run")
	time.Sleep(300 * time.Millisecond)
	served := false
	if c, err := net.DialTimeout("tcp", wp.addr, time.Second); err == nil {
		served = ask(c, 8610)
		c.Close()
	}
	time.Sleep(100 * time.Millisecond)
	evs, _ := wp.snapshotEvents()
	idOf := map[string]string{}
	oncl := map[string]int{}
	for _, e := range evs {
		if e.kind == "h-start" && len(e.args) >= 4 {
			idOf[e.args[3]] = e.args[0]
		}
		if e.kind == "onclose-leave" && len(e.args) >= 1 {
			oncl[e.args[0]]++
		}
	}
	if served {
		if idOf["8610"] == idOf["8601"] || idOf["8610"] == idOf["8602"] || idOf["8610"] == "" || idOf["8610"] == "0" {
			return fmt.Sprintf("SPECFAIL after Stop and a second Run the server gave a new connection the id %s; it had given out %s and %s before", idOf["8610"], idOf["8601"], idOf["8602"])
		}
	}
	for id, k := range oncl {
		if k > 1 {
			return fmt.Sprintf("SPECFAIL OnClose was called %d times with id %s (two different connections)", k, id)
		}
	}
	return fmt.Sprintf("OK second-run-served=%v", served)
}

// pipesplit <ms> <hex first> <hex second-a> <hex second-b>: a server with WithReadTimeout(ms);
// the first frame's handler is held; the second frame arrives in two pieces, the pause between
// them longer than the timeout; then the handler is let go.  Whatever the timeout does to the
// connection, no handler is ever given a request the client did not send (the bytes behind the
// cut are the inside of a frame, not a frame).  Output: the requests the handlers were given, sorted.
func runPipeSplit(t *Toks) string {
	ms := t.Int()
	first, a, b := t.Hex(), t.Hex(), t.Hex()
	var mu sync.Mutex
	var got []string
	hold := make(chan struct{})
	handler := func(w *gldap.ResponseWriter, r *gldap.Request) {
		s := canonRequest(r)
		mu.Lock()
		got = append(got, s)
		k := len(got)
		mu.Unlock()
		if k == 1 {
			<-hold
		}
	}
	var srv *gldap.Server
	var addr string
	var runErr chan error
	for attempt := 0; attempt < 6; attempt++ {
		s, err := gldap.NewServer(gldap.WithLogger(hclog.New(&hclog.LoggerOptions{Level: hclog.Off})), gldap.WithReadTimeout(time.Duration(ms)*time.Millisecond))
		if err != nil {
			return "HARNESS-ERROR " + err.Error()
		}
		m, _ := gldap.NewMux()
		_ = m.DefaultRoute(handler)
		_ = s.Router(m)
		addr = freeAddr()
		ch := make(chan error, 1)
		go func() { ch <- s.Run(addr) }()
		ok := false
		for dl := time.Now().Add(3 * time.Second); time.Now().Before(dl); time.Sleep(time.Millisecond) {
			if s.Ready() {
				ok = true
				break
			}
		}
		if ok {
			srv, runErr = s, ch
			break
		}
		_ = s.Stop()
	}
	if srv == nil {
		return "HARNESS-ERROR the server could not be started"
	}
	c, err := net.DialTimeout("tcp", addr, 3*time.Second)
	if err != nil {
		return "HARNESS-ERROR dial"
	}
	defer c.Close()
	_, _ = c.Write(first)
	for dl := time.Now().Add(2 * time.Second); time.Now().Before(dl); time.Sleep(time.Millisecond) {
		mu.Lock()
		k := len(got)
		mu.Unlock()
		if k >= 1 {
			break
		}
	}
	_, _ = c.Write(a)
	time.Sleep(time.Duration(2*ms) * time.Millisecond)
	_, _ = c.Write(b)
	time.Sleep(time.Duration(ms) * time.Millisecond)
	close(hold)
	time.Sleep(100 * time.Millisecond)
	_ = srv.Stop()
	<-runErr
	mu.Lock()
	out := append([]string{}, got...)
	mu.Unlock()
	sort.Strings(out)
	return fmt.Sprintf("%d ", len(out)) + strings.Join(out, " ; ")
}
