package main

// Scenario generators for the lifecycle properties (C06-C13, C17).  A scenario
// is a configuration string and a list of controllable operations; the model
// (Sys.v, through the OCaml driver) predicts the observable snapshot after
// each operation, the runner (life.go) forces the same operations on a real
// server in a worker process.

import (
	"fmt"
	"strconv"
	"strings"
)

func init() {
	generators["c06"] = genC06
	generators["c07"] = genC07
	generators["c07accept"] = genC07accept
	generators["c07stall"] = genC07stall
	generators["c08"] = genC08
	generators["c08edges"] = genC08edges
	generators["stopbulk"] = genStopThenBulk
	generators["panicinwrite"] = genPanicInWrite
	generators["c09"] = genC09
	generators["upgradeids"] = genUpgradeIds
	generators["pipe300"] = genPipe300
	generators["c07stale"] = genC07stale
	generators["debugblocked"] = genDebugBlocked
	generators["upgradestale"] = genUpgradeStale
	generators["c10"] = genC10
	generators["c10busy"] = genC10busy
	generators["c10panic"] = genC10panic
	generators["c11"] = genC11
	generators["c12"] = genC12
	generators["c12accept"] = genC12accept
	generators["c12slowstop"] = genC12slowstop
	generators["c15timer"] = genC15timer
	generators["c11accept"] = genC11accept
	generators["c11readtimeout"] = genC11ReadTimeout
	generators["c13"] = genC13
	generators["c17"] = genC17
}

type scen struct {
	cfg  string
	ops  []string
	next int64
}

func newScen(cfg string) *scen { return &scen{cfg: cfg, next: 100} }
func (s *scen) op(o string)    { s.ops = append(s.ops, o) }
func (s *scen) req(kind string, steps ...string) string {
	s.next++
	var toks []string
	for _, st := range steps {
		if strings.HasPrefix(st, "b") {
			toks = append(toks, "b "+st[1:])
		} else {
			toks = append(toks, st)
		}
	}
	return fmt.Sprintf("req %s %d %s", kind, s.next, listStr(toks))
}
func (s *scen) send(c int, items ...string) {
	s.op(fmt.Sprintf("send %d %s", c, listStr(items)))
}
func (s *scen) emit(g *Gen) {
	g.emit("life", s.cfg, listStr(s.ops))
}

// C06: pipelines in which earlier handlers block until later ones have started
func genC06(g *Gen) {
	r := g.rng
	sizes := []int{1, 2, 3, 8, 32, 200}
	if g.tier == "thorough" {
		sizes = append(sizes, 100, 129, 256)
	}
	for _, n := range sizes {
		// all N block on one barrier: every one must have started, none ended, before the release
		s := newScen("fixed")
		s.op("run 1 1")
		s.op("connect")
		var items []string
		for i := 0; i < n; i++ {
			items = append(items, s.req("normal", "b1"))
		}
		s.send(0, items...)
		s.op("release 1")
		s.op("close 0")
		s.emit(g)
	}
	for i := 0; i < g.n; i++ {
		// random mix on 1..3 connections: a subset blocks on a barrier released later
		s := newScen("fixed")
		s.op("run 1 1")
		nc := 1 + r.Intn(3)
		for c := 0; c < nc; c++ {
			s.op("connect")
		}
		for round := 0; round < 2+r.Intn(3); round++ {
			c := r.Intn(nc)
			var items []string
			for k := 1 + r.Intn(5); k > 0; k-- {
				switch r.Intn(4) {
				case 0:
					items = append(items, s.req("normal", "b7"))
				case 1:
					items = append(items, s.req("normal", "w"))
				case 2:
					items = append(items, s.req("normal", "b7", "w"))
				default:
					items = append(items, s.req("normal"))
				}
			}
			s.send(c, items...)
		}
		s.op("release 7")
		for c := 0; c < nc; c++ {
			s.op("close " + strconv.Itoa(c))
		}
		s.emit(g)
	}
}

// C07: a fault on one connection, bystanders before and after it
func genC07(g *Gen) {
	faults := [][]string{
		{"normal", "p"},       // panic in a concurrently dispatched handler
		{"normal", "w", "p"},  // after having written
		{"normal", "b3", "p"}, // panic while others are in flight
		{"starttls", "p"},     // panic in the inline StartTLS handler
		{"unbind", "p"},       // panic in the unbind handler
		{"bad"},               // malformed frame
		{"close"},             // abrupt disconnect with a handler in flight
	}
	for _, f := range faults {
		for _, bystanderBusy := range []bool{false, true} {
			s := newScen("fixed")
			s.op("run 1 1")
			s.op("connect") // 0: bystander
			s.op("connect") // 1: victim
			if bystanderBusy {
				s.send(0, s.req("normal", "b9", "w"))
			}
			switch f[0] {
			case "bad":
				s.send(1, "bad")
			case "close":
				s.send(1, s.req("normal", "b3"))
				s.op("close 1")
				s.op("release 3")
			default:
				if len(f) > 2 && f[1] == "b3" {
					s.send(1, s.req("normal", "b3"), s.req(f[0], f[1:]...))
					s.op("release 3")
				} else {
					s.send(1, s.req(f[0], f[1:]...))
				}
			}
			// the bystander still gets answers, and a new connection is accepted and served
			s.send(0, s.req("normal", "w"))
			if bystanderBusy {
				s.op("release 9")
			}
			s.op("connect") // 2
			s.send(2, s.req("normal", "w"))
			s.op("close 0")
			s.op("close 2")
			s.emit(g)
		}
	}
}

// C07 (continued): a client that stops reading its responses, with bystanders,
// on a server whose handlers are reached through routes and through the default route
func genC07stall(g *Gen) {
	for _, cfg := range []string{"fixed", "fixed:dflt=1"} {
		for _, nreq := range []int{1, 3} {
			s := newScen(cfg)
			s.op("run 1 1")
			s.op("connect") // 0: bystander
			s.op("connect") // 1: victim, not reading
			s.op("stall 1 1")
			var items []string
			for i := 0; i < nreq; i++ {
				items = append(items, s.req("normal", "W"))
			}
			s.send(1, items...)
			s.send(0, s.req("normal", "w"), s.req("normal", "w"))
			s.op("connect") // 2
			s.send(2, s.req("normal", "w"))
			s.op("close 0")
			s.op("stop")
			s.emit(g)
		}
	}
}

// C07 (continued): descriptor exhaustion at accept time, with bystanders
func genC07accept(g *Gen) {
	// the very first accept fails (nothing has been accepted yet: counters are at their start values)
	for _, twice := range []bool{false, true} {
		s := newScen("fixed")
		s.op("run 1 1")
		s.op("accepterr") // 0
		if twice {
			s.op("accepterr") // 1
		}
		s.send(0, s.req("normal", "w"))
		s.op("connect")
		last := 1
		if twice {
			last = 2
		}
		s.send(last, s.req("normal", "w"))
		s.send(0, s.req("normal", "w"))
		s.op("stop")
		s.emit(g)
	}
	for _, busy := range []bool{false, true} {
		for _, twice := range []bool{false, true} {
			s := newScen("fixed")
			s.op("run 1 1")
			s.op("connect") // 0: bystander
			if busy {
				s.send(0, s.req("normal", "b9", "w"))
			}
			s.op("accepterr") // 1: the client whose accept failed
			if twice {
				s.op("accepterr") // 2
			}
			s.send(0, s.req("normal", "w"))
			s.send(1, s.req("normal", "w"))
			if busy {
				s.op("release 9")
			}
			s.op("connect")
			last := 2
			if twice {
				last = 3
			}
			s.send(last, s.req("normal", "w"))
			s.op("stop")
			s.emit(g)
		}
	}
}

// C08: every ending x in-flight state
func genC08(g *Gen) {
	endings := []string{"close", "unbind", "bad", "panic-inline", "stop"}
	inflight := []string{"none", "blocked", "writing"}
	for _, e := range endings {
		for _, f := range inflight {
			for _, nconn := range []int{1, 3} {
				s := newScen("fixed")
				s.op("run 1 1")
				for c := 0; c < nconn; c++ {
					s.op("connect")
				}
				for c := 0; c < nconn; c++ {
					switch f {
					case "blocked":
						s.send(c, s.req("normal", "b5"), s.req("normal", "b5"))
					case "writing":
						s.send(c, s.req("normal", "w", "b5", "w"))
					}
				}
				for c := 0; c < nconn; c++ {
					switch e {
					case "close":
						s.op("close " + strconv.Itoa(c))
					case "unbind":
						s.send(c, s.req("unbind"))
					case "bad":
						s.send(c, "bad")
					case "panic-inline":
						s.send(c, s.req("starttls", "p"))
					}
				}
				if e == "stop" {
					s.op("stop")
				}
				if f != "none" {
					s.op("release 5")
				}
				if e != "stop" {
					s.op("stop")
				}
				s.emit(g)
			}
		}
	}
}

// Stop while a handler is running but not writing (waiting for a backend); the client does not
// read; after Stop's interrupt pass the handler writes more than the socket buffers hold.  The
// interrupt must hold for writes that START after it
func stopThenBulk(g *Gen, nconn int, double bool) {
	s := newScen("fixed")
	s.op("run 1 1")
	for c := 0; c < nconn; c++ {
		s.op("connect")
	}
	for c := 0; c < nconn; c++ {
		s.op(fmt.Sprintf("stall %d 1", c))
		s.send(c, s.req("normal", "b5", "W"))
	}
	s.op("stop")
	s.op("release 5")
	if double {
		s.op("stop")
	}
	s.emit(g)
}

func genStopThenBulk(g *Gen) {
	stopThenBulk(g, 1, false)
	stopThenBulk(g, 3, true)
}

// a handler panics INSIDE ResponseWriter.Write (its response cannot be encoded): recovered like
// any other panic, and nothing of the connection stays locked - later handlers write, the
// connection ends and is reported as usual
func genPanicInWrite(g *Gen) {
	for _, ending := range []string{"close", "unbind", "stop"} {
		s := newScen("fixed")
		s.op("run 1 1")
		s.op("connect")
		s.op("connect")
		s.send(0, s.req("normal", "pw"))
		s.send(0, s.req("normal", "w"))
		s.send(1, s.req("normal", "w"))
		s.send(0, s.req("normal", "w", "w"))
		switch ending {
		case "close":
			s.op("close 0")
		case "unbind":
			s.send(0, s.req("unbind"))
		}
		s.op("stop")
		s.emit(g)
	}
}

// C08 (continued): the request and the client's EOF arrive together; an upgraded
// (TLS) connection is reset by the client
func genC08edges(g *Gen) {
	for _, nconn := range []int{1, 6} {
		s := newScen("fixed")
		s.op("run 1 1")
		for c := 0; c < nconn; c++ {
			s.op("connect")
		}
		for c := 0; c < nconn; c++ {
			s.op(fmt.Sprintf("sendclose %d %s", c, listStr([]string{s.req("normal", "b5", "w")})))
		}
		s.op("release 5")
		s.op("stop")
		s.emit(g)
	}
	// a StartTLS whose handshake fails (the client sends something that is no ClientHello) while
	// an earlier handler of the connection is still running: the socket stays open until it is done
	{
		s := newScen("fixed")
		s.op("run 1 1")
		s.op("connect")
		s.send(0, s.req("normal", "b5", "w"))
		s.send(0, s.req("starttls", "w", "hs"))
		s.send(0, "bad")
		s.op("release 5")
		s.op("close 0")
		s.op("stop")
		s.emit(g)
	}
	for _, how := range []string{"reset", "close"} {
		s := newScen("fixed")
		s.op("run 1 1")
		s.op("connect")
		s.op("connect")
		for c := 0; c < 2; c++ {
			s.send(c, s.req("starttls", "w", "hs"))
			s.send(c, "hello")
			s.send(c, s.req("normal", "w"))
		}
		s.op(how + " 0")
		s.op(how + " 1")
		s.op("stop")
		s.emit(g)
	}
}

// StartTLS upgrades in the middle of a connection's life: neither the connection id (C09) nor
// the numbering of its requests (C06) starts again
func genUpgradeIds(g *Gen) {
	// the id survives a StartTLS upgrade: upgrades requested as the 1st, 2nd and 3rd request of
	// connections 1, 2 and 3 (request number and connection id differ), requests before and after
	up := newScen("fixed")
	up.op("run 1 1")
	for c := 0; c < 3; c++ {
		up.op("connect")
	}
	for c := 0; c < 3; c++ {
		for k := 0; k < 2-c; k++ {
			up.send(c, up.req("normal", "w"))
		}
		up.send(c, up.req("starttls", "w", "hs"))
		up.send(c, "hello")
		up.send(c, up.req("normal", "w"))
		up.send(c, up.req("normal", "w"))
	}
	up.op("connect")
	up.send(3, up.req("normal", "w"))
	up.op("close 1")
	up.op("stop")
	up.emit(g)
}

// clients that go away while their handlers are still running, new clients right behind them:
// what the late handlers write must not reach anybody else (nothing of a connection - buffers,
// writers - is handed to the next one while its handlers can still use it)
func genC07stale(g *Gen) {
	for _, n := range []int{2, 8} {
		s := newScen("fixed")
		s.op("run 1 1")
		for c := 0; c < n; c++ {
			s.op("connect")
			s.send(c, s.req("normal", "b5", "w", "w"))
		}
		for c := 0; c < n; c++ {
			s.op("close " + strconv.Itoa(c))
		}
		for c := n; c < 2*n; c++ {
			s.op("connect")
			s.send(c, s.req("normal", "w"))
		}
		s.op("release 5")
		for c := n; c < 2*n; c++ {
			s.send(c, s.req("normal", "w"))
		}
		s.op("stop")
		s.emit(g)
	}
}

// a connection upgrades (StartTLS) while an earlier handler of it is still running; other clients
// connect and are served; then the old handler writes.  Nothing the upgrade lets go of (the old
// reader and writer) may be in anybody else's hands while that handler can still use it
func genUpgradeStale(g *Gen) {
	for _, n := range []int{2, 8} {
		s := newScen("fixed")
		s.op("run 1 1")
		s.op("connect")
		s.send(0, s.req("normal", "b5", "w"))
		s.send(0, s.req("starttls", "w", "hs"))
		s.send(0, "hello")
		for c := 1; c <= n; c++ {
			s.op("connect")
			s.send(c, s.req("normal", "w"))
		}
		s.op("release 5")
		for c := 1; c <= n; c++ {
			s.send(c, s.req("normal", "w"))
		}
		s.op("stop")
		s.emit(g)
	}
}

// the server logs at Debug level (packet dumps on every read and write); one handler is blocked
// writing to a client that does not read: later requests of that connection are still
// dispatched, other connections are served
func genDebugBlocked(g *Gen) {
	for _, lvl := range []string{"debug", "trace"} {
		s := newScen("fixed:loglevel=" + lvl)
		s.op("run 1 1")
		s.op("connect")
		s.op("connect")
		s.op("stall 0 1")
		s.send(0, s.req("normal", "W"))
		s.send(0, s.req("normal", "b7"))
		s.send(1, s.req("normal", "w"))
		s.op("connect")
		s.send(2, s.req("normal", "w"), s.req("normal", "w"))
		s.op("release 7")
		s.op("stop")
		s.emit(g)
	}
}

// a pipeline of 300 requests whose handlers all wait: every one of them is handed to a handler
// (no limit on requests in flight that gldap answers itself), the connection ends like any other
func genPipe300(g *Gen) {
	for _, ending := range []string{"close", "stop"} {
		s := newScen("fixed")
		s.op("run 1 1")
		s.op("connect")
		var items []string
		for i := 0; i < 300; i++ {
			items = append(items, s.req("normal", "b3", "w"))
		}
		s.send(0, items...)
		s.op("release 3")
		s.send(0, s.req("normal", "w"))
		if ending == "close" {
			s.op("close 0")
		}
		s.op("stop")
		s.emit(g)
	}
}

// C09: connect / request / close / reconnect histories
func genC09(g *Gen) {
	r := g.rng
	for i := 0; i < g.n; i++ {
		s := newScen("fixed")
		s.op("run 1 1")
		open := []int{}
		total := 0
		steps := 6 + r.Intn(10)
		if g.tier == "thorough" {
			steps = 20 + r.Intn(60)
		}
		for k := 0; k < steps; k++ {
			switch {
			case len(open) == 0 || r.Intn(3) == 0:
				s.op("connect")
				open = append(open, total)
				total++
			case r.Intn(3) == 0:
				j := r.Intn(len(open))
				s.op("close " + strconv.Itoa(open[j]))
				open = append(open[:j], open[j+1:]...)
			default:
				c := open[r.Intn(len(open))]
				s.send(c, s.req("normal", "w"))
			}
		}
		for _, c := range open {
			s.send(c, s.req("normal"))
		}
		s.op("stop")
		s.emit(g)
	}
}

// C10: <requests> Unbind <requests> in one TCP segment
func genC10(g *Gen) {
	for _, unbindRoute := range []string{"1", "0", "0:dflt=1"} {
		for k := 0; k <= 3; k++ {
			for m := 0; m <= 3; m++ {
				for _, held := range []bool{false, true} {
					if held && k == 0 {
						continue
					}
					s := newScen("fixed:unbind=" + unbindRoute)
					s.op("run 1 1")
					s.op("connect")
					var items []string
					for i := 0; i < k; i++ {
						if held {
							items = append(items, s.req("normal", "b2"))
						} else {
							items = append(items, s.req("normal", "w"))
						}
					}
					items = append(items, s.req("unbind"))
					for i := 0; i < m; i++ {
						items = append(items, s.req("normal", "w"))
					}
					s.send(0, items...)
					if held {
						s.op("release 2")
					}
					s.op("stop")
					s.emit(g)
				}
			}
		}
	}
}

// C10 (continued): the unbind route's handler panics (recovery on, the default): the Unbind still
// ends the connection, nothing behind it is served
func genC10panic(g *Gen) {
	for _, before := range []int{0, 2} {
		s := newScen("fixed:unbind=1")
		s.op("run 1 1")
		s.op("connect")
		s.op("connect")
		var items []string
		for i := 0; i < before; i++ {
			items = append(items, s.req("normal", "w"))
		}
		items = append(items, s.req("unbind", "p"), s.req("normal", "w"), s.req("normal", "w"))
		s.send(0, items...)
		s.send(1, s.req("normal", "w"))
		s.op("stop")
		s.emit(g)
	}
}

// C10 (continued): the Unbind arrives while many handlers of the connection are still running
func genC10busy(g *Gen) {
	for _, k := range []int{31, 32, 33, 64} {
		for _, unbindRoute := range []string{"1", "0"} {
			s := newScen("fixed:unbind=" + unbindRoute)
			s.op("run 1 1")
			s.op("connect")
			var items []string
			for i := 0; i < k; i++ {
				items = append(items, s.req("normal", "b2", "w"))
			}
			s.send(0, items...)
			s.send(0, s.req("unbind"), s.req("normal", "w"))
			s.op("release 2")
			s.op("stop")
			s.emit(g)
		}
	}
}

// C11: Stop with connections in every state
func genC11(g *Gen) {
	states := []string{"none", "idle", "pipelining", "handler-blocked-on-client", "starttls-pending", "blocked-then-unbind"}
	for _, st := range states {
		for _, nconn := range []int{1, 4} {
			for _, double := range []bool{false, true} {
				if st == "none" && nconn > 1 {
					continue
				}
				s := newScen("fixed")
				s.op("run 1 1")
				if st != "none" {
					for c := 0; c < nconn; c++ {
						s.op("connect")
					}
				}
				for c := 0; c < nconn && st != "none"; c++ {
					switch st {
					case "pipelining":
						s.send(c, s.req("normal", "w"), s.req("normal", "w"), s.req("normal"))
					case "handler-blocked-on-client":
						s.op(fmt.Sprintf("stall %d 1", c))
						s.send(c, s.req("normal", "W"))
					case "starttls-pending":
						s.send(c, s.req("starttls", "w", "hs"))
					case "blocked-then-unbind":
						// the read loop has ended (Unbind) while a handler is still blocked
						// writing to a client that does not read: the connection is in teardown
						s.op(fmt.Sprintf("stall %d 1", c))
						s.send(c, s.req("normal", "W"))
						s.send(c, s.req("unbind"))
					}
				}
				s.op("stop")
				if double {
					s.op("stop")
				}
				s.emit(g)
			}
		}
	}
}

// C11 (continued): a long read timeout is configured (WithReadTimeout); Stop arrives while the
// connection is not inside a read (an inline StartTLS handler waits before its handshake, a
// handler is busy).  Reads that START after the interrupt must fail at once: the client, which
// sends nothing more, must not decide when Stop returns
func genC11ReadTimeout(g *Gen) {
	for _, nconn := range []int{1, 3} {
		s := newScen("fixed:readtimeout=60000")
		s.op("run 1 1")
		for c := 0; c < nconn; c++ {
			s.op("connect")
			s.send(c, s.req("starttls", "b7", "w", "hs"))
		}
		s.op("stop")
		s.op("release 7")
		s.emit(g)
	}
	// the same without a handshake: idle and pipelining connections under a read timeout
	s := newScen("fixed:readtimeout=60000")
	s.op("run 1 1")
	s.op("connect")
	s.op("connect")
	s.send(1, s.req("normal", "w"), s.req("normal", "b7", "w"))
	s.op("stop")
	s.op("release 7")
	s.emit(g)
}

// C11 (continued): Stop after descriptor exhaustion at accept time
func genC11accept(g *Gen) {
	for _, n := range []int{1, 2} {
		s := newScen("fixed")
		s.op("run 1 1")
		for i := 0; i < n; i++ {
			s.op("accepterr")
		}
		s.send(0, s.req("normal", "w"))
		s.op("close 0")
		s.op("stop")
		s.emit(g)
	}
}

// C12 (continued): a connection that Accept has handed over when Stop is called - the Run
// goroutine is held between Accept and newConn - is waited for like any other
func genC12accept(g *Gen) {
	for _, held := range []bool{true, false} {
		s := newScen("fixed")
		s.op("run 1 1")
		if !held {
			s.op("connect") // an ordinary connection beside it
			s.send(0, s.req("normal", "w"))
		}
		s.op("parkaccept 1")
		s.op("connect") // accepted, not yet set up
		if held {
			s.op("holdonclose 1")
		}
		s.op("stop")
		s.op("parkaccept 0")
		if held {
			s.op("holdonclose 0")
		}
		s.emit(g)
	}
}

// C12/C15: the same, with Stop slow between its interrupt pass and connWg.Wait, so that the
// accepted connection is counted and torn down to its (held) OnClose while Stop is on its way to Wait
func genC12slowstop(g *Gen) {
	s := newScen("fixed:stopdelay=600")
	s.op("run 1 1")
	s.op("holdonclose 1")
	s.op("parkaccept 1")
	s.op("connect")
	s.op("stop")
	s.op("parkaccept 0")
	s.op("sleep 700") // Stop reaches connWg.Wait while the connection is still in its OnClose
	s.op("holdonclose 0")
	s.emit(g)
}

// C15: Stop, from a goroutine armed beforehand (so that nothing the connection does later is
// ordered before it by the harness), while a StartTLS-upgraded connection is open and idle
func genC15timer(g *Gen) {
	for _, n := range []int{1, 3} {
		s := newScen("fixed:nopark=1")
		s.op("run 1 1")
		for c := 0; c < n; c++ {
			s.op("connect")
		}
		s.op("stoptimer 900")
		for c := 0; c < n; c++ {
			s.send(c, s.req("starttls", "w", "hs"))
			s.send(c, "hello")
		}
		s.op("stopwait")
		s.emit(g)
	}
}

// C12: orders of Stop relative to Run, held OnClose, held handlers
func genC12(g *Gen) {
	// Stop before Run; Run afterwards must return and leave the port free
	s := newScen("fixed")
	s.op("stop")
	s.op("run 1 1")
	s.emit(g)
	s = newScen("fixed")
	s.op("stop")
	s.op("stop")
	s.op("run 1 1")
	s.op("stop")
	s.emit(g)
	// OnClose slow: Stop must not return before it completes
	for _, nconn := range []int{1, 3} {
		s = newScen("fixed")
		s.op("run 1 1")
		for c := 0; c < nconn; c++ {
			s.op("connect")
		}
		s.send(0, s.req("normal", "w"))
		s.op("holdonclose 1")
		s.op("stop")
		s.op("holdonclose 0")
		s.emit(g)
		// handler held: Stop must not return before it ends
		s = newScen("fixed")
		s.op("run 1 1")
		for c := 0; c < nconn; c++ {
			s.op("connect")
			s.send(c, s.req("normal", "b4", "w"))
		}
		s.op("stop")
		s.op("release 4")
		s.op("stop")
		s.emit(g)
		// a second Stop while the first is still waiting (a signal handler and a deferred Stop):
		// neither may return before the handler has ended, the conn is closed and OnClose is done
		s = newScen("fixed")
		s.op("run 1 1")
		for c := 0; c < nconn; c++ {
			s.op("connect")
			s.send(c, s.req("normal", "b4", "w"))
		}
		s.op("stop")
		s.op("stop")
		s.op("release 4")
		s.emit(g)
		s = newScen("fixed")
		s.op("run 1 1")
		for c := 0; c < nconn; c++ {
			s.op("connect")
		}
		s.send(0, s.req("normal", "w"))
		s.op("holdonclose 1")
		s.op("stop")
		s.op("stop")
		s.op("stop")
		s.op("holdonclose 0")
		s.emit(g)
		// a handler still running when the unbind route's handler panics (recovered): the teardown
		// still waits for it, and so do Stop and Run
		s = newScen("fixed:unbind=1")
		s.op("run 1 1")
		for c := 0; c < nconn; c++ {
			s.op("connect")
			s.send(c, s.req("normal", "b4", "w"), s.req("unbind", "p"))
		}
		s.op("stop")
		s.op("release 4")
		s.emit(g)
		// teardown in progress when Stop arrives
		s = newScen("fixed")
		s.op("run 1 1")
		for c := 0; c < nconn; c++ {
			s.op("connect")
			s.send(c, s.req("normal", "b4"))
			s.op("close " + strconv.Itoa(c))
		}
		s.op("holdonclose 1")
		s.op("stop")
		s.op("release 4")
		s.op("holdonclose 0")
		s.emit(g)
	}
}

// C13: StartTLS handled inline; the handshake sees the client's first byte
func genC13(g *Gen) {
	// the StartTLS request reaches its handler through the default route (no route of its own):
	// it is handled inline all the same - WHICH route serves a request does not decide that
	for _, delay := range []bool{false, true} {
		sd := newScen("fixed:dflt=2")
		sd.op("run 1 1")
		sd.op("connect")
		sd.send(0, sd.req("normal", "w"))
		if delay {
			// the handler has answered and dawdles before Request.StartTLS: the ClientHello is already
			// in the socket, and nobody but the handshake may take it
			sd.send(0, sd.req("starttls", "w", "b6", "hs"))
			sd.send(0, "hello")
			sd.op("release 6")
		} else {
			sd.send(0, sd.req("starttls", "w", "hs"))
			sd.send(0, "hello")
		}
		sd.send(0, sd.req("normal", "w"), sd.req("normal", "w"))
		sd.send(0, sd.req("unbind"))
		sd.op("stop")
		sd.emit(g)
	}
	for _, nsess := range []int{1, 3} {
		for _, after := range []bool{false, true} {
			s := newScen("fixed")
			s.op("run 1 1")
			for c := 0; c < nsess; c++ {
				s.op("connect")
			}
			for c := 0; c < nsess; c++ {
				s.send(c, s.req("normal", "w"))
				s.send(c, s.req("starttls", "w", "hs"))
			}
			for c := 0; c < nsess; c++ {
				s.send(c, "hello")
			}
			if after {
				for c := 0; c < nsess; c++ {
					s.send(c, s.req("normal", "b6", "w"), s.req("normal", "w"))
				}
				s.op("release 6")
			}
			for c := 0; c < nsess; c++ {
				s.send(c, s.req("unbind"))
			}
			s.op("stop")
			s.emit(g)
		}
	}
	// handshakes that fail on other connections (the client sends something that is no
	// ClientHello) leave nothing behind: after 40 of them a conforming session is upgraded
	// and served like the first one
	{
		sf := newScen("fixed")
		sf.op("run 1 1")
		sf.op("connect")
		sf.send(0, sf.req("starttls", "w", "hs"))
		sf.send(0, "hello")
		sf.send(0, sf.req("normal", "w"))
		for c := 1; c <= 40; c++ {
			sf.op("connect")
			sf.send(c, sf.req("starttls", "w", "hs"))
			sf.send(c, "bad")
		}
		for c := 41; c <= 42; c++ {
			sf.op("connect")
			sf.send(c, sf.req("starttls", "w", "hs"))
			sf.send(c, "hello")
			sf.send(c, sf.req("normal", "w"))
		}
		sf.op("stop")
		sf.emit(g)
	}
	// a StartTLS request inside the tunnel (unusual, and served by gldap like any other request
	// in the tunnel): its handshake runs on the connection's current stream and sees the client's
	// first handshake byte; requests after it are served in the inner session
	{
		sn := newScen("fixed")
		sn.op("run 1 1")
		sn.op("connect")
		sn.send(0, sn.req("starttls", "w", "hs"))
		sn.send(0, "hello")
		sn.send(0, sn.req("normal", "w"))
		sn.send(0, sn.req("starttls", "w", "hs"))
		sn.send(0, "hello")
		sn.send(0, sn.req("normal", "w"), sn.req("normal", "w"))
		sn.send(0, sn.req("unbind"))
		sn.op("stop")
		sn.emit(g)
	}
	// Stop while upgraded sessions are open: whatever the server still sends is inside TLS records
	s0 := newScen("fixed")
	s0.op("run 1 1")
	s0.op("connect")
	s0.op("connect")
	for c := 0; c < 2; c++ {
		s0.send(c, s0.req("starttls", "w", "hs"))
		s0.send(c, "hello")
		s0.send(c, s0.req("normal", "w"))
	}
	s0.op("stop")
	s0.emit(g)
	// requests written in the clear in the same segment as the StartTLS request: they sit in the
	// old reader's buffer when the upgrade happens and must never be served (neither before the
	// handshake nor, spliced in, inside the tunnel)
	for _, extra := range []int{1, 3} {
		s3 := newScen("fixed")
		s3.op("run 1 1")
		s3.op("connect")
		items := []string{s3.req("starttls", "w", "hs")}
		for i := 0; i < extra; i++ {
			items = append(items, s3.req("normal", "w"))
		}
		s3.send(0, items...)
		s3.send(0, "hello")
		s3.send(0, s3.req("normal", "w")) // a request inside the tunnel is served as usual
		s3.send(0, s3.req("unbind"))
		s3.op("stop")
		s3.emit(g)
	}
	// upgrade, then nothing more from the client, then Stop (no request round trip in between:
	// whatever Stop touches of the upgraded connection is not ordered by one)
	s2 := newScen("fixed")
	s2.op("run 1 1")
	s2.op("connect")
	s2.send(0, s2.req("starttls", "w", "hs"))
	s2.send(0, "hello")
	s2.op("stop")
	s2.emit(g)
	// an upgraded session that lasts: requests keep being answered inside the tunnel
	s1 := newScen("fixed")
	s1.op("run 1 1")
	s1.op("connect")
	s1.send(0, s1.req("starttls", "w", "hs"))
	s1.send(0, "hello")
	s1.send(0, s1.req("normal", "w"))
	s1.op("sleep 5500")
	s1.send(0, s1.req("normal", "w"), s1.req("normal", "w"))
	s1.op("stop")
	s1.emit(g)
	// a pipelined request right behind StartTLS is not consumed before the handler returns
	s := newScen("fixed")
	s.op("run 1 1")
	s.op("connect")
	s.send(0, s.req("starttls", "b8", "w"))
	s.send(0, s.req("normal", "w"))
	s.op("release 8")
	s.op("close 0")
	s.emit(g)
}

// C17: Ready and failing listens
func genC17(g *Gen) {
	s := newScen("fixed")
	s.op("run 1 1")
	s.op("connect")
	s.send(0, s.req("normal", "w"))
	s.op("stop")
	s.emit(g)
	// Ready stays true across a failed accept, and stays truthful: the client is served
	s = newScen("fixed")
	s.op("run 1 1")
	s.op("accepterr")
	s.send(0, s.req("normal", "w"))
	s.op("connect")
	s.send(1, s.req("normal", "w"))
	s.op("stop")
	s.emit(g)
	s = newScen("fixed:addr=busy")
	s.op("run 1 0")
	s.emit(g)
	s = newScen("fixed:addr=busy")
	s.op("run 1 0")
	s.op("stop")
	s.emit(g)
	// the port is in use by ANOTHER gldap server of the same process (whatever socket options
	// gldap sets are set on both): Run fails, Ready stays false
	s = newScen("fixed:addr=dup")
	s.op("run 1 0")
	s.emit(g)
	s = newScen("fixed:addr=dup")
	s.op("run 1 0")
	s.op("stop")
	s.emit(g)
	s = newScen("fixed:addr=bad")
	s.op("run 0 1")
	s.emit(g)
	s = newScen("fixed:addr=bad")
	s.op("run 0 1")
	s.op("stop")
	s.emit(g)
	// the same with a TLS configuration given to Run (the listener is wrapped after net.Listen)
	for _, c := range []string{"fixed:addr=busy:tls=tls", "fixed:addr=bad:tls=tls"} {
		for _, withStop := range []bool{false, true} {
			s = newScen(c)
			if strings.Contains(c, "busy") {
				s.op("run 1 0")
			} else {
				s.op("run 0 1")
			}
			if withStop {
				s.op("stop")
			}
			s.emit(g)
		}
	}
}

// liferand: random histories over the whole operation alphabet (thorough tier): connections
// opened and closed, pipelines with blocking / writing / panicking handlers, Unbind,
// malformed frames, a client that stops reading, slow OnClose, then Stop.  The model
// predicts every snapshot; nothing here is property-specific.
func init() { generators["liferand"] = genLifeRand }

func genLifeRand(g *Gen) {
	r := g.rng
	for i := 0; i < g.n; i++ {
		cfg := "fixed"
		if r.Intn(4) == 0 {
			cfg += ":unbind=0"
		}
		if r.Intn(5) == 0 {
			cfg += ":dflt=1"
		}
		s := newScen(cfg)
		s.op("run 1 1")
		var open []int // connections the scenario still talks to
		total := 0
		connect := func() {
			s.op("connect")
			open = append(open, total)
			total++
		}
		for c := 1 + r.Intn(3); c > 0; c-- {
			connect()
		}
		used := map[int]bool{}
		held := false
		drop := func(j int) { open = append(open[:j:j], open[j+1:]...) }
		script := func() []string {
			switch r.Intn(8) {
			case 0:
				return nil
			case 1, 2:
				return []string{"w"}
			case 3:
				b := 1 + r.Intn(3)
				used[b] = true
				return []string{"b" + strconv.Itoa(b)}
			case 4:
				b := 1 + r.Intn(3)
				used[b] = true
				return []string{"b" + strconv.Itoa(b), "w"}
			case 5:
				b := 1 + r.Intn(3)
				used[b] = true
				return []string{"w", "b" + strconv.Itoa(b), "w"}
			case 6:
				return []string{"w", "w"}
			default:
				if r.Intn(3) == 0 {
					return []string{"p"}
				}
				return []string{"w"}
			}
		}
		for k := 4 + r.Intn(9); k > 0; k-- {
			if len(open) == 0 {
				connect()
				continue
			}
			j := r.Intn(len(open))
			c := open[j]
			switch r.Intn(12) {
			case 0:
				connect()
			case 1:
				s.op("close " + strconv.Itoa(c))
				drop(j)
			case 2:
				for b := range used {
					s.op("release " + strconv.Itoa(b))
					delete(used, b)
					break
				}
			case 3:
				// a client that does not read, on a connection of its own (with other handlers
				// of the same connection still to write, how much fits into the socket buffers
				// before the big writer blocks would decide what they do: not determined)
				s.op("connect")
				nc := total
				total++
				s.op(fmt.Sprintf("stall %d 1", nc))
				s.send(nc, s.req("normal", "W"))
			case 4:
				var items []string
				for n := r.Intn(3); n > 0; n-- {
					items = append(items, s.req("normal", script()...))
				}
				items = append(items, s.req("unbind"))
				if r.Intn(2) == 0 {
					items = append(items, s.req("normal", "w"))
				}
				s.send(c, items...)
				drop(j)
			case 5:
				s.send(c, "bad")
				drop(j)
			case 6:
				if !held && r.Intn(2) == 0 {
					s.op("holdonclose 1")
					held = true
				}
			default:
				var items []string
				for n := 1 + r.Intn(3); n > 0; n-- {
					items = append(items, s.req("normal", script()...))
				}
				s.send(c, items...)
			}
		}
		if r.Intn(3) == 0 {
			s.op("stop") // Stop with handlers still on their barriers / OnClose still held
		}
		for b := range used {
			s.op("release " + strconv.Itoa(b))
		}
		if held {
			s.op("holdonclose 0")
		}
		s.op("stop")
		s.emit(g)
	}
}
