package main

// C18: the complete product {server auth only, client certificate required} x
// 7 client behaviours x operations, against a real gldap server (worker) and
// against the real test directory (WithMTLS / default TLS), with a conforming
// bystander.  Observed: did a handler run for the offending connection.

import (
	"crypto/tls"
	"crypto/x509"
	"encoding/pem"
	"fmt"
	"net"
	"os"
	"path/filepath"
	"strings"
	"time"

	"github.com/go-ldap/ldap/v3"
)

func init() {
	runners["c18run"] = runC18
	generators["c18"] = genC18
}

var c18Behaviours = []string{"plain", "garbage", "idle", "abandon", "tls-nocert", "tls-otherca", "tls-otherca-chain", "tls-goodcert"}

func genC18(g *Gen) {
	for _, target := range []string{"server", "directory"} {
		cfgs := []string{"tls", "mtls"}
		if target == "server" {
			// the three ways a crypto/tls server configuration can supply its certificate
			cfgs = append(cfgs, "tls-getcert", "mtls-getcert", "tls-getconfig", "mtls-getconfig")
		}
		for _, cfg := range cfgs {
			for _, b := range c18Behaviours {
				ops := []string{"search"}
				if b == "plain" {
					ops = []string{"bind", "search", "modify", "add", "del", "ext", "unbind"}
				}
				for _, op := range ops {
					g.emit("c18run", target, cfg, b, op)
				}
			}
		}
	}
}

func plainFrame(op string, id int64) []byte {
	one := []byte("v")
	switch op {
	case "bind":
		return encodeReq(&TReq{Kind: "bind", ID: id, DN: []byte("cn=alice,ou=people,dc=example,dc=org"), PW: []byte("pw")}).encode()
	case "modify":
		return encodeReq(&TReq{Kind: "modify", ID: id, DN: []byte("cn=a"), Changes: []TChange{{Op: 0, Type: []byte("cn"), Vals: [][]byte{one}}}}).encode()
	case "add":
		return encodeReq(&TReq{Kind: "add", ID: id, DN: []byte("cn=a"), AddAttrs: []TAttr{{Type: []byte("cn"), Vals: [][]byte{one}}}}).encode()
	case "del":
		return encodeReq(&TReq{Kind: "del", ID: id, DN: []byte("cn=a")}).encode()
	case "ext":
		return encodeReq(&TReq{Kind: "ext", ID: id, Name: []byte("1.3.6.1.4.1.4203.1.11.3")}).encode()
	case "unbind":
		return encodeReq(&TReq{Kind: "unbind", ID: id}).encode()
	default:
		return encodeReq(&TReq{Kind: "search", ID: id, DN: []byte("ou=people,dc=example,dc=org"), Scope: 2, Filter: &TFilter{Kind: "present", A: []byte("cn")}}).encode()
	}
}

// gotResponse reads until a whole LDAPMessage arrived, EOF or the limit
func gotResponse(c net.Conn, limit time.Duration) bool {
	_ = c.SetReadDeadline(time.Now().Add(limit))
	var buf []byte
	chunk := make([]byte, 4096)
	for {
		n, err := c.Read(chunk)
		buf = append(buf, chunk[:n]...)
		if _, _, ok := parseNode(buf); ok {
			return true
		}
		if err != nil {
			return false
		}
	}
}

func runC18(t *Toks) string {
	target, cfg, beh, op := t.Next(), t.Next(), t.Next(), t.Next()
	var wp *workerProc
	var err error
	if target == "server" {
		wp, err = startWorker("recovery=1 onclose=1 unbind=1 tls="+cfg, false)
	} else {
		wp, err = startWorker("dir=1 tls="+cfg, false)
	}
	if err != nil {
		return "HARNESS-ERROR " + err.Error()
	}
	defer wp.kill()
	for dl := time.Now().Add(5 * time.Second); time.Now().Before(dl); time.Sleep(2 * time.Millisecond) {
		if a, ok := wp.ask("ready", "ready", time.Second); ok && a[0] == "true" {
			break
		}
	}
	// client material
	good, goodCli := c18ClientConfig(target, "client")
	_ = good
	bystander := func(id int64) bool {
		c, err := tls.DialWithDialer(&net.Dialer{Timeout: 3 * time.Second}, "tcp", wp.addr, goodCli)
		if err != nil {
			return false
		}
		defer c.Close()
		if target == "server" {
			wp.ask(fmt.Sprintf("script %d w", id), "script-ok", 2*time.Second)
		}
		if _, err := c.Write(plainFrame("search", id)); err != nil {
			return false
		}
		return gotResponse(c, 3*time.Second)
	}
	okBefore := bystander(9001)
	// a conforming client may do unusual but legal things before the offender shows up, such as
	// asking for StartTLS inside its TLS session: nothing a conforming client does may open the
	// door for the next one
	if c, err := tls.DialWithDialer(&net.Dialer{Timeout: 3 * time.Second}, "tcp", wp.addr, goodCli); err == nil {
		if target == "server" {
			wp.ask("script 9003 w", "script-ok", 2*time.Second)
		}
		_, _ = c.Write(encodeReq(&TReq{Kind: "ext", ID: 9003, Name: []byte("1.3.6.1.4.1.1466.20037")}).encode())
		_ = gotResponse(c, 700*time.Millisecond)
		c.Close()
	}
	// the offending connection
	answered := false
	okDuring := false
	const id = 7001
	if target == "server" {
		wp.ask(fmt.Sprintf("script %d w", id), "script-ok", 2*time.Second)
	}
	switch beh {
	case "plain", "garbage", "idle", "abandon":
		c, err := net.DialTimeout("tcp", wp.addr, 3*time.Second)
		if err != nil {
			return "HARNESS-ERROR dial"
		}
		switch beh {
		case "plain":
			_, _ = c.Write(plainFrame(op, id))
		case "garbage":
			_, _ = c.Write([]byte{0xde, 0xad, 0xbe, 0xef, 0x00, 0x01, 0x02, 0x03, 0x30, 0x0c, 0x02, 0x01, 0x01})
		case "idle":
			time.Sleep(150 * time.Millisecond)
		case "abandon":
			_, _ = c.Write([]byte{0x16, 0x03, 0x01, 0x02, 0x00, 0x01, 0x00, 0x01})
		}
		answered = gotResponse(c, 400*time.Millisecond)
		// "such attempts end only their own connection": a conforming client that connects
		// while the offender is still there is served
		okDuring = bystander(9004)
		c.Close()
	default:
		var cli *tls.Config
		switch beh {
		case "tls-nocert":
			_, cli = c18ClientConfig(target, "")
		case "tls-otherca":
			_, cli = c18ClientConfig(target, "other")
		case "tls-otherca-chain":
			// the foreign leaf together with its issuer, as a chain
			_, cli = c18ClientConfig(target, "other")
			if len(cli.Certificates) == 1 {
				if pemBytes, err := os.ReadFile(filepath.Join(certDir(), "ca2.pem")); err == nil {
					if blk, _ := pem.Decode(pemBytes); blk != nil {
						cli.Certificates[0].Certificate = append(cli.Certificates[0].Certificate, blk.Bytes)
					}
				}
			}
		default:
			cli = goodCli
		}
		if strings.HasPrefix(beh, "tls-otherca") && len(cli.Certificates) == 1 {
			// send the foreign certificate whatever CAs the server names as acceptable
			// (a Go client would otherwise politely send none)
			forced := cli.Certificates[0]
			cli.Certificates = nil
			cli.GetClientCertificate = func(*tls.CertificateRequestInfo) (*tls.Certificate, error) { return &forced, nil }
		}
		c, err := tls.DialWithDialer(&net.Dialer{Timeout: 3 * time.Second}, "tcp", wp.addr, cli)
		if err == nil {
			_, _ = c.Write(plainFrame(op, id))
			answered = gotResponse(c, 700*time.Millisecond)
			okDuring = bystander(9004)
			c.Close()
		} else {
			okDuring = bystander(9004)
		}
	}
	time.Sleep(50 * time.Millisecond)
	evAfter, dead := wp.snapshotEvents()
	ran := false
	for _, e := range evAfter {
		// identified by the offender's message id, not by counting (events of the
		// bystander may still be in flight on the worker's stdout)
		if e.kind == "h-start" && len(e.args) >= 4 && e.args[3] == "7001" {
			ran = true
		}
	}
	if target == "directory" {
		ran = answered // the directory's handlers always answer; no event hooks inside it
	}
	okAfter := bystander(9002)
	return fmt.Sprintf("handler_ran=%s bystanders=%s%s%s alive=%s", b01(ran), b01(okBefore), b01(okDuring), b01(okAfter), b01(!dead))
}

// c18ClientConfig: client TLS configuration for the harness server (our CA) or
// the test directory (its own CA, written by the worker into the cert dir)
func c18ClientConfig(target, certName string) (*x509.CertPool, *tls.Config) {
	d := certDir()
	pool := x509.NewCertPool()
	caFile := "ca.pem"
	if target == "directory" {
		caFile = "dirca.pem"
	}
	caPEM, _ := os.ReadFile(filepath.Join(d, caFile))
	pool.AppendCertsFromPEM(caPEM)
	cfg := &tls.Config{RootCAs: pool, ServerName: "localhost", MinVersion: tls.VersionTLS12}
	switch certName {
	case "client":
		if target == "directory" {
			c, err := tls.LoadX509KeyPair(filepath.Join(d, "dirclient.pem"), filepath.Join(d, "dirclient.key"))
			if err == nil {
				cfg.Certificates = []tls.Certificate{c}
			}
		} else {
			cfg.Certificates = []tls.Certificate{clientCert("client")}
		}
	case "other":
		cfg.Certificates = []tls.Certificate{clientCert("other")}
	}
	return pool, cfg
}

var _ = ldap.ScopeBaseObject
var _ = strings.TrimSpace

// c07tlsstall <how>: on a TLS listener one client connects and stalls before / in the middle of
// its handshake (it stays connected); connections opened afterwards must still be accepted,
// complete their handshake and be served, and the connection that was there before keeps working.
func init() { runners["c07tlsstall"] = runC07TLSStall }

func runC07TLSStall(t *Toks) string {
	how := t.Next()
	wp, err := startWorker("recovery=1 onclose=1 unbind=1 tls=tls", false)
	if err != nil {
		return "HARNESS-ERROR " + err.Error()
	}
	defer wp.kill()
	for dl := time.Now().Add(5 * time.Second); time.Now().Before(dl); time.Sleep(2 * time.Millisecond) {
		if a, ok := wp.ask("ready", "ready", time.Second); ok && a[0] == "true" {
			break
		}
	}
	_, cli := c18ClientConfig("server", "client")
	search := func(c net.Conn, id int64) bool {
		wp.ask(fmt.Sprintf("script %d w", id), "script-ok", 2*time.Second)
		if _, err := c.Write(plainFrame("search", id)); err != nil {
			return false
		}
		return gotResponse(c, 3*time.Second)
	}
	old, err := tls.DialWithDialer(&net.Dialer{Timeout: 3 * time.Second}, "tcp", wp.addr, cli)
	if err != nil {
		return "HARNESS-ERROR first dial: " + err.Error()
	}
	defer old.Close()
	if !search(old, 8001) {
		return "HARNESS-ERROR first connection not served"
	}
	// the stalling client
	st, err := net.DialTimeout("tcp", wp.addr, 3*time.Second)
	if err != nil {
		return "HARNESS-ERROR stall dial"
	}
	defer st.Close()
	if how == "partial" {
		_, _ = st.Write([]byte{0x16, 0x03, 0x01})
	}
	time.Sleep(100 * time.Millisecond)
	oldOK := search(old, 8002)
	served := 0
	for i := 0; i < 2; i++ {
		c, err := tls.DialWithDialer(&net.Dialer{Timeout: 3 * time.Second}, "tcp", wp.addr, cli)
		if err != nil {
			continue
		}
		if search(c, int64(8100+i)) {
			served++
		}
		c.Close()
	}
	if !oldOK {
		return "SPECFAIL the connection that was already open is no longer served while another client stalls in its TLS handshake"
	}
	if served != 2 {
		return fmt.Sprintf("SPECFAIL %d of 2 connections opened while another client stalls in its TLS handshake were served", served)
	}
	return "OK served=2 old=1"
}

// c09tlsids: connection ids on a TLS listener when some clients never complete their handshake.
// A connects and stays silent; B connects (TLS) and is served; A goes away; C and D connect and
// are served while B is still there.  The ids the handlers of B, C and D report must be
// positive and pairwise different, and OnClose must not name a connection that is still open.
func init() { runners["c09tlsids"] = runC09TLSIds }

func runC09TLSIds(t *Toks) string {
	how := t.Next()
	wp, err := startWorker("recovery=1 onclose=1 unbind=1 tls=tls", false)
	if err != nil {
		return "HARNESS-ERROR " + err.Error()
	}
	defer wp.kill()
	for dl := time.Now().Add(5 * time.Second); time.Now().Before(dl); time.Sleep(2 * time.Millisecond) {
		if a, ok := wp.ask("ready", "ready", time.Second); ok && a[0] == "true" {
			break
		}
	}
	_, cli := c18ClientConfig("server", "client")
	search := func(c net.Conn, id int64) bool {
		wp.ask(fmt.Sprintf("script %d w", id), "script-ok", 2*time.Second)
		if _, err := c.Write(plainFrame("search", id)); err != nil {
			return false
		}
		return gotResponse(c, 3*time.Second)
	}
	dial := func() (net.Conn, error) {
		return tls.DialWithDialer(&net.Dialer{Timeout: 3 * time.Second}, "tcp", wp.addr, cli)
	}
	var offenders []net.Conn
	nOff := 1
	if how == "three" {
		nOff = 3
	}
	for i := 0; i < nOff; i++ {
		a, err := net.DialTimeout("tcp", wp.addr, 3*time.Second)
		if err != nil {
			return "HARNESS-ERROR offender dial"
		}
		if how == "garbage" {
			_, _ = a.Write([]byte("GET / HTTP/1.0\r\n\r\n"))
		}
		offenders = append(offenders, a)
	}
	time.Sleep(50 * time.Millisecond)
	b, err := dial()
	if err != nil {
		return "HARNESS-ERROR dial B: " + err.Error()
	}
	defer b.Close()
	if !search(b, 8201) {
		return "HARNESS-ERROR B not served"
	}
	for _, a := range offenders {
		a.Close()
	}
	time.Sleep(150 * time.Millisecond) // the failed handshakes are noticed and torn down
	var later []net.Conn
	for i := 0; i < 3; i++ {
		c, err := dial()
		if err != nil {
			return "HARNESS-ERROR dial later: " + err.Error()
		}
		defer c.Close()
		if !search(c, int64(8210+i)) {
			return "HARNESS-ERROR later connection not served"
		}
		later = append(later, c)
	}
	if !search(b, 8202) {
		return "HARNESS-ERROR B not served the second time"
	}
	time.Sleep(50 * time.Millisecond)
	evs, _ := wp.snapshotEvents()
	idOf := map[string]string{} // message id -> ConnectionID the handler saw
	var onclose []string
	for _, e := range evs {
		if e.kind == "h-start" && len(e.args) >= 4 {
			idOf[e.args[3]] = e.args[0]
		}
		if e.kind == "onclose-leave" && len(e.args) >= 1 {
			onclose = append(onclose, e.args[0])
		}
	}
	ids := []string{idOf["8201"], idOf["8210"], idOf["8211"], idOf["8212"]}
	if idOf["8202"] != idOf["8201"] {
		return fmt.Sprintf("SPECFAIL the two requests of connection B reported ConnectionIDs %s and %s", idOf["8201"], idOf["8202"])
	}
	seen := map[string]bool{}
	for _, x := range ids {
		if x == "" || x == "0" || strings.HasPrefix(x, "-") {
			return fmt.Sprintf("SPECFAIL a handler reported a missing or non-positive ConnectionID: B,C,D,E = %v", ids)
		}
		if seen[x] {
			return fmt.Sprintf("SPECFAIL connections open at the same time share a ConnectionID: B,C,D,E = %v", ids)
		}
		seen[x] = true
	}
	for _, x := range onclose {
		if seen[x] {
			return fmt.Sprintf("SPECFAIL OnClose(%s) was called while the connection with that id is still open (B,C,D,E = %v)", x, ids)
		}
	}
	return fmt.Sprintf("OK distinct=%d", len(seen))
}

// c18many <cfg> <behaviour>: 140 clients one after another that do not satisfy the TLS
// configuration (each is turned away); then a conforming client connects and is served, and the
// conforming client that was there all along still is.  "Such attempts end only their own connection",
// however many there were.
func init() { runners["c18many"] = runC18Many }

func runC18Many(t *Toks) string {
	cfg, beh := t.Next(), t.Next()
	wp, err := startWorker("recovery=1 onclose=1 unbind=1 tls="+cfg, false)
	if err != nil {
		return "HARNESS-ERROR " + err.Error()
	}
	defer wp.kill()
	for dl := time.Now().Add(5 * time.Second); time.Now().Before(dl); time.Sleep(2 * time.Millisecond) {
		if a, ok := wp.ask("ready", "ready", time.Second); ok && a[0] == "true" {
			break
		}
	}
	_, good := c18ClientConfig("server", "client")
	search := func(c net.Conn, id int64) bool {
		wp.ask(fmt.Sprintf("script %d w", id), "script-ok", 2*time.Second)
		if _, err := c.Write(plainFrame("search", id)); err != nil {
			return false
		}
		return gotResponse(c, 3*time.Second)
	}
	old, err := tls.DialWithDialer(&net.Dialer{Timeout: 3 * time.Second}, "tcp", wp.addr, good)
	if err != nil {
		return "HARNESS-ERROR first dial: " + err.Error()
	}
	defer old.Close()
	if !search(old, 8301) {
		return "HARNESS-ERROR first connection not served"
	}
	_, nocert := c18ClientConfig("server", "")
	refused := 0
	for i := 0; i < 140; i++ {
		switch beh {
		case "tls-nocert":
			c, err := tls.DialWithDialer(&net.Dialer{Timeout: 2 * time.Second}, "tcp", wp.addr, nocert)
			if err == nil {
				_ = c.SetDeadline(time.Now().Add(500 * time.Millisecond))
				_, _ = c.Write(plainFrame("search", 7001))
				if !gotResponse(c, 300*time.Millisecond) {
					refused++
				}
				c.Close()
			} else {
				refused++
			}
		default:
			c, err := net.DialTimeout("tcp", wp.addr, 2*time.Second)
			if err != nil {
				return "HARNESS-ERROR offender dial"
			}
			if beh == "plain" {
				_, _ = c.Write(plainFrame("bind", 7001))
			} else {
				_, _ = c.Write([]byte{0xde, 0xad, 0xbe, 0xef, 0x00, 0x01, 0x02, 0x03})
			}
			// the server ends the attempt: wait for its close (or alert), briefly
			_ = c.SetReadDeadline(time.Now().Add(400 * time.Millisecond))
			buf := make([]byte, 256)
			for {
				if _, err := c.Read(buf); err != nil {
					break
				}
			}
			refused++
			c.Close()
		}
	}
	fresh, err := tls.DialWithDialer(&net.Dialer{Timeout: 3 * time.Second}, "tcp", wp.addr, good)
	if err != nil {
		return fmt.Sprintf("SPECFAIL after %d refused clients a conforming client can no longer complete its handshake: %v", refused, err)
	}
	defer fresh.Close()
	if !search(fresh, 8302) {
		return fmt.Sprintf("SPECFAIL after %d refused clients a conforming client connects but is not served", refused)
	}
	if !search(old, 8303) {
		return fmt.Sprintf("SPECFAIL after %d refused clients the conforming client that was already connected is no longer served", refused)
	}
	evs, dead := wp.snapshotEvents()
	for _, e := range evs {
		if e.kind == "h-start" && len(e.args) >= 4 && e.args[3] == "7001" {
			return "SPECFAIL a handler ran for one of the refused clients"
		}
	}
	if dead {
		return "SPECFAIL the server process died"
	}
	return fmt.Sprintf("OK refused=%d", refused)
}
