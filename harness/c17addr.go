package main

// c17addr: Run on an address form.  For every form the real server is started on it;
// reported are: what Go's own net.Listen makes of the literal string (the reference for
// "malformed"), whether Run returned an error, whether Ready became true, and whether a
// TCP connection attempt to the string as given succeeds and is served while Ready is true.

import (
	"context"
	"fmt"
	"net"
	"net/netip"
	"strconv"
	"strings"
	"time"

	"github.com/hashicorp/go-hclog"
	"github.com/jimlambrt/gldap"
	"github.com/jimlambrt/gldap/testdirectory"
)

func init() {
	runners["c17addr"] = runC17Addr
	generators["c17addr"] = genC17Addr
}

func genC17Addr(g *Gen) {
	forms := []string{
		"127.0.0.1:P", "localhost:P", ":P", "0.0.0.0:P", "[::1]:P", "[::]:P", "[127.0.0.1]:P",
		"[[::1]]:P", "[::1]]:P", "[]::1]:P", "[[::1]:P", "[::1:P", "::1:P", ":::P", "[::1]P", "[::1]",
		"127.0.0.1", "127.0.0.1:", "127.0.0.1:abc", "127.0.0.1:-1", "127.0.0.1:65536", "127.0.0.1:P:1",
		"256.1.1.1:P", "1.2.3:P", "1.2.3.4.5:P", "127.0.0.1 :P", " 127.0.0.1:P", "", ":", "::", "P",
		"[::1%lo]:P", "[fe80::1%nosuchif]:P", "[::ffff:127.0.0.1]:P", "[0:0:0:0:0:0:0:1]:P", "[1::2::3]:P",
		"[gggg::1]:P", "localhost:ldap", "no such host.invalid:P", "127.1:P", "0x7f.0.0.1:P", "[::1]:P/", "tcp://127.0.0.1:P",
	}
	for _, f := range forms {
		g.emit("c17addr", hx([]byte(f)))
	}
}

func runC17Addr(t *Toks) string {
	form := string(unhx(t.Next()))
	// a free port
	l0, err := net.Listen("tcp", "127.0.0.1:0")
	if err != nil {
		return "HARNESS-ERROR " + err.Error()
	}
	port := l0.Addr().(*net.TCPAddr).Port
	l0.Close()
	addr := strings.ReplaceAll(form, "P", fmt.Sprint(port))
	// the reference reading of the string, written from the property and gldap's documentation
	// (host ":" port split at the last colon; host empty, IPv4, resolvable name, or an IPv6
	// literal either unbracketed or inside exactly one pair of brackets): class and, for a
	// well-formed address, the canonical host:port a client would dial
	class, canon := classifyAddr(addr)
	srv, err := gldap.NewServer(gldap.WithLogger(hclog.New(&hclog.LoggerOptions{Level: hclog.Off})))
	if err != nil {
		return "HARNESS-ERROR " + err.Error()
	}
	mux, _ := gldap.NewMux()
	_ = mux.DefaultRoute(func(w *gldap.ResponseWriter, r *gldap.Request) {
		_ = w.Write(r.NewResponse(gldap.WithResponseCode(gldap.ResultSuccess)))
	})
	_ = srv.Router(mux)
	runRet := make(chan error, 1)
	go func() { runRet <- srv.Run(addr) }()
	ready, runErr, returned := false, false, false
	deadline := time.Now().Add(1500 * time.Millisecond)
	for time.Now().Before(deadline) && !ready && !returned {
		select {
		case e := <-runRet:
			returned, runErr = true, e != nil
		default:
			ready = srv.Ready()
			time.Sleep(2 * time.Millisecond)
		}
	}
	if !ready {
		ready = srv.Ready() // never true later either?
	}
	dial, served := false, false
	if ready {
		if c, err := net.DialTimeout("tcp", canon, time.Second); err == nil {
			dial = true
			_ = c.SetDeadline(time.Now().Add(2 * time.Second))
			if _, err := c.Write([]byte{0x30, 0x08, 0x02, 0x01, 0x01, 0x4a, 0x03, 'd', 'c', '='}); err == nil {
				buf := make([]byte, 64)
				if n, err := c.Read(buf); err == nil && n > 0 {
					served = true
				}
			}
			c.Close()
		}
	}
	_ = srv.Stop()
	if !returned {
		select {
		case e := <-runRet:
			returned, runErr = true, e != nil
		case <-time.After(3 * time.Second):
		}
	}
	verdict := "OK"
	switch {
	case runErr && ready:
		verdict = "SPECFAIL Run returned an error and Ready is true"
	case class == "malformed" && (!runErr || ready):
		verdict = "SPECFAIL the address is malformed, and Run did not return an error (or Ready became true)"
	case class == "wellformed" && ready && !(dial && served):
		verdict = "SPECFAIL Ready is true and a connection attempt to the address is not served"
	}
	return fmt.Sprintf("%s class=%s runerr=%v ready=%v dial=%v served=%v addr=%s canon=%s", verdict, class, runErr, ready, dial, served,
		strings.ReplaceAll(addr, " ", "_"), strings.ReplaceAll(canon, " ", "_"))
}

// classifyAddr: "wellformed" (with the canonical dial string), "malformed", or "other"
// (port not a number 1..65535: not judged beyond "an error means not ready")
func classifyAddr(addr string) (string, string) {
	i := strings.LastIndexByte(addr, ':')
	if i < 0 {
		return "malformed", ""
	}
	host, port := addr[:i], addr[i+1:]
	if port == "" {
		return "malformed", ""
	}
	pn, err := strconv.Atoi(port)
	if err != nil || pn < 1 || pn > 65535 || strings.TrimSpace(port) != port || port[0] == '+' {
		if err != nil && !strings.ContainsAny(port, "0123456789-+ ") {
			return "other", "" // a service name
		}
		return "malformed", ""
	}
	switch {
	case host == "":
		return "wellformed", net.JoinHostPort("127.0.0.1", port)
	case host[0] == '[':
		if len(host) < 3 || host[len(host)-1] != ']' {
			return "malformed", ""
		}
		inner := host[1 : len(host)-1]
		if strings.ContainsAny(inner, "[]") {
			return "malformed", ""
		}
		if _, err := netip.ParseAddr(inner); err != nil {
			return "malformed", ""
		}
		return "wellformed", net.JoinHostPort(inner, port) // (Go's net accepts a bracketed IPv4 literal as well)
	case strings.ContainsAny(host, "[]"):
		return "malformed", ""
	case strings.Contains(host, ":"):
		a, err := netip.ParseAddr(host)
		if err != nil || !a.Is6() {
			return "malformed", ""
		}
		return "wellformed", net.JoinHostPort(host, port)
	}
	if net.ParseIP(host) != nil {
		return "wellformed", net.JoinHostPort(host, port)
	}
	ctx, cancel := context.WithTimeout(context.Background(), time.Second)
	defer cancel()
	if hs, _ := net.DefaultResolver.LookupHost(ctx, host); len(hs) > 0 {
		return "wellformed", net.JoinHostPort(host, port)
	}
	return "malformed", ""
}

// c17dirstart: the test directory is started on a port that is already in use.  The
// server cannot listen, Ready never becomes true (C17) - so whoever waits for Ready needs
// a way out: Start must report the failure through the testing.T it was given and return.
func init() { runners["c17dirstart"] = runC17DirStart }

func runC17DirStart(t *Toks) string {
	_ = t
	busy, err := net.Listen("tcp", "127.0.0.1:0")
	if err != nil {
		return "HARNESS-ERROR " + err.Error()
	}
	defer busy.Close()
	port := busy.Addr().(*net.TCPAddr).Port
	qt := &quietT{}
	done := make(chan string, 1)
	go func() {
		defer func() {
			if r := recover(); r != nil {
				done <- "failnow"
			}
		}()
		td := testdirectory.Start(qt, testdirectory.WithNoTLS(qt), testdirectory.WithHost(qt, "127.0.0.1"), testdirectory.WithPort(qt, port),
			testdirectory.WithLogger(qt, hclog.New(&hclog.LoggerOptions{Level: hclog.Off})))
		if td != nil {
			td.Stop()
		}
		done <- "returned"
	}()
	select {
	case how := <-done:
		qt.mu.Lock()
		failed := qt.failed
		qt.mu.Unlock()
		if !failed {
			return "SPECFAIL Start " + how + " on a port in use without reporting a failure to the test"
		}
		return "OK Start " + how + " and reported the failure"
	case <-time.After(3 * time.Second):
		return "SPECFAIL Start did not return within 3 s on a port that is already in use (it waits for Ready, which never becomes true)"
	}
}

// addrv: validateAddrPort itself, against its model (coq/Addr.v).  The generator evaluates
// the four library questions the function asks (on the substrings it asks them about) and
// puts the answers into the case line for the model; the runner calls the real function.
func init() {
	runners["addrv"] = runAddrV
	generators["addrv"] = genAddrV
}

func addrOracleBits(addr string) [4]bool {
	i := strings.LastIndexByte(addr, ':')
	var bits [4]bool
	if i < 0 {
		return bits
	}
	host := addr[:i]
	if _, err := netip.ParseAddr(strings.Trim(host, "[]")); err == nil {
		bits[0] = true
	}
	if host != "" {
		ctx, cancel := context.WithTimeout(context.Background(), time.Second)
		hs, _ := net.DefaultResolver.LookupHost(ctx, host)
		cancel()
		bits[1] = len(hs) > 0
	}
	if _, err := netip.ParseAddr(host); err == nil {
		bits[2] = true
	}
	bits[3] = net.ParseIP(host) != nil
	return bits
}

func genAddrV(g *Gen) {
	r := g.rng
	emit := func(a string) {
		b := addrOracleBits(a)
		g.emit("addrv", hx([]byte(a)), b01(b[0]), b01(b[1]), b01(b[2]), b01(b[3]))
	}
	seeds := []string{"127.0.0.1:389", "localhost:389", ":389", "[::1]:389", "::1:389", "[[::1]]:389", "[::1]]:389", "[]::1]:389",
		"[::1:389", "[::1]", "[::1]:", "127.0.0.1", "", ":", "::", "[", "]", "[]:1", "[fe80::1%lo]:389", "[127.0.0.1]:389",
		"1.2.3:389", "256.1.1.1:389", "host name:389", "[::ffff:1.2.3.4]:636", "a:b:c", "[a]:1", "[:]:1", "x]:1", "[x:1"}
	for _, s := range seeds {
		emit(s)
	}
	// every string of length <= 4 over the alphabet that decides the function's branches
	alpha := []byte{'[', ']', ':', '1', 'a'}
	var rec func(prefix []byte, n int)
	rec = func(prefix []byte, n int) {
		emit(string(prefix))
		if n == 0 {
			return
		}
		for _, c := range alpha {
			rec(append(append([]byte{}, prefix...), c), n-1)
		}
	}
	depth := 4
	if g.tier == "thorough" {
		depth = 6
	}
	rec(nil, depth)
	// random edits of the seeds
	for i := 0; i < g.n; i++ {
		b := []byte(seeds[r.Intn(len(seeds))])
		for k := 1 + r.Intn(3); k > 0; k-- {
			switch r.Intn(3) {
			case 0:
				if len(b) > 0 {
					j := r.Intn(len(b))
					b = append(b[:j:j], b[j+1:]...)
				}
			case 1:
				j := r.Intn(len(b) + 1)
				b = append(b[:j:j], append([]byte{"[]:1a.%"[r.Intn(7)]}, b[j:]...)...)
			default:
				if len(b) > 0 {
					b[r.Intn(len(b))] = "[]:1a.%"[r.Intn(7)]
				}
			}
		}
		emit(string(b))
	}
}

func runAddrV(t *Toks) (out string) {
	a := string(unhx(t.Next()))
	defer func() {
		if r := recover(); r != nil {
			out = "PANIC"
		}
	}()
	s, err := gldap.VerifValidateAddrPort(a)
	if err != nil {
		return "ERR"
	}
	return "OK " + hx([]byte(s))
}
