package main

// vh accesses: a small translator from gldap's Go source to the access table
// of the C15 model (coq/AccessGen.v, regenerated on every run).  For every
// function, method and function literal of the packages gldap and
// gldap/testdirectory it lists
//   - every read and write of a field of the tracked structs (Server, conn, Mux,
//     ResponseWriter, Request, Directory), with the mutexes held at that point
//     (Lock/RLock seen earlier on the same path of the function body and not yet
//     released; deferred unlocks hold to the end);
//   - every call of a function of the same package, with the mutexes held (so
//     "the caller holds the lock" annotations of the model can be checked).
// Types come from go/types (import errors ignored: only the packages' own
// struct types matter).  Test files and the verif-tagged export file are skipped.

import (
	"fmt"
	"go/ast"
	"go/importer"
	"go/parser"
	"go/token"
	"go/types"
	"os"
	"path/filepath"
	"sort"
	"strings"
)

func init() { commands["accesses"] = cmdAccesses }

var trackedStructs = map[string]bool{"Server": true, "conn": true, "Mux": true, "ResponseWriter": true, "Request": true, "Directory": true}

type accSite struct {
	fn    string
	field string
	write bool
	locks []string
	line  int
}
type callSite struct {
	fn, callee string
	locks      []string
	line       int
}

// objFields: fields of the tracked structs that point to an object with state of its own and no
// locking of its own (*bufio.Reader, *bufio.Writer): a method call through such a field is an
// access to that object ("Struct.field*"), and counts as a write
var objFields = map[string]bool{}

type extractor struct {
	base int // first line of the top-level function being walked: lines are reported relative to it,
	// so that an edit elsewhere in the file does not change the table
	fset  *token.FileSet
	info  *types.Info
	pkg   string
	sites []accSite
	calls []callSite
	funcs map[string]bool
}

func namedStruct(t types.Type) string {
	for {
		if p, ok := t.(*types.Pointer); ok {
			t = p.Elem()
			continue
		}
		break
	}
	if n, ok := t.(*types.Named); ok {
		if _, ok := n.Underlying().(*types.Struct); ok {
			return n.Obj().Name()
		}
	}
	return ""
}

// fieldOf resolves x.f to "Struct.f" when Struct is tracked
func (e *extractor) fieldOf(sel *ast.SelectorExpr) string {
	s, ok := e.info.Selections[sel]
	if !ok || s.Kind() != types.FieldVal {
		return ""
	}
	st := namedStruct(s.Recv())
	// embedded promotion: find the struct that really declares the field
	if v, ok := s.Obj().(*types.Var); ok && v.IsField() {
		// walk the index path
		t := s.Recv()
		for i, idx := range s.Index() {
			for {
				if p, ok := t.(*types.Pointer); ok {
					t = p.Elem()
					continue
				}
				break
			}
			stt, ok := t.Underlying().(*types.Struct)
			if !ok {
				break
			}
			if i == len(s.Index())-1 {
				st = namedStruct(t)
			}
			t = stt.Field(idx).Type()
		}
	}
	if !trackedStructs[st] {
		return ""
	}
	return st + "." + sel.Sel.Name
}

func isMutexType(t types.Type) bool {
	for {
		if p, ok := t.(*types.Pointer); ok {
			t = p.Elem()
			continue
		}
		break
	}
	s := t.String()
	return s == "sync.Mutex" || s == "sync.RWMutex" || strings.HasSuffix(s, "sync.Mutex") || strings.HasSuffix(s, "sync.RWMutex")
}

// lockCall recognises X.mu.Lock() etc.: returns (lock id, mode, acquire?)
func (e *extractor) lockCall(call *ast.CallExpr) (string, string, bool, bool) {
	sel, ok := call.Fun.(*ast.SelectorExpr)
	if !ok {
		return "", "", false, false
	}
	inner, ok := sel.X.(*ast.SelectorExpr)
	if !ok {
		return "", "", false, false
	}
	tv, ok := e.info.Types[inner]
	if !ok || !isMutexType(tv.Type) {
		return "", "", false, false
	}
	id := e.fieldOf(inner)
	if id == "" {
		return "", "", false, false
	}
	switch sel.Sel.Name {
	case "Lock":
		return id, "W", true, true
	case "RLock":
		return id, "R", true, true
	case "Unlock":
		return id, "W", false, true
	case "RUnlock":
		return id, "R", false, true
	}
	return "", "", false, false
}

type walker struct {
	e      *extractor
	fn     string
	held   []string
	nlit   *int
	writes map[*ast.SelectorExpr]bool
}

func (w *walker) copyHeld() []string { return append([]string{}, w.held...) }

func (w *walker) release(l string) {
	for i, h := range w.held {
		if h == l {
			w.held = append(w.held[:i:i], w.held[i+1:]...)
			return
		}
	}
}

func (w *walker) markWrites(lhs []ast.Expr) {
	for _, x := range lhs {
		if sel, ok := x.(*ast.SelectorExpr); ok {
			w.writes[sel] = true
		}
		// e.Attributes[i] = ... writes through the field
		if ix, ok := x.(*ast.IndexExpr); ok {
			if sel, ok := ix.X.(*ast.SelectorExpr); ok {
				w.writes[sel] = true
			}
		}
	}
}

func (w *walker) stmts(list []ast.Stmt) {
	for _, s := range list {
		w.stmt(s)
	}
}

func (w *walker) block(b *ast.BlockStmt) {
	if b == nil {
		return
	}
	saved := w.copyHeld()
	w.stmts(b.List)
	w.held = saved
}

func (w *walker) stmt(s ast.Stmt) {
	switch st := s.(type) {
	case *ast.ExprStmt:
		if call, ok := st.X.(*ast.CallExpr); ok {
			if id, mode, acq, ok := w.e.lockCall(call); ok {
				if acq {
					w.held = append(w.held, id+":"+mode)
				} else {
					w.release(id + ":" + mode)
				}
				return
			}
		}
		w.expr(st.X)
	case *ast.DeferStmt:
		if _, _, acq, ok := w.e.lockCall(st.Call); ok && !acq {
			return // deferred unlock: held to the end of the function
		}
		w.expr(st.Call)
	case *ast.GoStmt:
		if _, ok := st.Call.Fun.(*ast.FuncLit); ok {
			// the literal is numbered next by expr below
			w.e.calls = append(w.e.calls, callSite{w.fn, fmt.Sprintf("go %s$%d", w.fn, *w.nlit+1), w.copyHeld(), w.e.fset.Position(st.Pos()).Line - w.e.base})
		}
		w.expr(st.Call)
	case *ast.AssignStmt:
		w.markWrites(st.Lhs)
		for _, x := range st.Rhs {
			w.expr(x)
		}
		for _, x := range st.Lhs {
			w.expr(x)
		}
	case *ast.IncDecStmt:
		w.markWrites([]ast.Expr{st.X})
		w.expr(st.X)
	case *ast.BlockStmt:
		w.block(st)
	case *ast.IfStmt:
		saved := w.copyHeld()
		if st.Init != nil {
			w.stmt(st.Init)
		}
		w.expr(st.Cond)
		w.block(st.Body)
		if st.Else != nil {
			w.stmt(st.Else)
		}
		w.held = saved
	case *ast.ForStmt:
		saved := w.copyHeld()
		if st.Init != nil {
			w.stmt(st.Init)
		}
		if st.Cond != nil {
			w.expr(st.Cond)
		}
		if st.Post != nil {
			w.stmt(st.Post)
		}
		w.block(st.Body)
		w.held = saved
	case *ast.RangeStmt:
		w.expr(st.X)
		w.block(st.Body)
	case *ast.SwitchStmt:
		saved := w.copyHeld()
		if st.Init != nil {
			w.stmt(st.Init)
		}
		if st.Tag != nil {
			w.expr(st.Tag)
		}
		for _, c := range st.Body.List {
			cc := c.(*ast.CaseClause)
			for _, x := range cc.List {
				w.expr(x)
			}
			h := w.copyHeld()
			w.stmts(cc.Body)
			w.held = h
		}
		w.held = saved
	case *ast.TypeSwitchStmt:
		saved := w.copyHeld()
		if st.Init != nil {
			w.stmt(st.Init)
		}
		w.stmt(st.Assign)
		for _, c := range st.Body.List {
			cc := c.(*ast.CaseClause)
			h := w.copyHeld()
			w.stmts(cc.Body)
			w.held = h
		}
		w.held = saved
	case *ast.SelectStmt:
		for _, c := range st.Body.List {
			cc := c.(*ast.CommClause)
			h := w.copyHeld()
			if cc.Comm != nil {
				w.stmt(cc.Comm)
			}
			w.stmts(cc.Body)
			w.held = h
		}
	case *ast.ReturnStmt:
		for _, x := range st.Results {
			w.expr(x)
		}
	case *ast.DeclStmt:
		ast.Inspect(st, func(n ast.Node) bool {
			if x, ok := n.(ast.Expr); ok {
				w.expr(x)
				return false
			}
			return true
		})
	case *ast.SendStmt:
		w.expr(st.Chan)
		w.expr(st.Value)
	case *ast.LabeledStmt:
		w.stmt(st.Stmt)
	}
}

func (w *walker) expr(x ast.Expr) {
	if x == nil {
		return
	}
	ast.Inspect(x, func(n ast.Node) bool {
		switch v := n.(type) {
		case *ast.FuncLit:
			*w.nlit++
			sub := &walker{e: w.e, fn: fmt.Sprintf("%s$%d", w.fn, *w.nlit), nlit: new(int), writes: map[*ast.SelectorExpr]bool{}}
			w.e.funcs[sub.fn] = true
			sub.stmts(v.Body.List)
			return false
		case *ast.CallExpr:
			// a method call on the object behind a *bufio field
			if f, ok := v.Fun.(*ast.SelectorExpr); ok {
				if inner, ok := f.X.(*ast.SelectorExpr); ok {
					if fld := w.e.fieldOf(inner); fld != "" && objFields[fld] {
						w.e.sites = append(w.e.sites, accSite{w.fn, fld + "*", true, w.copyHeld(), w.e.fset.Position(v.Pos()).Line - w.e.base})
					}
				}
			}
			// ... or handing it to a function of another package (ber.ReadPacket(c.reader)); a
			// function of this package that receives it is analysed itself
			if f, ok := v.Fun.(*ast.SelectorExpr); ok {
				if id, ok := f.X.(*ast.Ident); ok {
					if _, isPkg := w.e.info.Uses[id].(*types.PkgName); isPkg {
						for _, a := range v.Args {
							if asel, ok := a.(*ast.SelectorExpr); ok {
								if fld := w.e.fieldOf(asel); fld != "" && objFields[fld] {
									w.e.sites = append(w.e.sites, accSite{w.fn, fld + "*", true, w.copyHeld(), w.e.fset.Position(v.Pos()).Line - w.e.base})
								}
							}
						}
					}
				}
			}
			// calls of functions/methods of the same package
			var obj types.Object
			switch f := v.Fun.(type) {
			case *ast.Ident:
				obj = w.e.info.Uses[f]
			case *ast.SelectorExpr:
				if s, ok := w.e.info.Selections[f]; ok && s.Kind() == types.MethodVal {
					obj = s.Obj()
				} else {
					obj = w.e.info.Uses[f.Sel]
				}
			}
			if fn, ok := obj.(*types.Func); ok && fn.Pkg() != nil && fn.Pkg().Name() == w.e.pkg {
				name := fn.Name()
				if sig, ok := fn.Type().(*types.Signature); ok && sig.Recv() != nil {
					if st := namedStruct(sig.Recv().Type()); st != "" {
						name = st + "." + name
					}
				}
				w.e.calls = append(w.e.calls, callSite{w.fn, name, w.copyHeld(), w.e.fset.Position(v.Pos()).Line - w.e.base})
			}
		case *ast.UnaryExpr:
			// &x.f : taking the address of a mutex field is not a data access
			if v.Op == token.AND {
				if sel, ok := v.X.(*ast.SelectorExpr); ok {
					if tv, ok := w.e.info.Types[sel]; ok && isMutexType(tv.Type) {
						return false
					}
				}
			}
		case *ast.SelectorExpr:
			if f := w.e.fieldOf(v); f != "" {
				if tv, ok := w.e.info.Types[v]; ok && (isMutexType(tv.Type) || strings.Contains(tv.Type.String(), "sync.WaitGroup")) {
					return true // the synchronisation objects themselves
				}
				w.e.sites = append(w.e.sites, accSite{w.fn, f, w.writes[v], w.copyHeld(), w.e.fset.Position(v.Pos()).Line - w.e.base})
			}
		}
		return true
	})
}

type mapImporter map[string]*types.Package

func (m mapImporter) Import(path string) (*types.Package, error) {
	if p, ok := m[path]; ok {
		return p, nil
	}
	return importer.Default().Import(path)
}

func extractDir(dir, pkgName string, imp mapImporter) (*extractor, *types.Package, error) {
	fset := token.NewFileSet()
	ents, err := os.ReadDir(dir)
	if err != nil {
		return nil, nil, err
	}
	var files []*ast.File
	for _, en := range ents {
		n := en.Name()
		if !strings.HasSuffix(n, ".go") || strings.HasSuffix(n, "_test.go") || n == "verif_export.go" {
			continue
		}
		f, err := parser.ParseFile(fset, filepath.Join(dir, n), nil, 0)
		if err != nil {
			return nil, nil, err
		}
		files = append(files, f)
	}
	info := &types.Info{Types: map[ast.Expr]types.TypeAndValue{}, Selections: map[*ast.SelectorExpr]*types.Selection{},
		Uses: map[*ast.Ident]types.Object{}, Defs: map[*ast.Ident]types.Object{}}
	conf := types.Config{Importer: imp, Error: func(error) {}, FakeImportC: true}
	tpkg, _ := conf.Check(pkgName, fset, files, info)
	for _, f := range files {
		for _, d := range f.Decls {
			gd, ok := d.(*ast.GenDecl)
			if !ok {
				continue
			}
			for _, sp := range gd.Specs {
				ts, ok := sp.(*ast.TypeSpec)
				if !ok || !trackedStructs[ts.Name.Name] {
					continue
				}
				st, ok := ts.Type.(*ast.StructType)
				if !ok {
					continue
				}
				for _, fl := range st.Fields.List {
					if strings.HasPrefix(types.ExprString(fl.Type), "*bufio.") {
						for _, n := range fl.Names {
							objFields[ts.Name.Name+"."+n.Name] = true
						}
					}
				}
			}
		}
	}
	e := &extractor{fset: fset, info: info, pkg: pkgName, funcs: map[string]bool{}}
	for _, f := range files {
		for _, d := range f.Decls {
			fd, ok := d.(*ast.FuncDecl)
			if !ok || fd.Body == nil {
				continue
			}
			name := fd.Name.Name
			if fd.Recv != nil && len(fd.Recv.List) == 1 {
				t := fd.Recv.List[0].Type
				if s, ok := t.(*ast.StarExpr); ok {
					t = s.X
				}
				if id, ok := t.(*ast.Ident); ok {
					name = id.Name + "." + name
				}
			}
			e.funcs[name] = true
			e.base = fset.Position(fd.Pos()).Line
			w := &walker{e: e, fn: name, nlit: new(int), writes: map[*ast.SelectorExpr]bool{}}
			w.stmts(fd.Body.List)
		}
	}
	return e, tpkg, nil
}

func coqList(xs []string) string {
	q := make([]string, len(xs))
	for i, x := range xs {
		q[i] = "\"" + x + "\""
	}
	return "[" + strings.Join(q, "; ") + "]"
}

func cmdAccesses(args []string) int {
	root := "/repo"
	if len(args) > 0 {
		root = args[0]
	}
	var sites []accSite
	var calls []callSite
	imp := mapImporter{}
	for _, p := range [][2]string{{root, "gldap"}, {filepath.Join(root, "testdirectory"), "testdirectory"}} {
		// the directory's entries are shared state of the directory: track their fields there
		trackedStructs["Entry"] = p[1] == "testdirectory"
		trackedStructs["EntryAttribute"] = p[1] == "testdirectory"
		e, tp, err := extractDir(p[0], p[1], imp)
		if err != nil {
			fmt.Fprintln(os.Stderr, "accesses:", err)
			return 1
		}
		if tp != nil && p[1] == "gldap" {
			imp["github.com/jimlambrt/gldap"] = tp
		}
		sites = append(sites, e.sites...)
		calls = append(calls, e.calls...)
	}

	// deduplicate
	seen := map[string]bool{}
	var lines []string
	for _, s := range sites {
		sort.Strings(s.locks)
		l := fmt.Sprintf("  mkSite \"%s\" \"%s\" %v %s %d", s.fn, s.field, s.write, coqList(s.locks), s.line)
		if !seen[l] {
			seen[l] = true
			lines = append(lines, l)
		}
	}
	sort.Strings(lines)
	var clines []string
	seen = map[string]bool{}
	for _, c := range calls {
		sort.Strings(c.locks)
		if strings.HasPrefix(c.fn, "test") || strings.HasPrefix(c.fn, "Test") {
			continue
		}
		l := fmt.Sprintf("  mkCall \"%s\" \"%s\" %s %d", c.fn, c.callee, coqList(c.locks), c.line)
		if !seen[l] {
			seen[l] = true
			clines = append(clines, l)
		}
	}
	sort.Strings(clines)
	fmt.Println("(* AccessGen.v - REGENERATED from /repo's Go source on every run by `vh accesses` (harness/accesses.go). Do not edit. *)")
	fmt.Println("From Coq Require Import String List.")
	fmt.Println("Import ListNotations.")
	fmt.Println("Open Scope string_scope.")
	fmt.Println("Record gsite := mkSite { g_fn : string; g_field : string; g_write : bool; g_locks : list string; g_line : nat }.")
	fmt.Println("Record gcall := mkCall { c_fn : string; c_callee : string; c_locks : list string; c_line : nat }.")
	fmt.Println("Definition gen_sites : list gsite := [")
	fmt.Println(strings.Join(lines, ";\n"))
	fmt.Println("].")
	fmt.Println("Definition gen_calls : list gcall := [")
	fmt.Println(strings.Join(clines, ";\n"))
	fmt.Println("].")
	return 0
}
