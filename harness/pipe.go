package main

// pipe: the end-to-end path of C01.  The frames of one case are written in ONE TCP segment
// to a real gldap.Server (Run, serveRequests, one goroutine per request, Mux default route);
// the handler records the request it was GIVEN.  Output: the recorded requests, sorted.
// Every request must be delivered exactly once, carrying what its own frame said - whatever
// else is in flight on the connection.

import (
	"fmt"
	"net"
	"sort"
	"strings"
	"sync"
	"time"

	"github.com/hashicorp/go-hclog"
	"github.com/jimlambrt/gldap"
)

func init() { runners["pipe"] = runPipe }

func freeAddr() string {
	l, err := net.Listen("tcp", "127.0.0.1:0")
	if err != nil {
		return "127.0.0.1:0"
	}
	a := l.Addr().String()
	l.Close()
	return a
}

func runPipe(t *Toks) string {
	n := t.Int()
	var buf []byte
	for i := 0; i < n; i++ {
		buf = append(buf, t.Hex()...)
	}
	var mu sync.Mutex
	var got []string
	handler := func(w *gldap.ResponseWriter, r *gldap.Request) {
		s := canonRequest(r)
		mu.Lock()
		got = append(got, s)
		mu.Unlock()
	}
	var srv *gldap.Server
	var addr string
	var runErr chan error
	for attempt := 0; attempt < 6; attempt++ {
		s, err := gldap.NewServer(gldap.WithLogger(hclog.New(&hclog.LoggerOptions{Level: hclog.Off})))
		if err != nil {
			return "HARNESS-ERROR " + err.Error()
		}
		m, _ := gldap.NewMux()
		_ = m.DefaultRoute(handler)
		_ = s.Router(m)
		addr = freeAddr()
		ch := make(chan error, 1)
		go func() { ch <- s.Run(addr) }()
		ok := false
		for dl := time.Now().Add(3 * time.Second); time.Now().Before(dl); time.Sleep(time.Millisecond) {
			if s.Ready() {
				ok = true
				break
			}
			select {
			case e := <-ch:
				ch <- e
				dl = time.Now()
			default:
			}
		}
		if ok {
			srv, runErr = s, ch
			break
		}
		_ = s.Stop()
	}
	if srv == nil {
		return "HARNESS-ERROR the server could not be started"
	}
	defer func() {
		_ = srv.Stop()
		<-runErr
	}()
	c, err := net.DialTimeout("tcp", addr, 3*time.Second)
	if err != nil {
		return "HARNESS-ERROR dial " + err.Error()
	}
	defer c.Close()
	if _, err := c.Write(buf); err != nil {
		return "HARNESS-ERROR write " + err.Error()
	}
	// until every frame has reached a handler, and a little longer for deliveries that should not happen
	for dl := time.Now().Add(3 * time.Second); time.Now().Before(dl); time.Sleep(2 * time.Millisecond) {
		mu.Lock()
		k := len(got)
		mu.Unlock()
		if k >= n {
			break
		}
	}
	time.Sleep(30 * time.Millisecond)
	mu.Lock()
	out := append([]string{}, got...)
	mu.Unlock()
	sort.Strings(out)
	return fmt.Sprintf("%d ", len(out)) + strings.Join(out, " ; ")
}
