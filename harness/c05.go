package main

// C05: concurrent writers on one connection.
//  c05run  N handlers write identifiable frames concurrently on one real
//          connection (plain, TLS listener or StartTLS-upgraded; with or
//          without a client that stops reading for a while); the received
//          stream must be a concatenation of whole LDAPMessages, exactly the
//          frames the handlers reported as written, each writer's in order.
//  wseq    real ResponseWriters over one bufio.Writer over a writer that
//          short-writes / fails at a chosen call: what reached the writer and
//          what each Write returned, for comparison with the model (Writer.v).

import (
	"bufio"
	"bytes"
	"crypto/tls"
	"errors"
	"fmt"
	"io"
	"net"
	"strconv"
	"strings"
	"sync"
	"time"

	"github.com/jimlambrt/gldap"
)

func init() {
	runners["c05run"] = runC05
	runners["wseq"] = runWSeq
	generators["c05"] = genC05
}

func genC05(g *Gen) {
	r := g.rng
	sizes := []int{7, 100, 4000, 4090, 4096, 4097, 9000, 70000}
	transports := []string{"plain"}
	if g.tier == "thorough" {
		transports = []string{"plain", "tls", "starttls"}
	}
	for _, tr := range transports {
		for _, nw := range []int{2, 16, 64} {
			for _, stall := range []int{0, 150} {
				var ws []string
				for i := 0; i < nw; i++ {
					ws = append(ws, fmt.Sprintf("%c%dx%d", "FEX"[r.Intn(3)], 1+r.Intn(6), sizes[r.Intn(len(sizes))]))
				}
				g.emit("c05run", tr, strconv.Itoa(stall), listStr(ws))
			}
		}
	}
	// the same stream whatever the server's log level (the dumps a Debug / Trace logger asks for
	// are made from the packet that is then written)
	g.emit("c05run", "debug", "0", listStr([]string{"F2x100", "E2x300", "X3x4097"}))
	g.emit("c05run", "trace", "0", listStr([]string{"F2x100", "E2x300", "X3x4097"}))
	// frame lengths across the boundaries of the BER length encoding (contents of 2^16 +- a few octets)
	g.emit("c05run", "plain", "0", listStr([]string{"S48x65490", "F3x100", "S48x65490", "E2x4097"}))
	// write timeouts (WithWriteTimeout): frames larger than the socket buffers to a client that
	// reads in bursts, with a timeout short enough to expire inside a write and one that never does
	g.emit("c05run", "wt:150:60", "0", listStr([]string{"F1x8388608", "F3x100", "E1x8388608", "F2x4097"}))
	g.emit("c05run", "wt:100:30", "0", listStr([]string{"E1x16777000", "F3x100", "F1x8388608"}))
	g.emit("c05run", "wt:250:100", "0", listStr([]string{"F1x12582912", "E2x4097", "E1x8388608"}))
	g.emit("c05run", "wt:60:25", "0", listStr([]string{"F2x8388608", "F3x100"}))
	g.emit("c05run", "wt:20000:5", "0", listStr([]string{"F1x8388608", "F3x100", "E1x2000000", "F2x4097"}))
	if g.tier == "thorough" {
		var ws []string
		for i := 0; i < 300; i++ {
			ws = append(ws, fmt.Sprintf("%c%dx%d", "FEX"[r.Intn(3)], 1+r.Intn(3), sizes[r.Intn(5)]))
		}
		g.emit("c05run", "plain", "100", listStr(ws))
	}
	// sequential writes with an injected failure
	for i := 0; i < g.n; i++ {
		nf := 1 + r.Intn(5)
		var fs []string
		for j := 0; j < nf; j++ {
			fs = append(fs, strconv.Itoa(sizes[r.Intn(7)]))
		}
		failAt := -1
		partial := 0
		if r.Chance(60) {
			failAt = r.Intn(nf + 1)
			partial = r.Intn(5000)
		}
		g.emit("wseq", listStr(fs), strconv.Itoa(failAt), strconv.Itoa(partial))
	}
}

func runC05(t *Toks) string {
	transport := t.Next()
	stallMs := t.Int()
	nw := t.Int()
	specs := make([]string, nw)
	for i := range specs {
		specs[i] = t.Next()
	}
	opts := "recovery=1 onclose=1 unbind=1"
	if transport == "tls" {
		opts += " tls=tls"
	}
	// wt:<ms>:<pause>: WithWriteTimeout(ms) on a plain listener; the client reads 256 KiB, pauses
	// <pause> ms, reads again: writes time out with part of a frame taken.  A Write that returned
	// nil has put a whole frame on the wire; after a Write that failed nothing but the torn tail follows
	// debug / trace: a plain listener whose server logs at that level
	if transport == "debug" || transport == "trace" {
		opts += " loglevel=" + transport
		transport = "plain"
	}
	wtMode, wtPause := false, 0
	if strings.HasPrefix(transport, "wt:") {
		var ms int
		fmt.Sscanf(transport, "wt:%d:%d", &ms, &wtPause)
		opts += fmt.Sprintf(" writetimeout=%d", ms)
		wtMode = true
		transport = "plain"
	}
	wp, err := startWorker(opts, false)
	if err != nil {
		return "HARNESS-ERROR " + err.Error()
	}
	defer wp.kill()
	for dl := time.Now().Add(5 * time.Second); time.Now().Before(dl); time.Sleep(2 * time.Millisecond) {
		if a, ok := wp.ask("ready", "ready", time.Second); ok && a[0] == "true" {
			break
		}
	}
	var conn net.Conn
	raw, err := net.DialTimeout("tcp", wp.addr, 3*time.Second)
	if err != nil {
		return "HARNESS-ERROR dial"
	}
	defer raw.Close()
	conn = raw
	_, cli := harnessTLS()
	cli = cli.Clone()
	cli.InsecureSkipVerify = true
	msg := int64(1000)
	switch transport {
	case "tls":
		tc := tls.Client(raw, cli)
		if err := tc.Handshake(); err != nil {
			return "HARNESS-ERROR tls handshake"
		}
		conn = tc
	case "starttls":
		wp.ask("script 999 w hs", "script-ok", 3*time.Second)
		if _, err := raw.Write(encodeReq(&TReq{Kind: "ext", ID: 999, Name: []byte("1.3.6.1.4.1.1466.20037")}).encode()); err != nil {
			return "HARNESS-ERROR write"
		}
		// read the StartTLS response (one frame), then handshake
		br := make([]byte, 0, 256)
		one := make([]byte, 1)
		_ = raw.SetReadDeadline(time.Now().Add(3 * time.Second))
		for {
			if _, err := raw.Read(one); err != nil {
				return "HARNESS-ERROR starttls response"
			}
			br = append(br, one[0])
			if _, rest, ok := parseNode(br); ok && len(rest) == 0 {
				break
			}
		}
		_ = raw.SetReadDeadline(time.Time{})
		tc := tls.Client(raw, cli)
		if err := tc.Handshake(); err != nil {
			return "HARNESS-ERROR starttls handshake"
		}
		conn = tc
	}
	// one request per writer, every handler waits on barrier 1 then writes its frames
	expected := map[string]bool{}
	var buf []byte
	for i, sp := range specs {
		id := msg + int64(i)
		if sp[0] >= '0' && sp[0] <= '9' {
			sp = "F" + sp
		}
		if _, ok := wp.ask(fmt.Sprintf("script %d b1 %s", id, sp), "script-ok", 3*time.Second); !ok {
			return "HARNESS-ERROR script"
		}
		var n, size int
		fmt.Sscanf(sp[1:], "%dx%d", &n, &size)
		for k := 0; k < n; k++ {
			expected[fmt.Sprintf("%d:%d", id, k)] = true
		}
		buf = append(buf, encodeReq(&TReq{Kind: "search", ID: id, DN: []byte("dc=x"), Scope: 2, Filter: &TFilter{Kind: "present", A: []byte("cn")}}).encode()...)
	}
	if _, err := conn.Write(buf); err != nil {
		return "HARNESS-ERROR write requests"
	}
	// wait until every handler has started, then let them all write at once
	deadline := time.Now().Add(10 * time.Second)
	for {
		evs, dead := wp.snapshotEvents()
		started := 0
		for _, e := range evs {
			if e.kind == "h-start" {
				started++
			}
		}
		if started >= nw || dead {
			break
		}
		if time.Now().After(deadline) {
			return fmt.Sprintf("SPECFAIL only %d of %d handlers started while the others block", started, nw)
		}
		time.Sleep(2 * time.Millisecond)
	}
	wp.send("release 1")
	if stallMs > 0 {
		time.Sleep(time.Duration(stallMs) * time.Millisecond) // back-pressure: the client does not read yet
	}
	// read the stream, parsing strictly and incrementally
	var stream []byte
	seen := map[string]int{}
	lastIdx := map[string]int{}
	frames := 0
	chunk := make([]byte, 1<<16)
	_ = conn.SetReadDeadline(time.Now().Add(15 * time.Second))
	if wtMode {
		chunk = make([]byte, 1<<18)
	}
	for len(seen) < len(expected) {
		if wtMode {
			time.Sleep(time.Duration(wtPause) * time.Millisecond)
			_ = conn.SetReadDeadline(time.Now().Add(1500 * time.Millisecond))
		}
		n, err := conn.Read(chunk)
		stream = append(stream, chunk[:n]...)
		for {
			node, rest, ok := parseNode(stream)
			if !ok {
				break
			}
			canon := canonParsed(node, 0)
			f := strings.Fields(canon)
			if len(f) < 3 || (f[0] != "result" && f[0] != "entry") || (f[0] == "result" && len(f) < 6) {
				return "SPECFAIL frame " + strconv.Itoa(frames) + " is not a well-formed LDAPMessage of the kinds written: " + canon
			}
			diag := string(unhx(f[5%len(f)]))
			if f[0] == "entry" {
				diag = string(unhx(f[2]))
			}
			parts := strings.SplitN(diag, ":", 3)
			if len(parts) < 3 || parts[0] != f[1] {
				return "SPECFAIL frame carries a foreign payload: msgid " + f[1] + " diag(hex) " + hx([]byte(diag[:min(len(diag), 20)]))
			}
			key := parts[0] + ":" + parts[1]
			idx, _ := strconv.Atoi(parts[1])
			seen[key]++
			if seen[key] > 1 {
				return "SPECFAIL frame " + key + " received twice"
			}
			if !expected[key] {
				return "SPECFAIL unexpected frame " + key
			}
			if last, ok := lastIdx[parts[0]]; ok && idx <= last {
				return "SPECFAIL writer " + parts[0] + " out of order"
			}
			lastIdx[parts[0]] = idx
			frames++
			stream = rest
		}
		if err != nil {
			break
		}
	}
	if wtMode {
		time.Sleep(100 * time.Millisecond)
		evs, _ := wp.snapshotEvents()
		wrote, failed := 0, 0
		for _, e := range evs {
			switch e.kind {
			case "h-wrote":
				wrote++
				if seen[e.args[0]+":"+e.args[1]] == 0 {
					return fmt.Sprintf("SPECFAIL Write returned nil for frame %s:%s but the frame did not arrive whole (%d frames parsed, %d unparsed bytes)", e.args[0], e.args[1], frames, len(stream))
				}
			case "h-write-err":
				failed++
			}
		}
		if len(stream) != 0 && failed == 0 {
			return fmt.Sprintf("SPECFAIL %d stray bytes although no Write reported an error", len(stream))
		}
		return fmt.Sprintf("OK frames=%d writers=%d wrote=%d", frames, nw, wrote)
	}
	if len(seen) != len(expected) {
		return fmt.Sprintf("SPECFAIL %d of %d frames arrived (torn or lost); %d unparsed bytes", len(seen), len(expected), len(stream))
	}
	if len(stream) != 0 {
		return fmt.Sprintf("SPECFAIL %d stray bytes after the last whole frame", len(stream))
	}
	// every frame the handlers reported as written must have arrived (checked above: all expected)
	return fmt.Sprintf("OK frames=%d writers=%d", frames, nw)
}

func min(a, b int) int {
	if a < b {
		return a
	}
	return b
}

// failingWriter accepts everything until call failAt, where it takes `partial`
// bytes and fails; afterwards it keeps failing.
type failingWriter struct {
	buf     bytes.Buffer
	calls   int
	failAt  int
	partial int
	sizes   []int
}

func (f *failingWriter) Write(p []byte) (int, error) {
	f.sizes = append(f.sizes, len(p))
	if f.failAt >= 0 && f.calls >= f.failAt {
		n := 0
		if f.calls == f.failAt {
			n = f.partial
			if n > len(p) {
				n = len(p)
			}
			f.buf.Write(p[:n])
		}
		f.calls++
		return n, errors.New("injected write failure")
	}
	f.calls++
	return f.buf.Write(p)
}

// wseq <n sizes...> <failAt> <partial>: sequential Writes of frames whose
// diagnostic message has the given size, through real ResponseWriters sharing
// one bufio.Writer and one mutex.  Output: the frames, what reached the
// underlying writer, the result of each Write.
func runWSeq(t *Toks) string {
	n := t.Int()
	sizes := make([]int, n)
	for i := range sizes {
		sizes[i] = t.Int()
	}
	failAt := t.Int()
	partial := t.Int()
	fw := &failingWriter{failAt: failAt, partial: partial}
	bw := bufio.NewWriter(fw)
	var mu sync.Mutex
	var frames, results []string
	for i, sz := range sizes {
		_, req := requestFromTyped(&TReq{Kind: "del", ID: int64(i + 1), DN: []byte("cn=x")}, nil, io.Discard)
		resp := req.NewSearchDoneResponse(gldap.WithResponseCode(0))
		resp.SetDiagnosticMessage(strings.Repeat("d", sz))
		frames = append(frames, hx(gldap.VerifResponseBytes(resp)))
		w, err := gldap.VerifNewResponseWriter(bw, &mu, 1, i+1)
		if err != nil {
			return "HARNESS-ERROR writer"
		}
		if err := w.Write(resp); err != nil {
			results = append(results, "0")
		} else {
			results = append(results, "1")
		}
	}
	return listStr(frames) + " | " + hx(fw.buf.Bytes()) + " | " + strings.Join(results, "")
}
